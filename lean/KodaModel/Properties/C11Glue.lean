/-
  C11, whole trees: for every validator tree of the lazy-free fragment below — any depth, any width —
  and every JSON value, the generated schema accepts the value iff the validator does.

  `acc v x` is the specification both sides are proved against; `ok v x` collects, position by position,
  the hypotheses under which the *code* satisfies the property (typed predicates, and the agreement
  conditions that findings D13 / D14 / D15 violate).  Main theorem: `C11_tree_partial`.
-/
import KodaModel.Properties.C11Containers
import KodaModel.Properties.C01

namespace Koda

def Out.verdict : Out → Option Bool
  | .valid _ => some true
  | .invalid _ => some false
  | .raised _ => none

/-- the validator terminates on `x` with verdict `b` -/
def VDecides (o : Oracle) (env : Nat → V) (v : V) (x : PyVal) (b : Bool) : Prop :=
  ∃ n out t, run o env .sync n v x = some (out, t) ∧ out.verdict = some b

theorem VDecides.at_fuel {o : Oracle} {env : Nat → V} {v : V} {x : PyVal} {b : Bool} (h : VDecides o env v x b) :
    ∃ N, ∀ n, N ≤ n → ∃ out t, run o env .sync n v x = some (out, t) ∧ out.verdict = some b := by
  obtain ⟨N, out, t, hr, hv⟩ := h
  exact ⟨N, fun n hn => ⟨out, t, run_mono_le o env .sync hn v x _ hr, hv⟩⟩

/-- finitely many decided children share a fuel -/
theorem common_fuel_decided (o : Oracle) (env : Nat → V) (v : V) (a : PyVal → Bool) :
    ∀ (xs : List PyVal), (∀ y ∈ xs, VDecides o env v y (a y)) →
      ∃ N, ∀ n, N ≤ n → ∀ y ∈ xs, ∃ out t, run o env .sync n v y = some (out, t) ∧ out.verdict = some (a y) := by
  intro xs
  induction xs with
  | nil => intro _; exact ⟨0, fun _ _ y hy => by simp at hy⟩
  | cons y ys ih =>
    intro h
    obtain ⟨N1, h1⟩ := ih (fun z hz => h z (by simp [hz]))
    obtain ⟨N2, h2⟩ := (h y (by simp)).at_fuel
    refine ⟨max N1 N2, fun n hn z hz => ?_⟩
    rcases List.mem_cons.1 hz with rfl | hz
    · exact h2 n (by omega)
    · exact h1 n (by omega) z hz

theorem common_fuel_variants (o : Oracle) (env : Nat → V) (x : PyVal) (a : V → Bool) :
    ∀ (vs : List V), (∀ v ∈ vs, VDecides o env v x (a v)) →
      ∃ N, ∀ n, N ≤ n → ∀ v ∈ vs, ∃ out t, run o env .sync n v x = some (out, t) ∧ out.verdict = some (a v) := by
  intro vs
  induction vs with
  | nil => intro _; exact ⟨0, fun _ _ v hv => by simp at hv⟩
  | cons v vs ih =>
    intro h
    obtain ⟨N1, h1⟩ := ih (fun z hz => h z (by simp [hz]))
    obtain ⟨N2, h2⟩ := (h v (by simp)).at_fuel
    refine ⟨max N1 N2, fun n hn z hz => ?_⟩
    rcases List.mem_cons.1 hz with rfl | hz
    · exact h2 n (by omega)
    · exact h1 n (by omega) z hz

/-! ### the steps, given decided children -/

theorem loopItems_decided (ev : Ev1) (a : PyVal → Bool) : ∀ (xs : List PyVal) (i : Nat) (ne : Bool),
    (∀ y ∈ xs, ∃ out t, ev y = some (out, t) ∧ out.verdict = some (a y)) →
    ∃ r, loopItems ev false xs i ne = some r ∧ r.r = none ∧ r.es.isEmpty = xs.all a := by
  intro xs
  induction xs with
  | nil => intro i ne _; exact ⟨⟨[], [], [], none⟩, rfl, rfl, rfl⟩
  | cons x xs ih =>
    intro i ne h
    obtain ⟨out, t, hx, hv⟩ := h x (by simp)
    cases out with
    | raised e => simp [Out.verdict] at hv
    | valid w =>
      simp only [Out.verdict, Option.some.injEq] at hv
      obtain ⟨r, hr, h1, h2⟩ := ih (i + 1) ne (fun y hy => h y (by simp [hy]))
      refine ⟨⟨w :: r.ws, r.es, t ++ r.t, r.r⟩, by simp [loopItems, hx, hr], h1, ?_⟩
      simp [h2, ← hv]
    | invalid e =>
      simp only [Out.verdict, Option.some.injEq] at hv
      obtain ⟨r, hr, h1, _⟩ := ih (i + 1) false (fun y hy => h y (by simp [hy]))
      refine ⟨⟨r.ws, (i, e) :: r.es, t ++ r.t, r.r⟩, by simp [loopItems, hx, hr], h1, ?_⟩
      simp [← hv]

theorem unionLoop_decided (x : PyVal) (a : Ev1 → Bool) : ∀ (evs : List Ev1),
    (∀ ev ∈ evs, ∃ out t, ev x = some (out, t) ∧ out.verdict = some (a ev)) →
    ∃ w es t, unionLoop x evs = some (w, es, t, none) ∧ w.isSome = evs.any a := by
  intro evs
  induction evs with
  | nil => intro _; exact ⟨none, [], [], rfl, rfl⟩
  | cons ev evs ih =>
    intro h
    obtain ⟨out, t, hx, hv⟩ := h ev (by simp)
    cases out with
    | raised e => simp [Out.verdict] at hv
    | valid w =>
      simp only [Out.verdict, Option.some.injEq] at hv
      exact ⟨some w, [], t, by simp [unionLoop, hx], by simp [← hv]⟩
    | invalid e =>
      simp only [Out.verdict, Option.some.injEq] at hv
      obtain ⟨w, es, t', hl, hw⟩ := ih (fun e' he' => h e' (by simp [he']))
      exact ⟨w, e :: es, t ++ t', by simp [unionLoop, hx, hl], by simp [hw, ← hv]⟩

theorem unionStep_decided (vid : Nat) (x : PyVal) (a : Ev1 → Bool) (evs : List Ev1)
    (h : ∀ ev ∈ evs, ∃ out t, ev x = some (out, t) ∧ out.verdict = some (a ev)) :
    ∃ out t, unionStep vid evs x = some (out, t) ∧ out.verdict = some (evs.any a) := by
  obtain ⟨w, es, t, hl, hw⟩ := unionLoop_decided x a evs h
  cases w with
  | none =>
    refine ⟨.invalid (.mk .union x vid es), t, by simp [unionStep, hl], ?_⟩
    simp only [Option.isSome_none] at hw
    simp [Out.verdict, ← hw]
  | some w =>
    refine ⟨.valid w, t, by simp [unionStep, hl], ?_⟩
    simp only [Option.isSome_some] at hw
    simp [Out.verdict, ← hw]


/-! ### typed predicates: what `ok` asks of one predicate on one value -/

/-- the predicate is one C11's fragment has for this kind of value, its parameters are of the value's
    kind, and — for the two predicates where the emitted pattern does not mean what the predicate does
    (D13, D15) — pattern and predicate agree on this value -/
def predCheck : PredK → PyVal → Bool
  | .minLength _, .str _ => true
  | .maxLength _, .str _ => true
  | .exactLength _, .str _ => true
  | .startsWith (.str _), .str _ => true
  | .endsWith (.str _), .str _ => true
  | .notBlank, .str s => notBlankPattern s == !(stripWith isSpaceStr s).isEmpty
  | .regex p, .str s => !(p.source == notBlankText) && (p.search s == p.matchStart s)
  | .equalTo v, x => SameKind v x
  | .choices vs, x => vs.all (fun v => SameKind v x) && hashable x
  | .min m _, x => isNum m && isNum x
  | .max m _, x => isNum m && isNum x
  | .minItems _, .list _ _ => true
  | .maxItems _, .list _ _ => true
  | .uniqueItems, .list _ xs => jsonUnique xs == uniqueLoop xs [] []
  | _, _ => false

theorem predCheck_PredOK (pr : Printer) (root : J) (ref : Option (List Nat)) (p : PredK) (x : PyVal)
    (h : predCheck p x = true) : PredOK pr root ref p x := by
  cases p with
  | minLength n => cases x <;> simp [predCheck] at h; exact PredOK_minLength pr root ref n _
  | maxLength n => cases x <;> simp [predCheck] at h; exact PredOK_maxLength pr root ref n _
  | exactLength n => cases x <;> simp [predCheck] at h; exact PredOK_exactLength pr root ref n _
  | startsWith q =>
    cases q <;> cases x <;> simp [predCheck] at h
    exact PredOK_startsWith pr root ref _ _
  | endsWith q =>
    cases q <;> cases x <;> simp [predCheck] at h
    exact PredOK_endsWith pr root ref _ _
  | notBlank =>
    cases x <;> simp [predCheck] at h
    exact PredOK_notBlank_partial pr root ref _ (by simpa using h)
  | regex r =>
    cases x <;> simp [predCheck] at h
    exact PredOK_regex_partial pr root ref r _ (by simpa using h.1) (by simpa using h.2)
  | equalTo v => exact PredOK_equalTo pr root ref v x (by simpa [predCheck] using h)
  | choices vs =>
    simp only [predCheck, Bool.and_eq_true, List.all_eq_true] at h
    exact PredOK_choices pr root ref vs x h.1 h.2
  | min m e =>
    simp only [predCheck, Bool.and_eq_true] at h
    exact PredOK_min pr root ref m x e h.1 h.2
  | max m e =>
    simp only [predCheck, Bool.and_eq_true] at h
    exact PredOK_max pr root ref m x e h.1 h.2
  | minItems n => cases x <;> simp [predCheck] at h; exact PredOK_minItems pr root ref n _ _
  | maxItems n => cases x <;> simp [predCheck] at h; exact PredOK_maxItems pr root ref n _ _
  | uniqueItems =>
    cases x <;> simp [predCheck] at h
    exact PredOK_uniqueItems_partial pr root ref _ _ (by simpa using h)
  | _ => simp [predCheck] at h

theorem predCheck_noRaise (p : PredK) (x : PyVal) (h : predCheck p x = true) : ∃ b, p.call x = .ok b := by
  cases p with
  | minLength n => cases x <;> simp [predCheck] at h; exact ⟨_, rfl⟩
  | maxLength n => cases x <;> simp [predCheck] at h; exact ⟨_, rfl⟩
  | exactLength n => cases x <;> simp [predCheck] at h; exact ⟨_, rfl⟩
  | startsWith q => cases q <;> cases x <;> simp [predCheck] at h; exact ⟨_, rfl⟩
  | endsWith q => cases q <;> cases x <;> simp [predCheck] at h; exact ⟨_, rfl⟩
  | notBlank => cases x <;> simp [predCheck] at h; exact ⟨_, rfl⟩
  | regex r => cases x <;> simp [predCheck] at h; exact ⟨_, rfl⟩
  | equalTo v =>
    have hk : SameKind v x = true := by simpa [predCheck] using h
    exact ⟨pyEq x v, by simp [PredK.call, pyEqX, (isSNaN_sameKind v x hk).1, (isSNaN_sameKind v x hk).2]⟩
  | choices vs =>
    simp only [predCheck, Bool.and_eq_true] at h
    exact ⟨memL x vs, by simp [PredK.call, h.2]⟩
  | min m e =>
    simp only [predCheck, Bool.and_eq_true] at h
    cases e
    · obtain ⟨r, hr⟩ := pyLe_num m x h.1 h.2; exact ⟨r, by simpa [PredK.call] using hr⟩
    · obtain ⟨r, hr⟩ := pyLt_num m x h.1 h.2; exact ⟨r, by simpa [PredK.call] using hr⟩
  | max m e =>
    simp only [predCheck, Bool.and_eq_true] at h
    cases e
    · obtain ⟨r, hr⟩ := pyLe_num x m h.2 h.1; exact ⟨r, by simpa [PredK.call] using hr⟩
    · obtain ⟨r, hr⟩ := pyLt_num x m h.2 h.1; exact ⟨r, by simpa [PredK.call] using hr⟩
  | minItems n => cases x <;> simp [predCheck] at h; exact ⟨_, rfl⟩
  | maxItems n => cases x <;> simp [predCheck] at h; exact ⟨_, rfl⟩
  | uniqueItems => cases x <;> simp [predCheck] at h; exact ⟨_, rfl⟩
  | _ => simp [predCheck] at h


/-! ### the fragment, its specification and its side conditions -/

def isDfltCoerce : Option CoerceK → Bool
  | some .dflt => true
  | _ => false

def isDefaultNone : V → Bool
  | .noneV _ none => true
  | _ => false

mutual
/-- validator trees covered by the whole-tree theorem: string / integer / float / boolean validators
    without coercer, preprocessors and async predicates; lists; unions; optionals — nested at will -/
def frag : V → Bool
  | .scalar _ tg c pre _ aps => (typeName tg).isSome && c.isNone && pre.isEmpty && aps.isEmpty
  | .list _ item _ aps c => c.isNone && aps.isEmpty && frag item
  | .union _ vs => fragL vs
  | .optional _ nv inner => isDefaultNone nv && frag inner
  | .knr _ inner => frag inner
  | .ntuple _ fs oc c _ => oc.isNone && isDfltCoerce c && fragL fs
  | _ => false
termination_by structural v => v
def fragL : List V → Bool
  | [] => true
  | v :: vs => frag v && fragL vs
termination_by structural vs => vs
end

mutual
/-- what it means for `x` to be acceptable to the tree (the specification both sides are proved against) -/
def acc : V → PyVal → Bool
  | .scalar _ tg _ _ ps _, x => decide (x.ty = tg) && ps.all (fun p => holds p.k x)
  | .list _ item ps _ _, x => isListV x && ((listItems x).all (fun y => acc item y) && ps.all (fun p => holds p.k x))
  | .union _ vs, x => accAny vs x
  | .optional _ _ inner, x => isNoneV x || acc inner x
  | .knr _ inner, x => acc inner x
  | .ntuple _ fs _ _ _, x => isListV x && (decide ((listItems x).length = fs.length) && accZip fs (listItems x))
  | _, _ => false
termination_by structural v => v
def accAny : List V → PyVal → Bool
  | [], _ => false
  | v :: vs, x => acc v x || accAny vs x
termination_by structural vs => vs
/-- position by position (over the common prefix, like `zip`) -/
def accZip : List V → List PyVal → Bool
  | v :: vs, y :: ys => acc v y && accZip vs ys
  | _, _ => true
termination_by structural vs => vs
end

/-- number of variants acceptable to `x` -/
def countAcc : List V → PyVal → Nat
  | [], _ => 0
  | v :: vs, x => (if acc v x then 1 else 0) + countAcc vs x

mutual
/-- the side conditions, at every position of the value: predicates are used on values of their kind
    with parameters of that kind; pattern and predicate agree where they can differ (D13, D15); JSON
    uniqueness agrees with the predicate's; at most one union variant is acceptable (D14) -/
def ok : V → PyVal → Bool
  | .scalar _ tg _ _ ps _, x => !(decide (x.ty = tg)) || ps.all (fun p => predCheck p.k x)
  | .list _ item ps _ _, x => !(isListV x) || (ps.all (fun p => predCheck p.k x) && (listItems x).all (fun y => ok item y))
  | .union _ vs, x => okAll vs x && decide (countAcc vs x ≤ 1)
  | .optional _ _ inner, x => isNoneV x || ok inner x
  | .knr _ inner, x => ok inner x
  | .ntuple _ fs _ _ _, x => !(isListV x) || okZip fs (listItems x)
  | _, _ => true
termination_by structural v => v
def okAll : List V → PyVal → Bool
  | [], _ => true
  | v :: vs, x => ok v x && okAll vs x
termination_by structural vs => vs
def okZip : List V → List PyVal → Bool
  | v :: vs, y :: ys => ok v y && okZip vs ys
  | _, _ => true
termination_by structural vs => vs
end

mutual
/-- fuel from which the schema of the tree is decided -/
def sfuel : V → Nat
  | .list _ item _ _ _ => max (sfuel item) 1 + 1
  | .union _ vs => sfuelL vs + 1
  | .optional _ _ inner => max (sfuel inner) 1
  | .knr _ inner => sfuel inner
  | .ntuple _ fs _ _ _ => sfuelL fs + 1
  | _ => 2
termination_by structural v => v
def sfuelL : List V → Nat
  | [] => 0
  | v :: vs => max (sfuel v) (sfuelL vs)
termination_by structural vs => vs
end

theorem isJson_items (oid : Nat) (xs : List PyVal) (h : isJson (.list oid xs) = true) : ∀ y ∈ xs, isJson y = true := by
  simp only [isJson] at h
  induction xs with
  | nil => intro y hy; simp at hy
  | cons x xs ih =>
    simp only [isJsonL, Bool.and_eq_true] at h
    intro y hy
    rcases List.mem_cons.1 hy with rfl | hy
    · exact h.1
    · exact ih h.2 y hy


/-! ### nodes: validator side -/

theorem failing_nil_iff (ps : List Pred) (x : PyVal) (h : NoRaise ps x) :
    (failing ps x).isEmpty = ps.all (fun p => holds p.k x) := by
  obtain ⟨h1, h2⟩ := runPreds_spec ps x h
  apply Bool.eq_iff_iff.2
  rw [← runPreds_all ps x, h1, h2]
  simp

theorem node_scalar_validator (o : Oracle) (env : Nat → V) (vid : Nat) (tg : Ty) (ps : List Pred) (x : PyVal)
    (hok : x.ty = tg → ∀ p ∈ ps, predCheck p.k x = true) :
    VDecides o env (.scalar vid tg none [] ps []) x (decide (x.ty = tg) && ps.all (fun p => holds p.k x)) := by
  refine ⟨1, (scalarStep o .sync vid tg none [] ps [] x).1, (scalarStep o .sync vid tg none [] ps [] x).2, rfl, ?_⟩
  by_cases hty : x.ty = tg
  · have hnr : NoRaise ps x := fun p hp => predCheck_noRaise p.k x (hok hty p hp)
    obtain ⟨h1, h2⟩ := contPreds_spec .sync ps [] x hnr (by intro p hp; simp at hp)
    simp only [scalarStep, gate, hty, if_true, runProcs, finishPreds, h2]
    simp only [h1, Mode.sync, reduceCtorEq, if_false, List.append_nil, ne_eq, not_true_eq_false, and_false]
    rw [← failing_nil_iff ps x hnr]
    cases hf : (failing ps x).isEmpty <;> simp [hf, Out.verdict]
  · simp [scalarStep, gate, hty, Out.verdict]

theorem node_none_validator (o : Oracle) (env : Nat → V) (nvid : Nat) (x : PyVal) :
    VDecides o env (.noneV nvid none) x (isNoneV x) := by
  refine ⟨1, (noneStep o nvid none x).1, (noneStep o nvid none x).2, rfl, ?_⟩
  cases x <;> simp [noneStep, Out.verdict, isNoneV]

theorem unionLoop_decided' (x : PyVal) (f : V → Ev1) (a : V → Bool) : ∀ (vs : List V),
    (∀ v ∈ vs, ∃ out t, f v x = some (out, t) ∧ out.verdict = some (a v)) →
    ∃ w es t, unionLoop x (vs.map f) = some (w, es, t, none) ∧ w.isSome = vs.any a := by
  intro vs
  induction vs with
  | nil => intro _; exact ⟨none, [], [], rfl, rfl⟩
  | cons v vs ih =>
    intro h
    obtain ⟨out, t, hx, hv⟩ := h v (by simp)
    cases out with
    | raised e => simp [Out.verdict] at hv
    | valid w =>
      simp only [Out.verdict, Option.some.injEq] at hv
      exact ⟨some w, [], t, by simp [unionLoop, hx], by simp [← hv]⟩
    | invalid e =>
      simp only [Out.verdict, Option.some.injEq] at hv
      obtain ⟨w, es, t', hl, hw⟩ := ih (fun e' he' => h e' (by simp [he']))
      exact ⟨w, e :: es, t ++ t', by simp [unionLoop, hx, hl], by simp [hw, ← hv]⟩

theorem node_union_validator (o : Oracle) (env : Nat → V) (vid : Nat) (vs : List V) (x : PyVal) (a : V → Bool)
    (h : ∀ v ∈ vs, VDecides o env v x (a v)) : VDecides o env (.union vid vs) x (vs.any a) := by
  obtain ⟨N, hN⟩ := common_fuel_variants o env x a vs h
  obtain ⟨w, es, t, hl, hw⟩ := unionLoop_decided' x (run o env .sync N) a vs (hN N (Nat.le_refl N))
  cases w with
  | none =>
    refine ⟨N + 1, .invalid (.mk .union x vid es), t, by simp [run, unionStep, hl], ?_⟩
    simp only [Option.isSome_none] at hw
    simp [Out.verdict, ← hw]
  | some w =>
    refine ⟨N + 1, .valid w, t, by simp [run, unionStep, hl], ?_⟩
    simp only [Option.isSome_some] at hw
    simp [Out.verdict, ← hw]

theorem node_optional_validator (o : Oracle) (env : Nat → V) (vid nvid : Nat) (inner : V) (x : PyVal) (b : Bool)
    (h : VDecides o env inner x b) : VDecides o env (.optional vid (.noneV nvid none) inner) x (isNoneV x || b) := by
  obtain ⟨N, hN⟩ := h.at_fuel
  obtain ⟨out, t, hr, hv⟩ := hN (N + 1) (by omega)
  have hnone : run o env .sync (N + 1) (.noneV nvid none) x = some (noneStep o nvid none x) := rfl
  have hopt := C05_optional_run o env .sync (N + 1) vid (.noneV nvid none) inner x
  by_cases hx : isNoneV x = true
  · have : x = .none := by cases x <;> simp [isNoneV] at hx; rfl
    subst this
    refine ⟨N + 2, .valid .none, [], ?_, by simp [Out.verdict, isNoneV]⟩
    rw [hopt]
    simp [unionStep, unionLoop, hnone, noneStep]
  · have hx' : isNoneV x = false := by simpa using hx
    have hns : ∃ e, noneStep o nvid none x = (.invalid e, []) := by
      cases x <;> simp [isNoneV] at hx' <;> exact ⟨_, rfl⟩
    obtain ⟨e0, he0⟩ := hns
    cases out with
    | raised e => simp [Out.verdict] at hv
    | valid w =>
      simp only [Out.verdict, Option.some.injEq] at hv
      refine ⟨N + 2, .valid w, [] ++ t, ?_, by simp [Out.verdict, hx', ← hv]⟩
      rw [hopt]
      simp [unionStep, unionLoop, hnone, he0, hr]
    | invalid e =>
      simp only [Out.verdict, Option.some.injEq] at hv
      refine ⟨N + 2, .invalid (.mk .union x vid [e0, e]), [] ++ (t ++ []), ?_, by simp [Out.verdict, hx', ← hv]⟩
      rw [hopt]
      simp [unionStep, unionLoop, hnone, he0, hr]


theorem isListV_ty (x : PyVal) : (x.ty = .list) ↔ isListV x = true := by
  cases x <;> simp [PyVal.ty, isListV]

theorem node_list_validator (o : Oracle) (env : Nat → V) (vid : Nat) (item : V) (ps : List Pred) (x : PyVal)
    (a : PyVal → Bool)
    (hok : isListV x = true → ∀ p ∈ ps, predCheck p.k x = true)
    (hitems : ∀ y ∈ listItems x, VDecides o env item y (a y)) :
    VDecides o env (.list vid item ps [] none) x
      (isListV x && ((listItems x).all a && ps.all (fun p => holds p.k x))) := by
  by_cases hl : isListV x = true
  · obtain ⟨oid, xs, rfl⟩ : ∃ oid xs, x = .list oid xs := by
      cases x <;> simp [isListV] at hl
      exact ⟨_, _, rfl⟩
    simp only [listItems] at hitems
    obtain ⟨N, hN⟩ := common_fuel_decided o env item a xs hitems
    have hnr : NoRaise ps (.list oid xs) := fun p hp => predCheck_noRaise p.k _ (hok hl p hp)
    obtain ⟨h1, h2⟩ := contPreds_spec .sync ps [] (.list oid xs) hnr (by intro p hp; simp at hp)
    simp only [Mode.sync, reduceCtorEq, if_false, List.append_nil] at h1
    by_cases hf : (failing ps (.list oid xs)).isEmpty = true
    · -- container level passes: the loop decides
      have hpre : seqPre .list o .sync vid ps [] none (.list oid xs) =
          .inr (.list oid xs, xs, [] ++ (contPreds .sync ps [] (.list oid xs)).2.1) := by
        rw [C03_pre_iff]
        refine ⟨by simp, [], _, by simp [gate, SeqKind.gateTy, PyVal.ty], ?_, rfl, rfl⟩
        have : (failing ps (.list oid xs)) = [] := by simpa using hf
        ext <;> simp [h1, h2, this]
      obtain ⟨r, hr, hrn, hre⟩ := loopItems_decided (run o env .sync N item) a xs 0 true (hN N (Nat.le_refl N))
      refine ⟨N + 1, finishSeq .list vid (.list oid xs) r,
        ([] ++ (contPreds .sync ps [] (.list oid xs)).2.1) ++ r.t, ?_, ?_⟩
      · simp only [run]
        rw [seqStep_inr hpre _ (by intro h; cases h), hr]
        rfl
      · simp only [finishSeq, hrn, isListV, listItems, Bool.true_and]
        rw [← failing_nil_iff ps _ hnr, hf, ← hre]
        cases he : r.es.isEmpty <;> simp [he, Out.verdict]
    · -- a container predicate fails
      have hf' : (failing ps (.list oid xs)).isEmpty = false := by simpa using hf
      refine ⟨1, .invalid (.mk (.preds (failing ps (.list oid xs))) (.list oid xs) vid []),
        [] ++ (contPreds .sync ps [] (.list oid xs)).2.1, ?_, ?_⟩
      · have hc : contPreds .sync ps [] (.list oid xs) =
            (failing ps (.list oid xs), (contPreds .sync ps [] (.list oid xs)).2.1, none) := by
          ext <;> simp [h1, h2]
        simp only [run, seqStep, seqPre]
        simp only [gate, SeqKind.gateTy, PyVal.ty, if_true]
        rw [hc]
        simp [hf']
      · simp only [Out.verdict, isListV, listItems, Bool.true_and]
        rw [← failing_nil_iff ps _ hnr, hf']
        simp
  · have hl' : isListV x = false := by simpa using hl
    have hty : ¬ x.ty = .list := fun h => hl ((isListV_ty x).1 h)
    refine ⟨1, .invalid (.mk (.type .list) x vid []), [], ?_, by simp [Out.verdict, hl']⟩
    simp [run, seqStep, seqPre, gate, SeqKind.gateTy, hty]



theorem node_knr_validator (o : Oracle) (env : Nat → V) (vid : Nat) (inner : V) (x : PyVal) (b : Bool)
    (h : VDecides o env inner x b) : VDecides o env (.knr vid inner) x b := by
  obtain ⟨n, out, t, hr, hv⟩ := h
  cases out with
  | raised e => simp [Out.verdict] at hv
  | valid w => exact ⟨n + 1, .valid (.just 0 w), t, by simp [run, knrStep, hr], by simpa [Out.verdict] using hv⟩
  | invalid e => exact ⟨n + 1, .invalid e, t, by simp [run, knrStep, hr], by simpa [Out.verdict] using hv⟩

theorem common_fuel_zip (o : Oracle) (env : Nat → V) : ∀ (vs : List V) (ys : List PyVal),
    (∀ p ∈ vs.zip ys, VDecides o env p.1 p.2 (acc p.1 p.2)) →
    ∃ N, ∀ n, N ≤ n → ∀ p ∈ vs.zip ys, ∃ out t, run o env .sync n p.1 p.2 = some (out, t) ∧ out.verdict = some (acc p.1 p.2)
  | [], _, _ => ⟨0, fun _ _ p hp => by simp at hp⟩
  | _ :: _, [], _ => ⟨0, fun _ _ p hp => by simp at hp⟩
  | v :: vs, y :: ys, h => by
    obtain ⟨N1, h1⟩ := common_fuel_zip o env vs ys (fun p hp => h p (by simp [hp]))
    obtain ⟨N2, h2⟩ := (h (v, y) (by simp)).at_fuel
    refine ⟨max N1 N2, fun n hn p hp => ?_⟩
    simp only [List.zip_cons_cons, List.mem_cons] at hp
    rcases hp with rfl | hp
    · exact h2 n (by omega)
    · exact h1 n (by omega) p hp

theorem loopFields_decided (o : Oracle) (env : Nat → V) (N : Nat) : ∀ (vs : List V) (ys : List PyVal) (i : Nat),
    (∀ p ∈ vs.zip ys, ∃ out t, run o env .sync N p.1 p.2 = some (out, t) ∧ out.verdict = some (acc p.1 p.2)) →
    ∃ r, loopFields (vs.map (run o env .sync N)) ys i = some r ∧ r.r = none ∧ r.es.isEmpty = accZip vs ys
  | [], ys, i, _ => ⟨⟨[], [], [], none⟩, by simp [loopFields], rfl, by simp [accZip]⟩
  | v :: vs, [], i, _ => ⟨⟨[], [], [], none⟩, by simp [loopFields], rfl, by simp [accZip]⟩
  | v :: vs, y :: ys, i, h => by
    obtain ⟨out, t, hx, hv⟩ := h (v, y) (by simp)
    obtain ⟨r, hr, h1, h2⟩ := loopFields_decided o env N vs ys (i + 1) (fun p hp => h p (by simp [hp]))
    cases out with
    | raised e => simp [Out.verdict] at hv
    | valid w =>
      simp only [Out.verdict, Option.some.injEq] at hv
      refine ⟨⟨w :: r.ws, r.es, t ++ r.t, r.r⟩, by simp [loopFields, hx, hr], h1, ?_⟩
      simp [accZip, h2, ← hv]
    | invalid e =>
      simp only [Out.verdict, Option.some.injEq] at hv
      refine ⟨⟨r.ws, (i, e) :: r.es, t ++ r.t, r.r⟩, by simp [loopFields, hx, hr], h1, ?_⟩
      simp [accZip, ← hv]

theorem node_ntuple_validator (o : Oracle) (env : Nat → V) (vid lp : Nat) (fs : List V) (x : PyVal)
    (hjson : isJson x = true)
    (hkids : ∀ p ∈ fs.zip (listItems x), VDecides o env p.1 p.2 (acc p.1 p.2)) :
    VDecides o env (.ntuple vid fs none (some .dflt) lp) x
      (isListV x && (decide ((listItems x).length = fs.length) && accZip fs (listItems x))) := by
  by_cases hl : isListV x = true
  · obtain ⟨oid, xs, rfl⟩ : ∃ oid xs, x = .list oid xs := by
      cases x <;> simp [isListV] at hl
      exact ⟨_, _, rfl⟩
    simp only [listItems] at hkids ⊢
    have hg : gate o .tuple .list (some .dflt) (.list oid xs) = .acc (.tuple 0 xs) [] := by
      simp [gate, applyCoerce, defaultCoerce]
    by_cases hlen : xs.length = fs.length
    · obtain ⟨N, hN⟩ := common_fuel_zip o env fs xs hkids
      obtain ⟨r, hr, hrn, hre⟩ := loopFields_decided o env N fs xs 0 (hN N (Nat.le_refl N))
      have hpre : ntuplePre o vid (some .dflt) lp (fs.map (run o env .sync N)).length (.list oid xs) =
          .inr (.tuple 0 xs, xs, []) := by
        simp [ntuplePre, hg, pyLen, pyIter, hlen]
      refine ⟨N + 1, (ntupleFinish vid none (.tuple 0 xs) [] r).1, (ntupleFinish vid none (.tuple 0 xs) [] r).2, ?_, ?_⟩
      · simp only [run, ntupleStep, hpre, hr]
      · simp only [ntupleFinish, hrn, isListV, Bool.true_and, hlen, decide_true]
        rw [← hre]
        cases he : r.es.isEmpty <;> simp [he, Out.verdict, runObjCheck]
    · refine ⟨1, .invalid (.mk (.preds [lp]) (.tuple 0 xs) vid []), [], ?_, by simp [Out.verdict, isListV, hlen]⟩
      simp only [run, ntupleStep, ntuplePre, hg, pyLen, List.length_map]
      simp [hlen]
  · have hl' : isListV x = false := by simpa using hl
    have hg : ∃ k, gate o .tuple .list (some .dflt) x = .rej k [] := by
      refine ⟨.coercion (defaultCompat .tuple) .list, ?_⟩
      cases x <;> simp [isListV, isJson] at hl' hjson <;> simp [gate, applyCoerce, defaultCoerce]
    obtain ⟨k, hk⟩ := hg
    exact ⟨1, .invalid (.mk k x vid []), [], by simp [run, ntupleStep, ntuplePre, hk], by simp [Out.verdict, hl']⟩

/-! ### assembling the tree -/

/-- the schemas `js` of the variants `vs` decide, one by one, what the variants accept -/
def SchemasDecide (root : J) (ref : Option (List Nat)) : List V → List J → PyVal → Nat → Prop
  | [], [], _, _ => True
  | v :: vs, j :: js, x, N => DecidesAt root ref j N x (acc v x) ∧ SchemasDecide root ref vs js x N
  | _, _, _, _ => False

theorem SchemasDecide.mono {root : J} {ref : Option (List Nat)} : ∀ {vs : List V} {js : List J} {x : PyVal} {N M : Nat},
    SchemasDecide root ref vs js x N → N ≤ M → SchemasDecide root ref vs js x M
  | [], [], _, _, _, _, _ => trivial
  | _ :: _, _ :: _, _, _, _, h, hm => ⟨h.1.mono hm, h.2.mono hm⟩
  | [], _ :: _, _, _, _, h, _ => h.elim
  | _ :: _, [], _, _, _, h, _ => h.elim

theorem SchemasDecide.count {root : J} {ref : Option (List Nat)} (N : Nat) (x : PyVal) :
    ∀ (vs : List V) (js : List J), SchemasDecide root ref vs js x N →
      (∀ j ∈ js, DecidesAt root ref j N x (evalSchema root ref N j x == some true)) ∧
      js.countP (fun j => evalSchema root ref N j x == some true) = countAcc vs x
  | [], [], _ => ⟨fun j hj => by simp at hj, rfl⟩
  | v :: vs, j :: js, h => by
    obtain ⟨h1, h2⟩ := SchemasDecide.count N x vs js h.2
    have hj : (evalSchema root ref N j x == some true) = acc v x := by
      rw [h.1 N (Nat.le_refl N)]
      cases acc v x <;> rfl
    refine ⟨?_, ?_⟩
    · intro j' hj'
      rcases List.mem_cons.1 hj' with rfl | hj'
      · rw [hj]; exact h.1
      · exact h1 j' hj'
    · simp only [List.countP_cons, hj, countAcc, h2]
      cases acc v x <;> simp <;> omega
  | [], _ :: _, h => h.elim
  | _ :: _, [], h => h.elim

theorem accAny_eq_any (vs : List V) (x : PyVal) : accAny vs x = vs.any (fun v => acc v x) := by
  induction vs with
  | nil => rfl
  | cons v vs ih => simp [accAny, ih]

theorem countAcc_pos (vs : List V) (x : PyVal) : accAny vs x = decide (0 < countAcc vs x) := by
  induction vs with
  | nil => rfl
  | cons v vs ih =>
    simp only [accAny, countAcc, ih]
    by_cases ha : acc v x = true
    · simp [ha]; omega
    · have ha' : acc v x = false := by simpa using ha
      simp [ha']

theorem countAcc_one (vs : List V) (x : PyVal) (h : countAcc vs x ≤ 1) : (countAcc vs x == 1) = accAny vs x := by
  rw [countAcc_pos]
  have : countAcc vs x = 0 ∨ countAcc vs x = 1 := by omega
  rcases this with h0 | h0 <;> simp [h0]


/-- pointwise relation of two lists of equal length -/
inductive AllZip {α β : Type} (R : α → β → Prop) : List α → List β → Prop
  | nil : AllZip R [] []
  | cons {a b as bs} : R a b → AllZip R as bs → AllZip R (a :: as) (b :: bs)

/-- a property of every member (structural, so that it can be the list half of a mutual induction) -/
def AllP (P : V → Prop) : List V → Prop
  | [] => True
  | v :: vs => P v ∧ AllP P vs

theorem AllP.mem {P : V → Prop} : ∀ {vs : List V}, AllP P vs → ∀ v ∈ vs, P v
  | [], _, v, hv => by simp at hv
  | w :: ws, h, v, hv => by
    rcases List.mem_cons.1 hv with rfl | hv
    · exact h.1
    · exact AllP.mem h.2 v hv

/-- what the whole-tree theorem says of one tree -/
def TreeOK (pr : Printer) (o : Oracle) (env : Nat → V) (root : J) (v : V) : Prop :=
  ∀ (x : PyVal), isJson x = true → ok v x = true →
    VDecides o env v x (acc v x) ∧
    ∀ j, toSchema pr none [] [] v = .ok j → DecidesAt root none j (sfuel v) x (acc v x)

theorem toSchemaL_spec (pr : Printer) (ctx : RefCtx) (tvs nrs : List Nat) : ∀ (vs : List V) (js : List J),
    toSchemaL pr ctx tvs nrs vs = .ok js → AllZip (fun v j => toSchema pr ctx tvs nrs v = .ok j) vs js
  | [], js, h => by simp only [toSchemaL, Except.ok.injEq] at h; subst h; exact AllZip.nil
  | v :: vs, js, h => by
    simp only [toSchemaL] at h
    cases h1 : toSchema pr ctx tvs nrs v with
    | error e => simp [h1, bind, Except.bind] at h
    | ok j =>
      cases h2 : toSchemaL pr ctx tvs nrs vs with
      | error e => simp [h1, h2, bind, Except.bind] at h
      | ok js' =>
        simp only [h1, h2, bind, Except.bind, Except.ok.injEq] at h
        subst h
        exact AllZip.cons h1 (toSchemaL_spec pr ctx tvs nrs vs js' h2)

theorem sfuel_le_sfuelL (v : V) : ∀ (vs : List V), v ∈ vs → sfuel v ≤ sfuelL vs
  | [], h => by simp at h
  | w :: ws, h => by
    simp only [sfuelL]
    rcases List.mem_cons.1 h with rfl | h
    · omega
    · have := sfuel_le_sfuelL v ws h; omega

theorem okAll_mem : ∀ (vs : List V) (x : PyVal), okAll vs x = true → ∀ v ∈ vs, ok v x = true
  | [], _, _, v, hv => by simp at hv
  | w :: ws, x, h, v, hv => by
    simp only [okAll, Bool.and_eq_true] at h
    rcases List.mem_cons.1 hv with rfl | hv
    · exact h.1
    · exact okAll_mem ws x h.2 v hv

theorem SchemasDecide_of_members (pr : Printer) (root : J) : ∀ (vs : List V) (js : List J) (x : PyVal) {N : Nat},
    AllZip (fun v j => toSchema pr none [] [] v = .ok j) vs js →
    (∀ v ∈ vs, ∀ j, toSchema pr none [] [] v = .ok j → DecidesAt root none j N x (acc v x)) →
    SchemasDecide root none vs js x N
  | [], [], _, _, _, _ => trivial
  | v :: vs, j :: js, x, N, hf, h => by
    cases hf with
    | cons h1 h2 =>
      exact ⟨h v (by simp) j h1, SchemasDecide_of_members pr root vs js x h2 (fun w hw => h w (by simp [hw]))⟩
  | [], _ :: _, _, _, hf, _ => by cases hf
  | _ :: _, [], _, _, hf, _ => by cases hf


theorem AllZip.length {α β : Type} {R : α → β → Prop} : ∀ {as : List α} {bs : List β}, AllZip R as bs → as.length = bs.length
  | [], [], _ => rfl
  | _ :: _, _ :: _, .cons _ h => by simp [AllZip.length h]

theorem okZip_nil (fs : List V) : okZip fs [] = true := by cases fs <;> rfl

/-- the schemas of the fields decide, position by position, what the fields accept -/
theorem zip_decides (pr : Printer) (o : Oracle) (env : Nat → V) (root : J) (N : Nat) :
    ∀ (fs : List V) (items : List J) (ys : List PyVal),
      AllZip (fun v j => toSchema pr none [] [] v = .ok j) fs items → (∀ v ∈ fs, TreeOK pr o env root v) →
      okZip fs ys = true → (∀ y ∈ ys, isJson y = true) → sfuelL fs ≤ N →
      (∀ p ∈ items.zip ys, DecidesAt root none p.1 N p.2 (evalSchema root none N p.1 p.2 == some true)) ∧
      (items.zip ys).all (fun p => evalSchema root none N p.1 p.2 == some true) = accZip fs ys ∧
      (∀ p ∈ fs.zip ys, VDecides o env p.1 p.2 (acc p.1 p.2))
  | [], [], ys, _, _, _, _, _ => ⟨fun p hp => by simp at hp, by simp [accZip], fun p hp => by simp at hp⟩
  | v :: vs, j :: js, [], _, _, _, _, _ => ⟨fun p hp => by simp at hp, by simp [accZip], fun p hp => by simp at hp⟩
  | v :: vs, j :: js, y :: ys, .cons hj hrest, hmem, hok, hjs, hN => by
    simp only [okZip, Bool.and_eq_true] at hok
    simp only [sfuelL] at hN
    obtain ⟨h1, h2, h3⟩ := zip_decides pr o env root N vs js ys hrest (fun w hw => hmem w (by simp [hw])) hok.2
      (fun z hz => hjs z (by simp [hz])) (by omega)
    obtain ⟨hv, hs⟩ := hmem v (by simp) y (hjs y (by simp)) hok.1
    have hd : DecidesAt root none j N y (acc v y) := (hs j hj).mono (by omega)
    have hg : (evalSchema root none N j y == some true) = acc v y := by
      rw [hd N (Nat.le_refl N)]; cases acc v y <;> rfl
    refine ⟨?_, ?_, ?_⟩
    · intro p hp
      simp only [List.zip_cons_cons, List.mem_cons] at hp
      rcases hp with rfl | hp
      · simp only []; rw [hg]; exact hd
      · exact h1 p hp
    · simp only [List.zip_cons_cons, List.all_cons, accZip, hg, h2]
    · intro p hp
      simp only [List.zip_cons_cons, List.mem_cons] at hp
      rcases hp with rfl | hp
      · exact hv
      · exact h3 p hp

mutual
/-- **C11 for whole trees, partial**: for every tree of the fragment (any depth, any width), every JSON
    value `x` and under the side conditions `ok v x`, the validator terminates with verdict `acc v x`, and
    the generated schema, from fuel `sfuel v` on, evaluates to `acc v x` as well — so the schema accepts
    `x` iff the validator does.  (`_partial`: `ok` contains the agreement conditions that the code
    violates in findings D13, D14, D15; maps, records, tuples and named recursion are not covered.) -/
theorem C11_tree_partial (pr : Printer) (o : Oracle) (env : Nat → V) (root : J) :
    ∀ (v : V), frag v = true → TreeOK pr o env root v
  | .scalar vid tg c pre ps aps, hf, x, _, hok => by
    simp only [frag, Bool.and_eq_true, Option.isSome_iff_exists, Option.isNone_iff_eq_none, List.isEmpty_iff] at hf
    obtain ⟨⟨⟨⟨t, ht⟩, rfl⟩, rfl⟩, rfl⟩ := hf
    have hchk : x.ty = tg → ∀ p ∈ ps, predCheck p.k x = true := by
      intro hty p hp
      simp only [ok, hty, decide_true, Bool.not_true, Bool.false_or, List.all_eq_true] at hok
      exact hok p hp
    refine ⟨node_scalar_validator o env vid tg ps x hchk, ?_⟩
    intro j hj
    exact C11_scalar_schema pr root none none [] vid tg t ht none [] ps j hj x
      (fun hty p hp => predCheck_PredOK pr root none p.k x (hchk hty p hp))
  | .list vid item ps aps c, hf, x, hx, hok => by
    simp only [frag, Bool.and_eq_true, Option.isNone_iff_eq_none, List.isEmpty_iff] at hf
    obtain ⟨⟨rfl, rfl⟩, hfi⟩ := hf
    have hchk : isListV x = true → (∀ p ∈ ps, predCheck p.k x = true) ∧ ∀ y ∈ listItems x, ok item y = true := by
      intro hl
      simp only [ok, hl, Bool.not_true, Bool.false_or, Bool.and_eq_true, List.all_eq_true] at hok
      exact hok
    have hjson : ∀ y ∈ listItems x, isJson y = true := by
      intro y hy
      cases x <;> simp [listItems] at hy
      rename_i oid xs
      exact isJson_items oid xs hx y hy
    have hkids : ∀ y ∈ listItems x, VDecides o env item y (acc item y) ∧
        ∀ j, toSchema pr none [] [] item = .ok j → DecidesAt root none j (sfuel item) y (acc item y) := by
      intro y hy
      have hl : isListV x = true := by cases x <;> simp [listItems] at hy <;> rfl
      exact C11_tree_partial pr o env root item hfi y (hjson y hy) ((hchk hl).2 y hy)
    refine ⟨?_, ?_⟩
    · have := node_list_validator o env vid item ps x (fun y => acc item y) (fun hl => (hchk hl).1)
        (fun y hy => (hkids y hy).1)
      simpa [acc] using this
    · intro j hj
      simp only [toSchema] at hj
      cases hi : toSchema pr none [] [] item with
      | error e => simp [hi, bind, Except.bind] at hj
      | ok it =>
        rw [List.append_nil] at hj
        cases hp : predsSchema pr [(kw "type", .str (kw "array")), (kw "items", it)] ps with
        | error e => simp [hi, hp, bind, Except.bind] at hj
        | ok ob =>
          simp only [hi, hp, bind, Except.bind, Except.ok.injEq] at hj
          subst hj
          have := C11_list_schema pr root none it ps ob hp x (fun y => acc item y) (sfuel item)
            (fun y hy => (hkids y hy).2 it hi)
            (fun hl p hpm => predCheck_PredOK pr root none p.k x ((hchk hl).1 p hpm))
          simpa [acc, sfuel] using this
  | .union vid vs, hf, x, hx, hok => by
    simp only [frag] at hf
    simp only [ok, Bool.and_eq_true, decide_eq_true_eq] at hok
    obtain ⟨hall, hone⟩ := hok
    have hmem : ∀ v ∈ vs, TreeOK pr o env root v := (C11_tree_partialL pr o env root vs hf).mem
    have hokv : ∀ v ∈ vs, ok v x = true := okAll_mem vs x hall
    refine ⟨?_, ?_⟩
    · have := node_union_validator o env vid vs x (fun v => acc v x) (fun v hv => (hmem v hv x hx (hokv v hv)).1)
      simpa [acc, accAny_eq_any] using this
    · intro j hj
      simp only [toSchema] at hj
      cases hi : toSchemaL pr none [] [] vs with
      | error e => simp [hi, bind, Except.bind] at hj
      | ok js =>
        simp only [hi, bind, Except.bind, Except.ok.injEq] at hj
        subst hj
        have hsd : SchemasDecide root none vs js x (sfuelL vs) :=
          SchemasDecide_of_members pr root vs js x (toSchemaL_spec pr none [] [] vs js hi)
            (fun v hv j hj => ((hmem v hv x hx (hokv v hv)).2 j hj).mono (sfuel_le_sfuelL v vs hv))
        obtain ⟨hg, hc⟩ := SchemasDecide.count (sfuelL vs) x vs js hsd
        have := C11_union_schema root none js _ (sfuelL vs) x hg
        rw [hc, countAcc_one vs x hone] at this
        simpa [acc, sfuel] using this
  | .optional vid nv inner, hf, x, hx, hok => by
    simp only [frag, Bool.and_eq_true] at hf
    obtain ⟨hnv, hfi⟩ := hf
    obtain ⟨nvid, rfl⟩ : ∃ nvid, nv = .noneV nvid none := by
      cases nv <;> simp [isDefaultNone] at hnv
      rename_i a c
      cases c <;> simp [isDefaultNone] at hnv
      exact ⟨a, rfl⟩
    by_cases hn : isNoneV x = true
    · -- `None`: accepted by both sides whatever the inner validator says
      refine ⟨?_, ?_⟩
      · have hx0 : x = .none := by cases x <;> simp [isNoneV] at hn; rfl
        subst hx0
        refine ⟨2, .valid .none, [], ?_, by simp [Out.verdict, acc, isNoneV]⟩
        rw [C05_optional_run]
        simp [unionStep, unionLoop, run, noneStep]
      · intro j hj
        simp only [toSchema] at hj
        cases hi : toSchema pr none [] [] inner with
        | error e => simp [hi, bind, Except.bind] at hj
        | ok it =>
          simp only [hi, bind, Except.bind] at hj
          cases it with
          | obj ob =>
            simp only [Except.ok.injEq] at hj
            subst hj
            have := C11_optional_schema root none ob (sfuel inner) x false (fun h => by simp [hn] at h)
            simpa [acc, sfuel, hn] using this
          | _ => simp at hj
    · have hn' : isNoneV x = false := by simpa using hn
      have hoki : ok inner x = true := by simpa [ok, hn'] using hok
      obtain ⟨hv, hs⟩ := C11_tree_partial pr o env root inner hfi x hx hoki
      refine ⟨?_, ?_⟩
      · have := node_optional_validator o env vid nvid inner x _ hv
        simpa [acc] using this
      · intro j hj
        simp only [toSchema] at hj
        cases hi : toSchema pr none [] [] inner with
        | error e => simp [hi, bind, Except.bind] at hj
        | ok it =>
          simp only [hi, bind, Except.bind] at hj
          cases it with
          | obj ob =>
            simp only [Except.ok.injEq] at hj
            subst hj
            have := C11_optional_schema root none ob (sfuel inner) x (acc inner x) (fun _ => hs _ hi)
            simpa [acc, sfuel] using this
          | _ => simp at hj
  | .equals .., hf, _, _, _ => by simp [frag] at hf
  | .noneV .., hf, _, _, _ => by simp [frag] at hf
  | .always _, hf, _, _, _ => by simp [frag] at hf
  | .isDict _, hf, _, _, _ => by simp [frag] at hf
  | .set .., hf, _, _, _ => by simp [frag] at hf
  | .utuple .., hf, _, _, _ => by simp [frag] at hf
  | .ntuple vid fs oc c lp, hf, x, hx, hok => by
    simp only [frag, Bool.and_eq_true, Option.isNone_iff_eq_none] at hf
    obtain ⟨⟨rfl, hc⟩, hfl⟩ := hf
    obtain rfl : c = some .dflt := by
      cases c with
      | none => simp [isDfltCoerce] at hc
      | some k => cases k <;> simp [isDfltCoerce] at hc; rfl
    have hmem : ∀ v ∈ fs, TreeOK pr o env root v := (C11_tree_partialL pr o env root fs hfl).mem
    have hokz : okZip fs (listItems x) = true := by
      by_cases hl : isListV x = true
      · simpa [ok, hl] using hok
      · have : listItems x = [] := by cases x <;> simp [isListV] at hl <;> rfl
        rw [this]; exact okZip_nil fs
    have hjs : ∀ y ∈ listItems x, isJson y = true := by
      intro y hy
      cases x <;> simp [listItems] at hy
      rename_i oid xs
      exact isJson_items oid xs hx y hy
    refine ⟨?_, ?_⟩
    · -- validator side needs the children decided; take them from `zip_decides` once schemas exist, or directly
      have hkids : ∀ p ∈ fs.zip (listItems x), VDecides o env p.1 p.2 (acc p.1 p.2) := by
        have : ∀ (fs' : List V) (ys : List PyVal), (∀ v ∈ fs', TreeOK pr o env root v) → okZip fs' ys = true →
            (∀ y ∈ ys, isJson y = true) → ∀ p ∈ fs'.zip ys, VDecides o env p.1 p.2 (acc p.1 p.2) := by
          intro fs'
          induction fs' with
          | nil => intro ys _ _ _ p hp; simp at hp
          | cons v vs ih =>
            intro ys hm hz hj p hp
            cases ys with
            | nil => simp at hp
            | cons y ys =>
              simp only [okZip, Bool.and_eq_true] at hz
              simp only [List.zip_cons_cons, List.mem_cons] at hp
              rcases hp with rfl | hp
              · exact (hm v (by simp) y (hj y (by simp)) hz.1).1
              · exact ih ys (fun w hw => hm w (by simp [hw])) hz.2 (fun z hz' => hj z (by simp [hz'])) p hp
        exact this fs (listItems x) hmem hokz hjs
      have := node_ntuple_validator o env vid lp fs x hx hkids
      simpa [acc] using this
    · intro j hj
      simp only [toSchema] at hj
      cases hi : toSchemaL pr none [] [] fs with
      | error e => simp [hi, bind, Except.bind] at hj
      | ok items =>
        simp only [hi, bind, Except.bind, Except.ok.injEq] at hj
        subst hj
        have hz := toSchemaL_spec pr none [] [] fs items hi
        have hlen : fs.length = items.length := hz.length
        obtain ⟨h1, h2, _⟩ := zip_decides pr o env root (sfuelL fs) fs items (listItems x) hz hmem hokz hjs (Nat.le_refl _)
        have := C11_ntuple_schema root none items (fun j y => evalSchema root none (sfuelL fs) j y == some true)
          (sfuelL fs) x h1
        rw [h2, ← hlen] at this
        simpa [acc, sfuel, ntupleObj, hlen] using this
  | .map .., hf, _, _, _ => by simp [frag] at hf
  | .record .., hf, _, _, _ => by simp [frag] at hf
  | .maybe .., hf, _, _, _ => by simp [frag] at hf
  | .lazy .., hf, _, _, _ => by simp [frag] at hf
  | .knr vid inner, hf, x, hx, hok => by
    simp only [frag] at hf
    have hoki : ok inner x = true := by simpa [ok] using hok
    obtain ⟨hv, hs⟩ := C11_tree_partial pr o env root inner hf x hx hoki
    refine ⟨by simpa [acc] using node_knr_validator o env vid inner x _ hv, ?_⟩
    intro j hj
    simp only [toSchema] at hj
    simpa [acc, sfuel] using hs j hj
  | .user .., hf, _, _, _ => by simp [frag] at hf
theorem C11_tree_partialL (pr : Printer) (o : Oracle) (env : Nat → V) (root : J) :
    ∀ (vs : List V), fragL vs = true → AllP (TreeOK pr o env root) vs
  | [], _ => trivial
  | w :: ws, hf => by
    simp only [fragL, Bool.and_eq_true] at hf
    exact ⟨C11_tree_partial pr o env root w hf.1, C11_tree_partialL pr o env root ws hf.2⟩
end

/-- the headline: on the fragment and under `ok`, **schema accepts ⇔ validator accepts** -/
theorem C11_iff_partial (pr : Printer) (o : Oracle) (env : Nat → V) (root : J) (v : V) (hf : frag v = true)
    (x : PyVal) (hx : isJson x = true) (hok : ok v x = true) (j : J) (hj : toSchema pr none [] [] v = .ok j) :
    (∀ n, sfuel v ≤ n → evalSchema root none n j x = some true) ↔
      ∃ n w t, run o env .sync n v x = some (.valid w, t) := by
  obtain ⟨⟨n, out, t, hr, hv⟩, hs⟩ := C11_tree_partial pr o env root v hf x hx hok
  have hs' := hs j hj
  constructor
  · intro h
    have h1 := h (sfuel v) (Nat.le_refl _)
    rw [hs' (sfuel v) (Nat.le_refl _)] at h1
    have hacc : acc v x = true := by simpa using h1
    rw [hacc] at hv
    cases out with
    | valid w => exact ⟨n, w, t, hr⟩
    | invalid e => simp [Out.verdict] at hv
    | raised e => simp [Out.verdict] at hv
  · rintro ⟨n', w, t', hr'⟩
    have : acc v x = true := by
      have h1 := run_mono_le o env .sync (Nat.le_max_left n n') v x _ hr
      have h2 := run_mono_le o env .sync (Nat.le_max_right n n') v x _ hr'
      rw [h1] at h2
      simp only [Option.some.injEq, Prod.mk.injEq] at h2
      rw [h2.1] at hv
      simpa [Out.verdict] using hv.symm
    intro m hm
    rw [hs' m hm, this]


/-! ### non-vacuity: `Optional[List[Union[str (min length 1), int (>= 0)]]]` on `["a", 3]` and on `[""]` -/

def exTree : V :=
  .optional 1 (.noneV 2 none)
    (.list 3 (.union 4 [.scalar 5 .str none [] [⟨1, .minLength 1⟩] [], .scalar 6 .int none [] [⟨2, .min (.int 0) false⟩] []])
      [⟨3, .maxItems 5⟩] [] none)

example : frag exTree = true := by decide
example : isJson (.list 9 [.str [97], .int 3]) = true ∧ ok exTree (.list 9 [.str [97], .int 3]) = true ∧
    acc exTree (.list 9 [.str [97], .int 3]) = true := by
  refine ⟨by decide, ?_, ?_⟩ <;> simp [exTree, ok, okAll, acc, accAny, countAcc, predCheck, holds, PredK.call, lenCmp, pyLen,
    isListV, listItems, isNoneV, PyVal.ty, isNum, pyLe, pyLt, PyVal.unsub, xnum, isDecNaN, XNum.lt, Frac.lt, Frac.ofInt, pyEq, numEq]
example : ok exTree (.list 9 [.str []]) = true ∧ acc exTree (.list 9 [.str []]) = false := by
  refine ⟨?_, ?_⟩ <;> simp [exTree, ok, okAll, acc, accAny, countAcc, predCheck, holds, PredK.call, lenCmp, pyLen,
    isListV, listItems, isNoneV, PyVal.ty, isNum]

end Koda
