/-
  C11, whole trees: for every validator tree of the lazy-free fragment below — any depth, any width —
  and every JSON value, the generated schema accepts the value iff the validator does.

  `acc v x` is the specification both sides are proved against; `ok v x` collects, position by position,
  the hypotheses under which the *code* satisfies the property (typed predicates, and the agreement
  conditions that findings D13 / D14 / D15 violate).  Main theorem: `C11_tree_partial`.
-/
import KodaModel.Properties.C11Containers
import KodaModel.Properties.C11Record
import KodaModel.Properties.C01
import KodaModel.Properties.C04

namespace Koda

def Out.verdict : Out → Option Bool
  | .valid _ => some true
  | .invalid _ => some false
  | .raised _ => none

/-- the validator terminates on `x` with verdict `b` -/
def VDecides (o : Oracle) (env : Nat → V) (v : V) (x : PyVal) (b : Bool) : Prop :=
  ∃ n out t, run o env .sync n v x = some (out, t) ∧ out.verdict = some b

theorem VDecides.at_fuel {o : Oracle} {env : Nat → V} {v : V} {x : PyVal} {b : Bool} (h : VDecides o env v x b) :
    ∃ N, ∀ n, N ≤ n → ∃ out t, run o env .sync n v x = some (out, t) ∧ out.verdict = some b := by
  obtain ⟨N, out, t, hr, hv⟩ := h
  exact ⟨N, fun n hn => ⟨out, t, run_mono_le o env .sync hn v x _ hr, hv⟩⟩

/-- finitely many decided children share a fuel -/
theorem common_fuel_decided (o : Oracle) (env : Nat → V) (v : V) (a : PyVal → Bool) :
    ∀ (xs : List PyVal), (∀ y ∈ xs, VDecides o env v y (a y)) →
      ∃ N, ∀ n, N ≤ n → ∀ y ∈ xs, ∃ out t, run o env .sync n v y = some (out, t) ∧ out.verdict = some (a y) := by
  intro xs
  induction xs with
  | nil => intro _; exact ⟨0, fun _ _ y hy => by simp at hy⟩
  | cons y ys ih =>
    intro h
    obtain ⟨N1, h1⟩ := ih (fun z hz => h z (by simp [hz]))
    obtain ⟨N2, h2⟩ := (h y (by simp)).at_fuel
    refine ⟨max N1 N2, fun n hn z hz => ?_⟩
    rcases List.mem_cons.1 hz with rfl | hz
    · exact h2 n (by omega)
    · exact h1 n (by omega) z hz

theorem common_fuel_variants (o : Oracle) (env : Nat → V) (x : PyVal) (a : V → Bool) :
    ∀ (vs : List V), (∀ v ∈ vs, VDecides o env v x (a v)) →
      ∃ N, ∀ n, N ≤ n → ∀ v ∈ vs, ∃ out t, run o env .sync n v x = some (out, t) ∧ out.verdict = some (a v) := by
  intro vs
  induction vs with
  | nil => intro _; exact ⟨0, fun _ _ v hv => by simp at hv⟩
  | cons v vs ih =>
    intro h
    obtain ⟨N1, h1⟩ := ih (fun z hz => h z (by simp [hz]))
    obtain ⟨N2, h2⟩ := (h v (by simp)).at_fuel
    refine ⟨max N1 N2, fun n hn z hz => ?_⟩
    rcases List.mem_cons.1 hz with rfl | hz
    · exact h2 n (by omega)
    · exact h1 n (by omega) z hz

/-! ### the steps, given decided children -/

theorem loopItems_decided (ev : Ev1) (a : PyVal → Bool) : ∀ (xs : List PyVal) (i : Nat) (ne : Bool),
    (∀ y ∈ xs, ∃ out t, ev y = some (out, t) ∧ out.verdict = some (a y)) →
    ∃ r, loopItems ev false xs i ne = some r ∧ r.r = none ∧ r.es.isEmpty = xs.all a := by
  intro xs
  induction xs with
  | nil => intro i ne _; exact ⟨⟨[], [], [], none⟩, rfl, rfl, rfl⟩
  | cons x xs ih =>
    intro i ne h
    obtain ⟨out, t, hx, hv⟩ := h x (by simp)
    cases out with
    | raised e => simp [Out.verdict] at hv
    | valid w =>
      simp only [Out.verdict, Option.some.injEq] at hv
      obtain ⟨r, hr, h1, h2⟩ := ih (i + 1) ne (fun y hy => h y (by simp [hy]))
      refine ⟨⟨w :: r.ws, r.es, t ++ r.t, r.r⟩, by simp [loopItems, hx, hr], h1, ?_⟩
      simp [h2, ← hv]
    | invalid e =>
      simp only [Out.verdict, Option.some.injEq] at hv
      obtain ⟨r, hr, h1, _⟩ := ih (i + 1) false (fun y hy => h y (by simp [hy]))
      refine ⟨⟨r.ws, (i, e) :: r.es, t ++ r.t, r.r⟩, by simp [loopItems, hx, hr], h1, ?_⟩
      simp [← hv]

theorem unionLoop_decided (x : PyVal) (a : Ev1 → Bool) : ∀ (evs : List Ev1),
    (∀ ev ∈ evs, ∃ out t, ev x = some (out, t) ∧ out.verdict = some (a ev)) →
    ∃ w es t, unionLoop x evs = some (w, es, t, none) ∧ w.isSome = evs.any a := by
  intro evs
  induction evs with
  | nil => intro _; exact ⟨none, [], [], rfl, rfl⟩
  | cons ev evs ih =>
    intro h
    obtain ⟨out, t, hx, hv⟩ := h ev (by simp)
    cases out with
    | raised e => simp [Out.verdict] at hv
    | valid w =>
      simp only [Out.verdict, Option.some.injEq] at hv
      exact ⟨some w, [], t, by simp [unionLoop, hx], by simp [← hv]⟩
    | invalid e =>
      simp only [Out.verdict, Option.some.injEq] at hv
      obtain ⟨w, es, t', hl, hw⟩ := ih (fun e' he' => h e' (by simp [he']))
      exact ⟨w, e :: es, t ++ t', by simp [unionLoop, hx, hl], by simp [hw, ← hv]⟩

theorem unionStep_decided (vid : Nat) (x : PyVal) (a : Ev1 → Bool) (evs : List Ev1)
    (h : ∀ ev ∈ evs, ∃ out t, ev x = some (out, t) ∧ out.verdict = some (a ev)) :
    ∃ out t, unionStep vid evs x = some (out, t) ∧ out.verdict = some (evs.any a) := by
  obtain ⟨w, es, t, hl, hw⟩ := unionLoop_decided x a evs h
  cases w with
  | none =>
    refine ⟨.invalid (.mk .union x vid es), t, by simp [unionStep, hl], ?_⟩
    simp only [Option.isSome_none] at hw
    simp [Out.verdict, ← hw]
  | some w =>
    refine ⟨.valid w, t, by simp [unionStep, hl], ?_⟩
    simp only [Option.isSome_some] at hw
    simp [Out.verdict, ← hw]


/-! ### typed predicates: what `ok` asks of one predicate on one value -/

theorem kw_minProperties (ev : J → PyVal → Option Bool) (root : J) (ref : Option (List Nat)) (o' : JObj) (n : Int) (oid : Nat) (kvs : List (PyVal × PyVal)) :
    evalKw ev root ref o' (kw "minProperties") (.int n) (.dict oid kvs) = some (decide ((kvs.length : Int) ≥ n)) := rfl
theorem kw_maxProperties (ev : J → PyVal → Option Bool) (root : J) (ref : Option (List Nat)) (o' : JObj) (n : Int) (oid : Nat) (kvs : List (PyVal × PyVal)) :
    evalKw ev root ref o' (kw "maxProperties") (.int n) (.dict oid kvs) = some (decide ((kvs.length : Int) ≤ n)) := rfl

theorem PredOK_minKeys (pr : Printer) (root : J) (ref : Option (List Nat)) (n : Int) (oid : Nat) (kvs : List (PyVal × PyVal)) :
    PredOK pr root ref (.minKeys n) (.dict oid kvs) := by
  apply PredOK_of_sem
  intro po hpo ev o'
  simp only [predSchema, Except.ok.injEq] at hpo
  subst hpo
  rw [objEval_one ev root ref o' _ _ _ _ (kw_minProperties ev root ref o' n oid kvs),
    holds_of_call (.minKeys n) (.dict oid kvs) (decide ((kvs.length : Int) ≥ n)) rfl]

theorem PredOK_maxKeys (pr : Printer) (root : J) (ref : Option (List Nat)) (n : Int) (oid : Nat) (kvs : List (PyVal × PyVal)) :
    PredOK pr root ref (.maxKeys n) (.dict oid kvs) := by
  apply PredOK_of_sem
  intro po hpo ev o'
  simp only [predSchema, Except.ok.injEq] at hpo
  subst hpo
  rw [objEval_one ev root ref o' _ _ _ _ (kw_maxProperties ev root ref o' n oid kvs),
    holds_of_call (.maxKeys n) (.dict oid kvs) (decide ((kvs.length : Int) ≤ n)) rfl]

/-- the predicate is one C11's fragment has for this kind of value, its parameters are of the value's
    kind, and — for the two predicates where the emitted pattern does not mean what the predicate does
    (D13, D15) — pattern and predicate agree on this value -/
def predCheck : PredK → PyVal → Bool
  | .minLength _, .str _ => true
  | .maxLength _, .str _ => true
  | .exactLength _, .str _ => true
  | .startsWith (.str _), .str _ => true
  | .endsWith (.str _), .str _ => true
  | .notBlank, .str s => notBlankPattern s == !(stripWith isSpaceStr s).isEmpty
  | .regex p, .str s => !(p.source == notBlankText) && (p.search s == p.matchStart s)
  | .equalTo v, x => SameKind v x
  | .choices vs, x => vs.all (fun v => SameKind v x) && hashable x
  | .min m _, x => isNum m && isNum x
  | .max m _, x => isNum m && isNum x
  | .minItems _, .list _ _ => true
  | .maxItems _, .list _ _ => true
  | .uniqueItems, .list _ xs => jsonUnique xs == uniqueLoop xs [] [] && !snanInsideL xs
  | .minKeys _, .dict _ _ => true
  | .maxKeys _, .dict _ _ => true
  | _, _ => false

theorem predCheck_PredOK (pr : Printer) (root : J) (ref : Option (List Nat)) (p : PredK) (x : PyVal)
    (h : predCheck p x = true) : PredOK pr root ref p x := by
  cases p with
  | minLength n => cases x <;> simp [predCheck] at h; exact PredOK_minLength pr root ref n _
  | maxLength n => cases x <;> simp [predCheck] at h; exact PredOK_maxLength pr root ref n _
  | exactLength n => cases x <;> simp [predCheck] at h; exact PredOK_exactLength pr root ref n _
  | startsWith q =>
    cases q <;> cases x <;> simp [predCheck] at h
    exact PredOK_startsWith pr root ref _ _
  | endsWith q =>
    cases q <;> cases x <;> simp [predCheck] at h
    exact PredOK_endsWith pr root ref _ _
  | notBlank =>
    cases x <;> simp [predCheck] at h
    exact PredOK_notBlank_partial pr root ref _ (by simpa using h)
  | regex r =>
    cases x <;> simp [predCheck] at h
    exact PredOK_regex_partial pr root ref r _ (by simpa using h.1) (by simpa using h.2)
  | equalTo v => exact PredOK_equalTo pr root ref v x (by simpa [predCheck] using h)
  | choices vs =>
    simp only [predCheck, Bool.and_eq_true, List.all_eq_true] at h
    exact PredOK_choices pr root ref vs x h.1 h.2
  | min m e =>
    simp only [predCheck, Bool.and_eq_true] at h
    exact PredOK_min pr root ref m x e h.1 h.2
  | max m e =>
    simp only [predCheck, Bool.and_eq_true] at h
    exact PredOK_max pr root ref m x e h.1 h.2
  | minItems n => cases x <;> simp [predCheck] at h; exact PredOK_minItems pr root ref n _ _
  | maxItems n => cases x <;> simp [predCheck] at h; exact PredOK_maxItems pr root ref n _ _
  | uniqueItems =>
    cases x <;> simp [predCheck] at h
    exact PredOK_uniqueItems_partial pr root ref _ _ (by simpa using h.1) (by simpa using h.2)
  | minKeys n => cases x <;> simp [predCheck] at h; exact PredOK_minKeys pr root ref n _ _
  | maxKeys n => cases x <;> simp [predCheck] at h; exact PredOK_maxKeys pr root ref n _ _
  | _ => simp [predCheck] at h

theorem predCheck_noRaise (p : PredK) (x : PyVal) (h : predCheck p x = true) : ∃ b, p.call x = .ok b := by
  cases p with
  | minLength n => cases x <;> simp [predCheck] at h; exact ⟨_, rfl⟩
  | maxLength n => cases x <;> simp [predCheck] at h; exact ⟨_, rfl⟩
  | exactLength n => cases x <;> simp [predCheck] at h; exact ⟨_, rfl⟩
  | startsWith q => cases q <;> cases x <;> simp [predCheck] at h; exact ⟨_, rfl⟩
  | endsWith q => cases q <;> cases x <;> simp [predCheck] at h; exact ⟨_, rfl⟩
  | notBlank => cases x <;> simp [predCheck] at h; exact ⟨_, rfl⟩
  | regex r => cases x <;> simp [predCheck] at h; exact ⟨_, rfl⟩
  | equalTo v =>
    have hk : SameKind v x = true := by simpa [predCheck] using h
    exact ⟨pyEq x v, by simp [PredK.call, pyEqX, (isSNaN_sameKind v x hk).1, (isSNaN_sameKind v x hk).2]⟩
  | choices vs =>
    simp only [predCheck, Bool.and_eq_true] at h
    exact ⟨memL x vs, by simp [PredK.call, h.2]⟩
  | min m e =>
    simp only [predCheck, Bool.and_eq_true] at h
    cases e
    · obtain ⟨r, hr⟩ := pyLe_num m x h.1 h.2; exact ⟨r, by simpa [PredK.call] using hr⟩
    · obtain ⟨r, hr⟩ := pyLt_num m x h.1 h.2; exact ⟨r, by simpa [PredK.call] using hr⟩
  | max m e =>
    simp only [predCheck, Bool.and_eq_true] at h
    cases e
    · obtain ⟨r, hr⟩ := pyLe_num x m h.2 h.1; exact ⟨r, by simpa [PredK.call] using hr⟩
    · obtain ⟨r, hr⟩ := pyLt_num x m h.2 h.1; exact ⟨r, by simpa [PredK.call] using hr⟩
  | minItems n => cases x <;> simp [predCheck] at h; exact ⟨_, rfl⟩
  | maxItems n => cases x <;> simp [predCheck] at h; exact ⟨_, rfl⟩
  | uniqueItems =>
    cases x <;> simp [predCheck] at h
    rename_i oid xs
    exact ⟨uniqueLoop xs [] [], by simp [PredK.call, pyIter, h.2]⟩
  | minKeys n => cases x <;> simp [predCheck] at h; exact ⟨_, rfl⟩
  | maxKeys n => cases x <;> simp [predCheck] at h; exact ⟨_, rfl⟩
  | _ => simp [predCheck] at h


/-! ### the fragment, its specification and its side conditions -/

def isDfltCoerce : Option CoerceK → Bool
  | some .dflt => true
  | _ => false

/-- the texts of string keys -/
def keyTexts : List PyVal → Option (List (List Nat))
  | [] => some []
  | .str s :: ks => (keyTexts ks).map (fun ts => s :: ts)
  | _ :: _ => none

def textsNodup : List (List Nat) → Bool
  | [] => true
  | t :: ts => !ts.contains t && textsNodup ts

/-- record configurations of the fragment: no whole-object checks, no coercer, distinct string keys,
    one requiredness flag per key -/
def recCfgOK (cfg : RecCfg) (n : Nat) : Bool :=
  cfg.oc.isNone && cfg.aoc.isNone && cfg.coerce.isNone &&
  (match keyTexts cfg.keys with | some ts => textsNodup ts | none => false) &&
  cfg.keys.length == n && cfg.reqs.length == n

/-- `StringValidator()` without anything: what a JSON object's keys are validated with -/
def isPlainStrV : V → Bool
  | .scalar _ .str none [] [] [] => true
  | _ => false

def isDefaultNone : V → Bool
  | .noneV _ none => true
  | _ => false

mutual
/-- validator trees covered by the whole-tree theorem: string / integer / float / boolean validators
    without coercer, preprocessors and async predicates; lists; unions; optionals — nested at will -/
def frag : V → Bool
  | .scalar _ tg c pre _ aps => (typeName tg).isSome && c.isNone && pre.isEmpty && aps.isEmpty
  | .list _ item _ aps c => c.isNone && aps.isEmpty && frag item
  | .union _ vs => fragL vs
  | .optional _ nv inner => isDefaultNone nv && frag inner
  | .knr _ inner => frag inner
  | .ntuple _ fs oc c _ => oc.isNone && isDfltCoerce c && fragL fs
  | .record _ cfg vs => recCfgOK cfg vs.length && fragL vs
  | .map _ kv vv _ aps c => c.isNone && aps.isEmpty && isPlainStrV kv && frag vv
  | .equals _ m pre _ => pre.isEmpty && (typeName m.ty).isSome
  | .utuple _ item _ aps c => isDfltCoerce c && aps.isEmpty && frag item
  | _ => false
termination_by structural v => v
def fragL : List V → Bool
  | [] => true
  | v :: vs => frag v && fragL vs
termination_by structural vs => vs
end

mutual
/-- what it means for `x` to be acceptable to the tree (the specification both sides are proved against) -/
def acc : V → PyVal → Bool
  | .scalar _ tg _ _ ps _, x => decide (x.ty = tg) && ps.all (fun p => holds p.k x)
  | .list _ item ps _ _, x => isListV x && ((listItems x).all (fun y => acc item y) && ps.all (fun p => holds p.k x))
  | .union _ vs, x => accAny vs x
  | .optional _ _ inner, x => isNoneV x || acc inner x
  | .knr _ inner, x => acc inner x
  | .ntuple _ fs _ _ _, x => isListV x && (decide ((listItems x).length = fs.length) && accZip fs (listItems x))
  | .record _ cfg vs, x =>
    isDictV x && ((dictKvs x).all (fun p => memL p.1 cfg.keys || !cfg.failUnknown) &&
      accFields cfg.keys cfg.reqs vs (dictKvs x))
  | .map _ _ vv ps _ _, x =>
    isDictV x && ((dictKvs x).all (fun p => acc vv p.2) && ps.all (fun p => holds p.k x))
  | .equals _ m _ _, x => decide (x.ty = m.ty) && holds (.equalTo m) x
  | .utuple _ item ps _ _, x => isListV x && ((listItems x).all (fun y => acc item y) && ps.all (fun p => holds p.k x))
  | _, _ => false
termination_by structural v => v
def accAny : List V → PyVal → Bool
  | [], _ => false
  | v :: vs, x => acc v x || accAny vs x
termination_by structural vs => vs
/-- position by position (over the common prefix, like `zip`) -/
def accZip : List V → List PyVal → Bool
  | v :: vs, y :: ys => acc v y && accZip vs ys
  | _, _ => true
termination_by structural vs => vs
/-- key by key: a present key's value is acceptable to its field, an absent key is not required -/
def accFields : List PyVal → List Bool → List V → List (PyVal × PyVal) → Bool
  | k :: ks, r :: rs, v :: vs, kvs =>
    (match dictGet kvs k with | some xv => acc v xv | none => !r) && accFields ks rs vs kvs
  | _, _, _, _ => true
termination_by structural _ _ vs => vs
end

/-- number of variants acceptable to `x` -/
def countAcc : List V → PyVal → Nat
  | [], _ => 0
  | v :: vs, x => (if acc v x then 1 else 0) + countAcc vs x

mutual
/-- the side conditions, at every position of the value: predicates are used on values of their kind
    with parameters of that kind; pattern and predicate agree where they can differ (D13, D15); JSON
    uniqueness agrees with the predicate's; at most one union variant is acceptable (D14) -/
def ok : V → PyVal → Bool
  | .scalar _ tg _ _ ps _, x => !(decide (x.ty = tg)) || ps.all (fun p => predCheck p.k x)
  | .list _ item ps _ _, x => !(isListV x) || (ps.all (fun p => predCheck p.k x) && (listItems x).all (fun y => ok item y))
  | .union _ vs, x => okAll vs x && decide (countAcc vs x ≤ 1)
  | .optional _ _ inner, x => isNoneV x || ok inner x
  | .knr _ inner, x => ok inner x
  | .ntuple _ fs _ _ _, x => !(isListV x) || okZip fs (listItems x)
  | .record _ cfg vs, x => okFields cfg.keys vs (dictKvs x)
  | .map _ _ vv ps _ _, x =>
    !(isDictV x) || (ps.all (fun p => predCheck p.k x) && (dictKvs x).all (fun p => ok vv p.2))
  | .utuple _ item ps _ _, x => !(isListV x) || (ps.all (fun p => predCheck p.k x) && (listItems x).all (fun y => ok item y))
  | _, _ => true
termination_by structural v => v
def okAll : List V → PyVal → Bool
  | [], _ => true
  | v :: vs, x => ok v x && okAll vs x
termination_by structural vs => vs
def okZip : List V → List PyVal → Bool
  | v :: vs, y :: ys => ok v y && okZip vs ys
  | _, _ => true
termination_by structural vs => vs
def okFields : List PyVal → List V → List (PyVal × PyVal) → Bool
  | k :: ks, v :: vs, kvs =>
    (match dictGet kvs k with | some xv => ok v xv | none => true) && okFields ks vs kvs
  | _, _, _ => true
termination_by structural _ vs => vs
end

mutual
/-- fuel from which the schema of the tree is decided -/
def sfuel : V → Nat
  | .list _ item _ _ _ => max (sfuel item) 1 + 1
  | .union _ vs => sfuelL vs + 1
  | .optional _ _ inner => max (sfuel inner) 1
  | .knr _ inner => sfuel inner
  | .ntuple _ fs _ _ _ => sfuelL fs + 1
  | .record _ _ vs => max (sfuelL vs) 1 + 1
  | .map _ _ vv _ _ _ => max (sfuel vv) 1 + 1
  | .utuple _ item _ _ _ => max (sfuel item) 1 + 1
  | _ => 2
termination_by structural v => v
def sfuelL : List V → Nat
  | [] => 0
  | v :: vs => max (sfuel v) (sfuelL vs)
termination_by structural vs => vs
end

theorem isJson_items (oid : Nat) (xs : List PyVal) (h : isJson (.list oid xs) = true) : ∀ y ∈ xs, isJson y = true := by
  simp only [isJson] at h
  induction xs with
  | nil => intro y hy; simp at hy
  | cons x xs ih =>
    simp only [isJsonL, Bool.and_eq_true] at h
    intro y hy
    rcases List.mem_cons.1 hy with rfl | hy
    · exact h.1
    · exact ih h.2 y hy


/-! ### nodes: validator side -/

theorem failing_nil_iff (ps : List Pred) (x : PyVal) (h : NoRaise ps x) :
    (failing ps x).isEmpty = ps.all (fun p => holds p.k x) := by
  obtain ⟨h1, h2⟩ := runPreds_spec ps x h
  apply Bool.eq_iff_iff.2
  rw [← runPreds_all ps x, h1, h2]
  simp

theorem node_scalar_validator (o : Oracle) (env : Nat → V) (vid : Nat) (tg : Ty) (ps : List Pred) (x : PyVal)
    (hok : x.ty = tg → ∀ p ∈ ps, predCheck p.k x = true) :
    VDecides o env (.scalar vid tg none [] ps []) x (decide (x.ty = tg) && ps.all (fun p => holds p.k x)) := by
  refine ⟨1, (scalarStep o .sync vid tg none [] ps [] x).1, (scalarStep o .sync vid tg none [] ps [] x).2, rfl, ?_⟩
  by_cases hty : x.ty = tg
  · have hnr : NoRaise ps x := fun p hp => predCheck_noRaise p.k x (hok hty p hp)
    obtain ⟨h1, h2⟩ := contPreds_spec .sync ps [] x hnr (by intro p hp; simp at hp)
    simp only [scalarStep, gate, hty, if_true, runProcs, finishPreds, h2]
    simp only [h1, Mode.sync, reduceCtorEq, if_false, List.append_nil, ne_eq, not_true_eq_false, and_false]
    rw [← failing_nil_iff ps x hnr]
    cases hf : (failing ps x).isEmpty <;> simp [hf, Out.verdict]
  · simp [scalarStep, gate, hty, Out.verdict]

theorem node_none_validator (o : Oracle) (env : Nat → V) (nvid : Nat) (x : PyVal) :
    VDecides o env (.noneV nvid none) x (isNoneV x) := by
  refine ⟨1, (noneStep o nvid none x).1, (noneStep o nvid none x).2, rfl, ?_⟩
  cases x <;> simp [noneStep, Out.verdict, isNoneV]

theorem unionLoop_decided' (x : PyVal) (f : V → Ev1) (a : V → Bool) : ∀ (vs : List V),
    (∀ v ∈ vs, ∃ out t, f v x = some (out, t) ∧ out.verdict = some (a v)) →
    ∃ w es t, unionLoop x (vs.map f) = some (w, es, t, none) ∧ w.isSome = vs.any a := by
  intro vs
  induction vs with
  | nil => intro _; exact ⟨none, [], [], rfl, rfl⟩
  | cons v vs ih =>
    intro h
    obtain ⟨out, t, hx, hv⟩ := h v (by simp)
    cases out with
    | raised e => simp [Out.verdict] at hv
    | valid w =>
      simp only [Out.verdict, Option.some.injEq] at hv
      exact ⟨some w, [], t, by simp [unionLoop, hx], by simp [← hv]⟩
    | invalid e =>
      simp only [Out.verdict, Option.some.injEq] at hv
      obtain ⟨w, es, t', hl, hw⟩ := ih (fun e' he' => h e' (by simp [he']))
      exact ⟨w, e :: es, t ++ t', by simp [unionLoop, hx, hl], by simp [hw, ← hv]⟩

theorem node_union_validator (o : Oracle) (env : Nat → V) (vid : Nat) (vs : List V) (x : PyVal) (a : V → Bool)
    (h : ∀ v ∈ vs, VDecides o env v x (a v)) : VDecides o env (.union vid vs) x (vs.any a) := by
  obtain ⟨N, hN⟩ := common_fuel_variants o env x a vs h
  obtain ⟨w, es, t, hl, hw⟩ := unionLoop_decided' x (run o env .sync N) a vs (hN N (Nat.le_refl N))
  cases w with
  | none =>
    refine ⟨N + 1, .invalid (.mk .union x vid es), t, by simp [run, unionStep, hl], ?_⟩
    simp only [Option.isSome_none] at hw
    simp [Out.verdict, ← hw]
  | some w =>
    refine ⟨N + 1, .valid w, t, by simp [run, unionStep, hl], ?_⟩
    simp only [Option.isSome_some] at hw
    simp [Out.verdict, ← hw]

theorem node_optional_validator (o : Oracle) (env : Nat → V) (vid nvid : Nat) (inner : V) (x : PyVal) (b : Bool)
    (h : VDecides o env inner x b) : VDecides o env (.optional vid (.noneV nvid none) inner) x (isNoneV x || b) := by
  obtain ⟨N, hN⟩ := h.at_fuel
  obtain ⟨out, t, hr, hv⟩ := hN (N + 1) (by omega)
  have hnone : run o env .sync (N + 1) (.noneV nvid none) x = some (noneStep o nvid none x) := rfl
  have hopt := C05_optional_run o env .sync (N + 1) vid (.noneV nvid none) inner x
  by_cases hx : isNoneV x = true
  · have : x = .none := by cases x <;> simp [isNoneV] at hx; rfl
    subst this
    refine ⟨N + 2, .valid .none, [], ?_, by simp [Out.verdict, isNoneV]⟩
    rw [hopt]
    simp [unionStep, unionLoop, hnone, noneStep]
  · have hx' : isNoneV x = false := by simpa using hx
    have hns : ∃ e, noneStep o nvid none x = (.invalid e, []) := by
      cases x <;> simp [isNoneV] at hx' <;> exact ⟨_, rfl⟩
    obtain ⟨e0, he0⟩ := hns
    cases out with
    | raised e => simp [Out.verdict] at hv
    | valid w =>
      simp only [Out.verdict, Option.some.injEq] at hv
      refine ⟨N + 2, .valid w, [] ++ t, ?_, by simp [Out.verdict, hx', ← hv]⟩
      rw [hopt]
      simp [unionStep, unionLoop, hnone, he0, hr]
    | invalid e =>
      simp only [Out.verdict, Option.some.injEq] at hv
      refine ⟨N + 2, .invalid (.mk .union x vid [e0, e]), [] ++ (t ++ []), ?_, by simp [Out.verdict, hx', ← hv]⟩
      rw [hopt]
      simp [unionStep, unionLoop, hnone, he0, hr]


theorem isListV_ty (x : PyVal) : (x.ty = .list) ↔ isListV x = true := by
  cases x <;> simp [PyVal.ty, isListV]

theorem node_list_validator (o : Oracle) (env : Nat → V) (vid : Nat) (item : V) (ps : List Pred) (x : PyVal)
    (a : PyVal → Bool)
    (hok : isListV x = true → ∀ p ∈ ps, predCheck p.k x = true)
    (hitems : ∀ y ∈ listItems x, VDecides o env item y (a y)) :
    VDecides o env (.list vid item ps [] none) x
      (isListV x && ((listItems x).all a && ps.all (fun p => holds p.k x))) := by
  by_cases hl : isListV x = true
  · obtain ⟨oid, xs, rfl⟩ : ∃ oid xs, x = .list oid xs := by
      cases x <;> simp [isListV] at hl
      exact ⟨_, _, rfl⟩
    simp only [listItems] at hitems
    obtain ⟨N, hN⟩ := common_fuel_decided o env item a xs hitems
    have hnr : NoRaise ps (.list oid xs) := fun p hp => predCheck_noRaise p.k _ (hok hl p hp)
    obtain ⟨h1, h2⟩ := contPreds_spec .sync ps [] (.list oid xs) hnr (by intro p hp; simp at hp)
    simp only [Mode.sync, reduceCtorEq, if_false, List.append_nil] at h1
    by_cases hf : (failing ps (.list oid xs)).isEmpty = true
    · -- container level passes: the loop decides
      have hpre : seqPre .list o .sync vid ps [] none (.list oid xs) =
          .inr (.list oid xs, xs, [] ++ (contPreds .sync ps [] (.list oid xs)).2.1) := by
        rw [C03_pre_iff]
        refine ⟨by simp, [], _, by simp [gate, SeqKind.gateTy, PyVal.ty], ?_, rfl, rfl⟩
        have : (failing ps (.list oid xs)) = [] := by simpa using hf
        ext <;> simp [h1, h2, this]
      obtain ⟨r, hr, hrn, hre⟩ := loopItems_decided (run o env .sync N item) a xs 0 true (hN N (Nat.le_refl N))
      refine ⟨N + 1, finishSeq .list vid (.list oid xs) r,
        ([] ++ (contPreds .sync ps [] (.list oid xs)).2.1) ++ r.t, ?_, ?_⟩
      · simp only [run]
        rw [seqStep_inr hpre _ (by intro h; cases h), hr]
        rfl
      · simp only [finishSeq, hrn, isListV, listItems, Bool.true_and]
        rw [← failing_nil_iff ps _ hnr, hf, ← hre]
        cases he : r.es.isEmpty <;> simp [he, Out.verdict]
    · -- a container predicate fails
      have hf' : (failing ps (.list oid xs)).isEmpty = false := by simpa using hf
      refine ⟨1, .invalid (.mk (.preds (failing ps (.list oid xs))) (.list oid xs) vid []),
        [] ++ (contPreds .sync ps [] (.list oid xs)).2.1, ?_, ?_⟩
      · have hc : contPreds .sync ps [] (.list oid xs) =
            (failing ps (.list oid xs), (contPreds .sync ps [] (.list oid xs)).2.1, none) := by
          ext <;> simp [h1, h2]
        simp only [run, seqStep, seqPre]
        simp only [gate, SeqKind.gateTy, PyVal.ty, if_true]
        rw [hc]
        simp [hf']
      · simp only [Out.verdict, isListV, listItems, Bool.true_and]
        rw [← failing_nil_iff ps _ hnr, hf']
        simp
  · have hl' : isListV x = false := by simpa using hl
    have hty : ¬ x.ty = .list := fun h => hl ((isListV_ty x).1 h)
    refine ⟨1, .invalid (.mk (.type .list) x vid []), [], ?_, by simp [Out.verdict, hl']⟩
    simp [run, seqStep, seqPre, gate, SeqKind.gateTy, hty]



theorem node_knr_validator (o : Oracle) (env : Nat → V) (vid : Nat) (inner : V) (x : PyVal) (b : Bool)
    (h : VDecides o env inner x b) : VDecides o env (.knr vid inner) x b := by
  obtain ⟨n, out, t, hr, hv⟩ := h
  cases out with
  | raised e => simp [Out.verdict] at hv
  | valid w => exact ⟨n + 1, .valid (.just 0 w), t, by simp [run, knrStep, hr], by simpa [Out.verdict] using hv⟩
  | invalid e => exact ⟨n + 1, .invalid e, t, by simp [run, knrStep, hr], by simpa [Out.verdict] using hv⟩

theorem common_fuel_zip (o : Oracle) (env : Nat → V) : ∀ (vs : List V) (ys : List PyVal),
    (∀ p ∈ vs.zip ys, VDecides o env p.1 p.2 (acc p.1 p.2)) →
    ∃ N, ∀ n, N ≤ n → ∀ p ∈ vs.zip ys, ∃ out t, run o env .sync n p.1 p.2 = some (out, t) ∧ out.verdict = some (acc p.1 p.2)
  | [], _, _ => ⟨0, fun _ _ p hp => by simp at hp⟩
  | _ :: _, [], _ => ⟨0, fun _ _ p hp => by simp at hp⟩
  | v :: vs, y :: ys, h => by
    obtain ⟨N1, h1⟩ := common_fuel_zip o env vs ys (fun p hp => h p (by simp [hp]))
    obtain ⟨N2, h2⟩ := (h (v, y) (by simp)).at_fuel
    refine ⟨max N1 N2, fun n hn p hp => ?_⟩
    simp only [List.zip_cons_cons, List.mem_cons] at hp
    rcases hp with rfl | hp
    · exact h2 n (by omega)
    · exact h1 n (by omega) p hp

theorem loopFields_decided (o : Oracle) (env : Nat → V) (N : Nat) : ∀ (vs : List V) (ys : List PyVal) (i : Nat),
    (∀ p ∈ vs.zip ys, ∃ out t, run o env .sync N p.1 p.2 = some (out, t) ∧ out.verdict = some (acc p.1 p.2)) →
    ∃ r, loopFields (vs.map (run o env .sync N)) ys i = some r ∧ r.r = none ∧ r.es.isEmpty = accZip vs ys
  | [], ys, i, _ => ⟨⟨[], [], [], none⟩, by simp [loopFields], rfl, by simp [accZip]⟩
  | v :: vs, [], i, _ => ⟨⟨[], [], [], none⟩, by simp [loopFields], rfl, by simp [accZip]⟩
  | v :: vs, y :: ys, i, h => by
    obtain ⟨out, t, hx, hv⟩ := h (v, y) (by simp)
    obtain ⟨r, hr, h1, h2⟩ := loopFields_decided o env N vs ys (i + 1) (fun p hp => h p (by simp [hp]))
    cases out with
    | raised e => simp [Out.verdict] at hv
    | valid w =>
      simp only [Out.verdict, Option.some.injEq] at hv
      refine ⟨⟨w :: r.ws, r.es, t ++ r.t, r.r⟩, by simp [loopFields, hx, hr], h1, ?_⟩
      simp [accZip, h2, ← hv]
    | invalid e =>
      simp only [Out.verdict, Option.some.injEq] at hv
      refine ⟨⟨r.ws, (i, e) :: r.es, t ++ r.t, r.r⟩, by simp [loopFields, hx, hr], h1, ?_⟩
      simp [accZip, ← hv]

theorem node_ntuple_validator (o : Oracle) (env : Nat → V) (vid lp : Nat) (fs : List V) (x : PyVal)
    (hjson : isJson x = true)
    (hkids : ∀ p ∈ fs.zip (listItems x), VDecides o env p.1 p.2 (acc p.1 p.2)) :
    VDecides o env (.ntuple vid fs none (some .dflt) lp) x
      (isListV x && (decide ((listItems x).length = fs.length) && accZip fs (listItems x))) := by
  by_cases hl : isListV x = true
  · obtain ⟨oid, xs, rfl⟩ : ∃ oid xs, x = .list oid xs := by
      cases x <;> simp [isListV] at hl
      exact ⟨_, _, rfl⟩
    simp only [listItems] at hkids ⊢
    have hg : gate o .tuple .list (some .dflt) (.list oid xs) = .acc (.tuple 0 xs) [] := by
      simp [gate, applyCoerce, defaultCoerce]
    by_cases hlen : xs.length = fs.length
    · obtain ⟨N, hN⟩ := common_fuel_zip o env fs xs hkids
      obtain ⟨r, hr, hrn, hre⟩ := loopFields_decided o env N fs xs 0 (hN N (Nat.le_refl N))
      have hpre : ntuplePre o vid (some .dflt) lp (fs.map (run o env .sync N)).length (.list oid xs) =
          .inr (.tuple 0 xs, xs, []) := by
        simp [ntuplePre, hg, pyLen, pyIter, hlen]
      refine ⟨N + 1, (ntupleFinish vid none (.tuple 0 xs) [] r).1, (ntupleFinish vid none (.tuple 0 xs) [] r).2, ?_, ?_⟩
      · simp only [run, ntupleStep, hpre, hr]
      · simp only [ntupleFinish, hrn, isListV, Bool.true_and, hlen, decide_true]
        rw [← hre]
        cases he : r.es.isEmpty <;> simp [he, Out.verdict, runObjCheck]
    · refine ⟨1, .invalid (.mk (.preds [lp]) (.tuple 0 xs) vid []), [], ?_, by simp [Out.verdict, isListV, hlen]⟩
      simp only [run, ntupleStep, ntuplePre, hg, pyLen, List.length_map]
      simp [hlen]
  · have hl' : isListV x = false := by simpa using hl
    have hg : ∃ k, gate o .tuple .list (some .dflt) x = .rej k [] := by
      refine ⟨.coercion (defaultCompat .tuple) .list, ?_⟩
      cases x <;> simp [isListV, isJson] at hl' hjson <;> simp [gate, applyCoerce, defaultCoerce]
    obtain ⟨k, hk⟩ := hg
    exact ⟨1, .invalid (.mk k x vid []), [], by simp [run, ntupleStep, ntuplePre, hk], by simp [Out.verdict, hl']⟩


/-! ### records: validator side -/

theorem recGate_dict (o : Oracle) (cfg : RecCfg) (hc : cfg.coerce = none) (oid : Nat) (kvs : List (PyVal × PyVal)) :
    recGate o cfg (.dict oid kvs) = .acc (.dict oid kvs) [] := by
  unfold recGate
  cases cfg.kind <;> simp [hc, PyVal.ty, PyVal.baseTy]

theorem recGate_nondict (o : Oracle) (cfg : RecCfg) (hc : cfg.coerce = none) (x : PyVal) (hj : isJson x = true)
    (hd : isDictV x = false) : ∃ k, recGate o cfg x = .rej k [] := by
  unfold recGate
  cases x <;> simp [isDictV, isJson] at hd hj <;> cases cfg.kind <;> simp [hc, PyVal.ty, PyVal.baseTy]

/-- the present fields are decided at fuel `N` -/
def FieldsDecided (o : Oracle) (env : Nat → V) (N : Nat) (kvs : List (PyVal × PyVal)) : List PyVal → List V → Prop
  | k :: ks, v :: vs =>
    (∀ xv, dictGet kvs k = some xv → ∃ out t, run o env .sync N v xv = some (out, t) ∧ out.verdict = some (acc v xv)) ∧
    FieldsDecided o env N kvs ks vs
  | _, _ => True

theorem FieldsDecided.mono {o : Oracle} {env : Nat → V} {kvs : List (PyVal × PyVal)} {N M : Nat} (hm : N ≤ M) :
    ∀ {ks : List PyVal} {vs : List V}, FieldsDecided o env N kvs ks vs → FieldsDecided o env M kvs ks vs
  | [], _, _ => by simp [FieldsDecided]
  | _ :: _, [], _ => by simp [FieldsDecided]
  | k :: ks, v :: vs, h => by
    refine ⟨fun xv hx => ?_, FieldsDecided.mono hm h.2⟩
    obtain ⟨out, t, hr, hv⟩ := h.1 xv hx
    exact ⟨out, t, run_mono_le o env .sync hm v xv _ hr, hv⟩

theorem common_fuel_fields (o : Oracle) (env : Nat → V) (kvs : List (PyVal × PyVal)) :
    ∀ (ks : List PyVal) (vs : List V),
      (∀ p ∈ ks.zip vs, ∀ xv, dictGet kvs p.1 = some xv → VDecides o env p.2 xv (acc p.2 xv)) →
      ∃ N, FieldsDecided o env N kvs ks vs
  | [], _, _ => ⟨0, by simp [FieldsDecided]⟩
  | _ :: _, [], _ => ⟨0, by simp [FieldsDecided]⟩
  | k :: ks, v :: vs, h => by
    obtain ⟨N1, h1⟩ := common_fuel_fields o env kvs ks vs (fun p hp => h p (by simp [hp]))
    cases hg : dictGet kvs k with
    | none => exact ⟨N1, ⟨fun xv hx => by simp [hg] at hx, h1⟩⟩
    | some xv =>
      obtain ⟨N2, h2⟩ := (h (k, v) (by simp) xv hg).at_fuel
      refine ⟨max N1 N2, ⟨fun xv' hx' => ?_, h1.mono (Nat.le_max_left _ _)⟩⟩
      rw [hg] at hx'
      cases hx'
      exact h2 _ (Nat.le_max_right _ _)

theorem recLoop_decided (o : Oracle) (env : Nat → V) (N vid : Nat) (dv : PyVal) (kvs : List (PyVal × PyVal)) :
    ∀ (ks : List PyVal) (rs : List Bool) (vs : List V), FieldsDecided o env N kvs ks vs →
      ∃ r, recLoop vid dv kvs (vs.map (run o env .sync N)) ks rs = some r ∧ r.r = none ∧
        r.ks.isEmpty = accFields ks rs vs kvs
  | [], rs, vs, _ => ⟨⟨[], [], [], [], none⟩, by cases vs <;> simp [recLoop], rfl, by cases rs <;> cases vs <;> simp [accFields]⟩
  | k :: ks, [], vs, _ => ⟨⟨[], [], [], [], none⟩, by cases vs <;> simp [recLoop], rfl, by cases vs <;> simp [accFields]⟩
  | k :: ks, r :: rs, [], _ => ⟨⟨[], [], [], [], none⟩, by simp [recLoop], rfl, by simp [accFields]⟩
  | k :: ks, r :: rs, v :: vs, h => by
    obtain ⟨r', hr', h1, h2⟩ := recLoop_decided o env N vid dv kvs ks rs vs h.2
    cases hg : dictGet kvs k with
    | none =>
      cases r with
      | true =>
        refine ⟨{ r' with got := none :: r'.got, ks := k :: r'.ks, errs := .mk .missingKey dv vid [] :: r'.errs }, ?_, h1, ?_⟩
        · simp [recLoop, hg, hr']
        · simp [accFields, hg]
      | false =>
        refine ⟨{ r' with got := none :: r'.got }, ?_, h1, ?_⟩
        · simp [recLoop, hg, hr']
        · simp [accFields, hg, h2]
    | some xv =>
      obtain ⟨out, t, hx, hv⟩ := h.1 xv hg
      cases out with
      | raised e => simp [Out.verdict] at hv
      | valid w =>
        simp only [Out.verdict, Option.some.injEq] at hv
        refine ⟨{ r' with got := some w :: r'.got, t := t ++ r'.t }, ?_, h1, ?_⟩
        · simp [recLoop, hg, hx, hr']
        · simp [accFields, hg, h2, ← hv]
      | invalid e =>
        simp only [Out.verdict, Option.some.injEq] at hv
        refine ⟨{ r' with got := none :: r'.got, ks := k :: r'.ks, errs := e :: r'.errs, t := t ++ r'.t }, ?_, h1, ?_⟩
        · simp [recLoop, hg, hx, hr']
        · simp [accFields, hg, ← hv]

theorem all_known_iff (kvs : List (PyVal × PyVal)) (keys : List PyVal) (fu : Bool) :
    kvs.all (fun p => memL p.1 keys || !fu) = !(fu && hasUnknownKey keys kvs) := by
  cases fu
  · simp
  · simp only [Bool.not_true, Bool.or_false, Bool.true_and, hasUnknownKey]
    induction kvs with
    | nil => rfl
    | cons p ps ih => simp [ih, Bool.not_or]

theorem node_record_validator (o : Oracle) (env : Nat → V) (vid : Nat) (cfg : RecCfg) (vs : List V) (x : PyVal)
    (hj : isJson x = true) (hoc : cfg.oc = none) (haoc : cfg.aoc = none) (hco : cfg.coerce = none)
    (hkids : ∀ p ∈ cfg.keys.zip vs, ∀ xv, dictGet (dictKvs x) p.1 = some xv → VDecides o env p.2 xv (acc p.2 xv)) :
    VDecides o env (.record vid cfg vs) x
      (isDictV x && ((dictKvs x).all (fun p => memL p.1 cfg.keys || !cfg.failUnknown) &&
        accFields cfg.keys cfg.reqs vs (dictKvs x))) := by
  by_cases hd : isDictV x = true
  · obtain ⟨oid, kvs, rfl⟩ : ∃ oid kvs, x = .dict oid kvs := by
      cases x <;> simp [isDictV] at hd
      exact ⟨_, _, rfl⟩
    simp only [dictKvs] at hkids ⊢
    simp only [isDictV, Bool.true_and, all_known_iff]
    by_cases hu : (cfg.failUnknown && hasUnknownKey cfg.keys kvs) = true
    · refine ⟨1, .invalid (.mk (.extraKeys cfg.keys) (.dict oid kvs) vid []), [], ?_, by simp [Out.verdict, hu]⟩
      simp [run, recordStep, recPre, haoc, recGate_dict o cfg hco, dictItems, hu]
    · have hu' : (cfg.failUnknown && hasUnknownKey cfg.keys kvs) = false := by simpa using hu
      obtain ⟨N, hN⟩ := common_fuel_fields o env kvs cfg.keys vs hkids
      obtain ⟨r, hr, hrn, hre⟩ := recLoop_decided o env N vid (.dict oid kvs) kvs cfg.keys cfg.reqs vs hN
      have hpre : recPre o .sync vid cfg (.dict oid kvs) = .inr (.dict oid kvs, kvs, []) := by
        simp [recPre, haoc, recGate_dict o cfg hco, dictItems, hu']
      refine ⟨N + 1, (recFinish .sync vid cfg (.dict oid kvs) [] r).1, (recFinish .sync vid cfg (.dict oid kvs) [] r).2, ?_, ?_⟩
      · simp only [run]
        rw [recordStep_inr hpre, hr]
        rfl
      · simp only [recFinish, hrn, hu', Bool.not_false, Bool.true_and]
        rw [← hre]
        cases he : r.ks.isEmpty <;> simp [he, Out.verdict, runObjCheck, runAObjCheck, hoc, haoc]
  · have hd' : isDictV x = false := by simpa using hd
    obtain ⟨k, hk⟩ := recGate_nondict o cfg hco x hj hd'
    exact ⟨1, .invalid (.mk k x vid []), [], by simp [run, recordStep, recPre, haoc, hk], by simp [Out.verdict, hd']⟩


/-! ### maps -/

theorem plainStr_run (o : Oracle) (env : Nat → V) (kv : V) (hk : isPlainStrV kv = true) (N : Nat) (s : List Nat) :
    run o env .sync (N + 1) kv (.str s) = some (.valid (.str s), []) := by
  unfold isPlainStrV at hk
  split at hk
  · simp [run, scalarStep, gate, PyVal.ty, runProcs, finishPreds, contPreds, runPreds]
  · cases hk

theorem mapLoop_decided (evk evv : Ev1) (a : PyVal → Bool) :
    ∀ (kvs acc0 : List (PyVal × PyVal)),
      (∀ p ∈ kvs, ∃ s, p.1 = .str s ∧ evk p.1 = some (.valid (.str s), [])) →
      (∀ p ∈ kvs, ∃ out t, evv p.2 = some (out, t) ∧ out.verdict = some (a p.2)) →
      ∃ r, mapLoop evk evv kvs acc0 = some r ∧ r.r = none ∧ r.ks.isEmpty = kvs.all (fun p => a p.2)
  | [], acc0, _, _ => ⟨⟨acc0, [], [], [], [], none⟩, rfl, rfl, rfl⟩
  | (k, v) :: rest, acc0, hk, hv => by
    obtain ⟨s, hks, hke⟩ := hk (k, v) (by simp)
    obtain ⟨out, t, hve, hvv⟩ := hv (k, v) (by simp)
    simp only at hks hke hve hvv
    cases out with
    | raised e => simp [Out.verdict] at hvv
    | valid w =>
      simp only [Out.verdict, Option.some.injEq] at hvv
      obtain ⟨r, hr, h1, h2⟩ := mapLoop_decided evk evv a rest (dictSet acc0 (.str s) w)
        (fun p hp => hk p (by simp [hp])) (fun p hp => hv p (by simp [hp]))
      refine ⟨{ r with t := [] ++ t ++ r.t }, ?_, h1, ?_⟩
      · simp [mapLoop, hke, hve, hashable, hr]
      · simp [h2, ← hvv]
    | invalid e =>
      simp only [Out.verdict, Option.some.injEq] at hvv
      obtain ⟨r, hr, h1, _⟩ := mapLoop_decided evk evv a rest acc0
        (fun p hp => hk p (by simp [hp])) (fun p hp => hv p (by simp [hp]))
      refine ⟨{ r with ks := k :: r.ks, shape := (false, true) :: r.shape, errs := [] ++ [e] ++ r.errs, t := [] ++ t ++ r.t }, ?_, h1, ?_⟩
      · simp [mapLoop, hke, hve, hr]
      · simp [← hvv]

theorem common_fuel_vals (o : Oracle) (env : Nat → V) (v : V) (a : PyVal → Bool) :
    ∀ (kvs : List (PyVal × PyVal)), (∀ p ∈ kvs, VDecides o env v p.2 (a p.2)) →
      ∃ N, ∀ n, N ≤ n → ∀ p ∈ kvs, ∃ out t, run o env .sync n v p.2 = some (out, t) ∧ out.verdict = some (a p.2)
  | [], _ => ⟨0, fun _ _ p hp => by simp at hp⟩
  | q :: qs, h => by
    obtain ⟨N1, h1⟩ := common_fuel_vals o env v a qs (fun p hp => h p (by simp [hp]))
    obtain ⟨N2, h2⟩ := (h q (by simp)).at_fuel
    refine ⟨max N1 N2, fun n hn p hp => ?_⟩
    rcases List.mem_cons.1 hp with rfl | hp
    · exact h2 n (by omega)
    · exact h1 n (by omega) p hp

theorem isDictV_ty (x : PyVal) : (x.ty = .dict) ↔ isDictV x = true := by
  cases x <;> simp [PyVal.ty, isDictV]

theorem node_map_validator (o : Oracle) (env : Nat → V) (vid : Nat) (kv vv : V) (ps : List Pred) (x : PyVal)
    (a : PyVal → Bool) (hkv : isPlainStrV kv = true)
    (hkeys : ∀ p ∈ dictKvs x, ∃ s, p.1 = .str s)
    (hok : isDictV x = true → ∀ p ∈ ps, predCheck p.k x = true)
    (hvals : ∀ p ∈ dictKvs x, VDecides o env vv p.2 (a p.2)) :
    VDecides o env (.map vid kv vv ps [] none) x
      (isDictV x && ((dictKvs x).all (fun p => a p.2) && ps.all (fun p => holds p.k x))) := by
  by_cases hd : isDictV x = true
  · obtain ⟨oid, kvs, rfl⟩ : ∃ oid kvs, x = .dict oid kvs := by
      cases x <;> simp [isDictV] at hd
      exact ⟨_, _, rfl⟩
    simp only [dictKvs] at hkeys hvals
    obtain ⟨N, hN⟩ := common_fuel_vals o env vv a kvs hvals
    have hnr : NoRaise ps (.dict oid kvs) := fun p hp => predCheck_noRaise p.k _ (hok hd p hp)
    obtain ⟨h1, h2⟩ := contPreds_spec .sync ps [] (.dict oid kvs) hnr (by intro p hp; simp at hp)
    simp only [Mode.sync, reduceCtorEq, if_false, List.append_nil] at h1
    have hc : contPreds .sync ps [] (.dict oid kvs) =
        (failing ps (.dict oid kvs), (contPreds .sync ps [] (.dict oid kvs)).2.1, none) := by
      ext <;> simp [h1, h2]
    by_cases hf : (failing ps (.dict oid kvs)).isEmpty = true
    · obtain ⟨r, hr, hrn, hre⟩ := mapLoop_decided (run o env .sync (N + 1) kv) (run o env .sync (N + 1) vv) a kvs []
        (fun p hp => by
          obtain ⟨s, hs⟩ := hkeys p hp
          exact ⟨s, hs, by rw [hs]; exact plainStr_run o env kv hkv N s⟩)
        (hN (N + 1) (by omega))
      have hpre : mapPre o .sync vid ps [] none (.dict oid kvs) =
          .inr (.dict oid kvs, kvs, [] ++ (contPreds .sync ps [] (.dict oid kvs)).2.1) := by
        simp only [mapPre, gate, PyVal.ty, if_true]
        rw [hc]
        simp [hf, dictItems]
      refine ⟨N + 2, (mapFinish vid (.dict oid kvs) ([] ++ (contPreds .sync ps [] (.dict oid kvs)).2.1) r).1,
        (mapFinish vid (.dict oid kvs) ([] ++ (contPreds .sync ps [] (.dict oid kvs)).2.1) r).2, ?_, ?_⟩
      · show mapStep o .sync vid ps [] none (run o env .sync (N + 1) kv) (run o env .sync (N + 1) vv) (.dict oid kvs) = _
        unfold mapStep
        rw [hpre]
        simp only [hr]
      · simp only [mapFinish, hrn, isDictV, dictKvs, Bool.true_and]
        rw [← failing_nil_iff ps _ hnr, hf, ← hre]
        cases he : r.ks.isEmpty <;> simp [he, Out.verdict]
    · have hf' : (failing ps (.dict oid kvs)).isEmpty = false := by simpa using hf
      refine ⟨1, .invalid (.mk (.preds (failing ps (.dict oid kvs))) (.dict oid kvs) vid []),
        [] ++ (contPreds .sync ps [] (.dict oid kvs)).2.1, ?_, ?_⟩
      · simp only [run, mapStep, mapPre, gate, PyVal.ty, if_true]
        rw [hc]
        simp [hf']
      · simp only [Out.verdict, isDictV, dictKvs, Bool.true_and]
        rw [← failing_nil_iff ps _ hnr, hf']
        simp
  · have hd' : isDictV x = false := by simpa using hd
    have hty : ¬ x.ty = .dict := fun h => hd ((isDictV_ty x).1 h)
    refine ⟨1, .invalid (.mk (.type .dict) x vid []), [], ?_, by simp [Out.verdict, hd']⟩
    simp [run, mapStep, mapPre, gate, hty]

/-- **maps (schema side)**: `{"type": "object", "additionalProperties": vs, …}` -/
theorem C11_map_schema (pr : Printer) (root : J) (ref : Option (List Nat)) (vs : J) (ps : List Pred) (ob : JObj)
    (hps : predsSchema pr [(kw "type", .str (kw "object")), (kw "additionalProperties", vs)] ps = .ok ob) (x : PyVal)
    (a : PyVal → Bool) (N : Nat)
    (hkeys : ∀ p ∈ dictKvs x, ∃ s, p.1 = .str s)
    (hvals : ∀ p ∈ dictKvs x, DecidesAt root ref vs N p.2 (a p.2))
    (hp : isDictV x = true → ∀ p ∈ ps, PredOK pr root ref p.k x) :
    DecidesAt root ref (.obj ob) (max N 1 + 1) x
      (isDictV x && ((dictKvs x).all (fun p => a p.2) && ps.all (fun p => holds p.k x))) := by
  intro n hn
  obtain ⟨m, rfl⟩ : ∃ m, n = m + 1 := ⟨n - 1, by omega⟩
  obtain ⟨f1, f2, f3, f4⟩ := predsSchema_frame pr _ ps ob hps
  have hty : jGet ob "type" = some (.str (kw "object")) := by rw [f1]; rfl
  have hnull : isNullable ob = false := by
    have : jGet ob "nullable" = none := by rw [f2]; rfl
    simp [isNullable, this]
  have hgood : Good ob := ⟨by rw [f3]; rfl, by rw [f4]; rfl⟩
  rw [evalSchema_obj]
  simp only [hnull, Bool.false_and, Bool.false_eq_true, if_false]
  by_cases hd : isDictV x = true
  · have htf : typeFails ob x = false := by simp [typeFails, hty, typeOk_object, hd]
    simp only [htf, Bool.false_eq_true, if_false, hd, Bool.true_and]
    obtain ⟨oid, kvs, rfl⟩ : ∃ oid kvs, x = .dict oid kvs := by
      cases x <;> simp [isDictV] at hd
      exact ⟨_, _, rfl⟩
    simp only [dictKvs] at hkeys hvals ⊢
    have hbase : AccSem root ref (max N 1) [(kw "type", .str (kw "object")), (kw "additionalProperties", vs)]
        (kvs.all (fun p => a p.2)) (.dict oid kvs) := by
      refine ⟨by omega, ?_, by simp only [hasKey, List.any_cons, List.any_nil]; decide, ?_⟩
      · intro n hn o' hg
        simp only [objEval, allM]
        have h1 : evalKw (evalSchema root ref n) root ref o' (kw "type") (.str (kw "object")) (.dict oid kvs) = some true := rfl
        rw [h1, evalKw_additionalProperties, propNames_good o' hg]
        have key : ∀ f : PyVal × PyVal → Option Bool, (∀ p ∈ kvs, f p = some (a p.2)) →
            OB.and (some true) (OB.and (allM f kvs) (some true)) = some (kvs.all fun p => a p.2) := by
          intro f hf
          rw [allM_eq_some_all f (fun p => a p.2) kvs hf]
          simp [OB_and_some]
        apply key
        intro p hp
        obtain ⟨s, hs⟩ := hkeys p hp
        simp only [hs, keyText, List.contains_nil, Bool.false_eq_true, if_false]
        exact hvals p hp n (by omega)
      · intro e he hk
        simp at he
        rcases he with rfl | rfl <;> exact absurd hk (by simp only []; decide)
    have hacc := AccSem_preds pr root ref _ _ ps _ ob _ hbase (hp hd) hps
    exact hacc.sem m (by omega) ob hgood
  · have hd' : isDictV x = false := by simpa using hd
    have htf : typeFails ob x = true := by simp [typeFails, hty, typeOk_object, hd']
    simp [htf, hd']


/-! ### equality validators and uniform tuples -/

theorem jaddPred_noclash (base po : JObj) (h : ∀ p ∈ po, hasKey base p.1 = false) :
    jaddPred base po = jupdate base po := by
  unfold jaddPred
  have : po.any (fun p => base.any (fun q => q.1 == p.1)) = false := by
    rw [List.any_eq_false]
    intro p hp
    have := h p hp
    simp only [hasKey] at this
    simp [this]
  simp only [this, Bool.false_eq_true, if_false]

theorem sameKind_of_ty (m x : PyVal) (t : String) (ht : typeName m.ty = some t) (h : x.ty = m.ty) : SameKind m x = true := by
  cases m <;> simp [PyVal.ty, typeName] at ht <;> cases x <;> simp [PyVal.ty] at h <;> simp [SameKind, isNum]

theorem node_equals_validator (o : Oracle) (env : Nat → V) (vid pid : Nat) (m x : PyVal) (t : String)
    (ht : typeName m.ty = some t) :
    VDecides o env (.equals vid m [] pid) x (decide (x.ty = m.ty) && holds (.equalTo m) x) := by
  refine ⟨1, (equalsStep vid m [] pid x).1, (equalsStep vid m [] pid x).2, rfl, ?_⟩
  by_cases hty : x.ty = m.ty
  · have hk := sameKind_of_ty m x t ht hty
    have hc : pyEqX x m = .ok (pyEq x m) := by
      simp [pyEqX, (isSNaN_sameKind m x hk).1, (isSNaN_sameKind m x hk).2]
    have hh : holds (.equalTo m) x = pyEq x m := holds_of_call _ _ _ (by simpa [PredK.call] using hc)
    simp only [equalsStep, hty, if_true, runProcs, hc, hh, decide_true, Bool.true_and]
    cases pyEq x m <;> simp [Out.verdict]
  · have hty' : ¬ m.ty = x.ty := fun h => hty h.symm
    simp [equalsStep, hty', hty, Out.verdict]

/-- the schema of `EqualsValidator(m)` is the schema of the scalar validator of `m`'s type with `EqualTo(m)` -/
theorem equals_schema_eq (pr : Printer) (vid pid : Nat) (m : PyVal) (t : String) (ht : typeName m.ty = some t) :
    toSchema pr none [] [] (.equals vid m [] pid) =
      toSchema pr none [] [] (.scalar vid m.ty none [] [⟨pid, .equalTo m⟩] []) := by
  simp only [toSchema, List.contains_nil, Bool.false_eq_true, if_false, baseSchema_frag m.ty t ht, bind, Except.bind,
    List.append_nil, predsSchema]
  cases hp : predSchema pr (.equalTo m) with
  | error e => rfl
  | ok po =>
    simp only
    obtain ⟨h1, _, _, _, _, _⟩ := predSchema_keys pr (.equalTo m) po hp
    have hfresh : ∀ p ∈ po, hasKey [(kw "type", J.str (kw t))] p.1 = false := by
      intro p hp'
      simp only [hasKey, List.any_cons, List.any_nil, Bool.or_false]
      apply Bool.eq_false_iff.2
      intro hh
      have : hasKey po (kw "type") = true := by
        simp only [hasKey, List.any_eq_true]
        exact ⟨p, hp', by rw [Bool.beq_comm]; exact hh⟩
      simp [this] at h1
    rw [jaddPred_noclash _ _ hfresh]

theorem holds_tuple_list (p : PredK) (oid : Nat) (xs : List PyVal) (h : predCheck p (.list oid xs) = true) :
    holds p (.tuple 0 xs) = holds p (.list oid xs) ∧ ∃ b, p.call (.tuple 0 xs) = .ok b := by
  cases p with
  | minItems n => exact ⟨rfl, _, rfl⟩
  | maxItems n => exact ⟨rfl, _, rfl⟩
  | uniqueItems =>
    have hs : snanInsideL xs = false := by simp [predCheck] at h; exact h.2
    exact ⟨by simp [holds, PredK.call, pyIter, hs], uniqueLoop xs [] [], by simp [PredK.call, pyIter, hs]⟩
  | equalTo v => cases v <;> simp [predCheck, SameKind, isNum] at h
  | choices vs => simp [predCheck, hashable] at h
  | min m e => simp [predCheck, isNum] at h
  | max m e => simp [predCheck, isNum] at h
  | startsWith q => cases q <;> simp [predCheck] at h
  | endsWith q => cases q <;> simp [predCheck] at h
  | _ => simp [predCheck] at h


theorem node_utuple_validator (o : Oracle) (env : Nat → V) (vid : Nat) (item : V) (ps : List Pred) (x : PyVal)
    (a : PyVal → Bool) (hjson : isJson x = true)
    (hok : isListV x = true → ∀ p ∈ ps, predCheck p.k x = true)
    (hitems : ∀ y ∈ listItems x, VDecides o env item y (a y)) :
    VDecides o env (.utuple vid item ps [] (some .dflt)) x
      (isListV x && ((listItems x).all a && ps.all (fun p => holds p.k x))) := by
  by_cases hl : isListV x = true
  · obtain ⟨oid, xs, rfl⟩ : ∃ oid xs, x = .list oid xs := by
      cases x <;> simp [isListV] at hl
      exact ⟨_, _, rfl⟩
    simp only [listItems] at hitems
    obtain ⟨N, hN⟩ := common_fuel_decided o env item a xs hitems
    have hnr : NoRaise ps (.tuple 0 xs) := fun p hp => (holds_tuple_list p.k oid xs (hok hl p hp)).2
    have hall : ps.all (fun p => holds p.k (.tuple 0 xs)) = ps.all (fun p => holds p.k (.list oid xs)) := by
      rw [Bool.eq_iff_iff]
      simp only [List.all_eq_true]
      constructor
      · intro h p hp
        rw [← (holds_tuple_list p.k oid xs (hok hl p hp)).1]
        exact h p hp
      · intro h p hp
        rw [(holds_tuple_list p.k oid xs (hok hl p hp)).1]
        exact h p hp
    obtain ⟨h1, h2⟩ := contPreds_spec .sync ps [] (.tuple 0 xs) hnr (by intro p hp; simp at hp)
    simp only [Mode.sync, reduceCtorEq, if_false, List.append_nil] at h1
    have hc : contPreds .sync ps [] (.tuple 0 xs) =
        (failing ps (.tuple 0 xs), (contPreds .sync ps [] (.tuple 0 xs)).2.1, none) := by
      ext <;> simp [h1, h2]
    have hg : gate o .tuple .list (some .dflt) (.list oid xs) = .acc (.tuple 0 xs) [] := by
      simp [gate, applyCoerce, defaultCoerce]
    by_cases hf : (failing ps (.tuple 0 xs)).isEmpty = true
    · have hpre : seqPre .utuple o .sync vid ps [] (some .dflt) (.list oid xs) =
          .inr (.tuple 0 xs, xs, [] ++ (contPreds .sync ps [] (.tuple 0 xs)).2.1) := by
        rw [C03_pre_iff]
        refine ⟨by simp, [], _, by simpa [SeqKind.gateTy, SeqKind.destTy] using hg, ?_, rfl, rfl⟩
        have : (failing ps (.tuple 0 xs)) = [] := by simpa using hf
        rw [hc, this]
      obtain ⟨r, hr, hrn, hre⟩ := loopItems_decided (run o env .sync N item) a xs 0 true (hN N (Nat.le_refl N))
      refine ⟨N + 1, finishSeq .utuple vid (.tuple 0 xs) r,
        ([] ++ (contPreds .sync ps [] (.tuple 0 xs)).2.1) ++ r.t, ?_, ?_⟩
      · simp only [run]
        rw [seqStep_inr hpre _ (by intro h; cases h), hr]
        rfl
      · simp only [finishSeq, hrn, isListV, listItems, Bool.true_and]
        rw [← hall, ← failing_nil_iff ps _ hnr, hf, ← hre]
        cases he : r.es.isEmpty <;> simp [he, Out.verdict]
    · have hf' : (failing ps (.tuple 0 xs)).isEmpty = false := by simpa using hf
      refine ⟨1, .invalid (.mk (.preds (failing ps (.tuple 0 xs))) (.tuple 0 xs) vid []),
        [] ++ (contPreds .sync ps [] (.tuple 0 xs)).2.1, ?_, ?_⟩
      · simp only [run, seqStep, seqPre, SeqKind.gateTy, SeqKind.destTy, hg]
        rw [hc]
        simp [hf']
      · simp only [Out.verdict, isListV, listItems, Bool.true_and]
        rw [← hall, ← failing_nil_iff ps _ hnr, hf']
        simp
  · have hl' : isListV x = false := by simpa using hl
    have hg : gate o .tuple .list (some .dflt) x = .rej (.coercion (defaultCompat .tuple) .list) [] := by
      cases x <;> simp [isListV, isJson] at hl' hjson <;> simp [gate, applyCoerce, defaultCoerce]
    refine ⟨1, .invalid (.mk (.coercion (defaultCompat .tuple) .list) x vid []), [], ?_, by simp [Out.verdict, hl']⟩
    simp [run, seqStep, seqPre, SeqKind.gateTy, SeqKind.destTy, hg]

/-! ### assembling the tree -/

/-- the schemas `js` of the variants `vs` decide, one by one, what the variants accept -/
def SchemasDecide (root : J) (ref : Option (List Nat)) : List V → List J → PyVal → Nat → Prop
  | [], [], _, _ => True
  | v :: vs, j :: js, x, N => DecidesAt root ref j N x (acc v x) ∧ SchemasDecide root ref vs js x N
  | _, _, _, _ => False

theorem SchemasDecide.mono {root : J} {ref : Option (List Nat)} : ∀ {vs : List V} {js : List J} {x : PyVal} {N M : Nat},
    SchemasDecide root ref vs js x N → N ≤ M → SchemasDecide root ref vs js x M
  | [], [], _, _, _, _, _ => trivial
  | _ :: _, _ :: _, _, _, _, h, hm => ⟨h.1.mono hm, h.2.mono hm⟩
  | [], _ :: _, _, _, _, h, _ => h.elim
  | _ :: _, [], _, _, _, h, _ => h.elim

theorem SchemasDecide.count {root : J} {ref : Option (List Nat)} (N : Nat) (x : PyVal) :
    ∀ (vs : List V) (js : List J), SchemasDecide root ref vs js x N →
      (∀ j ∈ js, DecidesAt root ref j N x (evalSchema root ref N j x == some true)) ∧
      js.countP (fun j => evalSchema root ref N j x == some true) = countAcc vs x
  | [], [], _ => ⟨fun j hj => by simp at hj, rfl⟩
  | v :: vs, j :: js, h => by
    obtain ⟨h1, h2⟩ := SchemasDecide.count N x vs js h.2
    have hj : (evalSchema root ref N j x == some true) = acc v x := by
      rw [h.1 N (Nat.le_refl N)]
      cases acc v x <;> rfl
    refine ⟨?_, ?_⟩
    · intro j' hj'
      rcases List.mem_cons.1 hj' with rfl | hj'
      · rw [hj]; exact h.1
      · exact h1 j' hj'
    · simp only [List.countP_cons, hj, countAcc, h2]
      cases acc v x <;> simp <;> omega
  | [], _ :: _, h => h.elim
  | _ :: _, [], h => h.elim

theorem accAny_eq_any (vs : List V) (x : PyVal) : accAny vs x = vs.any (fun v => acc v x) := by
  induction vs with
  | nil => rfl
  | cons v vs ih => simp [accAny, ih]

theorem countAcc_pos (vs : List V) (x : PyVal) : accAny vs x = decide (0 < countAcc vs x) := by
  induction vs with
  | nil => rfl
  | cons v vs ih =>
    simp only [accAny, countAcc, ih]
    by_cases ha : acc v x = true
    · simp [ha]; omega
    · have ha' : acc v x = false := by simpa using ha
      simp [ha']

theorem countAcc_one (vs : List V) (x : PyVal) (h : countAcc vs x ≤ 1) : (countAcc vs x == 1) = accAny vs x := by
  rw [countAcc_pos]
  have : countAcc vs x = 0 ∨ countAcc vs x = 1 := by omega
  rcases this with h0 | h0 <;> simp [h0]


/-- pointwise relation of two lists of equal length -/
inductive AllZip {α β : Type} (R : α → β → Prop) : List α → List β → Prop
  | nil : AllZip R [] []
  | cons {a b as bs} : R a b → AllZip R as bs → AllZip R (a :: as) (b :: bs)

/-- a property of every member (structural, so that it can be the list half of a mutual induction) -/
def AllP (P : V → Prop) : List V → Prop
  | [] => True
  | v :: vs => P v ∧ AllP P vs

theorem AllP.mem {P : V → Prop} : ∀ {vs : List V}, AllP P vs → ∀ v ∈ vs, P v
  | [], _, v, hv => by simp at hv
  | w :: ws, h, v, hv => by
    rcases List.mem_cons.1 hv with rfl | hv
    · exact h.1
    · exact AllP.mem h.2 v hv

/-- what the whole-tree theorem says of one tree -/
def TreeOK (pr : Printer) (o : Oracle) (env : Nat → V) (root : J) (v : V) : Prop :=
  ∀ (x : PyVal), isJson x = true → ok v x = true →
    VDecides o env v x (acc v x) ∧
    ∀ j, toSchema pr none [] [] v = .ok j → DecidesAt root none j (sfuel v) x (acc v x)

theorem toSchemaL_spec (pr : Printer) (ctx : RefCtx) (tvs nrs : List Nat) : ∀ (vs : List V) (js : List J),
    toSchemaL pr ctx tvs nrs vs = .ok js → AllZip (fun v j => toSchema pr ctx tvs nrs v = .ok j) vs js
  | [], js, h => by simp only [toSchemaL, Except.ok.injEq] at h; subst h; exact AllZip.nil
  | v :: vs, js, h => by
    simp only [toSchemaL] at h
    cases h1 : toSchema pr ctx tvs nrs v with
    | error e => simp [h1, bind, Except.bind] at h
    | ok j =>
      cases h2 : toSchemaL pr ctx tvs nrs vs with
      | error e => simp [h1, h2, bind, Except.bind] at h
      | ok js' =>
        simp only [h1, h2, bind, Except.bind, Except.ok.injEq] at h
        subst h
        exact AllZip.cons h1 (toSchemaL_spec pr ctx tvs nrs vs js' h2)

theorem sfuel_le_sfuelL (v : V) : ∀ (vs : List V), v ∈ vs → sfuel v ≤ sfuelL vs
  | [], h => by simp at h
  | w :: ws, h => by
    simp only [sfuelL]
    rcases List.mem_cons.1 h with rfl | h
    · omega
    · have := sfuel_le_sfuelL v ws h; omega

theorem okAll_mem : ∀ (vs : List V) (x : PyVal), okAll vs x = true → ∀ v ∈ vs, ok v x = true
  | [], _, _, v, hv => by simp at hv
  | w :: ws, x, h, v, hv => by
    simp only [okAll, Bool.and_eq_true] at h
    rcases List.mem_cons.1 hv with rfl | hv
    · exact h.1
    · exact okAll_mem ws x h.2 v hv

theorem SchemasDecide_of_members (pr : Printer) (root : J) : ∀ (vs : List V) (js : List J) (x : PyVal) {N : Nat},
    AllZip (fun v j => toSchema pr none [] [] v = .ok j) vs js →
    (∀ v ∈ vs, ∀ j, toSchema pr none [] [] v = .ok j → DecidesAt root none j N x (acc v x)) →
    SchemasDecide root none vs js x N
  | [], [], _, _, _, _ => trivial
  | v :: vs, j :: js, x, N, hf, h => by
    cases hf with
    | cons h1 h2 =>
      exact ⟨h v (by simp) j h1, SchemasDecide_of_members pr root vs js x h2 (fun w hw => h w (by simp [hw]))⟩
  | [], _ :: _, _, _, hf, _ => by cases hf
  | _ :: _, [], _, _, hf, _ => by cases hf


theorem AllZip.length {α β : Type} {R : α → β → Prop} : ∀ {as : List α} {bs : List β}, AllZip R as bs → as.length = bs.length
  | [], [], _ => rfl
  | _ :: _, _ :: _, .cons _ h => by simp [AllZip.length h]

theorem okZip_nil (fs : List V) : okZip fs [] = true := by cases fs <;> rfl

/-- the schemas of the fields decide, position by position, what the fields accept -/
theorem zip_decides (pr : Printer) (o : Oracle) (env : Nat → V) (root : J) (N : Nat) :
    ∀ (fs : List V) (items : List J) (ys : List PyVal),
      AllZip (fun v j => toSchema pr none [] [] v = .ok j) fs items → (∀ v ∈ fs, TreeOK pr o env root v) →
      okZip fs ys = true → (∀ y ∈ ys, isJson y = true) → sfuelL fs ≤ N →
      (∀ p ∈ items.zip ys, DecidesAt root none p.1 N p.2 (evalSchema root none N p.1 p.2 == some true)) ∧
      (items.zip ys).all (fun p => evalSchema root none N p.1 p.2 == some true) = accZip fs ys ∧
      (∀ p ∈ fs.zip ys, VDecides o env p.1 p.2 (acc p.1 p.2))
  | [], [], ys, _, _, _, _, _ => ⟨fun p hp => by simp at hp, by simp [accZip], fun p hp => by simp at hp⟩
  | v :: vs, j :: js, [], _, _, _, _, _ => ⟨fun p hp => by simp at hp, by simp [accZip], fun p hp => by simp at hp⟩
  | v :: vs, j :: js, y :: ys, .cons hj hrest, hmem, hok, hjs, hN => by
    simp only [okZip, Bool.and_eq_true] at hok
    simp only [sfuelL] at hN
    obtain ⟨h1, h2, h3⟩ := zip_decides pr o env root N vs js ys hrest (fun w hw => hmem w (by simp [hw])) hok.2
      (fun z hz => hjs z (by simp [hz])) (by omega)
    obtain ⟨hv, hs⟩ := hmem v (by simp) y (hjs y (by simp)) hok.1
    have hd : DecidesAt root none j N y (acc v y) := (hs j hj).mono (by omega)
    have hg : (evalSchema root none N j y == some true) = acc v y := by
      rw [hd N (Nat.le_refl N)]; cases acc v y <;> rfl
    refine ⟨?_, ?_, ?_⟩
    · intro p hp
      simp only [List.zip_cons_cons, List.mem_cons] at hp
      rcases hp with rfl | hp
      · simp only []; rw [hg]; exact hd
      · exact h1 p hp
    · simp only [List.zip_cons_cons, List.all_cons, accZip, hg, h2]
    · intro p hp
      simp only [List.zip_cons_cons, List.mem_cons] at hp
      rcases hp with rfl | hp
      · exact hv
      · exact h3 p hp


/-! ### records: schema side -/

theorem keyTexts_spec : ∀ (ks : List PyVal) (ts : List (List Nat)), keyTexts ks = some ts → ks = ts.map PyVal.str
  | [], ts, h => by simp [keyTexts] at h; subst h; rfl
  | .str s :: ks, ts, h => by
    simp only [keyTexts, Option.map_eq_some_iff] at h
    obtain ⟨ts', h1, rfl⟩ := h
    simp [keyTexts_spec ks ts' h1]
  | .none :: _, _, h => by simp [keyTexts] at h
  | .bool _ :: _, _, h => by simp [keyTexts] at h
  | .int _ :: _, _, h => by simp [keyTexts] at h
  | .float _ :: _, _, h => by simp [keyTexts] at h
  | .bytes _ :: _, _, h => by simp [keyTexts] at h
  | .decimal _ :: _, _, h => by simp [keyTexts] at h
  | .uuid _ :: _, _, h => by simp [keyTexts] at h
  | .date _ :: _, _, h => by simp [keyTexts] at h
  | .datetime _ _ :: _, _, h => by simp [keyTexts] at h
  | .list _ _ :: _, _, h => by simp [keyTexts] at h
  | .tuple _ _ :: _, _, h => by simp [keyTexts] at h
  | .set _ _ :: _, _, h => by simp [keyTexts] at h
  | .dict _ _ :: _, _, h => by simp [keyTexts] at h
  | .just _ _ :: _, _, h => by simp [keyTexts] at h
  | .nothing :: _, _, h => by simp [keyTexts] at h
  | .inst _ _ _ _ _ :: _, _, h => by simp [keyTexts] at h
  | .sub _ _ :: _, _, h => by simp [keyTexts] at h

theorem labelsText_strs (pr : Printer) : ∀ (ts : List (List Nat)), labelsText pr (ts.map PyVal.str) = some ts
  | [] => rfl
  | t :: ts => by simp [labelsText, labelText, labelsText_strs pr ts]

theorem hasKey_zip (ts : List (List Nat)) (js : List J) (t : List Nat) (h : ts.contains t = false) :
    hasKey (ts.zip js) t = false := by
  induction ts generalizing js with
  | nil => rfl
  | cons a as ih =>
    cases js with
    | nil => rfl
    | cons j js =>
      simp only [List.contains_cons, Bool.or_eq_false_iff] at h
      simp only [List.zip_cons_cons, hasKey, List.any_cons, Bool.or_eq_false_iff]
      refine ⟨?_, ih js h.2⟩
      have := h.1
      simpa [Bool.beq_comm] using this

theorem foldl_jset_nodup : ∀ (ts : List (List Nat)) (js : List J) (acc0 : JObj), textsNodup ts = true →
    (∀ t ∈ ts, hasKey acc0 t = false) →
    (ts.zip js).foldl (fun acc p => jset acc p.1 p.2) acc0 = acc0 ++ ts.zip js
  | [], _, acc0, _, _ => by simp
  | _ :: _, [], acc0, _, _ => by simp
  | t :: ts, j :: js, acc0, hn, hd => by
    simp only [textsNodup, Bool.and_eq_true, Bool.not_eq_true'] at hn
    simp only [List.zip_cons_cons, List.foldl_cons]
    rw [jset_absent acc0 t j (hd t (by simp))]
    rw [foldl_jset_nodup ts js (acc0 ++ [(t, j)]) hn.2 (by
      intro t' ht'
      rw [hasKey_append, hd t' (by simp [ht'])]
      simp only [hasKey, List.any_cons, List.any_nil, Bool.or_false, Bool.false_or]
      apply Bool.eq_false_iff.2
      intro hh
      have : t = t' := by simpa using hh
      subst this
      exact absurd ht' (by simpa using hn.1))]
    simp

theorem insertText_all (f : List Nat → Bool) (x : List Nat) : ∀ (l : List (List Nat)),
    (insertText x l).all f = (f x && l.all f)
  | [] => by simp [insertText]
  | y :: ys => by
    simp only [insertText]
    split
    · simp
    · simp only [List.all_cons, insertText_all f x ys]
      cases f x <;> cases f y <;> simp

theorem sortTexts_all (f : List Nat → Bool) : ∀ (l : List (List Nat)), (sortTexts l).all f = l.all f
  | [] => rfl
  | x :: xs => by
    have := sortTexts_all f xs
    simp only [sortTexts, List.foldr_cons] at this ⊢
    rw [insertText_all, this]
    simp

theorem dictHas_get (kvs : List (PyVal × PyVal)) (k : PyVal) : dictHas kvs k = (dictGet kvs k).isSome := by
  induction kvs with
  | nil => rfl
  | cons p ps ih =>
    obtain ⟨k', v'⟩ := p
    simp only [dictHas, List.any_cons, dictGet] at ih ⊢
    by_cases h : pyEq k' k = true
    · simp [h]
    · have h' : pyEq k' k = false := by simpa using h
      simp [h', ih]

theorem dictGet_mem : ∀ (kvs : List (PyVal × PyVal)) (k v : PyVal), dictGet kvs k = some v → ∃ p ∈ kvs, p.2 = v
  | [], _, _, h => by simp [dictGet] at h
  | (k', v') :: rest, k, v, h => by
    simp only [dictGet] at h
    split at h
    · cases h; exact ⟨(k', v'), by simp, rfl⟩
    · obtain ⟨p, hp, hv⟩ := dictGet_mem rest k v h
      exact ⟨p, by simp [hp], hv⟩

theorem isJson_dict (oid : Nat) (kvs : List (PyVal × PyVal)) (h : isJson (.dict oid kvs) = true) :
    (∀ p ∈ kvs, ∃ nm, p.1 = .str nm) ∧ ∀ p ∈ kvs, isJson p.2 = true := by
  simp only [isJson] at h
  induction kvs with
  | nil => exact ⟨fun p hp => by simp at hp, fun p hp => by simp at hp⟩
  | cons q qs ih =>
    obtain ⟨k, v⟩ := q
    simp only [isJsonO, Bool.and_eq_true] at h
    obtain ⟨⟨hk, hv⟩, hr⟩ := h
    obtain ⟨h1, h2⟩ := ih hr
    refine ⟨?_, ?_⟩
    · intro p hp
      rcases List.mem_cons.1 hp with rfl | hp
      · cases k <;> simp at hk; exact ⟨_, rfl⟩
      · exact h1 p hp
    · intro p hp
      rcases List.mem_cons.1 hp with rfl | hp
      · exact hv
      · exact h2 p hp

theorem memL_strs (nm : List Nat) : ∀ (ts : List (List Nat)), memL (.str nm) (ts.map PyVal.str) = ts.contains nm
  | [] => rfl
  | t :: ts => by
    have := memL_strs nm ts
    simp only [memL, List.map_cons, List.any_cons, List.contains_cons] at this ⊢
    rw [this]
    simp [pyEq, PyVal.unsub, Bool.beq_comm]

/-- the field schemas agree with the field validators on the values found under their keys -/
def FieldsAgree (g : J → PyVal → Bool) (kvs : List (PyVal × PyVal)) : List (List Nat) → List V → List J → Prop
  | t :: ts, v :: vs, j :: js =>
    (∀ val, dictGet kvs (.str t) = some val → g j val = acc v val) ∧ FieldsAgree g kvs ts vs js
  | _, _, _ => True

theorem fields_formula (g : J → PyVal → Bool) (kvs : List (PyVal × PyVal)) :
    ∀ (ts : List (List Nat)) (rs : List Bool) (vs : List V) (js : List J),
      ts.length = vs.length → rs.length = vs.length → js.length = vs.length → FieldsAgree g kvs ts vs js →
      ((((ts.zip rs).filter (·.2)).map (·.1)).all (fun nm => dictHas kvs (.str nm)) &&
        (ts.zip js).all (propOk g kvs)) =
      accFields (ts.map PyVal.str) rs vs kvs
  | [], [], [], [], _, _, _, _ => rfl
  | t :: ts, r :: rs, v :: vs, j :: js, h1, h2, h3, ha => by
    have ih := fields_formula g kvs ts rs vs js (by simpa using h1) (by simpa using h2) (by simpa using h3) ha.2
    simp only [List.map_cons, accFields, ← ih, List.zip_cons_cons, List.all_cons, propOk]
    cases hg : dictGet kvs (.str t) with
    | none =>
      cases r
      · simp [List.filter, hg]
      · simp [List.filter, dictHas_get, hg]
    | some val =>
      have := ha.1 val hg
      cases r
      · simp only [List.filter, this]
        cases acc v val <;> simp
      · simp only [List.filter, List.map_cons, List.all_cons, dictHas_get, hg, Option.isSome_some, Bool.true_and, this]
        cases acc v val <;> simp
  | [], _ :: _, _, _, _, h2, _, _ => by cases ‹List V› <;> simp at *
  | _ :: _, [], _, _, h1, h2, _, _ => by cases ‹List V› <;> simp at *
  | [], [], _ :: _, _, h1, _, _, _ => by simp at h1
  | [], [], [], _ :: _, _, _, h3, _ => by simp at h3
  | _ :: _, _ :: _, [], _, h1, _, _, _ => by simp at h1
  | _ :: _, _ :: _, _ :: _, [], _, _, h3, _ => by simp at h3


theorem all_congr_mem {α : Type} (f g : α → Bool) : ∀ (l : List α), (∀ a ∈ l, f a = g a) → l.all f = l.all g
  | [], _ => rfl
  | a :: as, h => by
    simp only [List.all_cons, h a (by simp), all_congr_mem f g as (fun b hb => h b (by simp [hb]))]

theorem zip_map_fst {α β : Type} : ∀ (as : List α) (bs : List β), as.length = bs.length → (as.zip bs).map (·.1) = as
  | [], [], _ => rfl
  | a :: as, b :: bs, h => by simp [zip_map_fst as bs (by simpa using h)]
  | [], _ :: _, h => by simp at h
  | _ :: _, [], h => by simp at h

/-- from the members' `TreeOK`: agreement of field schemas and field validators on the values found
    under their keys, decidedness of the field schemas there, decidedness of the field validators there -/
theorem fields_decide (pr : Printer) (o : Oracle) (env : Nat → V) (root : J) (N : Nat) (kvs : List (PyVal × PyVal))
    (hjv : ∀ p ∈ kvs, isJson p.2 = true) :
    ∀ (ts : List (List Nat)) (vs : List V) (js : List J),
      AllZip (fun v j => toSchema pr none [] [] v = .ok j) vs js → (∀ v ∈ vs, TreeOK pr o env root v) →
      okFields (ts.map PyVal.str) vs kvs = true → sfuelL vs ≤ N →
      FieldsAgree (fun j y => evalSchema root none N j y == some true) kvs ts vs js ∧
      (∀ p ∈ ts.zip js, ∀ val, dictGet kvs (.str p.1) = some val →
        DecidesAt root none p.2 N val (evalSchema root none N p.2 val == some true)) ∧
      (∀ p ∈ (ts.map PyVal.str).zip vs, ∀ xv, dictGet kvs p.1 = some xv → VDecides o env p.2 xv (acc p.2 xv))
  | [], vs, js, _, _, _, _ => ⟨by cases vs <;> cases js <;> simp [FieldsAgree], fun p hp => by simp at hp, fun p hp => by simp at hp⟩
  | t :: ts, [], [], _, _, _, _ => ⟨by simp [FieldsAgree], fun p hp => by simp at hp, fun p hp => by simp at hp⟩
  | t :: ts, v :: vs, j :: js, .cons hj hrest, hmem, hok, hN => by
    simp only [List.map_cons, okFields, Bool.and_eq_true] at hok
    simp only [sfuelL] at hN
    obtain ⟨h1, h2, h3⟩ := fields_decide pr o env root N kvs hjv ts vs js hrest (fun w hw => hmem w (by simp [hw])) hok.2 (by omega)
    have hval : ∀ val, dictGet kvs (.str t) = some val →
        VDecides o env v val (acc v val) ∧ DecidesAt root none j N val (acc v val) := by
      intro val hg
      obtain ⟨p, hp, hpv⟩ := dictGet_mem kvs _ _ hg
      have hjs : isJson val = true := by rw [← hpv]; exact hjv p hp
      have hokv : ok v val = true := by simpa [hg] using hok.1
      obtain ⟨hv, hs⟩ := hmem v (by simp) val hjs hokv
      exact ⟨hv, (hs j hj).mono (by omega)⟩
    have hgv : ∀ val, dictGet kvs (.str t) = some val → (evalSchema root none N j val == some true) = acc v val := by
      intro val hg
      rw [(hval val hg).2 N (Nat.le_refl N)]
      cases acc v val <;> rfl
    refine ⟨⟨hgv, h1⟩, ?_, ?_⟩
    · intro p hp val hg
      simp only [List.zip_cons_cons, List.mem_cons] at hp
      rcases hp with rfl | hp
      · simp only [] at hg ⊢
        rw [hgv val hg]
        exact (hval val hg).2
      · exact h2 p hp val hg
    · intro p hp xv hg
      simp only [List.map_cons, List.zip_cons_cons, List.mem_cons] at hp
      rcases hp with rfl | hp
      · exact (hval xv hg).1
      · exact h3 p hp xv hg

mutual
/-- **C11 for whole trees, partial**: for every tree of the fragment (any depth, any width), every JSON
    value `x` and under the side conditions `ok v x`, the validator terminates with verdict `acc v x`, and
    the generated schema, from fuel `sfuel v` on, evaluates to `acc v x` as well — so the schema accepts
    `x` iff the validator does.  (`_partial`: `ok` contains the agreement conditions that the code
    violates in findings D13, D14, D15; maps, records, tuples and named recursion are not covered.) -/
theorem C11_tree_partial (pr : Printer) (o : Oracle) (env : Nat → V) (root : J) :
    ∀ (v : V), frag v = true → TreeOK pr o env root v
  | .scalar vid tg c pre ps aps, hf, x, _, hok => by
    simp only [frag, Bool.and_eq_true, Option.isSome_iff_exists, Option.isNone_iff_eq_none, List.isEmpty_iff] at hf
    obtain ⟨⟨⟨⟨t, ht⟩, rfl⟩, rfl⟩, rfl⟩ := hf
    have hchk : x.ty = tg → ∀ p ∈ ps, predCheck p.k x = true := by
      intro hty p hp
      simp only [ok, hty, decide_true, Bool.not_true, Bool.false_or, List.all_eq_true] at hok
      exact hok p hp
    refine ⟨node_scalar_validator o env vid tg ps x hchk, ?_⟩
    intro j hj
    exact C11_scalar_schema pr root none none [] vid tg t ht none [] ps j hj x
      (fun hty p hp => predCheck_PredOK pr root none p.k x (hchk hty p hp))
  | .list vid item ps aps c, hf, x, hx, hok => by
    simp only [frag, Bool.and_eq_true, Option.isNone_iff_eq_none, List.isEmpty_iff] at hf
    obtain ⟨⟨rfl, rfl⟩, hfi⟩ := hf
    have hchk : isListV x = true → (∀ p ∈ ps, predCheck p.k x = true) ∧ ∀ y ∈ listItems x, ok item y = true := by
      intro hl
      simp only [ok, hl, Bool.not_true, Bool.false_or, Bool.and_eq_true, List.all_eq_true] at hok
      exact hok
    have hjson : ∀ y ∈ listItems x, isJson y = true := by
      intro y hy
      cases x <;> simp [listItems] at hy
      rename_i oid xs
      exact isJson_items oid xs hx y hy
    have hkids : ∀ y ∈ listItems x, VDecides o env item y (acc item y) ∧
        ∀ j, toSchema pr none [] [] item = .ok j → DecidesAt root none j (sfuel item) y (acc item y) := by
      intro y hy
      have hl : isListV x = true := by cases x <;> simp [listItems] at hy <;> rfl
      exact C11_tree_partial pr o env root item hfi y (hjson y hy) ((hchk hl).2 y hy)
    refine ⟨?_, ?_⟩
    · have := node_list_validator o env vid item ps x (fun y => acc item y) (fun hl => (hchk hl).1)
        (fun y hy => (hkids y hy).1)
      simpa [acc] using this
    · intro j hj
      simp only [toSchema] at hj
      cases hi : toSchema pr none [] [] item with
      | error e => simp [hi, bind, Except.bind] at hj
      | ok it =>
        rw [List.append_nil] at hj
        cases hp : predsSchema pr [(kw "type", .str (kw "array")), (kw "items", it)] ps with
        | error e => simp [hi, hp, bind, Except.bind] at hj
        | ok ob =>
          simp only [hi, hp, bind, Except.bind, Except.ok.injEq] at hj
          subst hj
          have := C11_list_schema pr root none it ps ob hp x (fun y => acc item y) (sfuel item)
            (fun y hy => (hkids y hy).2 it hi)
            (fun hl p hpm => predCheck_PredOK pr root none p.k x ((hchk hl).1 p hpm))
          simpa [acc, sfuel] using this
  | .union vid vs, hf, x, hx, hok => by
    simp only [frag] at hf
    simp only [ok, Bool.and_eq_true, decide_eq_true_eq] at hok
    obtain ⟨hall, hone⟩ := hok
    have hmem : ∀ v ∈ vs, TreeOK pr o env root v := (C11_tree_partialL pr o env root vs hf).mem
    have hokv : ∀ v ∈ vs, ok v x = true := okAll_mem vs x hall
    refine ⟨?_, ?_⟩
    · have := node_union_validator o env vid vs x (fun v => acc v x) (fun v hv => (hmem v hv x hx (hokv v hv)).1)
      simpa [acc, accAny_eq_any] using this
    · intro j hj
      simp only [toSchema] at hj
      cases hi : toSchemaL pr none [] [] vs with
      | error e => simp [hi, bind, Except.bind] at hj
      | ok js =>
        simp only [hi, bind, Except.bind, Except.ok.injEq] at hj
        subst hj
        have hsd : SchemasDecide root none vs js x (sfuelL vs) :=
          SchemasDecide_of_members pr root vs js x (toSchemaL_spec pr none [] [] vs js hi)
            (fun v hv j hj => ((hmem v hv x hx (hokv v hv)).2 j hj).mono (sfuel_le_sfuelL v vs hv))
        obtain ⟨hg, hc⟩ := SchemasDecide.count (sfuelL vs) x vs js hsd
        have := C11_union_schema root none js _ (sfuelL vs) x hg
        rw [hc, countAcc_one vs x hone] at this
        simpa [acc, sfuel] using this
  | .optional vid nv inner, hf, x, hx, hok => by
    simp only [frag, Bool.and_eq_true] at hf
    obtain ⟨hnv, hfi⟩ := hf
    obtain ⟨nvid, rfl⟩ : ∃ nvid, nv = .noneV nvid none := by
      cases nv <;> simp [isDefaultNone] at hnv
      rename_i a c
      cases c <;> simp [isDefaultNone] at hnv
      exact ⟨a, rfl⟩
    by_cases hn : isNoneV x = true
    · -- `None`: accepted by both sides whatever the inner validator says
      refine ⟨?_, ?_⟩
      · have hx0 : x = .none := by cases x <;> simp [isNoneV] at hn; rfl
        subst hx0
        refine ⟨2, .valid .none, [], ?_, by simp [Out.verdict, acc, isNoneV]⟩
        rw [C05_optional_run]
        simp [unionStep, unionLoop, run, noneStep]
      · intro j hj
        simp only [toSchema] at hj
        cases hi : toSchema pr none [] [] inner with
        | error e => simp [hi, bind, Except.bind] at hj
        | ok it =>
          simp only [hi, bind, Except.bind] at hj
          cases it with
          | obj ob =>
            simp only [Except.ok.injEq] at hj
            subst hj
            have := C11_optional_schema root none ob (sfuel inner) x false (fun h => by simp [hn] at h)
            simpa [acc, sfuel, hn] using this
          | _ => simp at hj
    · have hn' : isNoneV x = false := by simpa using hn
      have hoki : ok inner x = true := by simpa [ok, hn'] using hok
      obtain ⟨hv, hs⟩ := C11_tree_partial pr o env root inner hfi x hx hoki
      refine ⟨?_, ?_⟩
      · have := node_optional_validator o env vid nvid inner x _ hv
        simpa [acc] using this
      · intro j hj
        simp only [toSchema] at hj
        cases hi : toSchema pr none [] [] inner with
        | error e => simp [hi, bind, Except.bind] at hj
        | ok it =>
          simp only [hi, bind, Except.bind] at hj
          cases it with
          | obj ob =>
            simp only [Except.ok.injEq] at hj
            subst hj
            have := C11_optional_schema root none ob (sfuel inner) x (acc inner x) (fun _ => hs _ hi)
            simpa [acc, sfuel] using this
          | _ => simp at hj
  | .equals vid m pre pid, hf, x, _, _ => by
    simp only [frag, Bool.and_eq_true, List.isEmpty_iff, Option.isSome_iff_exists] at hf
    obtain ⟨rfl, t, ht⟩ := hf
    refine ⟨by simpa [acc] using node_equals_validator o env vid pid m x t ht, ?_⟩
    intro j hj
    rw [equals_schema_eq pr vid pid m t ht] at hj
    have := C11_scalar_schema pr root none none [] vid m.ty t ht none [] [⟨pid, .equalTo m⟩] j hj x
      (fun hty p hp => by
        simp only [List.mem_cons, List.mem_nil_iff, or_false] at hp
        subst hp
        exact PredOK_equalTo pr root none m x (sameKind_of_ty m x t ht hty))
    simpa [acc, sfuel, DecidesAt] using this
  | .noneV .., hf, _, _, _ => by simp [frag] at hf
  | .always _, hf, _, _, _ => by simp [frag] at hf
  | .isDict _, hf, _, _, _ => by simp [frag] at hf
  | .set .., hf, _, _, _ => by simp [frag] at hf
  | .utuple vid item ps aps c, hf, x, hx, hok => by
    simp only [frag, Bool.and_eq_true, List.isEmpty_iff] at hf
    obtain ⟨⟨hc, rfl⟩, hfi⟩ := hf
    obtain rfl : c = some .dflt := by
      cases c with
      | none => simp [isDfltCoerce] at hc
      | some k => cases k <;> simp [isDfltCoerce] at hc; rfl
    have hchk : isListV x = true → (∀ p ∈ ps, predCheck p.k x = true) ∧ ∀ y ∈ listItems x, ok item y = true := by
      intro hl
      simp only [ok, hl, Bool.not_true, Bool.false_or, Bool.and_eq_true, List.all_eq_true] at hok
      exact hok
    have hjson : ∀ y ∈ listItems x, isJson y = true := by
      intro y hy
      cases x <;> simp [listItems] at hy
      rename_i oid xs
      exact isJson_items oid xs hx y hy
    have hkids : ∀ y ∈ listItems x, VDecides o env item y (acc item y) ∧
        ∀ j, toSchema pr none [] [] item = .ok j → DecidesAt root none j (sfuel item) y (acc item y) := by
      intro y hy
      have hl : isListV x = true := by cases x <;> simp [listItems] at hy <;> rfl
      exact C11_tree_partial pr o env root item hfi y (hjson y hy) ((hchk hl).2 y hy)
    refine ⟨?_, ?_⟩
    · have := node_utuple_validator o env vid item ps x (fun y => acc item y) hx (fun hl => (hchk hl).1)
        (fun y hy => (hkids y hy).1)
      simpa [acc] using this
    · intro j hj
      simp only [toSchema] at hj
      cases hi : toSchema pr none [] [] item with
      | error e => simp [hi, bind, Except.bind] at hj
      | ok it =>
        rw [List.append_nil] at hj
        cases hp : predsSchema pr [(kw "type", .str (kw "array")), (kw "items", it)] ps with
        | error e => simp [hi, hp, bind, Except.bind] at hj
        | ok ob =>
          simp only [hi, hp, bind, Except.bind, Except.ok.injEq] at hj
          subst hj
          have := C11_list_schema pr root none it ps ob hp x (fun y => acc item y) (sfuel item)
            (fun y hy => (hkids y hy).2 it hi)
            (fun hl p hpm => predCheck_PredOK pr root none p.k x ((hchk hl).1 p hpm))
          simpa [acc, sfuel] using this
  | .ntuple vid fs oc c lp, hf, x, hx, hok => by
    simp only [frag, Bool.and_eq_true, Option.isNone_iff_eq_none] at hf
    obtain ⟨⟨rfl, hc⟩, hfl⟩ := hf
    obtain rfl : c = some .dflt := by
      cases c with
      | none => simp [isDfltCoerce] at hc
      | some k => cases k <;> simp [isDfltCoerce] at hc; rfl
    have hmem : ∀ v ∈ fs, TreeOK pr o env root v := (C11_tree_partialL pr o env root fs hfl).mem
    have hokz : okZip fs (listItems x) = true := by
      by_cases hl : isListV x = true
      · simpa [ok, hl] using hok
      · have : listItems x = [] := by cases x <;> simp [isListV] at hl <;> rfl
        rw [this]; exact okZip_nil fs
    have hjs : ∀ y ∈ listItems x, isJson y = true := by
      intro y hy
      cases x <;> simp [listItems] at hy
      rename_i oid xs
      exact isJson_items oid xs hx y hy
    refine ⟨?_, ?_⟩
    · -- validator side needs the children decided; take them from `zip_decides` once schemas exist, or directly
      have hkids : ∀ p ∈ fs.zip (listItems x), VDecides o env p.1 p.2 (acc p.1 p.2) := by
        have : ∀ (fs' : List V) (ys : List PyVal), (∀ v ∈ fs', TreeOK pr o env root v) → okZip fs' ys = true →
            (∀ y ∈ ys, isJson y = true) → ∀ p ∈ fs'.zip ys, VDecides o env p.1 p.2 (acc p.1 p.2) := by
          intro fs'
          induction fs' with
          | nil => intro ys _ _ _ p hp; simp at hp
          | cons v vs ih =>
            intro ys hm hz hj p hp
            cases ys with
            | nil => simp at hp
            | cons y ys =>
              simp only [okZip, Bool.and_eq_true] at hz
              simp only [List.zip_cons_cons, List.mem_cons] at hp
              rcases hp with rfl | hp
              · exact (hm v (by simp) y (hj y (by simp)) hz.1).1
              · exact ih ys (fun w hw => hm w (by simp [hw])) hz.2 (fun z hz' => hj z (by simp [hz'])) p hp
        exact this fs (listItems x) hmem hokz hjs
      have := node_ntuple_validator o env vid lp fs x hx hkids
      simpa [acc] using this
    · intro j hj
      simp only [toSchema] at hj
      cases hi : toSchemaL pr none [] [] fs with
      | error e => simp [hi, bind, Except.bind] at hj
      | ok items =>
        simp only [hi, bind, Except.bind, Except.ok.injEq] at hj
        subst hj
        have hz := toSchemaL_spec pr none [] [] fs items hi
        have hlen : fs.length = items.length := hz.length
        obtain ⟨h1, h2, _⟩ := zip_decides pr o env root (sfuelL fs) fs items (listItems x) hz hmem hokz hjs (Nat.le_refl _)
        have := C11_ntuple_schema root none items (fun j y => evalSchema root none (sfuelL fs) j y == some true)
          (sfuelL fs) x h1
        rw [h2, ← hlen] at this
        simpa [acc, sfuel, ntupleObj, hlen] using this
  | .map vid kv vv ps aps c, hf, x, hx, hok => by
    simp only [frag, Bool.and_eq_true, Option.isNone_iff_eq_none, List.isEmpty_iff] at hf
    obtain ⟨⟨⟨rfl, rfl⟩, hkv⟩, hfv⟩ := hf
    have hjd : (∀ p ∈ dictKvs x, ∃ nm, p.1 = .str nm) ∧ ∀ p ∈ dictKvs x, isJson p.2 = true := by
      cases x with
      | dict oid kvs => exact isJson_dict oid kvs hx
      | _ => exact ⟨fun p hp => by simp [dictKvs] at hp, fun p hp => by simp [dictKvs] at hp⟩
    have hchk : isDictV x = true → (∀ p ∈ ps, predCheck p.k x = true) ∧ ∀ p ∈ dictKvs x, ok vv p.2 = true := by
      intro hd
      simp only [ok, hd, Bool.not_true, Bool.false_or, Bool.and_eq_true, List.all_eq_true] at hok
      exact hok
    have hkids : ∀ p ∈ dictKvs x, VDecides o env vv p.2 (acc vv p.2) ∧
        ∀ j, toSchema pr none [] [] vv = .ok j → DecidesAt root none j (sfuel vv) p.2 (acc vv p.2) := by
      intro p hp
      have hd : isDictV x = true := by cases x <;> simp [dictKvs] at hp <;> rfl
      exact C11_tree_partial pr o env root vv hfv p.2 (hjd.2 p hp) ((hchk hd).2 p hp)
    refine ⟨?_, ?_⟩
    · have := node_map_validator o env vid kv vv ps x (fun y => acc vv y) hkv hjd.1 (fun hd => (hchk hd).1)
        (fun p hp => (hkids p hp).1)
      simpa [acc] using this
    · intro j hj
      simp only [toSchema] at hj
      cases hi : toSchema pr none [] [] vv with
      | error e => simp [hi, bind, Except.bind] at hj
      | ok it =>
        rw [List.append_nil] at hj
        cases hp : predsSchema pr [(kw "type", .str (kw "object")), (kw "additionalProperties", it)] ps with
        | error e => simp [hi, hp, bind, Except.bind] at hj
        | ok ob =>
          simp only [hi, hp, bind, Except.bind, Except.ok.injEq] at hj
          subst hj
          have := C11_map_schema pr root none it ps ob hp x (fun y => acc vv y) (sfuel vv) hjd.1
            (fun p hpm => (hkids p hpm).2 it hi)
            (fun hd p hpm => predCheck_PredOK pr root none p.k x ((hchk hd).1 p hpm))
          simpa [acc, sfuel] using this
  | .record vid cfg vs, hf, x, hx, hok => by
    simp only [frag, Bool.and_eq_true] at hf
    obtain ⟨hcfg, hfl⟩ := hf
    simp only [recCfgOK, Bool.and_eq_true, Option.isNone_iff_eq_none, beq_iff_eq] at hcfg
    obtain ⟨⟨⟨⟨⟨hoc, haoc⟩, hco⟩, hkeys⟩, hlk⟩, hlr⟩ := hcfg
    cases hkt : keyTexts cfg.keys with
    | none => simp [hkt] at hkeys
    | some ts =>
      have hnd : textsNodup ts = true := by simpa [hkt] using hkeys
      have hks : cfg.keys = ts.map PyVal.str := keyTexts_spec _ _ hkt
      have hlt : ts.length = vs.length := by rw [← hlk, hks]; simp
      have hmem : ∀ v ∈ vs, TreeOK pr o env root v := (C11_tree_partialL pr o env root vs hfl).mem
      have hjd : (∀ p ∈ dictKvs x, ∃ nm, p.1 = .str nm) ∧ ∀ p ∈ dictKvs x, isJson p.2 = true := by
        cases x with
        | dict oid kvs => exact isJson_dict oid kvs hx
        | _ => exact ⟨fun p hp => by simp [dictKvs] at hp, fun p hp => by simp [dictKvs] at hp⟩
      have hokf : okFields (ts.map PyVal.str) vs (dictKvs x) = true := by simpa [ok, hks] using hok
      refine ⟨?_, ?_⟩
      · -- validator side: the children are decided wherever their key is present
        have hkids : ∀ p ∈ cfg.keys.zip vs, ∀ xv, dictGet (dictKvs x) p.1 = some xv → VDecides o env p.2 xv (acc p.2 xv) := by
          -- no schema needed here: re-derive from `TreeOK` directly
          have : ∀ (ts' : List (List Nat)) (vs' : List V), (∀ v ∈ vs', TreeOK pr o env root v) →
              okFields (ts'.map PyVal.str) vs' (dictKvs x) = true →
              ∀ p ∈ (ts'.map PyVal.str).zip vs', ∀ xv, dictGet (dictKvs x) p.1 = some xv →
                VDecides o env p.2 xv (acc p.2 xv) := by
            intro ts'
            induction ts' with
            | nil => intro vs' _ _ p hp; simp at hp
            | cons t ts' ih =>
              intro vs' hm hz p hp xv hg
              cases vs' with
              | nil => simp at hp
              | cons v vs' =>
                simp only [List.map_cons, okFields, Bool.and_eq_true] at hz
                simp only [List.map_cons, List.zip_cons_cons, List.mem_cons] at hp
                rcases hp with rfl | hp
                · obtain ⟨q, hq, hqv⟩ := dictGet_mem _ _ _ hg
                  have hjs : isJson xv = true := by rw [← hqv]; exact hjd.2 q hq
                  have hokv : ok v xv = true := by simpa [hg] using hz.1
                  exact (hm v (by simp) xv hjs hokv).1
                · exact ih vs' (fun w hw => hm w (by simp [hw])) hz.2 p hp xv hg
          rw [hks]
          exact this ts vs hmem hokf
        have := node_record_validator o env vid cfg vs x hx hoc haoc hco hkids
        simpa [acc] using this
      · intro j hj
        simp only [toSchema] at hj
        cases hi : toSchemaL pr none [] [] vs with
        | error e => simp [hi, bind, Except.bind] at hj
        | ok js =>
          have hz := toSchemaL_spec pr none [] [] vs js hi
          have hlj : js.length = vs.length := hz.length.symm
          simp only [hi, bind, Except.bind, hks, labelsText_strs] at hj
          rw [foldl_jset_nodup ts js [] hnd (fun t _ => rfl)] at hj
          simp only [List.nil_append, Except.ok.injEq] at hj
          subst hj
          obtain ⟨hag, hprops, _⟩ := fields_decide pr o env root (max (sfuelL vs) 1) (dictKvs x) hjd.2 ts vs js hz hmem hokf
            (Nat.le_max_left _ _)
          have hrec := C11_record_schema root none cfg.failUnknown
            (if cfg.kind = .typeddict then sortTexts (((ts.zip cfg.reqs).filter (·.2)).map (·.1))
             else ((ts.zip cfg.reqs).filter (·.2)).map (·.1))
            (ts.zip js) (fun j y => evalSchema root none (max (sfuelL vs) 1) j y == some true)
            (max (sfuelL vs) 1) (Nat.le_max_right _ _) x hjd.1 hprops
          -- rewrite the decided formula into `acc`
          have hfst : (ts.zip js).map (·.1) = ts := zip_map_fst ts js (by omega)
          have hknown : (dictKvs x).all (knownOrAllowed ((ts.zip js).map (·.1)) cfg.failUnknown) =
              (dictKvs x).all (fun p => memL p.1 cfg.keys || !cfg.failUnknown) := by
            apply all_congr_mem
            intro p hp
            obtain ⟨nm, hnm⟩ := hjd.1 p hp
            simp only [knownOrAllowed, hnm, keyText, hfst, hks, memL_strs]
          have hreq : (if cfg.kind = .typeddict then sortTexts (((ts.zip cfg.reqs).filter (·.2)).map (·.1))
              else ((ts.zip cfg.reqs).filter (·.2)).map (·.1)).all (fun nm => dictHas (dictKvs x) (.str nm)) =
              (((ts.zip cfg.reqs).filter (·.2)).map (·.1)).all (fun nm => dictHas (dictKvs x) (.str nm)) := by
            split
            · exact sortTexts_all _ _
            · rfl
          have hfields := fields_formula (fun j y => evalSchema root none (max (sfuelL vs) 1) j y == some true)
            (dictKvs x) ts cfg.reqs vs js hlt hlr hlj hag
          rw [hknown, hreq, hfields, ← hks] at hrec
          simpa [acc, sfuel, recordObj] using hrec
  | .maybe .., hf, _, _, _ => by simp [frag] at hf
  | .lazy .., hf, _, _, _ => by simp [frag] at hf
  | .knr vid inner, hf, x, hx, hok => by
    simp only [frag] at hf
    have hoki : ok inner x = true := by simpa [ok] using hok
    obtain ⟨hv, hs⟩ := C11_tree_partial pr o env root inner hf x hx hoki
    refine ⟨by simpa [acc] using node_knr_validator o env vid inner x _ hv, ?_⟩
    intro j hj
    simp only [toSchema] at hj
    simpa [acc, sfuel] using hs j hj
  | .user .., hf, _, _, _ => by simp [frag] at hf
theorem C11_tree_partialL (pr : Printer) (o : Oracle) (env : Nat → V) (root : J) :
    ∀ (vs : List V), fragL vs = true → AllP (TreeOK pr o env root) vs
  | [], _ => trivial
  | w :: ws, hf => by
    simp only [fragL, Bool.and_eq_true] at hf
    exact ⟨C11_tree_partial pr o env root w hf.1, C11_tree_partialL pr o env root ws hf.2⟩
end

/-- the headline: on the fragment and under `ok`, **schema accepts ⇔ validator accepts** -/
theorem C11_iff_partial (pr : Printer) (o : Oracle) (env : Nat → V) (root : J) (v : V) (hf : frag v = true)
    (x : PyVal) (hx : isJson x = true) (hok : ok v x = true) (j : J) (hj : toSchema pr none [] [] v = .ok j) :
    (∀ n, sfuel v ≤ n → evalSchema root none n j x = some true) ↔
      ∃ n w t, run o env .sync n v x = some (.valid w, t) := by
  obtain ⟨⟨n, out, t, hr, hv⟩, hs⟩ := C11_tree_partial pr o env root v hf x hx hok
  have hs' := hs j hj
  constructor
  · intro h
    have h1 := h (sfuel v) (Nat.le_refl _)
    rw [hs' (sfuel v) (Nat.le_refl _)] at h1
    have hacc : acc v x = true := by simpa using h1
    rw [hacc] at hv
    cases out with
    | valid w => exact ⟨n, w, t, hr⟩
    | invalid e => simp [Out.verdict] at hv
    | raised e => simp [Out.verdict] at hv
  · rintro ⟨n', w, t', hr'⟩
    have : acc v x = true := by
      have h1 := run_mono_le o env .sync (Nat.le_max_left n n') v x _ hr
      have h2 := run_mono_le o env .sync (Nat.le_max_right n n') v x _ hr'
      rw [h1] at h2
      simp only [Option.some.injEq, Prod.mk.injEq] at h2
      rw [h2.1] at hv
      simpa [Out.verdict] using hv.symm
    intro m hm
    rw [hs' m hm, this]


/-! ### non-vacuity: `Optional[List[Union[str (min length 1), int (>= 0)]]]` on `["a", 3]` and on `[""]` -/

def exTree : V :=
  .optional 1 (.noneV 2 none)
    (.list 3 (.union 4 [.scalar 5 .str none [] [⟨1, .minLength 1⟩] [], .scalar 6 .int none [] [⟨2, .min (.int 0) false⟩] []])
      [⟨3, .maxItems 5⟩] [] none)

example : frag exTree = true := by decide
example : isJson (.list 9 [.str [97], .int 3]) = true ∧ ok exTree (.list 9 [.str [97], .int 3]) = true ∧
    acc exTree (.list 9 [.str [97], .int 3]) = true := by
  refine ⟨by decide, ?_, ?_⟩ <;> simp [exTree, ok, okAll, acc, accAny, countAcc, predCheck, holds, PredK.call, lenCmp, pyLen,
    isListV, listItems, isNoneV, PyVal.ty, isNum, pyLe, pyLt, PyVal.unsub, xnum, isDecNaN, XNum.lt, Frac.lt, Frac.ofInt, pyEq, numEq]
example : ok exTree (.list 9 [.str []]) = true ∧ acc exTree (.list 9 [.str []]) = false := by
  refine ⟨?_, ?_⟩ <;> simp [exTree, ok, okAll, acc, accAny, countAcc, predCheck, holds, PredK.call, lenCmp, pyLen,
    isListV, listItems, isNoneV, PyVal.ty, isNum]


/-- a record validator of the fragment: `{"a": str, "b"?: List[int]}`, unknown keys rejected -/
def exRecord : V :=
  .record 10 { kind := .dictAny
               keys := [.str [97], .str [98]]
               reqs := [true, false]
               cls := default
               fieldNames := []
               defaults := []
               intoId := 0
               into := fun _ => .none
               oc := none
               aoc := none
               failUnknown := true
               coerce := none }
    [.scalar 11 .str none [] [] [], .list 12 (.scalar 13 .int none [] [] []) [] [] none]

example : frag exRecord = true := by decide

/-- the kinds added last: `Dict[str, Tuple[int, ...]]` with at most two keys, and `EqualsValidator(7)` -/
def exMap : V :=
  .map 20 (.scalar 21 .str none [] [] []) (.utuple 22 (.scalar 23 .int none [] [] []) [⟨5, .minItems 1⟩] [] (some .dflt))
    [⟨4, .maxKeys 2⟩] [] none

example : frag exMap = true := by decide
example : frag (.equals 30 (.int 7) [] 6) = true := by decide
example : acc (.equals 30 (.int 7) [] 6) (.int 7) = true ∧ acc (.equals 30 (.int 7) [] 6) (.bool true) = false := by
  refine ⟨by decide, by decide⟩


end Koda
