/-
  C11, pattern texts: `parsePat` reads back exactly what `Pat.source` (and the StartsWith / EndsWith
  generators, which are instances of it) writes — for every pattern of the restricted syntax.
-/
import KodaModel.SchemaEval

namespace Koda

/-- a reader state between two elements -/
structure PClean (st : PState) (a : Bool) (r : List PatEl) : Prop where
  anchor : st.anchorStart = a
  els : st.els = r
  cur : st.cur = none
  esc : st.esc = false
  ended : st.ended = false
  bad : st.bad = false

theorem reEscape_one (c : Nat) : reEscape [c] = if isSpecial c then [92, c] else [c] := by
  simp [reEscape, isSpecial]

theorem reEscape_cons (c : Nat) (cs : List Nat) : reEscape (c :: cs) = reEscape [c] ++ reEscape cs := by
  simp [reEscape]

theorem not_special (c : Nat) (h : isSpecial c = false) :
    c ≠ 92 ∧ c ≠ 94 ∧ c ≠ 91 ∧ c ≠ 93 ∧ c ≠ 42 ∧ c ≠ 46 ∧ c ≠ 36 := by
  refine ⟨?_, ?_, ?_, ?_, ?_, ?_, ?_⟩ <;> (intro hc; subst hc; simp [isSpecial] at h)

/-- an escaped-or-plain character read outside a class is a literal -/
theorem pstep_lit (st : PState) (a : Bool) (r : List PatEl) (c : Nat) (h : PClean st a r) :
    PClean ((reEscape [c]).foldl pstep st) a (.lit c :: r) := by
  obtain ⟨h1, h2, h3, h4, h5, h6⟩ := h
  rw [reEscape_one]
  by_cases hs : isSpecial c = true
  · simp only [hs, if_true, List.foldl_cons, List.foldl_nil]
    have e1 : pstep st 92 = { st with esc := true, first := false } := by
      simp [pstep, h6, h5, h4]
    rw [e1]
    constructor <;> simp [pstep, h6, h5, h3, h1, h2]
  · have hs' : isSpecial c = false := by simpa using hs
    obtain ⟨n1, n2, n3, _, n5, n6, n7⟩ := not_special c hs'
    simp only [hs', Bool.false_eq_true, if_false, List.foldl_cons, List.foldl_nil]
    constructor <;> simp [pstep, h6, h5, h4, h3, h1, h2, n1, n2, n3, n5, n6, n7, hs']

/-- inside a class -/
structure PIn (st : PState) (a : Bool) (r : List PatEl) (acc : List Nat) : Prop where
  anchor : st.anchorStart = a
  els : st.els = r
  cur : st.cur = some acc
  esc : st.esc = false
  ended : st.ended = false
  bad : st.bad = false

theorem pstep_class_char (st : PState) (a : Bool) (r : List PatEl) (acc : List Nat) (c : Nat) (h : PIn st a r acc) :
    PIn ((reEscape [c]).foldl pstep st) a r (c :: acc) := by
  obtain ⟨h1, h2, h3, h4, h5, h6⟩ := h
  rw [reEscape_one]
  by_cases hs : isSpecial c = true
  · simp only [hs, if_true, List.foldl_cons, List.foldl_nil]
    have e1 : pstep st 92 = { st with esc := true, first := false } := by
      simp [pstep, h6, h5, h4]
    rw [e1]
    constructor <;> simp [pstep, h6, h5, h3, h1, h2]
  · have hs' : isSpecial c = false := by simpa using hs
    obtain ⟨n1, _, _, n4, _, _, _⟩ := not_special c hs'
    simp only [hs', Bool.false_eq_true, if_false, List.foldl_cons, List.foldl_nil]
    constructor <;> simp [pstep, h6, h5, h4, h3, h1, h2, n1, n4, hs']

theorem pstep_class_chars (cs : List Nat) : ∀ (st : PState) (a : Bool) (r : List PatEl) (acc : List Nat),
    PIn st a r acc → PIn ((reEscape cs).foldl pstep st) a r (cs.reverse ++ acc) := by
  induction cs with
  | nil => intro st a r acc h; simpa [reEscape] using h
  | cons c cs ih =>
    intro st a r acc h
    rw [reEscape_cons, List.foldl_append]
    have := ih _ a r (c :: acc) (pstep_class_char st a r acc c h)
    simpa using this

theorem pstep_open (st : PState) (a : Bool) (r : List PatEl) (h : PClean st a r) : PIn (pstep st 91) a r [] := by
  obtain ⟨h1, h2, h3, h4, h5, h6⟩ := h
  constructor <;> simp [pstep, h6, h5, h4, h3, h1, h2]

theorem pstep_close (st : PState) (a : Bool) (r : List PatEl) (acc : List Nat) (h : PIn st a r acc) :
    PClean (pstep st 93) a (.cls acc.reverse :: r) ∧ (pstep st 93).closed = true := by
  obtain ⟨h1, h2, h3, h4, h5, h6⟩ := h
  refine ⟨?_, ?_⟩
  · constructor <;> simp [pstep, h6, h5, h4, h3, h1, h2]
  · simp [pstep, h6, h5, h4, h3]

theorem pstep_star (st : PState) (a : Bool) (r : List PatEl) (cs : List Nat) (h : PClean st a (.cls cs :: r))
    (hc : st.closed = true) : PClean (pstep st 42) a (.star cs :: r) := by
  obtain ⟨h1, h2, h3, h4, h5, h6⟩ := h
  constructor <;> simp [pstep, h6, h5, h4, h3, h1, h2, hc]

theorem pstep_any (st : PState) (a : Bool) (r : List PatEl) (h : PClean st a r) : PClean (pstep st 46) a (.any :: r) := by
  obtain ⟨h1, h2, h3, h4, h5, h6⟩ := h
  constructor <;> simp [pstep, h6, h5, h4, h3, h1, h2]

/-- `[` … `]` read outside a class is the class; the reader remembers that a `]` was just read -/
theorem pstep_cls (st : PState) (a : Bool) (r : List PatEl) (cs : List Nat) (h : PClean st a r) :
    PClean (([91] ++ reEscape cs ++ [93]).foldl pstep st) a (.cls cs :: r) ∧
    (([91] ++ reEscape cs ++ [93]).foldl pstep st).closed = true := by
  simp only [List.foldl_append, List.foldl_cons, List.foldl_nil]
  have e2 := pstep_class_chars cs _ a r [] (pstep_open st a r h)
  have := pstep_close _ a r _ e2
  simpa using this

def elSource : PatEl → List Nat
  | .lit c => reEscape [c]
  | .cls cs => [91] ++ reEscape cs ++ [93]
  | .any => [46]
  | .star cs => [91] ++ reEscape cs ++ [93, 42]

theorem pstep_el (st : PState) (a : Bool) (r : List PatEl) (e : PatEl) (h : PClean st a r) :
    PClean ((elSource e).foldl pstep st) a (e :: r) := by
  cases e with
  | lit c => exact pstep_lit st a r c h
  | cls cs => exact (pstep_cls st a r cs h).1
  | any =>
    simp only [elSource, List.foldl_cons, List.foldl_nil]
    exact pstep_any st a r h
  | star cs =>
    have hc := pstep_cls st a r cs h
    have : elSource (.star cs) = ([91] ++ reEscape cs ++ [93]) ++ [42] := by simp [elSource]
    rw [this, List.foldl_append]
    simp only [List.foldl_cons, List.foldl_nil]
    exact pstep_star _ a r cs hc.1 hc.2

theorem pstep_els (els : List PatEl) : ∀ (st : PState) (a : Bool) (r : List PatEl), PClean st a r →
    PClean ((els.flatMap elSource).foldl pstep st) a (els.reverse ++ r) := by
  induction els with
  | nil => intro st a r h; simpa using h
  | cons e es ih =>
    intro st a r h
    simp only [List.flatMap_cons, List.foldl_append]
    have := ih _ a (e :: r) (pstep_el st a r e h)
    simpa using this

theorem source_eq (p : Pat) :
    p.source = (if p.anchorStart then [94] else []) ++ p.els.flatMap elSource ++ (if p.anchorEnd then [36] else []) := by
  simp only [Pat.source]
  congr 2

/-- **round trip**: the reader recovers every pattern from its source text -/
theorem parsePat_source (p : Pat) : parsePat p.source = some p := by
  obtain ⟨a, els, e⟩ := p
  rw [source_eq]
  simp only [parsePat, List.foldl_append]
  -- after the optional `^`
  have h0 : PClean ((if a then [94] else []).foldl pstep {}) a [] := by
    cases a
    · constructor <;> rfl
    · constructor <;> simp [pstep]
  have h1 := pstep_els els _ a [] h0
  simp only [List.append_nil] at h1
  obtain ⟨g1, g2, g3, g4, g5, g6⟩ := h1
  cases e
  · simp [g1, g2, g3, g4, g5, g6]
  · simp [pstep, g1, g2, g3, g4, g5, g6]


/-! ### what the prefix / suffix patterns mean -/

theorem matchEls_lits_none (q : List Nat) : ∀ (s : List Nat) (f : Nat),
    matchEls (q.map .lit) s .none f = isPrefix q s := by
  induction q with
  | nil => intro s f; simp [matchEls, atEnd, isPrefix]
  | cons a as ih =>
    intro s f
    cases s with
    | nil => simp [matchEls, isPrefix]
    | cons b bs => simp [matchEls, isPrefix, ih]

/-- `^` + escaped `q`, searched in `s`: `s` starts with `q` -/
theorem search_prefix (q s : List Nat) : Pat.search ⟨true, q.map .lit, false⟩ s = isPrefix q s := by
  simp [Pat.search, matchEls_lits_none]

theorem matchEls_lits_ecma (q : List Nat) : ∀ (s : List Nat) (f : Nat),
    matchEls (q.map .lit) s .ecma f = (s == q) := by
  induction q with
  | nil => intro s f; cases s <;> simp [matchEls, atEnd]
  | cons a as ih =>
    intro s f
    cases s with
    | nil => simp [matchEls]
    | cons b bs =>
      simp only [List.map_cons, matchEls, ih]
      have hc : (a == b) = (b == a) := by
        rw [Bool.eq_iff_iff]; simp only [beq_iff_eq]; exact eq_comm
      rw [hc]; rfl

theorem isPrefix_iff (p : List Nat) : ∀ (l : List Nat), isPrefix p l = true ↔ ∃ t, l = p ++ t := by
  induction p with
  | nil => intro l; simp [isPrefix]
  | cons a as ih =>
    intro l
    cases l with
    | nil => simp [isPrefix]
    | cons b bs =>
      simp only [isPrefix, Bool.and_eq_true, beq_iff_eq, ih, List.cons_append, List.cons.injEq]
      constructor
      · rintro ⟨rfl, t, rfl⟩; exact ⟨t, rfl, rfl⟩
      · rintro ⟨t, rfl, rfl⟩; exact ⟨rfl, t, rfl⟩

theorem isSuffix_iff (q s : List Nat) : isSuffix q s = true ↔ ∃ t, s = t ++ q := by
  simp only [isSuffix, isPrefix_iff]
  constructor
  · rintro ⟨t, h⟩
    refine ⟨t.reverse, ?_⟩
    have := congrArg List.reverse h
    simpa using this
  · rintro ⟨t, rfl⟩
    exact ⟨t.reverse, by simp⟩

/-- escaped `q` + `$`, searched in `s` (ECMA-262: `$` is the end of input): `s` ends with `q` -/
theorem search_suffix (q s : List Nat) : Pat.search ⟨false, q.map .lit, true⟩ s = isSuffix q s := by
  simp only [Pat.search, if_true, Bool.false_eq_true, if_false, matchEls_lits_ecma]
  apply Bool.eq_iff_iff.2
  rw [isSuffix_iff]
  simp only [List.any_eq_true, List.mem_range, beq_iff_eq]
  constructor
  · rintro ⟨i, _, h⟩
    exact ⟨s.take i, by rw [← h, List.take_append_drop]⟩
  · rintro ⟨t, rfl⟩
    refine ⟨t.length, by simp; omega, by simp⟩

theorem lits_source_prefix (q : List Nat) : (⟨true, q.map .lit, false⟩ : Pat).source = [94] ++ reEscape q := by
  simp only [Pat.source, if_true, Bool.false_eq_true, if_false, List.append_nil, List.flatMap_map]
  congr 1
  simp [reEscape]

theorem lits_source_suffix (q : List Nat) : (⟨false, q.map .lit, true⟩ : Pat).source = reEscape q ++ [36] := by
  simp only [Pat.source, if_true, Bool.false_eq_true, if_false, List.nil_append, List.flatMap_map]
  congr 1
  simp [reEscape]

theorem notBlankText_eq : notBlankText = [94, 40, 63, 33, 92, 115, 42, 36, 41, 46, 43] := by decide

/-- the `pattern` keyword of `StartsWith(q)` holds of `s` iff `s` starts with `q` -/
theorem patHolds_prefix (q s : List Nat) : patHolds ([94] ++ reEscape q) s = some (isPrefix q s) := by
  have hne : ([94] ++ reEscape q == notBlankText) = false := by
    rw [notBlankText_eq]
    cases q with
    | nil => decide
    | cons c cs =>
      rw [reEscape_cons, reEscape_one]
      apply beq_eq_false_iff_ne.2
      intro h
      have h1 := congrArg (fun l => l[1]?) h
      by_cases hs : isSpecial c = true
      · simp [hs] at h1
      · have hs' : isSpecial c = false := by simpa using hs
        have : c ≠ 40 := by intro h; subst h; simp [isSpecial] at hs'
        simp [hs', this] at h1
  rw [patHolds]
  simp only [hne, Bool.false_eq_true, if_false]
  rw [← lits_source_prefix, parsePat_source]
  simp [search_prefix]

/-- the `pattern` keyword of `EndsWith(q)` holds of `s` iff `s` ends with `q` -/
theorem patHolds_suffix (q s : List Nat) : patHolds (reEscape q ++ [36]) s = some (isSuffix q s) := by
  have hne : (reEscape q ++ [36] == notBlankText) = false := by
    rw [notBlankText_eq]
    cases q with
    | nil => decide
    | cons c cs =>
      rw [reEscape_cons, reEscape_one]
      apply beq_eq_false_iff_ne.2
      intro h
      have h1 := congrArg (fun l => l[0]?) h
      by_cases hs : isSpecial c = true
      · simp [hs] at h1
      · have hs' : isSpecial c = false := by simpa using hs
        have : c ≠ 94 := by intro h; subst h; simp [isSpecial] at hs'
        simp [hs', this] at h1
  rw [patHolds]
  simp only [hne, Bool.false_eq_true, if_false]
  rw [← lits_source_suffix, parsePat_source]
  simp [search_suffix]

/-- a user pattern: the keyword is an ECMA-262 search for it -/
theorem patHolds_user (p : Pat) (s : List Nat) (h : (p.source == notBlankText) = false) :
    patHolds p.source s = some (p.search s) := by
  rw [patHolds]
  simp only [h, Bool.false_eq_true, if_false, parsePat_source, Option.map_some]

end Koda
