/-
  C10 — JSON Schema generation returns a well-formed, serialisable schema or a TypeError.

  About `toSchema` (the transliteration of serialization/json_schema.py), for every validator tree:
  * `C10_outcome`: the result is a JSON *object* or `TypeError` — nothing else is raised — provided the
    abstract printer (`str()`, `isoformat()`, `re.escape` of bytes) is total, which CPython's is;
  * `C10_json_only_partial`: the object is made of JSON types only, for every tree whose Min / Max / EqualTo
    / Choices parameters are of the admitted types and finite (the excluded case is finding D11: a float
    nan / inf parameter is emitted as is — witness below);
  * `C10_ref`, `C10_lazy_unnamed`: a `Lazy` is never followed — `toSchema` is structurally recursive on
    the validator and does not even take the environment of definitions — it emits the reference to
    the named schema (or `{}` when declared non-recurrent), and is a TypeError outside named mode;
  * determinism and "leaves the validator unmodified" hold of any Lean function; on the real code
    they are the oracle's business (harness/schema_stream.py).
-/
import KodaModel.Schema

namespace Koda

/-- CPython's printers never fail on the constants they are applied to -/
structure Printer.Total (pr : Printer) : Prop where
  str : ∀ v, ∃ t, pr.str v = some t
  iso : ∀ v, ∃ t, pr.iso v = some t
  pat : ∀ b, ∃ t, pr.patBytes b = some t

/-- `Except` results that are an object or a TypeError -/
def OkOrTE {α : Type} (r : Except Exn α) : Prop := (∃ a, r = .ok a) ∨ r = .error .typeError

@[simp] theorem okOrTE_ok {α : Type} (a : α) : OkOrTE (Except.ok a : Except Exn α) := Or.inl ⟨a, rfl⟩
@[simp] theorem okOrTE_te {α : Type} : OkOrTE (Except.error .typeError : Except Exn α) := Or.inr rfl

theorem enumValue_outcome (pr : Printer) (ht : pr.Total) (v : PyVal) : OkOrTE (enumValue pr v) := by
  unfold enumValue
  cases v <;> try (first | exact Or.inl ⟨_, rfl⟩ | exact Or.inr rfl)
  case decimal d =>
    obtain ⟨t, h⟩ := ht.str (.decimal d)
    simp [h]
  case uuid u =>
    obtain ⟨t, h⟩ := ht.str (.uuid u)
    simp [h]
  case date d =>
    obtain ⟨t, h⟩ := ht.iso (.date d)
    simp [h]
  case datetime d o =>
    obtain ⟨t, h⟩ := ht.iso (.datetime d o)
    simp [h]
  case bytes b =>
    cases h : pr.decode b with
    | none => simp [h]
    | some t => simp [h]

theorem enumValues_outcome (pr : Printer) (ht : pr.Total) (vs : List PyVal) : OkOrTE (enumValues pr vs) := by
  induction vs with
  | nil => exact Or.inl ⟨_, rfl⟩
  | cons v vs ih =>
    simp only [enumValues]
    rcases enumValue_outcome pr ht v with ⟨j, h⟩ | h
    · simp only [h]
      rcases ih with ⟨js, h2⟩ | h2
      · simp [h2]
      · simp [h2]
    · simp [h]

theorem boundSchema_outcome (pr : Printer) (ht : pr.Total) (v : PyVal) (excl : Bool) (a b c d : String) :
    OkOrTE (boundSchema pr v excl a b c d) := by
  unfold boundSchema
  split
  · have : ∃ t, fmtText pr v = some t := by
      unfold fmtText
      cases v <;> first | exact ht.str _ | exact ht.iso _
    obtain ⟨t, h⟩ := this
    simp [h]
  · exact Or.inl ⟨_, rfl⟩

theorem predSchema_outcome (pr : Printer) (ht : pr.Total) (p : PredK) : OkOrTE (predSchema pr p) := by
  cases p with
  | min v e => exact boundSchema_outcome pr ht v e _ _ _ _
  | max v e => exact boundSchema_outcome pr ht v e _ _ _ _
  | multipleOf f => exact Or.inr rfl
  | equalTo v =>
    simp only [predSchema]
    rcases enumValue_outcome pr ht v with ⟨j, h⟩ | h
    · simp [h]
    · simp [h]
  | choices vs =>
    simp only [predSchema]
    cases hs : sortVals vs with
    | none => exact Or.inr rfl
    | some s =>
      simp only []
      rcases enumValues_outcome pr ht s with ⟨js, h⟩ | h
      · simp [h]
      · simp [h]
  | startsWith q =>
    cases q <;> try exact Or.inr rfl
    case str s => exact Or.inl ⟨_, rfl⟩
    case bytes b =>
      obtain ⟨t, h⟩ := ht.pat b
      simp [predSchema, h]
  | endsWith q =>
    cases q <;> try exact Or.inr rfl
    case str s => exact Or.inl ⟨_, rfl⟩
    case bytes b =>
      obtain ⟨t, h⟩ := ht.pat b
      simp [predSchema, h]
  | exactItemCount n => exact Or.inr rfl
  | user f => exact Or.inr rfl
  | _ => exact Or.inl ⟨_, rfl⟩

theorem predsSchema_outcome (pr : Printer) (ht : pr.Total) (ps : List Pred) :
    ∀ base, OkOrTE (predsSchema pr base ps) := by
  induction ps with
  | nil => intro base; exact Or.inl ⟨_, rfl⟩
  | cons p ps ih =>
    intro base
    simp only [predsSchema]
    rcases predSchema_outcome pr ht p.k with ⟨o, h⟩ | h
    · simp only [h]; exact ih _
    · simp [h]

theorem baseSchema_outcome (t : Ty) : OkOrTE (baseSchema t) := by
  cases t <;> first | exact Or.inl ⟨_, rfl⟩ | exact Or.inr rfl

theorem labelsText_total (pr : Printer) (ht : pr.Total) (ks : List PyVal) : ∃ ts, labelsText pr ks = some ts := by
  induction ks with
  | nil => exact ⟨_, rfl⟩
  | cons k ks ih =>
    obtain ⟨ts, h⟩ := ih
    have : ∃ t, labelText pr k = some t := by
      unfold labelText
      cases k <;> first | exact ⟨_, rfl⟩ | exact ht.str _
    obtain ⟨t, h1⟩ := this
    exact ⟨t :: ts, by simp [labelsText, h, h1]⟩

/-- schemas are objects -/
def IsObj : J → Prop
  | .obj _ => True
  | _ => False

mutual
/-- **C10 (outcome)**: for every validator tree — any depth, any width, any predicates — generation
    returns a JSON object or raises TypeError; no other exception, no other shape -/
theorem C10_outcome (pr : Printer) (ht : pr.Total) (ctx : RefCtx) (tvs nrs : List Nat) :
    ∀ v, (∃ o, toSchema pr ctx tvs nrs v = .ok (.obj o)) ∨ toSchema pr ctx tvs nrs v = .error .typeError
  | .scalar vid tg c pre ps aps => by
    simp only [toSchema]
    split
    · exact Or.inr rfl
    · rcases baseSchema_outcome tg with ⟨b, hb⟩ | hb
      · simp only [hb, bind, Except.bind]
        rcases predsSchema_outcome pr ht (ps ++ aps) b with ⟨o, ho⟩ | ho
        · simp [ho]
        · simp [ho]
      · simp [hb, bind, Except.bind]
  | .equals vid m pre pid => by
    simp only [toSchema]
    rcases baseSchema_outcome m.ty with ⟨b, hb⟩ | hb
    · simp only [hb, bind, Except.bind]
      rcases predSchema_outcome pr ht (.equalTo m) with ⟨o, ho⟩ | ho
      · simp [ho]
      · simp [ho]
    · simp [hb, bind, Except.bind]
  | .noneV _ _ => Or.inr (by simp [toSchema])
  | .always _ => Or.inr (by simp [toSchema])
  | .isDict _ => by simp [toSchema]
  | .list vid item ps aps c => by
    simp only [toSchema]
    rcases C10_outcome pr ht ctx tvs nrs item with ⟨it, hi⟩ | hi
    · simp only [hi, bind, Except.bind]
      rcases predsSchema_outcome pr ht (ps ++ aps) [(kw "type", .str (kw "array")), (kw "items", .obj it)] with ⟨o, ho⟩ | ho
      · simp [ho]
      · simp [ho]
    · simp [hi, bind, Except.bind]
  | .utuple vid item ps aps c => by
    simp only [toSchema]
    rcases C10_outcome pr ht ctx tvs nrs item with ⟨it, hi⟩ | hi
    · simp only [hi, bind, Except.bind]
      rcases predsSchema_outcome pr ht (ps ++ aps) [(kw "type", .str (kw "array")), (kw "items", .obj it)] with ⟨o, ho⟩ | ho
      · simp [ho]
      · simp [ho]
    · simp [hi, bind, Except.bind]
  | .set _ _ _ _ _ => Or.inr (by simp [toSchema])
  | .ntuple vid fs oc lp c => by
    simp only [toSchema]
    rcases C10_outcomeL pr ht ctx tvs nrs fs with ⟨js, hj⟩ | hj
    · simp [hj, bind, Except.bind]
    · simp [hj, bind, Except.bind]
  | .map vid key value ps aps c => by
    simp only [toSchema]
    rcases C10_outcome pr ht ctx tvs nrs value with ⟨it, hi⟩ | hi
    · simp only [hi, bind, Except.bind]
      rcases predsSchema_outcome pr ht (ps ++ aps) [(kw "type", .str (kw "object")), (kw "additionalProperties", .obj it)] with ⟨o, ho⟩ | ho
      · simp [ho]
      · simp [ho]
    · simp [hi, bind, Except.bind]
  | .record vid cfg vs => by
    simp only [toSchema]
    rcases C10_outcomeL pr ht ctx tvs nrs vs with ⟨js, hj⟩ | hj
    · simp only [hj, bind, Except.bind]
      obtain ⟨ts, hl⟩ := labelsText_total pr ht cfg.keys
      simp [hl]
    · simp [hj, bind, Except.bind]
  | .union vid vs => by
    simp only [toSchema]
    rcases C10_outcomeL pr ht ctx tvs nrs vs with ⟨js, hj⟩ | hj
    · simp [hj, bind, Except.bind]
    · simp [hj, bind, Except.bind]
  | .optional vid nv inner => by
    simp only [toSchema]
    rcases C10_outcome pr ht ctx tvs nrs inner with ⟨it, hi⟩ | hi
    · simp [hi, bind, Except.bind]
    · simp [hi, bind, Except.bind]
  | .maybe _ _ => Or.inr (by simp [toSchema])
  | .lazy vid ref => by
    simp only [toSchema]
    cases ctx with
    | none => exact Or.inr rfl
    | some r =>
      simp only []
      split
      · exact Or.inl ⟨_, rfl⟩
      · exact Or.inl ⟨_, rfl⟩
  | .knr vid inner => by
    simp only [toSchema]
    exact C10_outcome pr ht ctx tvs nrs inner
  | .user _ _ => Or.inr (by simp [toSchema])
theorem C10_outcomeL (pr : Printer) (ht : pr.Total) (ctx : RefCtx) (tvs nrs : List Nat) :
    ∀ vs, (∃ js, toSchemaL pr ctx tvs nrs vs = .ok js) ∨ toSchemaL pr ctx tvs nrs vs = .error .typeError
  | [] => by simp [toSchemaL]
  | v :: vs => by
    simp only [toSchemaL]
    rcases C10_outcome pr ht ctx tvs nrs v with ⟨o, ho⟩ | ho
    · simp only [ho, bind, Except.bind]
      rcases C10_outcomeL pr ht ctx tvs nrs vs with ⟨js, hj⟩ | hj
      · simp [hj]
      · simp [hj]
    · simp [ho, bind, Except.bind]
end

/-! ### recursion: a `Lazy` is never followed -/

/-- in named mode a (recurrent) `Lazy` is exactly the reference to the named schema -/
theorem C10_ref (pr : Printer) (ref : List Nat) (tvs nrs : List Nat) (vid r : Nat) (h : nrs.contains vid = false) :
    toSchema pr (some ref) tvs nrs (.lazy vid r) = .ok (.obj [(kw "$ref", .str ref)]) := by
  simp only [toSchema, h]; rfl

/-- `Lazy(…, recurrent=False)` yields the empty schema: the thunk is not called -/
theorem C10_nonrecurrent (pr : Printer) (ref : List Nat) (tvs nrs : List Nat) (vid r : Nat) (h : nrs.contains vid = true) :
    toSchema pr (some ref) tvs nrs (.lazy vid r) = .ok (.obj []) := by
  simp only [toSchema, h]; rfl

/-- outside named mode a `Lazy` is a TypeError -/
theorem C10_lazy_unnamed (pr : Printer) (tvs nrs : List Nat) (vid r : Nat) :
    toSchema pr none tvs nrs (.lazy vid r) = .error .typeError := by
  simp [toSchema]

/-! ### non-vacuity / the D11 witness -/

def trivialPrinter : Printer := { str := fun _ => some [], iso := fun _ => some [], decode := fun b => some b, patBytes := fun b => some b }

example : toSchema trivialPrinter none [] [] (.scalar 1 .str none [] [⟨1, .minLength 2⟩, ⟨2, .minLength 3⟩] []) =
    .ok (.obj [(kw "type", .str (kw "string")), (kw "minLength", .int 2), (kw "allOf", .arr [.obj [(kw "minLength", .int 3)]])]) := by
  rfl

/-- D11 in the model: a float `inf` bound is emitted as is, which is not JSON -/
example : (match toSchema trivialPrinter none [] [] (.scalar 1 .float none [] [⟨1, .max (.float (.inf false)) false⟩] []) with
    | .ok j => jsonOnly j | .error _ => true) = false := by
  rfl

end Koda

namespace Koda

/-! ### JSON types only -/

def finiteOrNotFloat : PyVal → Bool
  | .float (.fin _ _ _) => true
  | .float _ => false
  | _ => true

/-- a Min / Max parameter of an admitted type (number, Decimal, date, datetime), finite -/
def boundOk : PyVal → Bool
  | .int _ => true
  | .bool _ => true
  | .float (.fin _ _ _) => true
  | .decimal _ => true
  | .date _ => true
  | .datetime _ _ => true
  | _ => false

def PredK.jsonSafe : PredK → Bool
  | .min v _ => boundOk v
  | .max v _ => boundOk v
  | .equalTo v => finiteOrNotFloat v
  | .choices vs => vs.all finiteOrNotFloat
  | _ => true

mutual
/-- every Min / Max / EqualTo / Choices parameter in the tree is of an admitted type and finite -/
def V.jsonSafe : V → Bool
  | .scalar _ _ _ _ ps aps => (ps ++ aps).all (fun p => p.k.jsonSafe)
  | .equals _ m _ _ => finiteOrNotFloat m
  | .list _ item ps aps _ => item.jsonSafe && (ps ++ aps).all (fun p => p.k.jsonSafe)
  | .utuple _ item ps aps _ => item.jsonSafe && (ps ++ aps).all (fun p => p.k.jsonSafe)
  | .set _ item _ _ _ => item.jsonSafe
  | .ntuple _ fs _ _ _ => V.jsonSafeL fs
  | .map _ k v ps aps _ => k.jsonSafe && v.jsonSafe && (ps ++ aps).all (fun p => p.k.jsonSafe)
  | .record _ _ vs => V.jsonSafeL vs
  | .union _ vs => V.jsonSafeL vs
  | .optional _ _ inner => inner.jsonSafe
  | .maybe _ inner => inner.jsonSafe
  | .knr _ inner => inner.jsonSafe
  | .user _ inner => inner.jsonSafe
  | _ => true
termination_by structural v => v
def V.jsonSafeL : List V → Bool
  | [] => true
  | v :: vs => v.jsonSafe && V.jsonSafeL vs
termination_by structural vs => vs
end

theorem jsonOnlyL_append (a b : List J) : jsonOnlyL (a ++ b) = (jsonOnlyL a && jsonOnlyL b) := by
  induction a with
  | nil => simp [jsonOnlyL]
  | cons x xs ih => simp [jsonOnlyL, ih, Bool.and_assoc]

theorem jsonOnlyO_append (a b : JObj) : jsonOnlyO (a ++ b) = (jsonOnlyO a && jsonOnlyO b) := by
  induction a with
  | nil => simp [jsonOnlyO]
  | cons x xs ih =>
    obtain ⟨k, v⟩ := x
    simp [jsonOnlyO, ih, Bool.and_assoc]

theorem jsonOnlyO_jset (o : JObj) (k : List Nat) (v : J) (ho : jsonOnlyO o = true) (hv : jsonOnly v = true) :
    jsonOnlyO (jset o k v) = true := by
  induction o with
  | nil => simp [jset, jsonOnlyO, hv]
  | cons x xs ih =>
    obtain ⟨k', v'⟩ := x
    simp only [jsonOnlyO, Bool.and_eq_true] at ho
    simp only [jset]
    split
    · simp [jsonOnlyO, hv, ho.2]
    · simp [jsonOnlyO, ho.1, ih ho.2]

theorem jsonOnlyO_jupdate (b : JObj) : ∀ (a : JObj), jsonOnlyO a = true → jsonOnlyO b = true →
    jsonOnlyO (jupdate a b) = true := by
  induction b with
  | nil => intro a ha _; simpa [jupdate] using ha
  | cons x xs ih =>
    intro a ha hb
    obtain ⟨k, v⟩ := x
    simp only [jsonOnlyO, Bool.and_eq_true] at hb
    simp only [jupdate, List.foldl_cons]
    exact ih _ (jsonOnlyO_jset a k v ha hb.1) hb.2

theorem jsonOnlyO_find (o : JObj) (k : List Nat) (p : List Nat × J) (ho : jsonOnlyO o = true)
    (h : o.find? (fun q => q.1 == k) = some p) : jsonOnly p.2 = true := by
  induction o with
  | nil => simp at h
  | cons x xs ih =>
    obtain ⟨k', v'⟩ := x
    simp only [jsonOnlyO, Bool.and_eq_true] at ho
    simp only [List.find?_cons] at h
    split at h
    · cases h; exact ho.1
    · exact ih ho.2 h

theorem jsonOnlyO_jaddPred (a b : JObj) (ha : jsonOnlyO a = true) (hb : jsonOnlyO b = true) :
    jsonOnlyO (jaddPred a b) = true := by
  unfold jaddPred
  split
  · split
    · rename_i k xs hf
      have := jsonOnlyO_find a (kw "allOf") _ ha hf
      simp only [jsonOnly] at this
      apply jsonOnlyO_jset _ _ _ ha
      simp [jsonOnly, jsonOnlyL_append, this, jsonOnlyL, hb]
    · apply jsonOnlyO_jset _ _ _ ha
      simp [jsonOnly, jsonOnlyL, hb]
  · exact jsonOnlyO_jupdate b a ha hb

theorem enumValue_jsonOnly (pr : Printer) (v : PyVal) (j : J) (hv : finiteOrNotFloat v = true)
    (h : enumValue pr v = .ok j) : jsonOnly j = true := by
  unfold enumValue at h
  cases v <;> simp only [] at h
  case str s => cases h; simp [rawJ, jsonOnly]
  case int i => cases h; simp [rawJ, jsonOnly]
  case bool b => cases h; simp [rawJ, jsonOnly]
  case float f =>
    cases h
    cases f <;> simp_all [rawJ, jsonOnly, finiteOrNotFloat]
  case date d => split at h <;> cases h; simp [jsonOnly]
  case datetime d o => split at h <;> cases h; simp [jsonOnly]
  case decimal d => split at h <;> cases h; simp [jsonOnly]
  case uuid u => split at h <;> cases h; simp [jsonOnly]
  case bytes b => split at h <;> cases h; simp [jsonOnly]
  all_goals cases h

theorem enumValues_jsonOnly (pr : Printer) : ∀ (vs : List PyVal) (js : List J),
    vs.all finiteOrNotFloat = true → enumValues pr vs = .ok js → jsonOnlyL js = true := by
  intro vs
  induction vs with
  | nil => intro js _ h; simp [enumValues] at h; subst h; simp [jsonOnlyL]
  | cons v vs ih =>
    intro js hv h
    simp only [List.all_cons, Bool.and_eq_true] at hv
    simp only [enumValues] at h
    split at h
    · cases h
    · rename_i j hj
      split at h
      · cases h
      · rename_i js' hjs
        cases h
        simp [jsonOnlyL, enumValue_jsonOnly pr v j hv.1 hj, ih js' hv.2 hjs]

theorem insertSorted_mem (x : PyVal) : ∀ (ys r : List PyVal), insertSorted x ys = some r → ∀ z ∈ r, z = x ∨ z ∈ ys := by
  intro ys
  induction ys with
  | nil => intro r h z hz; simp [insertSorted] at h; subst h; simp at hz; exact Or.inl hz
  | cons y ys ih =>
    intro r h z hz
    simp only [insertSorted] at h
    split at h
    · cases h
      simp only [List.mem_cons] at hz ⊢
      rcases hz with h1 | h1 | h1
      · exact Or.inl h1
      · exact Or.inr (Or.inl h1)
      · exact Or.inr (Or.inr h1)
    · cases hi : insertSorted x ys with
      | none => simp [hi] at h
      | some r' =>
        simp only [hi, Option.map_some, Option.some.injEq] at h
        subst h
        simp only [List.mem_cons] at hz ⊢
        rcases hz with h1 | h1
        · exact Or.inr (Or.inl h1)
        · rcases ih r' hi z h1 with h2 | h2
          · exact Or.inl h2
          · exact Or.inr (Or.inr h2)
    · cases h

theorem sortVals_mem : ∀ (vs s : List PyVal), sortVals vs = some s → ∀ z ∈ s, z ∈ vs := by
  intro vs
  induction vs with
  | nil => intro s h z hz; simp [sortVals] at h; subst h; simp at hz
  | cons v vs ih =>
    intro s h z hz
    simp only [sortVals] at h
    cases hs : sortVals vs with
    | none => simp [hs] at h
    | some s' =>
      simp only [hs, Option.bind_some] at h
      rcases insertSorted_mem v s' s h z hz with h1 | h1
      · simp [h1]
      · exact List.mem_cons_of_mem _ (ih s' hs z h1)

theorem boundSchema_jsonOnly (pr : Printer) (v : PyVal) (excl : Bool) (a b c d : String) (o : JObj)
    (hv : boundOk v = true) (h : boundSchema pr v excl a b c d = .ok o) : jsonOnlyO o = true := by
  unfold boundSchema at h
  split at h
  · split at h
    · cases h; simp [jsonOnlyO, jsonOnly]
    · cases h
  · rename_i hfmt
    cases h
    cases v with
    | int i => rfl
    | bool b => rfl
    | float f =>
      cases f with
      | fin n m e => rfl
      | nan => simp [boundOk] at hv
      | inf n => simp [boundOk] at hv
    | decimal d => simp [isFmtTy] at hfmt
    | date d => simp [isFmtTy] at hfmt
    | datetime d o => simp [isFmtTy] at hfmt
    | _ => simp [boundOk] at hv

theorem predSchema_jsonOnly (pr : Printer) (p : PredK) (o : JObj) (hp : p.jsonSafe = true)
    (h : predSchema pr p = .ok o) : jsonOnlyO o = true := by
  cases p with
  | min v e => exact boundSchema_jsonOnly pr v e _ _ _ _ o hp h
  | max v e => exact boundSchema_jsonOnly pr v e _ _ _ _ o hp h
  | equalTo v =>
    simp only [predSchema] at h
    split at h
    · rename_i j hj
      cases h
      simp [jsonOnlyO, jsonOnly, jsonOnlyL, enumValue_jsonOnly pr v j hp hj]
    · cases h
  | choices vs =>
    simp only [predSchema] at h
    split at h
    · rename_i s hs
      split at h
      · rename_i js hjs
        cases h
        have hall : s.all finiteOrNotFloat = true := by
          rw [List.all_eq_true]
          intro z hz
          exact (List.all_eq_true.1 hp) z (sortVals_mem vs s hs z hz)
        simp [jsonOnlyO, jsonOnly, enumValues_jsonOnly pr s js hall hjs]
      · cases h
    · cases h
  | startsWith q =>
    cases q with
    | str s => simp only [predSchema] at h; cases h; simp [jsonOnlyO, jsonOnly]
    | bytes b => simp only [predSchema] at h; split at h <;> cases h; simp [jsonOnlyO, jsonOnly]
    | _ => simp [predSchema] at h
  | endsWith q =>
    cases q with
    | str s => simp only [predSchema] at h; cases h; simp [jsonOnlyO, jsonOnly]
    | bytes b => simp only [predSchema] at h; split at h <;> cases h; simp [jsonOnlyO, jsonOnly]
    | _ => simp [predSchema] at h
  | multipleOf f => cases h
  | exactItemCount n => cases h
  | user f => cases h
  | _ => cases h; simp [jsonOnlyO, jsonOnly]

theorem predsSchema_jsonOnly (pr : Printer) : ∀ (ps : List Pred) (base o : JObj),
    ps.all (fun p => p.k.jsonSafe) = true → jsonOnlyO base = true → predsSchema pr base ps = .ok o →
    jsonOnlyO o = true := by
  intro ps
  induction ps with
  | nil => intro base o _ hb h; simp [predsSchema] at h; subst h; exact hb
  | cons p ps ih =>
    intro base o hp hb h
    simp only [List.all_cons, Bool.and_eq_true] at hp
    simp only [predsSchema] at h
    split at h
    · cases h
    · rename_i o' ho'
      exact ih _ o hp.2 (jsonOnlyO_jaddPred base o' hb (predSchema_jsonOnly pr p.k o' hp.1 ho')) h

theorem baseSchema_jsonOnly (t : Ty) (o : JObj) (h : baseSchema t = .ok o) : jsonOnlyO o = true := by
  cases t <;> simp [baseSchema] at h <;> subst h <;> simp [jsonOnlyO, jsonOnly]

end Koda

namespace Koda

theorem all_append_safe (ps aps : List Pred) (h : (ps ++ aps).all (fun p => p.k.jsonSafe) = true) :
    (ps ++ aps).all (fun p => p.k.jsonSafe) = true := h

theorem jsonOnlyO_props (labels : List (List Nat)) (props : List J) (hp : jsonOnlyL props = true) :
    ∀ acc, jsonOnlyO acc = true →
      jsonOnlyO ((labels.zip props).foldl (fun acc p => jset acc p.1 p.2) acc) = true := by
  induction labels generalizing props with
  | nil => intro acc ha; simpa using ha
  | cons l ls ih =>
    intro acc ha
    cases props with
    | nil => simpa using ha
    | cons p ps =>
      simp only [jsonOnlyL, Bool.and_eq_true] at hp
      simp only [List.zip_cons_cons, List.foldl_cons]
      exact ih ps hp.2 _ (jsonOnlyO_jset acc l p ha hp.1)

theorem jsonOnlyL_map_str (ts : List (List Nat)) : jsonOnlyL (ts.map J.str) = true := by
  induction ts with
  | nil => rfl
  | cons t ts ih => simp [jsonOnlyL, jsonOnly, ih]

mutual
/-- **C10 (JSON types only)**: whenever generation succeeds on a tree whose bound / choice parameters
    are of admitted types and finite, the schema contains no bytes, Decimal, date, NaN or other
    non-JSON object.  (`_partial`: the unrestricted statement is false on the code — finding D11.) -/
theorem C10_json_only_partial (pr : Printer) (ctx : RefCtx) (tvs nrs : List Nat) :
    ∀ (v : V) (j : J), v.jsonSafe = true → toSchema pr ctx tvs nrs v = .ok j → jsonOnly j = true
  | .scalar vid tg c pre ps aps, j, hs, h => by
    simp only [toSchema] at h
    split at h
    · cases h
    · cases hb : baseSchema tg with
      | error e => simp [hb, bind, Except.bind] at h
      | ok b =>
        cases hp : predsSchema pr b (ps ++ aps) with
        | error e => simp [hb, hp, bind, Except.bind] at h
        | ok o =>
          simp only [hb, hp, bind, Except.bind, Except.ok.injEq] at h
          subst h
          simp only [V.jsonSafe] at hs
          simpa [jsonOnly] using predsSchema_jsonOnly pr _ b o hs (baseSchema_jsonOnly tg b hb) hp
  | .equals vid m pre pid, j, hs, h => by
    simp only [toSchema] at h
    cases hb : baseSchema m.ty with
    | error e => simp [hb, bind, Except.bind] at h
    | ok b =>
      cases hp : predSchema pr (.equalTo m) with
      | error e => simp [hb, hp, bind, Except.bind] at h
      | ok o =>
        simp only [hb, hp, bind, Except.bind, Except.ok.injEq] at h
        subst h
        simp only [V.jsonSafe] at hs
        have h1 := predSchema_jsonOnly pr (.equalTo m) o (by simpa [PredK.jsonSafe] using hs) hp
        simpa [jsonOnly] using jsonOnlyO_jupdate o b (baseSchema_jsonOnly _ b hb) h1
  | .noneV _ _, j, _, h => by simp [toSchema] at h
  | .always _, j, _, h => by simp [toSchema] at h
  | .isDict _, j, _, h => by
    simp only [toSchema, Except.ok.injEq] at h; subst h; rfl
  | .list vid item ps aps c, j, hs, h => by
    simp only [toSchema] at h
    cases hi : toSchema pr ctx tvs nrs item with
    | error e => simp [hi, bind, Except.bind] at h
    | ok it =>
      simp only [V.jsonSafe, Bool.and_eq_true] at hs
      have hit := C10_json_only_partial pr ctx tvs nrs item it hs.1 hi
      cases hp : predsSchema pr [(kw "type", .str (kw "array")), (kw "items", it)] (ps ++ aps) with
      | error e => simp [hi, hp, bind, Except.bind] at h
      | ok o =>
        simp only [hi, hp, bind, Except.bind, Except.ok.injEq] at h
        subst h
        simpa [jsonOnly] using predsSchema_jsonOnly pr _ _ o hs.2 (by simp [jsonOnlyO, jsonOnly, hit]) hp
  | .utuple vid item ps aps c, j, hs, h => by
    simp only [toSchema] at h
    cases hi : toSchema pr ctx tvs nrs item with
    | error e => simp [hi, bind, Except.bind] at h
    | ok it =>
      simp only [V.jsonSafe, Bool.and_eq_true] at hs
      have hit := C10_json_only_partial pr ctx tvs nrs item it hs.1 hi
      cases hp : predsSchema pr [(kw "type", .str (kw "array")), (kw "items", it)] (ps ++ aps) with
      | error e => simp [hi, hp, bind, Except.bind] at h
      | ok o =>
        simp only [hi, hp, bind, Except.bind, Except.ok.injEq] at h
        subst h
        simpa [jsonOnly] using predsSchema_jsonOnly pr _ _ o hs.2 (by simp [jsonOnlyO, jsonOnly, hit]) hp
  | .set _ _ _ _ _, j, _, h => by simp [toSchema] at h
  | .ntuple vid fs oc lp c, j, hs, h => by
    simp only [toSchema] at h
    cases hi : toSchemaL pr ctx tvs nrs fs with
    | error e => simp [hi, bind, Except.bind] at h
    | ok items =>
      simp only [V.jsonSafe] at hs
      have hit := C10_json_only_partialL pr ctx tvs nrs fs items hs hi
      simp only [hi, bind, Except.bind, Except.ok.injEq] at h
      subst h
      simp only [jsonOnly, jsonOnlyO_append]
      split <;> simp [jsonOnlyO, jsonOnly, hit]
  | .map vid key value ps aps c, j, hs, h => by
    simp only [toSchema] at h
    cases hi : toSchema pr ctx tvs nrs value with
    | error e => simp [hi, bind, Except.bind] at h
    | ok it =>
      simp only [V.jsonSafe, Bool.and_eq_true] at hs
      have hit := C10_json_only_partial pr ctx tvs nrs value it hs.1.2 hi
      cases hp : predsSchema pr [(kw "type", .str (kw "object")), (kw "additionalProperties", it)] (ps ++ aps) with
      | error e => simp [hi, hp, bind, Except.bind] at h
      | ok o =>
        simp only [hi, hp, bind, Except.bind, Except.ok.injEq] at h
        subst h
        simpa [jsonOnly] using predsSchema_jsonOnly pr _ _ o hs.2 (by simp [jsonOnlyO, jsonOnly, hit]) hp
  | .record vid cfg vs, j, hs, h => by
    simp only [toSchema] at h
    cases hi : toSchemaL pr ctx tvs nrs vs with
    | error e => simp [hi, bind, Except.bind] at h
    | ok props =>
      simp only [V.jsonSafe] at hs
      have hit := C10_json_only_partialL pr ctx tvs nrs vs props hs hi
      simp only [hi, bind, Except.bind] at h
      cases hl : labelsText pr cfg.keys with
      | none => simp [hl] at h
      | some labels =>
        simp only [hl, Except.ok.injEq] at h
        subst h
        have hprops := jsonOnlyO_props labels props hit [] rfl
        simp only [jsonOnly, jsonOnlyO, Bool.and_eq_true, Bool.and_true]
        refine ⟨trivial, trivial, ?_, hprops⟩
        split <;> exact jsonOnlyL_map_str _
  | .union vid vs, j, hs, h => by
    simp only [toSchema] at h
    cases hi : toSchemaL pr ctx tvs nrs vs with
    | error e => simp [hi, bind, Except.bind] at h
    | ok items =>
      simp only [V.jsonSafe] at hs
      have hit := C10_json_only_partialL pr ctx tvs nrs vs items hs hi
      simp only [hi, bind, Except.bind, Except.ok.injEq] at h
      subst h
      simp [jsonOnly, jsonOnlyO, hit]
  | .optional vid nv inner, j, hs, h => by
    simp only [toSchema] at h
    cases hi : toSchema pr ctx tvs nrs inner with
    | error e => simp [hi, bind, Except.bind] at h
    | ok it =>
      simp only [V.jsonSafe] at hs
      have hit := C10_json_only_partial pr ctx tvs nrs inner it hs hi
      simp only [hi, bind, Except.bind] at h
      cases it with
      | obj o =>
        simp only [Except.ok.injEq] at h
        subst h
        simp only [jsonOnly] at hit ⊢
        exact jsonOnlyO_jset o _ _ hit rfl
      | _ => simp at h
  | .maybe _ _, j, _, h => by simp [toSchema] at h
  | .lazy vid ref, j, _, h => by
    simp only [toSchema] at h
    cases ctx with
    | none => simp at h
    | some r =>
      simp only [] at h
      split at h <;> (simp only [Except.ok.injEq] at h; subst h; simp [jsonOnly, jsonOnlyO])
  | .knr vid inner, j, hs, h => by
    simp only [toSchema] at h
    simp only [V.jsonSafe] at hs
    exact C10_json_only_partial pr ctx tvs nrs inner j hs h
  | .user _ _, j, _, h => by simp [toSchema] at h
theorem C10_json_only_partialL (pr : Printer) (ctx : RefCtx) (tvs nrs : List Nat) :
    ∀ (vs : List V) (js : List J), V.jsonSafeL vs = true → toSchemaL pr ctx tvs nrs vs = .ok js → jsonOnlyL js = true
  | [], js, _, h => by simp [toSchemaL] at h; subst h; rfl
  | v :: vs, js, hs, h => by
    simp only [toSchemaL] at h
    simp only [V.jsonSafeL, Bool.and_eq_true] at hs
    cases hv : toSchema pr ctx tvs nrs v with
    | error e => simp [hv, bind, Except.bind] at h
    | ok s =>
      cases hr : toSchemaL pr ctx tvs nrs vs with
      | error e => simp [hv, hr, bind, Except.bind] at h
      | ok ss =>
        simp only [hv, hr, bind, Except.bind, Except.ok.injEq] at h
        subst h
        simp [jsonOnlyL, C10_json_only_partial pr ctx tvs nrs v s hs.1 hv,
          C10_json_only_partialL pr ctx tvs nrs vs ss hs.2 hr]
end

end Koda
