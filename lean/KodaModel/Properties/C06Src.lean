/-
  C06 at the level of the source: for every validator whose two methods are translated on each run, the
  *translated synchronous method* and the *translated asynchronous method* agree — whenever the synchronous one returns
  anything but the guard's `AssertionError`, the asynchronous one returns the same outcome (verdict, payload, error tree,
  identities) having evaluated no async-only check.  Each statement is the corresponding `src_*` pair composed with the
  model's step-level agreement lemma; the children are related by `Rel`, i.e. they may themselves be run in the two modes.
-/
import KodaModel.Properties.C02Src
import KodaModel.Properties.C05Src
import KodaModel.Properties.C03Src
import KodaModel.Properties.C03Seq
import KodaModel.Properties.C03NTuple
import KodaModel.Properties.C03Map
import KodaModel.Properties.C04Record
import KodaModel.Properties.C04Class
import KodaModel.Properties.C06

namespace Koda

/-- `ListValidator`: `_validate_to_tuple` against `_validate_to_tuple_async` -/
theorem C06_src_list (o : Oracle) (cS cA : ListCfg) (hv : cS.vid = cA.vid) (hc : cS.coerce = cA.coerce)
    (hp : cS.preds.getD [] = cA.preds.getD []) (ha : cS.apreds.getD [] = cA.apreds.getD []) (hi : Rel cS.item cA.item) :
    Rel (runListMethod o cS Src.listSync) (runListMethod o cA Src.listAsync) := by
  intro x r t h hr
  rw [src_list_sync] at h
  rw [src_list_async, ← hv, ← hc, ← hp, ← ha]
  exact seqStep_agree .list o cS.vid _ _ cS.coerce hi x r t h hr

/-- `SetValidator` -/
theorem C06_src_set (o : Oracle) (cS cA : SeqCfg) (hkS : cS.kind = .set) (hkA : cA.kind = .set) (hv : cS.vid = cA.vid)
    (hc : cS.coerce = cA.coerce) (hp : cS.preds.getD [] = cA.preds.getD []) (ha : cS.apreds.getD [] = cA.apreds.getD [])
    (hi : Rel cS.item cA.item) :
    Rel (runSeqMethod o cS Src.setSync) (runSeqMethod o cA Src.setAsync) := by
  intro x r t h hr
  rw [src_set_sync o cS hkS] at h
  rw [src_set_async o cA hkA, ← hv, ← hc, ← hp, ← ha]
  exact seqStep_agree .set o cS.vid _ _ cS.coerce hi x r t h hr

/-- `UniformTupleValidator` -/
theorem C06_src_utuple (o : Oracle) (cS cA : SeqCfg) (hkS : cS.kind = .utuple) (hkA : cA.kind = .utuple) (hv : cS.vid = cA.vid)
    (hc : cS.coerce = cA.coerce) (hp : cS.preds.getD [] = cA.preds.getD []) (ha : cS.apreds.getD [] = cA.apreds.getD [])
    (hi : Rel cS.item cA.item) :
    Rel (runSeqMethod o cS Src.utupleSync) (runSeqMethod o cA Src.utupleAsync) := by
  intro x r t h hr
  rw [src_utuple_sync o cS hkS] at h
  rw [src_utuple_async o cA hkA, ← hv, ← hc, ← hp, ← ha]
  exact seqStep_agree .utuple o cS.vid _ _ cS.coerce hi x r t h hr

/-- `NTupleValidator` -/
theorem C06_src_ntuple (o : Oracle) (cS cA : NTupCfg) (hv : cS.vid = cA.vid) (hc : cS.coerce = cA.coerce) (ho : cS.oc = cA.oc)
    (hl : cS.lenPid = cA.lenPid) (hf : RelL cS.fields cA.fields) :
    Rel (runNTupleMethod o cS Src.ntupleSync) (runNTupleMethod o cA Src.ntupleAsync) := by
  intro x r t h hr
  rw [src_ntuple_sync] at h
  rw [src_ntuple_async, ← hv, ← hc, ← ho, ← hl]
  exact ntupleStep_agree o cS.vid cS.oc cS.coerce cS.lenPid hf x r t h hr

/-- `MapValidator`: `__call__` against `validate_async` -/
theorem C06_src_map (o : Oracle) (cS cA : MapCfg) (hv : cS.vid = cA.vid) (hc : cS.coerce = cA.coerce)
    (hp : cS.preds.getD [] = cA.preds.getD []) (ha : cS.apreds.getD [] = cA.apreds.getD [])
    (hk : Rel cS.key cA.key) (hvv : Rel cS.value cA.value) :
    Rel (runMapMethod o cS Src.mapSync) (runMapMethod o cA Src.mapAsync) := by
  intro x r t h hr
  rw [src_map_sync] at h
  rw [src_map_async, ← hv, ← hc, ← hp, ← ha]
  exact mapStep_agree o cS.vid _ _ cS.coerce hk hvv x r t h hr

/-- `DictValidatorAny` -/
theorem C06_src_dictany (o : Oracle) (cS cA : DictAnyCfg) (hv : cS.vid = cA.vid) (hr : cS.toRec = cA.toRec)
    (he : RelL cS.evs cA.evs) :
    Rel (runDictAnyMethod cS Src.dictAnySync) (runDictAnyMethod cA Src.dictAnyAsync) := by
  intro x r t h hr'
  rw [src_dictany_sync o] at h
  rw [src_dictany_async o, ← hv, ← hr]
  exact recordStep_agree o cS.vid cS.toRec he x r t h hr'

/-- `RecordValidator` -/
theorem C06_src_record (o : Oracle) (cS cA : DictAnyCfg) (hv : cS.vid = cA.vid) (hr : cS.toRecord = cA.toRecord)
    (he : RelL cS.evs cA.evs) :
    Rel (runDictAnyMethod cS Src.recordSync) (runDictAnyMethod cA Src.recordAsync) := by
  intro x r t h hr'
  rw [src_record_sync o] at h
  rw [src_record_async o, ← hv, ← hr]
  exact recordStep_agree o cS.vid cS.toRecord he x r t h hr'

/-- `TypedDictValidator` -/
theorem C06_src_typeddict (o : Oracle) (cS cA : DictAnyCfg) (hv : cS.vid = cA.vid) (hr : cS.toTD = cA.toTD)
    (he : RelL cS.evs cA.evs) (x : PyVal)
    (hS : ∀ y t, tdGate cS x = .acc y t → (dictItems y).isSome = true)
    (hA : ∀ y t, tdGate cA x = .acc y t → (dictItems y).isSome = true)
    (r : Out) (t : List Ev) (h : runDictAnyMethod cS Src.typedDictSync x = some (r, t)) (hne : r ≠ .raised .assertion) :
    ∃ ta, runDictAnyMethod cA Src.typedDictAsync x = some (r, ta) ∧ noA ta = true := by
  rw [src_typeddict_sync o cS x hS] at h
  rw [src_typeddict_async o cA x hA, ← hv, ← hr]
  exact recordStep_agree o cS.vid cS.toTD he x r t h hne

/-- `DataclassValidator` / `NamedTupleValidator` -/
theorem C06_src_class (o : Oracle) (cS cA : DictAnyCfg) (hv : cS.vid = cA.vid) (hr : cS.toClass = cA.toClass)
    (he : RelL cS.evs cA.evs) (x : PyVal)
    (hS : ∀ y t, clsGate cS x = .acc y t → (dictItems y).isSome = true)
    (hA : ∀ y t, clsGate cA x = .acc y t → (dictItems y).isSome = true)
    (hwS : ∀ c v, x = .sub c v → c ≠ cS.cls) (hwA : ∀ c v, x = .sub c v → c ≠ cA.cls)
    (r : Out) (t : List Ev) (h : runDictAnyMethod cS Src.dataclassSync x = some (r, t)) (hne : r ≠ .raised .assertion) :
    ∃ ta, runDictAnyMethod cA Src.dataclassAsync x = some (r, ta) ∧ noA ta = true := by
  rw [src_dataclass_sync o cS x hS hwS] at h
  rw [src_dataclass_async o cA x hA hwA, ← hv, ← hr]
  exact recordStep_agree o cS.vid cS.toClass he x r t h hne

/-- the scalar pipeline of `_internal.py` (behind all ten scalar validators) -/
theorem C06_src_scalar (o : Oracle) (cfg : ScalarCfg) (x : PyVal) (r : Out) (t : List Ev)
    (h : runMethod o cfg Src.scalarSync x = some (r, t)) (hr : r ≠ .raised .assertion) :
    runMethod o cfg Src.scalarAsync x = some (r, t) ∧ noA t = true := by
  rw [src_scalar_sync, Option.some.injEq] at h
  rw [src_scalar_async, Option.some.injEq]
  exact scalarStep_agree o _ _ _ _ _ _ x r t h hr

/-- the union loop of `_internal.py` (behind `UnionValidator` and `OptionalValidator`) -/
theorem C06_src_union (vid : Nat) (cS cA : List UChild) (hf : RelL (cS.map (·.ev)) (cA.map (·.ev))) :
    Rel (fun x => runUnionBody ⟨vid, cS, x⟩ Src.unionSync) (fun x => runUnionBody ⟨vid, cA, x⟩ Src.unionAsync) := by
  intro x r t h hr
  simp only [src_union_sync] at h
  simp only [src_union_async]
  exact unionStep_agree vid hf x r t h hr

end Koda
