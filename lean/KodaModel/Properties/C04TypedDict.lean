/-
  C04 — `TypedDictValidator` *as written in /repo's current source*.

  `Generated/DictAnySrc.lean` (regenerated on every run) also holds the translation of
  `TypedDictValidator._validate_to_tuple` and `_validate_to_tuple_async` (koda_validate/typeddict.py).  Interpreting them
  is the model's `recordStep` for the `typeddict` kind, for every schema, policy, whole-object check, coercer whose result
  is a dict, and input: exact `dict` (or what the coercer returns), undeclared keys first, every declared key, the payload
  dict, the whole-object check(s) - every later stage holding the *coerced* value.
-/
import KodaModel.Properties.C04DictAny

set_option linter.unusedSimpArgs false

namespace Koda

def DictAnyCfg.toTD (c : DictAnyCfg) : RecCfg :=
  { kind := .typeddict, keys := c.keys, reqs := c.reqs, cls := c.cls, fieldNames := [], defaults := [], intoId := 0,
    into := fun _ => .none, oc := c.oc, aoc := c.aoc, failUnknown := c.failUnknown, coerce := c.coerce }

/-- the gate, with the oracle-free reading of the coercer call -/
def tdGate (cfg : DictAnyCfg) (x : PyVal) : Gate :=
  match cfg.coerce with
  | some c => applyCoerce default .dict .dict cfg.cls c x
  | none => if x.ty = .dict then .acc x [] else .rej (.type .dict) []

theorem applyCoerce_dict_oracle (o : Oracle) (cls : ClassId) (c : CoerceK) (x : PyVal) :
    applyCoerce o .dict .dict cls c x = applyCoerce default .dict .dict cls c x := by
  cases c <;> simp [applyCoerce, defaultCoerce]

theorem recGate_td (o : Oracle) (cfg : DictAnyCfg) (x : PyVal) : recGate o cfg.toTD x = tdGate cfg x := by
  simp only [recGate, DictAnyCfg.toTD, tdGate]
  cases cfg.coerce with
  | none => rfl
  | some c => exact applyCoerce_dict_oracle o cfg.cls c x

/-! ### the pieces -/

def tGate : DStmt :=
  .ite (.selfAttr .coerce)
    [.ite (.not (.attr (.walrus .coerced (.call1 (.selfAttr .coerce) .data)) .isJust))
       [.ret (.pair (.bool false) (.mkInvalid (.mkCoercionErr (.attr (.selfAttr .coerce) .compatibleTypes) .dictTy) .data .self))]
       [.assign .coercedVal (.attr (.var .coerced) .valA)]]
    [.ite (.typeIs .data .dictTy) [.assign .coercedVal .data]
       [.ret (.pair (.bool false) (.mkInvalid (.mkTypeErr .dictTy) .data .self))]]

def tScanBody : List DStmt :=
  [.ite (.notIn (.var .keyU) (.selfAttr .keysSet))
     [.ret (.pair (.bool false) (.mkInvalid (.selfAttr .unknownKeysErr) (.var .coercedVal) .self))] []]

def tScan : DStmt := .ite (.selfAttr .failOnUnknownKeys) [.forIn .keyU (.var .coercedVal) tScanBody] []

def tLoopBody (aw : Bool) : List DStmt :=
  [.ite (.notIn (.var .keyU) (.var .coercedVal))
     [.ite (.var .keyRequired) [.setItem .errs (.var .keyU) (.mkInvalid .missingKeyErr (.var .coercedVal) .self)] []]
     [.assign2 .success .newVal
        (if aw then .await (.call1 (.var .validator) (.subscript (.var .coercedVal) (.var .keyU)))
         else .call1 (.var .validator) (.subscript (.var .coercedVal) (.var .keyU))),
      .ite (.not (.var .success)) [.setItem .errs (.var .keyU) (.var .newVal)]
        [.ite (.not (.var .errs)) [.setItem .successDict (.var .keyU) (.var .newVal)] []]]]

def tLoop (fast : DSelf) (aw : Bool) : DStmt := .forIn3 .keyU .validator .keyRequired (.selfAttr fast) (tLoopBody aw)

def tAoc : DExp :=
  .and (.selfAttr .validateObjectAsync) (.walrus .asyncResult (.await (.call1 (.selfAttr .validateObjectAsync) (.var .successDict))))
def tRetCustomA : List DStmt := [.ret (.pair (.bool false) (.mkInvalid (.var .asyncResult) (.var .successDict) .self))]
def tRetKeys : List DStmt := [.ret (.pair (.bool false) (.mkInvalid (.mkKeyErrs (.var .errs)) (.var .coercedVal) .self))]
def tRetOk : DStmt := .ret (.pair (.bool true) (.var .successDict))

def tFinalSync : DStmt := .ite (.var .errs) tRetKeys [.ite dOc dRetCustom [], tRetOk]
def tFinalAsync : DStmt := .ite (.var .errs) tRetKeys [.ite dOc dRetCustom [.ite tAoc tRetCustomA []], tRetOk]

theorem typedDictSync_eq : Src.typedDictSync =
    [dGuard, tGate, tScan, .assign .successDict .emptyDict, .assign .errs .emptyDict, tLoop .fastKeysSync false, tFinalSync] := rfl
theorem typedDictAsync_eq : Src.typedDictAsync =
    [tGate, tScan, .assign .successDict .emptyDict, .assign .errs .emptyDict, tLoop .fastKeysAsync true, tFinalAsync] := rfl

/-! ### the gate -/

theorem dictCoerce_rej_kind (cls : ClassId) (c : CoerceK) (x : PyVal) (k : ErrK) (t : List Ev)
    (h : applyCoerce default Ty.dict Ty.dict cls c x = .rej k t) : k = .coercion (dictCompat cls c) Ty.dict := by
  cases c with
  | dflt =>
    simp only [applyCoerce] at h
    split at h
    · simp at h
    · simp only [Gate.rej.injEq] at h; rw [← h.1]; rfl
  | classOnly =>
    simp only [applyCoerce] at h
    split at h
    · split at h
      · split at h <;> simp at h
      · simp only [Gate.rej.injEq] at h; rw [← h.1]; rfl
    · simp only [Gate.rej.injEq] at h; rw [← h.1]; rfl
  | user cid compat f =>
    simp only [applyCoerce] at h
    split at h
    · simp at h
    · simp only [Gate.rej.injEq] at h; rw [← h.1]; rfl

theorem tGate_exec (cfg : DictAnyCfg) (x : PyVal) (st : DSt) (rest : List DStmt) :
    (∀ k t, tdGate cfg x = .rej k t →
      outD (DStmt.execL cfg x st (tGate :: rest)) = some (.invalid (.mk k x cfg.vid []), st.tr ++ t)) ∧
    (∀ y t, tdGate cfg x = .acc y t →
      ∃ st', DStmt.execL cfg x st (tGate :: rest) = DStmt.execL cfg x st' rest ∧
        st'.env.coercedVal = .py y ∧ st'.tr = st.tr ++ t) := by
  rw [dexecL_cons, tGate, dexec_ite]
  have hattr : ∀ st1 : DSt, (DExp.selfAttr .coerce).eval cfg x st1 =
      .ok ((match cfg.coerce with | some c => AV.coercer c | none => AV.none), st1) := by
    intro st1; cases h : cfg.coerce <;> simp [DExp.eval, dselfAttr, h]
  rw [hattr]
  cases hc : cfg.coerce with
  | none =>
    simp only [dtruthy, tdGate, hc]
    rw [dexecL_single, dexec_ite]
    have hcond : (DExp.typeIs .data .dictTy).eval cfg x st = .ok (.bool (x.ty == Ty.dict), st) := by
      simp [DExp.eval]
    rw [hcond]
    by_cases hty : x.ty = Ty.dict
    · have hb : (x.ty == Ty.dict) = true := by simpa using hty
      simp only [hb, dtruthy, if_pos hty]
      refine ⟨?_, ?_⟩
      · intro k t h; simp at h
      · intro y t h
        simp only [Gate.acc.injEq] at h
        obtain ⟨rfl, rfl⟩ := h
        refine ⟨{ st with env := st.env.set .coercedVal (.py x) }, ?_, rfl, by simp⟩
        rw [dexecL_single, dexec_assign]
        simp [DExp.eval]
    · have hb : (x.ty == Ty.dict) = false := by simpa using hty
      simp only [hb, dtruthy, if_neg hty]
      refine ⟨?_, ?_⟩
      · intro k t h
        simp only [Gate.rej.injEq] at h
        obtain ⟨rfl, rfl⟩ := h
        simp [dexecL_single, DStmt.exec, DExp.eval, outD]
      · intro y t h; simp at h
  | some c =>
    simp only [dtruthy, tdGate, hc]
    rw [dexecL_single, dexec_ite]
    have hcond : (DExp.not (.attr (.walrus .coerced (.call1 (.selfAttr .coerce) .data)) .isJust)).eval cfg x st =
        .ok (.bool (!(callDictCoercer cfg.cls c x).1.isSome),
          { env := st.env.set .coerced (.maybe (callDictCoercer cfg.cls c x).1), tr := st.tr ++ (callDictCoercer cfg.cls c x).2 }) := by
      simp [DExp.eval, dselfAttr, hc, dtruthy]
    rw [hcond]
    cases hg : applyCoerce default Ty.dict Ty.dict cfg.cls c x with
    | exn e t =>
      exfalso
      cases c with
      | dflt => simp only [applyCoerce] at hg; split at hg <;> simp at hg
      | classOnly =>
        simp only [applyCoerce] at hg
        split at hg
        · split at hg
          · split at hg <;> simp at hg
          · simp at hg
        · simp at hg
      | user cid compat f => simp only [applyCoerce] at hg; split at hg <;> simp at hg
    | rej k t =>
      have hk := dictCoerce_rej_kind cfg.cls c x k t hg
      have hcc : callDictCoercer cfg.cls c x = (none, t) := by simp [callDictCoercer, hg]
      simp only [hcc, Option.isSome_none, Bool.not_false, dtruthy]
      refine ⟨?_, ?_⟩
      · intro k' t' h
        simp only [Gate.rej.injEq] at h
        obtain ⟨rfl, rfl⟩ := h
        simp [dexecL_single, DStmt.exec, DExp.eval, dselfAttr, hc, outD, hk]
      · intro y t' h; simp at h
    | acc y t =>
      have hcc : callDictCoercer cfg.cls c x = (some y, t) := by simp [callDictCoercer, hg]
      simp only [hcc, Option.isSome_some, Bool.not_true, dtruthy]
      refine ⟨?_, ?_⟩
      · intro k' t' h; simp at h
      · intro y' t' h
        simp only [Gate.acc.injEq] at h
        obtain ⟨rfl, rfl⟩ := h
        refine ⟨{ env := (st.env.set .coerced (.maybe (some y))).set .coercedVal (.py y), tr := st.tr ++ t }, ?_, rfl, rfl⟩
        rw [dexecL_single, dexec_assign]
        simp [DExp.eval, DEnv.get, DEnv.set]

/-! ### the unknown-key scan, over the coerced value -/

theorem tforFold_scan (cfg : DictAnyCfg) (x y : PyVal) :
    ∀ (ks : List PyVal) (st : DSt), st.env.coercedVal = .py y →
      (ks.any (fun k => !memL k cfg.keys) = true →
        ∃ st', dforFold (fun st => DStmt.execL cfg x st tScanBody) .keyU ks st =
          .ok (.returned (.pair (.bool false) (.invalid (.mk (.extraKeys cfg.keys) y cfg.vid []))) st') ∧ st'.tr = st.tr) ∧
      (ks.any (fun k => !memL k cfg.keys) = false →
        ∃ st', dforFold (fun st => DStmt.execL cfg x st tScanBody) .keyU ks st = .ok (.next st') ∧ st'.tr = st.tr ∧
          st'.env.coercedVal = .py y) := by
  intro ks
  induction ks with
  | nil =>
    intro st hcv
    exact ⟨by simp, fun _ => ⟨st, by simp [dforFold], rfl, hcv⟩⟩
  | cons k ks ih =>
    intro st hcv
    have hbody : DStmt.execL cfg x { st with env := st.env.set .keyU (.py k) } tScanBody =
        (if memL k cfg.keys then .ok (.next { st with env := st.env.set .keyU (.py k) })
         else .ok (.returned (.pair (.bool false) (.invalid (.mk (.extraKeys cfg.keys) y cfg.vid [])))
                    { st with env := st.env.set .keyU (.py k) })) := by
      cases hm : memL k cfg.keys <;>
        simp [tScanBody, dexecL_single, DStmt.exec, DStmt.execL, DExp.eval, dselfAttr, DEnv.get, DEnv.set, hm, dtruthy, hcv]
    simp only [dforFold, hbody, List.any_cons]
    cases hm : memL k cfg.keys with
    | false =>
      simp only [Bool.not_false, Bool.true_or, Bool.false_eq_true, if_false]
      exact ⟨fun _ => ⟨_, rfl, rfl⟩, fun h => by simp at h⟩
    | true =>
      simp only [Bool.not_true, Bool.false_or, if_true]
      obtain ⟨i1, i2⟩ := ih { st with env := st.env.set .keyU (.py k) } (by simpa [DEnv.set] using hcv)
      exact ⟨i1, i2⟩

theorem tScan_exec (cfg : DictAnyCfg) (x y : PyVal) (st : DSt) (rest : List DStmt) (kvs : List (PyVal × PyVal))
    (hx : dictItems y = some kvs) (hcv : st.env.coercedVal = .py y) :
    ((cfg.failUnknown && hasUnknownKey cfg.keys kvs) = true →
      outD (DStmt.execL cfg x st (tScan :: rest)) = some (.invalid (.mk (.extraKeys cfg.keys) y cfg.vid []), st.tr)) ∧
    ((cfg.failUnknown && hasUnknownKey cfg.keys kvs) = false →
      ∃ st', DStmt.execL cfg x st (tScan :: rest) = DStmt.execL cfg x st' rest ∧ st'.tr = st.tr ∧ st'.env.coercedVal = .py y) := by
  rw [dexecL_cons, tScan, dexec_ite]
  have hattr : (DExp.selfAttr .failOnUnknownKeys).eval cfg x st = .ok (.bool cfg.failUnknown, st) := by
    simp [DExp.eval, dselfAttr]
  rw [hattr]
  cases hf : cfg.failUnknown with
  | false =>
    simp only [Bool.false_and, Bool.false_eq_true, dtruthy, dexecL_nil]
    exact ⟨fun h => by simp at h, fun _ => ⟨st, rfl, rfl, hcv⟩⟩
  | true =>
    simp only [Bool.true_and, dtruthy]
    rw [dexecL_single]
    have hfor : DStmt.exec cfg x st (.forIn .keyU (.var .coercedVal) tScanBody) =
        dforFold (fun st => DStmt.execL cfg x st tScanBody) .keyU (kvs.map Prod.fst) st := by
      simp only [DStmt.exec, DExp.eval, DEnv.get, hcv, hx]
    rw [hfor]
    obtain ⟨s1, s2⟩ := tforFold_scan cfg x y (kvs.map Prod.fst) st hcv
    have hany : (kvs.map Prod.fst).any (fun k => !memL k cfg.keys) = hasUnknownKey cfg.keys kvs := by
      simp [hasUnknownKey, List.any_map, Function.comp_def]
    rw [hany] at s1 s2
    refine ⟨?_, ?_⟩
    · intro h
      obtain ⟨st', e1, e2⟩ := s1 h
      rw [e1]
      simp [outD, e2]
    · intro h
      obtain ⟨st', e1, e2, e3⟩ := s2 h
      rw [e1]
      exact ⟨st', rfl, e2, e3⟩

/-! ### the loop over the declared keys -/

structure TInv (st : DSt) (y : PyVal) (sd : List (PyVal × PyVal)) (es : List (PyVal × Inv)) : Prop where
  sd : st.env.successDict = .dictPayload sd
  er : (es = [] ∧ st.env.errs = .dictPayload []) ∨ (es ≠ [] ∧ st.env.errs = .keyErrs es)
  cv : st.env.coercedVal = .py y


def TKeysOK (cfg : DictAnyCfg) (x y : PyVal) (aw : Bool) (data : List (PyVal × PyVal)) (evs : List Ev1) (ks : List PyVal)
    (reqs : List Bool) (st : DSt) (sd : List (PyVal × PyVal)) (es : List (PyVal × Inv)) : Prop :=
  (recLoop cfg.vid y data evs ks reqs = none →
    ∃ t, dforFold3 (fun st => DStmt.execL cfg x st (tLoopBody aw)) .keyU .validator .keyRequired (ks.zip (evs.zip reqs)) st =
      .error (.diverge, t)) ∧
  (∀ r e, recLoop cfg.vid y data evs ks reqs = some r → r.r = some e →
    dforFold3 (fun st => DStmt.execL cfg x st (tLoopBody aw)) .keyU .validator .keyRequired (ks.zip (evs.zip reqs)) st =
      .error (.exn e, st.tr ++ r.t)) ∧
  (∀ r, recLoop cfg.vid y data evs ks reqs = some r → r.r = none →
    ∃ st1 es', dforFold3 (fun st => DStmt.execL cfg x st (tLoopBody aw)) .keyU .validator .keyRequired (ks.zip (evs.zip reqs)) st =
        .ok (.next st1) ∧ st1.tr = st.tr ++ r.t ∧ r.ks = es'.map Prod.fst ∧ r.errs = es'.map Prod.snd ∧
      (es ++ es' = [] → TInv st1 y (sd ++ built ks r.got) []) ∧ (∃ sd', TInv st1 y sd' (es ++ es')))

/-- what one round leaves behind when it does not raise: the trace it adds, the error entry it files (if any), the
    payload it stores (if any) -/
theorem tLoopBody_step (cfg : DictAnyCfg) (x y : PyVal) (aw : Bool) (data : List (PyVal × PyVal)) (hx : dictItems y = some data)
    (st : DSt) (k : PyVal) (ev : Ev1) (req : Bool) (sd : List (PyVal × PyVal)) (es : List (PyVal × Inv)) (hinv : TInv st y sd es) :
    let st0 : DSt := { st with env := ((st.env.set .keyU (.py k)).set .validator (.fieldV ev)).set .keyRequired (.bool req) }
    (dictGet data k = none → req = true →
      ∃ st1, DStmt.execL cfg x st0 (tLoopBody aw) = .ok (.next st1) ∧ st1.tr = st.tr ∧
        TInv st1 y sd (es ++ [(k, .mk .missingKey y cfg.vid [])])) ∧
    (dictGet data k = none → req = false →
      ∃ st1, DStmt.execL cfg x st0 (tLoopBody aw) = .ok (.next st1) ∧ st1.tr = st.tr ∧ TInv st1 y sd es) ∧
    (∀ xv, dictGet data k = some xv →
      (ev xv = none → ∃ t, DStmt.execL cfg x st0 (tLoopBody aw) = .error (.diverge, t)) ∧
      (∀ e t, ev xv = some (.raised e, t) → DStmt.execL cfg x st0 (tLoopBody aw) = .error (.exn e, st.tr ++ t)) ∧
      (∀ w t, ev xv = some (.valid w, t) →
        ∃ st1, DStmt.execL cfg x st0 (tLoopBody aw) = .ok (.next st1) ∧ st1.tr = st.tr ++ t ∧
          TInv st1 y (if es.isEmpty then sd ++ [(k, w)] else sd) es) ∧
      (∀ e t, ev xv = some (.invalid e, t) →
        ∃ st1, DStmt.execL cfg x st0 (tLoopBody aw) = .ok (.next st1) ∧ st1.tr = st.tr ++ t ∧
          TInv st1 y sd (es ++ [(k, e)]))) := by
  intro st0
  obtain ⟨h1, h2, h3⟩ := hinv
  refine ⟨?_, ?_, ?_⟩
  · intro hg hr
    subst hr
    rcases h2 with ⟨rfl, h2⟩ | ⟨hne, h2⟩ <;> cases aw <;>
      simp [st0, tLoopBody, DStmt.execL, DStmt.exec, DExp.eval, DEnv.get, DEnv.set, hx, hg, dtruthy, h1, h2, h3] <;>
      exact ⟨rfl, .inr ⟨by simp, rfl⟩, rfl⟩
  · intro hg hr
    subst hr
    rcases h2 with ⟨rfl, h2⟩ | ⟨hne, h2⟩ <;> cases aw <;>
      simp [st0, tLoopBody, DStmt.execL, DStmt.exec, DExp.eval, DEnv.get, DEnv.set, hx, hg, dtruthy, h1, h2, h3]
    · exact ⟨rfl, .inl ⟨rfl, rfl⟩, rfl⟩
    · exact ⟨rfl, .inl ⟨rfl, rfl⟩, rfl⟩
    · exact ⟨rfl, .inr ⟨hne, rfl⟩, rfl⟩
    · exact ⟨rfl, .inr ⟨hne, rfl⟩, rfl⟩
  · intro xv hg
    refine ⟨?_, ?_, ?_, ?_⟩
    · intro h
      refine ⟨st.tr, ?_⟩
      cases aw <;> simp [st0, tLoopBody, DStmt.execL, DStmt.exec, DExp.eval, DEnv.get, DEnv.set, hx, hg, dtruthy, h, h3]
    · intro e t h
      cases aw <;> simp [st0, tLoopBody, DStmt.execL, DStmt.exec, DExp.eval, DEnv.get, DEnv.set, hx, hg, dtruthy, h, h3]
    · intro w t h
      rcases h2 with ⟨rfl, h2⟩ | ⟨hne, h2⟩
      · cases aw <;>
          simp [st0, tLoopBody, DStmt.execL, DStmt.exec, DExp.eval, DEnv.get, DEnv.set, hx, hg, dtruthy, h, h1, h2, h3] <;>
          exact ⟨rfl, .inl ⟨rfl, rfl⟩, rfl⟩
      · have hemp : es.isEmpty = false := by cases es with
          | nil => exact absurd rfl hne
          | cons a l => rfl
        cases aw <;>
          simp [st0, tLoopBody, DStmt.execL, DStmt.exec, DExp.eval, DEnv.get, DEnv.set, hx, hg, dtruthy, h, h1, h2, h3, hemp] <;>
          exact ⟨rfl, .inr ⟨hne, rfl⟩, rfl⟩
    · intro e t h
      rcases h2 with ⟨rfl, h2⟩ | ⟨hne, h2⟩ <;> cases aw <;>
        simp [st0, tLoopBody, DStmt.execL, DStmt.exec, DExp.eval, DEnv.get, DEnv.set, hx, hg, dtruthy, h, h1, h2, h3] <;>
        exact ⟨rfl, .inr ⟨by simp, rfl⟩, rfl⟩

theorem tforFold3_keys (cfg : DictAnyCfg) (x y : PyVal) (aw : Bool) (data : List (PyVal × PyVal)) (hx : dictItems y = some data) :
    ∀ (evs : List Ev1) (ks : List PyVal) (reqs : List Bool) (st : DSt) (sd : List (PyVal × PyVal)) (es : List (PyVal × Inv)),
      TInv st y sd es → TKeysOK cfg x y aw data evs ks reqs st sd es := by
  intro evs
  induction evs with
  | nil =>
    intro ks reqs st sd es hinv
    unfold TKeysOK
    refine ⟨?_, ?_, ?_⟩
    · intro h; simp [recLoop] at h
    · intro r e h hr
      simp only [recLoop, Option.some.injEq] at h; subst h; simp at hr
    · intro r h _
      simp only [recLoop, Option.some.injEq] at h; subst h
      refine ⟨st, [], by simp [dforFold3], by simp, rfl, rfl, ?_, ⟨sd, by simpa using hinv⟩⟩
      intro h0
      simp only [List.append_nil] at h0
      subst h0
      simpa [built] using hinv
  | cons ev evs ih =>
    intro ks reqs st sd es hinv
    -- the three lists run in step: when one of them ends, so does the loop
    have hstop : ∀ (ks : List PyVal) (reqs : List Bool), ks = [] ∨ reqs = [] → TKeysOK cfg x y aw data (ev :: evs) ks reqs st sd es := by
      intro ks reqs h
      have h0 : ks.zip ((ev :: evs).zip reqs) = [] := by
        rcases h with rfl | rfl
        · simp
        · simp
      have hr : recLoop cfg.vid y data (ev :: evs) ks reqs = some ⟨[], [], [], [], none⟩ := by
        rcases h with rfl | rfl
        · simp [recLoop]
        · cases ks <;> simp [recLoop]
      unfold TKeysOK
      rw [h0, hr]
      refine ⟨?_, ?_, ?_⟩
      · intro h; simp at h
      · intro r e h hr'
        simp only [Option.some.injEq] at h; subst h; simp at hr'
      · intro r h _
        simp only [Option.some.injEq] at h; subst h
        refine ⟨st, [], by simp [dforFold3], by simp, rfl, rfl, ?_, ⟨sd, by simpa using hinv⟩⟩
        intro h0'
        simp only [List.append_nil] at h0'
        subst h0'
        simpa [built] using hinv
    cases ks with
    | nil => exact hstop [] reqs (.inl rfl)
    | cons k ks =>
      cases reqs with
      | nil => exact hstop (k :: ks) [] (.inr rfl)
      | cons req reqs =>
        obtain ⟨b1, b2, b3⟩ := tLoopBody_step cfg x y aw data hx st k ev req sd es hinv
        unfold TKeysOK
        simp only [List.zip_cons_cons]
        rw [dforFold3_unfold]
        simp only [recLoop]
        cases hg : dictGet data k with
        | none =>
          cases req with
          | true =>
            obtain ⟨st1, e1, e2, e3⟩ := b1 hg rfl
            rw [e1]
            simp only [if_true]
            obtain ⟨i1, i2, i3⟩ := ih ks reqs st1 sd (es ++ [(k, .mk .missingKey y cfg.vid [])]) e3
            cases hl : recLoop cfg.vid y data evs ks reqs with
            | none =>
              refine ⟨?_, ?_, ?_⟩
              · intro _; exact i1 hl
              · intro r e h; simp at h
              · intro r h; simp at h
            | some r' =>
              refine ⟨?_, ?_, ?_⟩
              · intro h; simp at h
              · intro r e h hr
                simp only [Option.some.injEq] at h; subst h
                rw [i2 r' e hl hr, e2]
              · intro r h hr
                simp only [Option.some.injEq] at h; subst h
                obtain ⟨st2, es', j1, j2, j3, j4, j5, sd', j6⟩ := i3 r' hl hr
                refine ⟨st2, (k, .mk .missingKey y cfg.vid []) :: es', j1, by rw [j2, e2], by simp [j3], by simp [j4], ?_,
                  ⟨sd', by simpa [List.append_assoc] using j6⟩⟩
                intro h0; simp at h0
          | false =>
            obtain ⟨st1, e1, e2, e3⟩ := b2 hg rfl
            rw [e1]
            simp only [Bool.false_eq_true, if_false]
            obtain ⟨i1, i2, i3⟩ := ih ks reqs st1 sd es e3
            cases hl : recLoop cfg.vid y data evs ks reqs with
            | none =>
              refine ⟨?_, ?_, ?_⟩
              · intro _; exact i1 hl
              · intro r e h; simp at h
              · intro r h; simp at h
            | some r' =>
              refine ⟨?_, ?_, ?_⟩
              · intro h; simp at h
              · intro r e h hr
                simp only [Option.some.injEq] at h; subst h
                rw [i2 r' e hl hr, e2]
              · intro r h hr
                simp only [Option.some.injEq] at h; subst h
                obtain ⟨st2, es', j1, j2, j3, j4, j5, j6⟩ := i3 r' hl hr
                refine ⟨st2, es', j1, by rw [j2, e2], j3, j4, ?_, j6⟩
                intro h0
                simpa [built_cons_none] using j5 h0
        | some xv =>
          obtain ⟨c1, c2, c3, c4⟩ := b3 xv hg
          simp only
          cases hc : ev xv with
          | none =>
            obtain ⟨t0, h0⟩ := c1 hc
            refine ⟨?_, ?_, ?_⟩
            · intro _; exact ⟨t0, by rw [h0]⟩
            · intro r e h; simp at h
            · intro r h; simp at h
          | some p =>
            obtain ⟨out, t0⟩ := p
            cases out with
            | raised e0 =>
              have h0 := c2 e0 t0 hc
              refine ⟨?_, ?_, ?_⟩
              · intro h; simp at h
              · intro r e h hr
                simp only [Option.some.injEq] at h; subst h
                simp only [Option.some.injEq] at hr; subst hr
                rw [h0]
              · intro r h hr
                simp only [Option.some.injEq] at h; subst h; simp at hr
            | valid w0 =>
              obtain ⟨st1, e1, e2, e3⟩ := c3 w0 t0 hc
              rw [e1]
              simp only
              obtain ⟨i1, i2, i3⟩ := ih ks reqs st1 (if es.isEmpty then sd ++ [(k, w0)] else sd) es e3
              cases hl : recLoop cfg.vid y data evs ks reqs with
              | none =>
                refine ⟨?_, ?_, ?_⟩
                · intro _; exact i1 hl
                · intro r e h; simp at h
                · intro r h; simp at h
              | some r' =>
                refine ⟨?_, ?_, ?_⟩
                · intro h; simp at h
                · intro r e h hr
                  simp only [Option.some.injEq] at h; subst h
                  rw [i2 r' e hl hr, e2]; simp [List.append_assoc]
                · intro r h hr
                  simp only [Option.some.injEq] at h; subst h
                  obtain ⟨st2, es', j1, j2, j3, j4, j5, j6⟩ := i3 r' hl hr
                  refine ⟨st2, es', j1, by rw [j2, e2]; simp [List.append_assoc], j3, j4, ?_, j6⟩
                  intro h0
                  have hes : es = [] := (List.append_eq_nil_iff.mp h0).1
                  have := j5 h0
                  subst hes
                  simpa [built_cons_some, List.append_assoc] using this
            | invalid e0 =>
              obtain ⟨st1, e1, e2, e3⟩ := c4 e0 t0 hc
              rw [e1]
              simp only
              obtain ⟨i1, i2, i3⟩ := ih ks reqs st1 sd (es ++ [(k, e0)]) e3
              cases hl : recLoop cfg.vid y data evs ks reqs with
              | none =>
                refine ⟨?_, ?_, ?_⟩
                · intro _; exact i1 hl
                · intro r e h; simp at h
                · intro r h; simp at h
              | some r' =>
                refine ⟨?_, ?_, ?_⟩
                · intro h; simp at h
                · intro r e h hr
                  simp only [Option.some.injEq] at h; subst h
                  rw [i2 r' e hl hr, e2]; simp [List.append_assoc]
                · intro r h hr
                  simp only [Option.some.injEq] at h; subst h
                  obtain ⟨st2, es', j1, j2, j3, j4, j5, sd', j6⟩ := i3 r' hl hr
                  refine ⟨st2, (k, e0) :: es', j1, by rw [j2, e2]; simp [List.append_assoc], by simp [j3], by simp [j4], ?_,
                    ⟨sd', by simpa [List.append_assoc] using j6⟩⟩
                  intro h0; simp at h0

/-! ### after the loop -/

theorem tFinal_keys (cfg : DictAnyCfg) (x y : PyVal) (fin : DStmt) (hfin : fin = tFinalSync ∨ fin = tFinalAsync) (st : DSt)
    (sd : List (PyVal × PyVal)) (es : List (PyVal × Inv)) (hne : es ≠ []) (hinv : TInv st y sd es) :
    outD (DStmt.execL cfg x st [fin]) =
      some (.invalid (.mk (.keys (es.map Prod.fst)) y cfg.vid (es.map Prod.snd)), st.tr) := by
  obtain ⟨h1, h2, h3⟩ := hinv
  have he : st.env.errs = .keyErrs es := by
    rcases h2 with ⟨h, _⟩ | ⟨_, h⟩
    · exact absurd h hne
    · exact h
  have hemp : es.isEmpty = false := by cases es with
    | nil => exact absurd rfl hne
    | cons a l => rfl
  rcases hfin with rfl | rfl <;>
    simp [tFinalSync, tFinalAsync, tRetKeys, DStmt.execL, DStmt.exec, DExp.eval, DEnv.get, he, h3, dtruthy, hemp, outD]

theorem tFinal_ok (cfg : DictAnyCfg) (x y : PyVal) (m : Mode) (fin : DStmt)
    (hfin : (m = .sync ∧ fin = tFinalSync ∧ cfg.aoc = none) ∨ (m = .async ∧ fin = tFinalAsync)) (st : DSt)
    (sd : List (PyVal × PyVal)) (hinv : TInv st y sd []) :
    outD (DStmt.execL cfg x st [fin]) =
      some (match (runObjCheck cfg.oc cfg.vid (.dict 0 sd)).1 with
        | .valid _ => ((runAObjCheck m cfg.aoc cfg.vid (.dict 0 sd)).1,
                       st.tr ++ (runObjCheck cfg.oc cfg.vid (.dict 0 sd)).2 ++ (runAObjCheck m cfg.aoc cfg.vid (.dict 0 sd)).2)
        | other => (other, st.tr ++ (runObjCheck cfg.oc cfg.vid (.dict 0 sd)).2)) := by
  obtain ⟨h1, h2, h3⟩ := hinv
  have he : st.env.errs = .dictPayload [] := by
    rcases h2 with ⟨_, h⟩ | ⟨h, _⟩
    · exact h
    · exact absurd rfl h
  rcases hfin with ⟨rfl, rfl, hao⟩ | ⟨rfl, rfl⟩
  · cases hoc : cfg.oc with
    | none =>
      simp [tFinalSync, dOc, tRetOk, DStmt.execL, DStmt.exec, DExp.eval, DEnv.get, DEnv.set, dselfAttr, he, h1, hoc, hao,
        dtruthy, outD, runObjCheck, runAObjCheck]
    | some c =>
      cases hf : c.f (.dict 0 sd) <;>
        simp [tFinalSync, dOc, dRetCustom, tRetOk, DStmt.execL, DStmt.exec, DExp.eval, DEnv.get, DEnv.set, dselfAttr, he, h1,
          hoc, hao, hf, dtruthy, outD, runObjCheck, runAObjCheck]
  · cases hoc : cfg.oc with
    | none =>
      cases hao : cfg.aoc with
      | none =>
        simp [tFinalAsync, dOc, tAoc, tRetOk, DStmt.execL, DStmt.exec, DExp.eval, DEnv.get, DEnv.set, dselfAttr, he, h1, hoc,
          hao, dtruthy, outD, runObjCheck, runAObjCheck]
      | some a =>
        cases hg : a.f (.dict 0 sd) <;>
          simp [tFinalAsync, dOc, tAoc, dRetCustom, tRetCustomA, tRetOk, DStmt.execL, DStmt.exec, DExp.eval, DEnv.get, DEnv.set, dselfAttr,
            he, h1, hoc, hao, hg, dtruthy, outD, runObjCheck, runAObjCheck]
    | some c =>
      cases hf : c.f (.dict 0 sd) with
      | some e =>
        simp [tFinalAsync, dOc, tAoc, dRetCustom, tRetCustomA, tRetOk, DStmt.execL, DStmt.exec, DExp.eval, DEnv.get, DEnv.set, dselfAttr,
          he, h1, hoc, hf, dtruthy, outD, runObjCheck, runAObjCheck]
      | none =>
        cases hao : cfg.aoc with
        | none =>
          simp [tFinalAsync, dOc, tAoc, tRetOk, DStmt.execL, DStmt.exec, DExp.eval, DEnv.get, DEnv.set, dselfAttr, he, h1,
            hoc, hf, hao, dtruthy, outD, runObjCheck, runAObjCheck]
        | some a =>
          cases hg : a.f (.dict 0 sd) <;>
            simp [tFinalAsync, dOc, tAoc, dRetCustom, tRetCustomA, tRetOk, DStmt.execL, DStmt.exec, DExp.eval, DEnv.get, DEnv.set,
              dselfAttr, he, h1, hoc, hf, hao, hg, dtruthy, outD, runObjCheck, runAObjCheck, List.append_assoc]

/-- from the two initialisations to the end, once the gate and the scan have passed -/
theorem tTail_exec (cfg : DictAnyCfg) (x y : PyVal) (m : Mode) (fast : DSelf) (aw : Bool) (fin : DStmt)
    (hfast : fast = .fastKeysSync ∨ fast = .fastKeysAsync)
    (hfin : (m = .sync ∧ fin = tFinalSync ∧ cfg.aoc = none) ∨ (m = .async ∧ fin = tFinalAsync))
    (st : DSt) (data : List (PyVal × PyVal)) (hx : dictItems y = some data) (hcv : st.env.coercedVal = .py y) :
    outD (DStmt.execL cfg x st [.assign .successDict .emptyDict, .assign .errs .emptyDict, tLoop fast aw, fin]) =
      (match recLoop cfg.vid y data cfg.evs cfg.keys cfg.reqs with
       | none => none
       | some r => some (recFinish m cfg.vid cfg.toTD y st.tr r)) := by
  have hinit : DStmt.execL cfg x st [.assign .successDict .emptyDict, .assign .errs .emptyDict, tLoop fast aw, fin] =
      DStmt.execL cfg x { st with env := (st.env.set .successDict (.dictPayload [])).set .errs (.dictPayload []) }
        [tLoop fast aw, fin] := by
    simp [DStmt.execL, DStmt.exec, DExp.eval]
  rw [hinit]
  let st0 : DSt := { st with env := (st.env.set .successDict (.dictPayload [])).set .errs (.dictPayload []) }
  have hinv0 : TInv st0 y [] [] := ⟨rfl, .inl ⟨rfl, rfl⟩, by simpa [st0, DEnv.set] using hcv⟩
  rw [dexecL_cons]
  have hloop : DStmt.exec cfg x st0 (tLoop fast aw) =
      dforFold3 (fun st => DStmt.execL cfg x st (tLoopBody aw)) .keyU .validator .keyRequired
        (cfg.keys.zip (cfg.evs.zip cfg.reqs)) st0 := by
    rcases hfast with rfl | rfl <;> simp only [tLoop, DStmt.exec, DExp.eval, dselfAttr]
  show outD (match DStmt.exec cfg x st0 (tLoop fast aw) with
    | .error err => .error err
    | .ok (.next st) => DStmt.execL cfg x st [fin]
    | .ok (.returned d st) => .ok (.returned d st)) = _
  rw [hloop]
  obtain ⟨l1, l2, l3⟩ := tforFold3_keys cfg x y aw data hx cfg.evs cfg.keys cfg.reqs st0 [] [] hinv0
  cases hl : recLoop cfg.vid y data cfg.evs cfg.keys cfg.reqs with
  | none =>
    obtain ⟨t, ht⟩ := l1 hl
    rw [ht]; rfl
  | some r =>
    cases hr : r.r with
    | some e =>
      rw [l2 r e hl hr]
      simp [outD, recFinish, hr, st0]
    | none =>
      obtain ⟨st1, es', h1, h2, h3, h4, h5, sd', h6⟩ := l3 r hl hr
      rw [h1]
      simp only [List.nil_append] at h5 h6
      simp only
      cases hes : es' with
      | nil =>
        have hinv1 := h5 hes
        rw [tFinal_ok cfg x y m fin hfin st1 _ hinv1, h2]
        have hks : r.ks = [] := by rw [h3, hes]; rfl
        simp only [recFinish, hr, hks, List.isEmpty_nil, Bool.not_true, Bool.false_eq_true, if_false, st0]
        have hb : recBuild cfg.toTD r.got = .dict 0 (built cfg.keys r.got) := by
          simp [recBuild, DictAnyCfg.toTD, built]
        have hk : cfg.toTD.kind = .typeddict := rfl
        simp only [hb, hk, reduceCtorEq, if_false, List.append_nil, List.nil_append]
        have hoc : cfg.toTD.oc = cfg.oc := rfl
        have hao : cfg.toTD.aoc = cfg.aoc := rfl
        rw [hoc, hao]
        cases (runObjCheck cfg.oc cfg.vid (.dict 0 (built cfg.keys r.got))).1 <;> simp [List.append_assoc]
      | cons a l =>
        have hne : es' ≠ [] := by rw [hes]; simp
        have hfin' : fin = tFinalSync ∨ fin = tFinalAsync := by
          rcases hfin with ⟨_, h, _⟩ | ⟨_, h⟩
          · exact .inl h
          · exact .inr h
        rw [tFinal_keys cfg x y fin hfin' st1 sd' es' hne h6, h2]
        have hks : r.ks.isEmpty = false := by rw [h3, hes]; rfl
        simp [recFinish, hr, hks, h3, h4, st0]
        intro h0; exact absurd h0 hne

/-! ### the two methods -/

theorem tdGate_noexn (cfg : DictAnyCfg) (x : PyVal) (e : Exn) (t : List Ev) : tdGate cfg x ≠ .exn e t := by
  unfold tdGate
  cases cfg.coerce with
  | none => simp only; split <;> simp
  | some c =>
    simp only
    cases c with
    | dflt => simp only [applyCoerce]; split <;> simp
    | classOnly =>
      simp only [applyCoerce]
      split
      · split
        · split <;> simp
        · simp
      · simp
    | user cid compat f => simp only [applyCoerce]; split <;> simp

/-- what both methods do from the gate on; `hdict`: what the coercer returns is a dict (the model's completion for other
    values - `TypeError` before anything is looked at - is not what Python does for, say, a list) -/
theorem src_typeddict_generic (o : Oracle) (cfg : DictAnyCfg) (x : PyVal) (m : Mode) (fast : DSelf) (aw : Bool) (fin : DStmt)
    (hfast : fast = .fastKeysSync ∨ fast = .fastKeysAsync)
    (hfin : (m = .sync ∧ fin = tFinalSync ∧ cfg.aoc = none) ∨ (m = .async ∧ fin = tFinalAsync))
    (hdict : ∀ y t, tdGate cfg x = .acc y t → (dictItems y).isSome = true) :
    outD (DStmt.execL cfg x { env := {}, tr := [] }
        [tGate, tScan, .assign .successDict .emptyDict, .assign .errs .emptyDict, tLoop fast aw, fin]) =
      (match recGate o cfg.toTD x with
       | .exn e t => some (.raised e, t)
       | .rej ek t => some (.invalid (.mk ek x cfg.vid []), t)
       | .acc y t =>
         match dictItems y with
         | none => some (.raised .typeError, t)
         | some data =>
           if cfg.failUnknown && hasUnknownKey cfg.keys data then some (.invalid (.mk (.extraKeys cfg.keys) y cfg.vid []), t)
           else
             match recLoop cfg.vid y data cfg.evs cfg.keys cfg.reqs with
             | none => none
             | some r => some (recFinish m cfg.vid cfg.toTD y t r)) := by
  rw [recGate_td]
  obtain ⟨g1, g2⟩ := tGate_exec cfg x { env := {}, tr := [] }
    [tScan, .assign .successDict .emptyDict, .assign .errs .emptyDict, tLoop fast aw, fin]
  cases hg : tdGate cfg x with
  | exn e t => exact absurd hg (tdGate_noexn cfg x e t)
  | rej k t => rw [g1 k t hg]; simp
  | acc y t =>
    obtain ⟨st', h1, h2, h3⟩ := g2 y t hg
    rw [h1]
    have hd := hdict y t hg
    cases hdi : dictItems y with
    | none => rw [hdi] at hd; simp at hd
    | some data =>
      simp only
      obtain ⟨s1, s2⟩ := tScan_exec cfg x y st'
        [.assign .successDict .emptyDict, .assign .errs .emptyDict, tLoop fast aw, fin] data hdi h2
      cases hu : (cfg.failUnknown && hasUnknownKey cfg.keys data) with
      | true => rw [s1 hu, h3]; simp [hdi, hu]
      | false =>
        obtain ⟨st'', e1, e2, e3⟩ := s2 hu
        rw [e1, tTail_exec cfg x y m fast aw fin hfast hfin st'' data hdi e3, e2, h3]
        simp [hdi, hu]

/-- **the synchronous `TypedDictValidator`, as written in the source, is the model's `recordStep`** -/
theorem src_typeddict_sync (o : Oracle) (cfg : DictAnyCfg) (x : PyVal)
    (hdict : ∀ y t, tdGate cfg x = .acc y t → (dictItems y).isSome = true) :
    runDictAnyMethod cfg Src.typedDictSync x = recordStep o .sync cfg.vid cfg.toTD cfg.evs x := by
  rw [runDictAnyMethod_eq, typedDictSync_eq, dGuard_exec]
  simp only [recordStep, recPre]
  have hao : cfg.toTD.aoc = cfg.aoc := rfl
  rw [hao]
  cases ha : cfg.aoc with
  | some a => simp [outD]
  | none =>
    simp only [Option.isSome_none, Bool.false_eq_true, if_false, and_false]
    rw [src_typeddict_generic o cfg x .sync .fastKeysSync false tFinalSync (.inl rfl) (.inl ⟨rfl, rfl, ha⟩) hdict]
    have hfu : cfg.toTD.failUnknown = cfg.failUnknown := rfl
    have hk : cfg.toTD.keys = cfg.keys := rfl
    have hr : cfg.toTD.reqs = cfg.reqs := rfl
    rw [hfu, hk, hr]
    cases recGate o cfg.toTD x with
    | exn e t => rfl
    | rej k t => rfl
    | acc y t =>
      simp only
      cases dictItems y with
      | none => rfl
      | some data =>
        simp only
        cases (cfg.failUnknown && hasUnknownKey cfg.keys data) with
        | true => rfl
        | false =>
          simp only [Bool.false_eq_true, if_false]
          cases recLoop cfg.vid y data cfg.evs cfg.keys cfg.reqs <;> rfl

/-- **the asynchronous `TypedDictValidator`, as written in the source, is the model's `recordStep`** -/
theorem src_typeddict_async (o : Oracle) (cfg : DictAnyCfg) (x : PyVal)
    (hdict : ∀ y t, tdGate cfg x = .acc y t → (dictItems y).isSome = true) :
    runDictAnyMethod cfg Src.typedDictAsync x = recordStep o .async cfg.vid cfg.toTD cfg.evs x := by
  rw [runDictAnyMethod_eq, typedDictAsync_eq]
  simp only [recordStep, recPre]
  have hm : ¬ (Mode.async = Mode.sync ∧ cfg.toTD.aoc.isSome = true) := by simp
  simp only [hm, if_false]
  rw [src_typeddict_generic o cfg x .async .fastKeysAsync true tFinalAsync (.inr rfl) (.inr ⟨rfl, rfl⟩) hdict]
  have hfu : cfg.toTD.failUnknown = cfg.failUnknown := rfl
  have hk : cfg.toTD.keys = cfg.keys := rfl
  have hr : cfg.toTD.reqs = cfg.reqs := rfl
  rw [hfu, hk, hr]
  cases recGate o cfg.toTD x with
  | exn e t => rfl
  | rej k t => rfl
  | acc y t =>
    simp only
    cases dictItems y with
    | none => rfl
    | some data =>
      simp only
      cases (cfg.failUnknown && hasUnknownKey cfg.keys data) with
      | true => rfl
      | false =>
        simp only [Bool.false_eq_true, if_false]
        cases recLoop cfg.vid y data cfg.evs cfg.keys cfg.reqs <;> rfl

/-- with no coercer (the default) the side condition holds outright -/
theorem tdGate_dict_of_no_coercer (cfg : DictAnyCfg) (x : PyVal) (hc : cfg.coerce = none) :
    ∀ y t, tdGate cfg x = .acc y t → (dictItems y).isSome = true := by
  intro y t h
  simp only [tdGate, hc] at h
  split at h
  · rename_i hty
    simp only [Gate.acc.injEq] at h
    obtain ⟨rfl, _⟩ := h
    obtain ⟨oid, kvs, rfl⟩ := dict_of_ty x hty
    rfl
  · simp at h

/-! ### non-vacuity: a TypedDict `{"a": int, "b": NotRequired[str]}` on `{"a": 1, "zz": 2}` with unknown keys forbidden -/

example : runDictAnyMethod
      { vid := 1, keys := [.str [97], .str [98]],
        evs := [fun y => some (scalarStep default .sync 2 .int none [] [] [] y), fun y => some (scalarStep default .sync 3 .str none [] [] [] y)],
        reqs := [true, false], oc := none, aoc := none, failUnknown := true }
      Src.typedDictSync (.dict 9 [(.str [97], .int 1), (.str [122, 122], .int 2)]) =
    some (.invalid (.mk (.extraKeys [.str [97], .str [98]]) (.dict 9 [(.str [97], .int 1), (.str [122, 122], .int 2)]) 1 []), []) := by
  rw [src_typeddict_sync default _ _ (tdGate_dict_of_no_coercer _ _ rfl)]; rfl

end Koda
