/-
  C20 — translator tie: `CacheValidatorBase.__call__` / `validate_async` as written in koda_validate/base.py
  (`Generated/CacheSrc.lean`, regenerated on every run) are the model's `Cache.step`, for every store, key
  equivalence, wrapped validator and input.
-/
import KodaModel.PyCache
import KodaModel.Generated.CacheSrc
import KodaModel.Properties.C20

set_option linter.unusedSimpArgs false

namespace Koda

/-- **`CacheValidatorBase.__call__`, as written in the source, is `Cache.step … .sync`** -/
theorem src_cache_sync (keq : PyVal → PyVal → Bool) (bare : Mode → PyVal → Out) (s : Store) (x : PyVal) :
    runCache keq bare s Src.cacheSync x = some (Cache.step keq bare s .sync x) := by
  simp only [runCache, Src.cacheSync, Cache.step, KStmt.execL, KStmt.exec, KExp.eval, KEnv.set, KEnv.get]
  cases hg : Store.get keq s x with
  | some r => simp [ktruthy, KStmt.execL, KStmt.exec, KExp.eval, KEnv.get]
  | none =>
    simp only [Option.isSome_none, ktruthy, KStmt.execL, KStmt.exec, KExp.eval, callBare]
    cases hb : bare .sync x <;> simp [KEnv.set, KEnv.get, Store.set]

/-- **`CacheValidatorBase.validate_async`, as written in the source, is `Cache.step … .async`** -/
theorem src_cache_async (keq : PyVal → PyVal → Bool) (bare : Mode → PyVal → Out) (s : Store) (x : PyVal) :
    runCache keq bare s Src.cacheAsync x = some (Cache.step keq bare s .async x) := by
  simp only [runCache, Src.cacheAsync, Cache.step, KStmt.execL, KStmt.exec, KExp.eval, KEnv.set, KEnv.get]
  cases hg : Store.get keq s x with
  | some r => simp [ktruthy, KStmt.execL, KStmt.exec, KExp.eval, KEnv.get]
  | none =>
    simp only [Option.isSome_none, ktruthy, KStmt.execL, KStmt.exec, KExp.eval, callBare]
    cases hb : bare .async x <;> simp [KEnv.set, KEnv.get, Store.set]

/-- a history of calls through the translated methods: the store threads through and every call answers what
    `Cache.runHist` answers -/
def runCacheHist (keq : PyVal → PyVal → Bool) (bare : Mode → PyVal → Out) :
    Store → List (Mode × PyVal) → Option (Store × List (Out × List CEv))
  | s, [] => some (s, [])
  | s, (m, x) :: rest =>
    match runCache keq bare s (match m with | .sync => Src.cacheSync | .async => Src.cacheAsync) x with
    | none => none
    | some r =>
      match runCacheHist keq bare r.1 rest with
      | none => none
      | some rr => some (rr.1, (r.2.1, r.2.2) :: rr.2)

theorem src_cache_hist (keq : PyVal → PyVal → Bool) (bare : Mode → PyVal → Out) (s : Store) (h : List (Mode × PyVal)) :
    runCacheHist keq bare s h = some (Cache.runHist keq bare s h) := by
  induction h generalizing s with
  | nil => rfl
  | cons c rest ih =>
    obtain ⟨m, x⟩ := c
    cases m with
    | sync => simp only [runCacheHist, src_cache_sync, ih, Cache.runHist]
    | async => simp only [runCacheHist, src_cache_async, ih, Cache.runHist]

/-- so the source's own methods are transparent over any history (C20_transparent transported) -/
theorem src_cache_transparent {keq bare} (hr : Respects keq bare) (hrefl : ∀ x, keq x x = true)
    (h : List (Mode × PyVal)) :
    ∃ r, runCacheHist keq bare [] h = some r ∧ r.2.map Prod.fst = h.map (fun c => bare c.1 c.2) := by
  refine ⟨_, src_cache_hist keq bare [] h, ?_⟩
  exact C20_transparent_empty hr hrefl h

end Koda
