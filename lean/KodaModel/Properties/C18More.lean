/-
  C18, continued — the refinement clauses the first file does not cover:

  * adding a container-level predicate to a list / set / uniform-tuple / map validator only narrows
    (`C18_add_seq_predicate`, `C18_add_map_predicate`), in both modes, whatever the other predicates;
  * making keys required only narrows, and a still-accepted value keeps its payload
    (`C18_require_key`), for all five record-shaped validators;
  * a one-key dict validator around `v` accepts `{k: x}` iff `v` accepts `x`, with `v`'s payload under
    `k`, and otherwise reports `v`'s own error under `k` (`C18_singleton_record_*`).
-/
import KodaModel.Properties.C18
import KodaModel.Properties.C17Cont

namespace Koda

/-- the synchronous predicates of a longer list passing means those of the shorter list pass -/
theorem contPreds_append (m : Mode) (ps : List Pred) (p : Pred) (aps : List Pred) (y : PyVal) (t : List Ev)
    (h : contPreds m (ps ++ [p]) aps y = ([], t, none)) : ∃ t', contPreds m ps aps y = ([], t', none) := by
  simp only [contPreds] at h
  cases he : (runPreds (ps ++ [p]) y).2.2 with
  | some e => simp [he] at h
  | none =>
    simp only [he] at h
    have hfail : (runPreds (ps ++ [p]) y).1 = [] := by
      split at h
      · simp only [Prod.mk.injEq, List.append_eq_nil_iff] at h; exact h.1.1
      · simp only [Prod.mk.injEq] at h; exact h.1
    obtain ⟨a, b⟩ := runPreds_append ps [p] y he hfail
    simp only [contPreds, a, b, List.nil_append]
    split at h
    · rename_i hm
      simp only [Prod.mk.injEq, List.append_eq_nil_iff] at h
      simp only [hm, if_true]
      exact ⟨_, by rw [h.1.2, h.2.2]⟩
    · rename_i hm
      simp only [hm, if_false]
      exact ⟨_, rfl⟩

/-- **adding a container predicate** (list, set, uniform tuple): whatever the refined validator
    accepts, the original accepts with the same payload -/
theorem C18_add_seq_predicate (k : SeqKind) (o : Oracle) (m : Mode) (vid : Nat) (ps : List Pred) (p : Pred)
    (aps : List Pred) (c : Option CoerceK) (ev : Ev1) (x w : PyVal) (t : List Ev)
    (h : seqStep k o m vid (ps ++ [p]) aps c ev x = some (.valid w, t)) :
    ∃ t', seqStep k o m vid ps aps c ev x = some (.valid w, t') := by
  cases hp : seqPre k o m vid (ps ++ [p]) aps c x with
  | inl r =>
    rw [C03_seq_container_first hp] at h
    simp only [Option.some.injEq] at h
    exact absurd (by rw [h]) (seqPre_inl_not_valid hp w)
  | inr q =>
    obtain ⟨y, xs, t0⟩ := q
    obtain ⟨hg, ta, tb, hgate, hpreds, hit, rfl⟩ := (C03_pre_iff k o m vid (ps ++ [p]) aps c x y xs t0).mp hp
    obtain ⟨tb', hpreds'⟩ := contPreds_append m ps p aps y tb hpreds
    have hp' : seqPre k o m vid ps aps c x = .inr (y, xs, ta ++ tb') :=
      (C03_pre_iff k o m vid ps aps c x y xs _).mpr ⟨hg, ta, tb', hgate, hpreds', hit, rfl⟩
    simp only [seqStep, hp, hp'] at h ⊢
    cases hl : loopItems ev (k == .set) xs 0 true with
    | none => simp [hl] at h
    | some r =>
      simp only [hl, Option.some.injEq, Prod.mk.injEq] at h ⊢
      exact ⟨_, h.1, rfl⟩

/-- what "guard, gate and container predicates passed" means for a map validator -/
theorem mapPre_iff (o : Oracle) (m : Mode) (vid : Nat) (ps aps : List Pred) (c : Option CoerceK)
    (x y : PyVal) (kvs : List (PyVal × PyVal)) (t : List Ev) :
    mapPre o m vid ps aps c x = .inr (y, kvs, t) ↔
      ¬ (m = .sync ∧ aps ≠ []) ∧
      ∃ t0 t1, gate o .dict .dict c x = .acc y t0 ∧ contPreds m ps aps y = ([], t1, none) ∧
        dictItems y = some kvs ∧ t = t0 ++ t1 := by
  simp only [mapPre]
  constructor
  · intro h
    split at h
    · simp at h
    · rename_i hg
      refine ⟨hg, ?_⟩
      split at h
      · simp at h
      · simp at h
      · rename_i y' t0 hgate
        split at h
        · simp at h
        · rename_i f t1 hp
          split at h
          · simp at h
          · rename_i hf
            split at h
            · simp at h
            · rename_i kvs' hd
              simp only [Sum.inr.injEq, Prod.mk.injEq] at h
              obtain ⟨rfl, rfl, rfl⟩ := h
              have : f = [] := by
                cases f with
                | nil => rfl
                | cons a l => simp at hf
              subst this
              exact ⟨t0, t1, hgate, hp, hd, rfl⟩
  · rintro ⟨hg, t0, t1, hgate, hp, hd, rfl⟩
    simp [hg, hgate, hp, hd]

/-- **adding a container predicate to a map validator** -/
theorem C18_add_map_predicate (o : Oracle) (m : Mode) (vid : Nat) (ps : List Pred) (p : Pred) (aps : List Pred)
    (c : Option CoerceK) (evk evv : Ev1) (x w : PyVal) (t : List Ev)
    (h : mapStep o m vid (ps ++ [p]) aps c evk evv x = some (.valid w, t)) :
    ∃ t', mapStep o m vid ps aps c evk evv x = some (.valid w, t') := by
  cases hp : mapPre o m vid (ps ++ [p]) aps c x with
  | inl r =>
    simp only [mapStep, hp, Option.some.injEq] at h
    exact absurd (by rw [h]) (mapPre_inl_not_valid hp w)
  | inr q =>
    obtain ⟨y, kvs, t0⟩ := q
    obtain ⟨hg, ta, tb, hgate, hpreds, hd, rfl⟩ := (mapPre_iff o m vid (ps ++ [p]) aps c x y kvs t0).mp hp
    obtain ⟨tb', hpreds'⟩ := contPreds_append m ps p aps y tb hpreds
    have hp' : mapPre o m vid ps aps c x = .inr (y, kvs, ta ++ tb') :=
      (mapPre_iff o m vid ps aps c x y kvs _).mpr ⟨hg, ta, tb', hgate, hpreds', hd, rfl⟩
    simp only [mapStep, hp, hp'] at h ⊢
    cases hl : mapLoop evk evv kvs [] with
    | none => simp [hl] at h
    | some r =>
      simp only [hl, Option.some.injEq] at h ⊢
      have hout : (mapFinish vid y (ta ++ tb) r).1 = .valid w := by rw [h]
      refine ⟨(mapFinish vid y (ta ++ tb') r).2, ?_⟩
      have : (mapFinish vid y (ta ++ tb') r).1 = (mapFinish vid y (ta ++ tb) r).1 := by
        simp only [mapFinish]
        cases r.r <;> simp only
        split <;> rfl
      rw [← hout, ← this]

/-! ### making keys required -/

/-- `strict` requires every key `lax` requires -/
inductive ReqLe : List Bool → List Bool → Prop
  | nil : ReqLe [] []
  | cons {a b as bs} : (a = true → b = true) → ReqLe as bs → ReqLe (a :: as) (b :: bs)

theorem recLoop_require (vid : Nat) (dv : PyVal) (data : List (PyVal × PyVal)) :
    ∀ (evs : List Ev1) (keys : List PyVal) (lax strict : List Bool), ReqLe lax strict →
      ∀ got errs t, recLoop vid dv data evs keys strict = some ⟨got, [], errs, t, none⟩ →
        recLoop vid dv data evs keys lax = some ⟨got, [], errs, t, none⟩ := by
  intro evs
  induction evs with
  | nil => intro keys lax strict _ got errs t h; simpa [recLoop] using h
  | cons ev evs ih =>
    intro keys lax strict hle got errs t h
    cases keys with
    | nil => cases hle <;> simpa [recLoop] using h
    | cons k keys =>
      cases hle with
      | nil => simpa [recLoop] using h
      | @cons a b las bs hab hrest =>
        simp only [recLoop] at h ⊢
        cases hd : dictGet data k with
        | none =>
          simp only [hd] at h ⊢
          cases hl : recLoop vid dv data evs keys bs with
          | none => simp [hl] at h
          | some r =>
            obtain ⟨got', ks', errs', t', r'⟩ := r
            simp only [hl] at h
            cases b with
            | true => simp at h
            | false =>
              simp only [Bool.false_eq_true, if_false, Option.some.injEq, RecR.mk.injEq] at h
              obtain ⟨rfl, rfl, rfl, rfl, rfl⟩ := h
              have ha : a = false := by
                cases a with
                | false => rfl
                | true => exact absurd (hab rfl) (by simp)
              rw [ih keys las bs hrest got' errs' t' hl]
              simp [ha]
        | some xv =>
          simp only [hd] at h ⊢
          cases hx : ev xv with
          | none => simp [hx] at h
          | some pr =>
            obtain ⟨out, t0⟩ := pr
            cases out with
            | raised e => simp [hx] at h
            | invalid e =>
              simp only [hx] at h
              cases hl : recLoop vid dv data evs keys bs with
              | none => simp [hl] at h
              | some r => simp [hl] at h
            | valid w0 =>
              simp only [hx] at h ⊢
              cases hl : recLoop vid dv data evs keys bs with
              | none => simp [hl] at h
              | some r =>
                obtain ⟨got', ks', errs', t', r'⟩ := r
                simp only [hl, Option.some.injEq, RecR.mk.injEq] at h
                obtain ⟨rfl, rfl, rfl, rfl, rfl⟩ := h
                rw [ih keys las bs hrest got' errs' t' hl]

/-- **making keys required**: whatever the stricter record validator accepts, the laxer one accepts,
    with the same payload and the same trace -/
theorem C18_require_key (o : Oracle) (m : Mode) (vid : Nat) (cfg : RecCfg) (strict : List Bool)
    (hle : ReqLe cfg.reqs strict) (evs : List Ev1) (x w : PyVal) (t : List Ev)
    (h : recordStep o m vid { cfg with reqs := strict } evs x = some (.valid w, t)) :
    recordStep o m vid cfg evs x = some (.valid w, t) := by
  have hpre : recPre o m vid { cfg with reqs := strict } x = recPre o m vid cfg x := by
    simp [recPre, recGate]
  simp only [recordStep, hpre] at h ⊢
  cases hp : recPre o m vid cfg x with
  | inl r => simpa [hp] using h
  | inr q =>
    obtain ⟨y, data, t0⟩ := q
    simp only [hp] at h ⊢
    cases hl : recLoop vid y data evs cfg.keys strict with
    | none =>
      have : recLoop vid y data evs ({ cfg with reqs := strict } : RecCfg).keys ({ cfg with reqs := strict } : RecCfg).reqs = none := hl
      simp [this] at h
    | some r =>
      obtain ⟨got, ks, errs, t1, rr⟩ := r
      have hl' : recLoop vid y data evs ({ cfg with reqs := strict } : RecCfg).keys ({ cfg with reqs := strict } : RecCfg).reqs
          = some ⟨got, ks, errs, t1, rr⟩ := hl
      simp only [hl', Option.some.injEq] at h
      have hfin : ∀ r, recFinish m vid { cfg with reqs := strict } y t0 r = recFinish m vid cfg y t0 r := by
        intro r; simp [recFinish, recBuild, construct]
      rw [hfin] at h
      have hv : (recFinish m vid cfg y t0 ⟨got, ks, errs, t1, rr⟩).1 = .valid w := by rw [h]
      cases rr with
      | some e => simp [recFinish] at hv
      | none =>
        cases ks with
        | cons k ks => simp [recFinish] at hv
        | nil =>
          rw [recLoop_require vid y data evs cfg.keys cfg.reqs strict hle got errs t1 hl]
          simp only [Option.some.injEq]
          exact h

/-! ### a one-key dict validator around `v` -/

/-- `DictValidatorAny({k: v})`, no whole-object check -/
def oneKeyCfg (k : PyVal) (failUnknown : Bool) : RecCfg :=
  { kind := .dictAny, keys := [k], reqs := [true], cls := default, fieldNames := [], defaults := [],
    intoId := 0, into := fun _ => .none, oc := none, aoc := none, failUnknown := failUnknown, coerce := none }

theorem oneKey_pre (o : Oracle) (m : Mode) (vid oid : Nat) (k x : PyVal) (fu : Bool) (hk : pyEq k k = true) :
    recPre o m vid (oneKeyCfg k fu) (.dict oid [(k, x)]) = .inr (.dict oid [(k, x)], [(k, x)], []) := by
  rw [C04_pre_iff]
  refine ⟨by simp [oneKeyCfg], by simp [recGate, oneKeyCfg, PyVal.ty], rfl, ?_⟩
  simp [oneKeyCfg, hasUnknownKey, memL, hk]

/-- `{k: x}` is accepted iff `x` is accepted by the child, with the child's payload under `k` … -/
theorem C18_singleton_record_valid (o : Oracle) (m : Mode) (vid oid : Nat) (k : PyVal) (fu : Bool)
    (hk : pyEq k k = true) (ev : Ev1) (x w : PyVal) (t : List Ev) (h : ev x = some (.valid w, t)) :
    recordStep o m vid (oneKeyCfg k fu) [ev] (.dict oid [(k, x)]) = some (.valid (.dict 0 [(k, w)]), t) := by
  simp only [recordStep, oneKey_pre o m vid oid k x fu hk]
  have hl : recLoop vid (.dict oid [(k, x)]) [(k, x)] [ev] (oneKeyCfg k fu).keys (oneKeyCfg k fu).reqs =
      some ⟨[some w], [], [], t ++ [], none⟩ := by
    simp [recLoop, oneKeyCfg, dictGet, hk, h]
  rw [hl]
  cases m <;> simp [recFinish, recBuild, oneKeyCfg, runObjCheck, runAObjCheck]

/-- … and rejected with the child's own error under `k` otherwise -/
theorem C18_singleton_record_invalid (o : Oracle) (m : Mode) (vid oid : Nat) (k : PyVal) (fu : Bool)
    (hk : pyEq k k = true) (ev : Ev1) (x : PyVal) (e : Inv) (t : List Ev) (h : ev x = some (.invalid e, t)) :
    recordStep o m vid (oneKeyCfg k fu) [ev] (.dict oid [(k, x)]) =
      some (.invalid (.mk (.keys [k]) (.dict oid [(k, x)]) vid [e]), t) := by
  simp only [recordStep, oneKey_pre o m vid oid k x fu hk]
  have hl : recLoop vid (.dict oid [(k, x)]) [(k, x)] [ev] (oneKeyCfg k fu).keys (oneKeyCfg k fu).reqs =
      some ⟨[none], [k], [e], t ++ [], none⟩ := by
    simp [recLoop, oneKeyCfg, dictGet, hk, h]
  rw [hl]
  simp [recFinish]

/-! ### non-vacuity -/

example : ReqLe [false, true] [true, true] := .cons (by simp) (.cons (by simp) .nil)

example : recordStep default .sync 1 (oneKeyCfg (.str [97]) true) [fun x => some (.valid x, [])]
    (.dict 7 [(.str [97], .int 3)]) = some (.valid (.dict 0 [(.str [97], .int 3)]), []) :=
  C18_singleton_record_valid default .sync 1 7 (.str [97]) true (by decide) _ (.int 3) (.int 3) [] rfl

end Koda
