/-
  C15 — the built-in predicates and processors *as written in /repo's current source*.

  `Generated/PredSrc.lean` is rewritten on every run by `harness/pysrc.py` from the AST of every
  `Predicate` / `Processor` subclass in koda_validate.  The theorems below say, class by class, that
  evaluating the translated `__call__` body (with `self`'s attributes bound) is exactly the model's
  `PredK.call` / `ProcK.call` — for every parameter value and every argument, exceptions included.
  A source change to a predicate changes the generated term, and its theorem no longer checks.

  `UniqueItems` (a loop with `try / except`) is outside the translated subset: its whole body is pinned
  as an AST dump (`src_UniqueItems_pinned`); the model's `uniqueLoop` stays tied to it by the
  correspondence stream alone.
-/
import KodaModel.Generated.PredSrc

namespace Koda

def envOf (l : List (String × PyVal)) (pat : Option Pat := none) : SelfEnv :=
  { attr := fun a => (l.lookup a).getD .none, pat := pat }

/-- run the translated `__call__` of class `cls` -/
def evalSrc (cls : String) (env : SelfEnv) (x : PyVal) : Except Exn PyVal :=
  (lookupSrc Src.calls cls).eval env x

theorem src_Min (m : PyVal) (excl : Bool) (x : PyVal) :
    evalSrc "Min" (envOf [("minimum", m), ("exclusive_minimum", .bool excl)]) x = boolV ((PredK.min m excl).call x) := by
  cases excl <;> rfl

theorem src_Max (m : PyVal) (excl : Bool) (x : PyVal) :
    evalSrc "Max" (envOf [("maximum", m), ("exclusive_maximum", .bool excl)]) x = boolV ((PredK.max m excl).call x) := by
  cases excl <;> rfl

theorem src_MultipleOf (f x : PyVal) :
    evalSrc "MultipleOf" (envOf [("factor", f)]) x = boolV ((PredK.multipleOf f).call x) := rfl

theorem src_EqualTo (m x : PyVal) :
    evalSrc "EqualTo" (envOf [("match", m)]) x = boolV ((PredK.equalTo m).call x) := rfl

theorem src_Choices (vs : List PyVal) (oid : Nat) (x : PyVal) :
    evalSrc "Choices" (envOf [("choices", .set oid vs)]) x = boolV ((PredK.choices vs).call x) := by
  have h : evalSrc "Choices" (envOf [("choices", .set oid vs)]) x =
      (if !hashable x then .error .typeError else .ok (.bool (memL x vs))) := rfl
  rw [h]
  simp only [PredK.call, boolV]
  cases hashable x <;> rfl

/-! lengths and counts: `len(val) <op> self.<n>` -/

theorem pyLe_int (a b : Int) : pyLe (.int a) (.int b) = .ok (decide (a ≤ b)) := by
  simp only [pyLe, pyLt, PyVal.unsub, xnum, isDecNaN, Bool.or_self, Bool.false_eq_true, if_false, XNum.lt, Frac.lt,
    Frac.ofInt, pyEq, numEq, XNum.eq, Frac.eq]
  by_cases h : a < b
  · simp [h]; omega
  · by_cases h2 : a = b
    · subst h2; simp
    · have : ¬ a ≤ b := by omega
      simp [h, h2, this]

theorem pyEqX_int (a b : Int) : pyEqX (.int a) (.int b) = .ok (decide (a = b)) := by
  simp only [pyEqX, PyVal.unsub, isSNaN, Bool.or_self, Bool.false_eq_true, if_false, pyEq, numEq, xnum, XNum.eq, Frac.eq,
    Frac.ofInt]
  by_cases h : a = b
  · subst h; simp
  · simp [h]

theorem src_len_ge (cls attr : String) (n : Int) (x : PyVal)
    (h : lookupSrc Src.calls cls = .ret (.cmp .ge (.len .val) (.self attr))) :
    evalSrc cls (envOf [(attr, .int n)]) x = boolV (lenCmp x (fun l => decide (l ≥ n))) := by
  simp only [evalSrc, h, PStmt.eval, PExp.eval, envOf, lenCmp, List.lookup, beq_self_eq_true, Option.getD_some]
  cases pyLen x with
  | none => rfl
  | some l => simp [swapLe, pyLe_int, boolV, Except.map]

theorem src_len_le (cls attr : String) (n : Int) (x : PyVal)
    (h : lookupSrc Src.calls cls = .ret (.cmp .le (.len .val) (.self attr))) :
    evalSrc cls (envOf [(attr, .int n)]) x = boolV (lenCmp x (fun l => decide (l ≤ n))) := by
  simp only [evalSrc, h, PStmt.eval, PExp.eval, envOf, lenCmp, List.lookup, beq_self_eq_true, Option.getD_some]
  cases pyLen x with
  | none => rfl
  | some l => simp [pyLe_int, boolV, Except.map]

theorem src_len_eq (cls attr : String) (n : Int) (x : PyVal)
    (h : lookupSrc Src.calls cls = .ret (.cmp .eq (.len .val) (.self attr))) :
    evalSrc cls (envOf [(attr, .int n)]) x = boolV (lenCmp x (fun l => decide (l = n))) := by
  simp only [evalSrc, h, PStmt.eval, PExp.eval, envOf, lenCmp, List.lookup, beq_self_eq_true, Option.getD_some]
  cases pyLen x with
  | none => rfl
  | some l => simp [pyEqX_int, boolV, Except.map]

theorem src_MinLength (n : Int) (x : PyVal) :
    evalSrc "MinLength" (envOf [("length", .int n)]) x = boolV ((PredK.minLength n).call x) := src_len_ge _ _ n x rfl
theorem src_MaxLength (n : Int) (x : PyVal) :
    evalSrc "MaxLength" (envOf [("length", .int n)]) x = boolV ((PredK.maxLength n).call x) := src_len_le _ _ n x rfl
theorem src_ExactLength (n : Int) (x : PyVal) :
    evalSrc "ExactLength" (envOf [("length", .int n)]) x = boolV ((PredK.exactLength n).call x) := src_len_eq _ _ n x rfl
theorem src_MinItems (n : Int) (x : PyVal) :
    evalSrc "MinItems" (envOf [("item_count", .int n)]) x = boolV ((PredK.minItems n).call x) := src_len_ge _ _ n x rfl
theorem src_MaxItems (n : Int) (x : PyVal) :
    evalSrc "MaxItems" (envOf [("item_count", .int n)]) x = boolV ((PredK.maxItems n).call x) := src_len_le _ _ n x rfl
theorem src_ExactItemCount (n : Int) (x : PyVal) :
    evalSrc "ExactItemCount" (envOf [("item_count", .int n)]) x = boolV ((PredK.exactItemCount n).call x) :=
  src_len_eq _ _ n x rfl
theorem src_MinKeys (n : Int) (x : PyVal) :
    evalSrc "MinKeys" (envOf [("size", .int n)]) x = boolV ((PredK.minKeys n).call x) := src_len_ge _ _ n x rfl
theorem src_MaxKeys (n : Int) (x : PyVal) :
    evalSrc "MaxKeys" (envOf [("size", .int n)]) x = boolV ((PredK.maxKeys n).call x) := src_len_le _ _ n x rfl

/-! strings -/

theorem src_StartsWith (p x : PyVal) :
    evalSrc "StartsWith" (envOf [("prefix", p)]) x = boolV ((PredK.startsWith p).call x) := rfl
theorem src_EndsWith (p x : PyVal) :
    evalSrc "EndsWith" (envOf [("suffix", p)]) x = boolV ((PredK.endsWith p).call x) := rfl

theorem src_RegexPredicate (p : Pat) (x : PyVal) :
    evalSrc "RegexPredicate" (envOf [] (some p)) x = boolV ((PredK.regex p).call x) := rfl

/-- EmailPredicate's body is RegexPredicate's, on its default pattern … -/
theorem src_EmailPredicate (p : Pat) (x : PyVal) :
    evalSrc "EmailPredicate" (envOf [] (some p)) x = boolV ((PredK.regex p).call x) := rfl
/-- … which is the pattern the model's `emailMatch` was written for -/
theorem src_email_pattern : Src.emailPattern = "[a-zA-Z0-9_.+-]+@[a-zA-Z0-9-]+\\.[a-zA-Z0-9-.]+" := by decide

theorem src_NotBlank (x : PyVal) : evalSrc "NotBlank" (envOf []) x = boolV (PredK.notBlank.call x) := by
  have hl : lookupSrc Src.calls "NotBlank" = .ret (.cmp .ne (.len (.meth0 .val "strip")) (.int 0)) := rfl
  unfold evalSrc
  rw [hl]
  simp only [PStmt.eval, PExp.eval, callMeth0, if_true, ProcK.call, PredK.call]
  cases x.unsub <;> simp [pyLen, pyEqX_int, boolV, Except.map]
  all_goals (rename_i l; cases stripWith _ l <;> simp)

/-! processors -/

theorem src_Strip (x : PyVal) : evalSrc "Strip" (envOf []) x = ProcK.call .strip x := rfl
theorem src_UpperCase (x : PyVal) : evalSrc "UpperCase" (envOf []) x = ProcK.call .upper x := rfl
theorem src_LowerCase (x : PyVal) : evalSrc "LowerCase" (envOf []) x = ProcK.call .lower x := rfl

/-- `UniqueItems.__call__` is outside the translated subset; its body is pinned as it was when
    `uniqueLoop` was written from it -/
theorem src_UniqueItems_pinned : lookupSrc Src.calls "UniqueItems" =
    (.unsupported "AnnAssign(target=Name(id='hashable_items', ctx=Store()), annotation=Subscript(value=Name(id='Set', ctx=Load()), slice=Subscript(value=Name(id='Tuple', ctx=Load()), slice=Tuple(elts=[Subscript(value=Name(id='Type', ctx=Load()), slice=Name(id='Any', ctx=Load()), ctx=Load()), Name(id='Any', ctx=Load())], ctx=Load()), ctx=Load()), ctx=Load()), value=Call(func=Name(id='set', ctx=Load()), args=[], keywords=[]), simple=1) ; AnnAssign(target=Name(id='unhashable_items', ctx=Store()), annotation=Subscript(value=Name(id='List', ctx=Load()), slice=Subscript(value=Name(id='Tuple', ctx=Load()), slice=Tuple(elts=[Subscript(value=Name(id='Type', ctx=Load()), slice=Name(id='Any', ctx=Load()), ctx=Load()), Name(id='Any', ctx=Load())], ctx=Load()), ctx=Load()), ctx=Load()), value=List(elts=[], ctx=Load()), simple=1) ; For(target=Name(id='item', ctx=Store()), iter=Name(id='val', ctx=Load()), body=[Assign(targets=[Name(id='typed_lookup', ctx=Store())], value=Tuple(elts=[Call(func=Name(id='type', ctx=Load()), args=[Name(id='item', ctx=Load())], keywords=[]), Name(id='item', ctx=Load())], ctx=Load())), Try(body=[If(test=Compare(left=Name(id='typed_lookup', ctx=Load()), ops=[In()], comparators=[Name(id='hashable_items', ctx=Load())]), body=[Return(value=Constant(value=False))], orelse=[Expr(value=Call(func=Attribute(value=Name(id='hashable_items', ctx=Load()), attr='add', ctx=Load()), args=[Name(id='typed_lookup', ctx=Load())], keywords=[]))])], handlers=[ExceptHandler(type=Name(id='TypeError', ctx=Load()), body=[If(test=Compare(left=Name(id='typed_lookup', ctx=Load()), ops=[In()], comparators=[Name(id='unhashable_items', ctx=Load())]), body=[Return(value=Constant(value=False))], orelse=[Expr(value=Call(func=Attribute(value=Name(id='unhashable_items', ctx=Load()), attr='append', ctx=Load()), args=[Name(id='typed_lookup', ctx=Load())], keywords=[]))])])], orelse=[], finalbody=[])], orelse=[Return(value=Constant(value=True))])") := rfl

/-! the inventory: exactly these classes exist, with these fields -/

theorem src_classes : Src.classes = [
    ("Choices", "Predicate", ["choices"]), ("EmailPredicate", "Predicate", ["pattern"]),
    ("EndsWith", "Predicate", ["suffix"]), ("EqualTo", "Predicate", ["match"]),
    ("ExactItemCount", "Predicate", ["item_count"]), ("ExactLength", "Predicate", ["length"]),
    ("LowerCase", "Processor", []), ("Max", "Predicate", ["maximum", "exclusive_maximum"]),
    ("MaxItems", "Predicate", ["item_count"]), ("MaxKeys", "Predicate", ["size"]),
    ("MaxLength", "Predicate", ["length"]), ("Min", "Predicate", ["minimum", "exclusive_minimum"]),
    ("MinItems", "Predicate", ["item_count"]), ("MinKeys", "Predicate", ["size"]),
    ("MinLength", "Predicate", ["length"]), ("MultipleOf", "Predicate", ["factor"]),
    ("NotBlank", "Predicate", []), ("RegexPredicate", "Predicate", ["pattern"]),
    ("StartsWith", "Predicate", ["prefix"]), ("Strip", "Processor", []), ("UniqueItems", "Predicate", []),
    ("UpperCase", "Processor", [])] := by decide

end Koda
