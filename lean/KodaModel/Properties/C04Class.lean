/-
  C04 — `DataclassValidator` and `NamedTupleValidator` *as written in /repo's current source*.

  `Generated/DictAnySrc.lean` (regenerated on every run) also holds the translations of `_validate_to_tuple` /
  `_validate_to_tuple_async` of both classes (dataclasses.py, namedtuple.py); apart from the names `data_cls` /
  `named_tuple_cls` and the way an instance becomes a dict (`_dataclass_instance_to_dict(val)` / `val._asdict()`) the
  four bodies are the same text (`src_class_same`).  Interpreting them is the model's `recordStep` for the `dataclass` /
  `namedtuple` kind: a plain dict or an instance of *exactly* the target class (or what the coercer returns), undeclared
  keys first, every declared key on the coerced value, the target class called with the payloads as keyword arguments
  (absent fields take the class's defaults), the whole-object check(s) on the instance.
-/
import KodaModel.Properties.C04Record
import KodaModel.Properties.C04TypedDict

set_option linter.unusedSimpArgs false

namespace Koda

/-- the gate, with the oracle-free reading of the coercer call -/
def clsGate (cfg : DictAnyCfg) (x : PyVal) : Gate :=
  match cfg.coerce with
  | some c => applyCoerce default .dict .dict cfg.cls c x
  | none =>
    if x.ty = .dict then .acc x []
    else
      match x with
      | .inst _ doid c' names vals =>
        if c' = cfg.cls then
          (if cfg.isNT || cfg.cls.slots then .acc (instDict 0 names vals) [] else .acc (instDict doid names vals) [])
        else .rej (.coercion [.dict, .cls cfg.cls] (.cls cfg.cls)) []
      | _ => .rej (.coercion [.dict, .cls cfg.cls] (.cls cfg.cls)) []

theorem recGate_class (o : Oracle) (cfg : DictAnyCfg) (x : PyVal) : recGate o cfg.toClass x = clsGate cfg x := by
  unfold clsGate
  cases hnt : cfg.isNT <;> simp only [recGate, DictAnyCfg.toClass, hnt, Bool.false_eq_true, if_false, if_true] <;>
    cases cfg.coerce with
    | none =>
      simp only [Bool.or_true, Bool.false_or, Bool.true_or, if_true]
      split
      · rfl
      · cases x <;> simp
    | some c => exact applyCoerce_dict_oracle o cfg.cls c x

/-! ### the pieces -/

def cGate : DStmt :=
  .ite (.selfAttr .coerce)
    [.ite (.not (.attr (.walrus .coerced (.call1 (.selfAttr .coerce) .data)) .isJust))
       [.ret (.pair (.bool false) (.mkInvalid (.mkCoercionErr (.attr (.selfAttr .coerce) .compatibleTypes) .dictTy) .data .self))]
       [.assign .coercedVal (.attr (.var .coerced) .valA)]]
    [.ite (.typeIs .data .dictTy) [.assign .coercedVal .data]
       [.ite (.typeIs .data (.selfAttr .targetCls)) [.assign .coercedVal (.instToDict .data)]
          [.ret (.pair (.bool false) (.mkInvalid (.mkCoercionErr .dictOrCls (.selfAttr .targetCls)) .data .self))]]]

def cBuild : DStmt := .assign .obj (.construct (.var .successDict))
def cFinalSync : DStmt := .ite (.var .errs) tRetKeys [cBuild, .ite rOc (rRetCustom .result) [], rRetOk]
def cFinalAsync : DStmt :=
  .ite (.var .errs) tRetKeys [cBuild, .ite rOc (rRetCustom .result) [.ite rAoc (rRetCustom .asyncResult) []], rRetOk]

theorem dataclassSync_eq : Src.dataclassSync =
    [dGuard, cGate, tScan, .assign .successDict .emptyDict, .assign .errs .emptyDict, tLoop .fastKeysSync false, cFinalSync] := rfl
theorem dataclassAsync_eq : Src.dataclassAsync =
    [cGate, tScan, .assign .successDict .emptyDict, .assign .errs .emptyDict, tLoop .fastKeysAsync true, cFinalAsync] := rfl
/-- the NamedTuple validator's methods are the dataclass validator's, word for word (after the two renamings) -/
theorem src_class_same : Src.namedTupleSync = Src.dataclassSync ∧ Src.namedTupleAsync = Src.dataclassAsync := ⟨rfl, rfl⟩

/-! ### the gate -/

theorem ty_ne_target (cls : ClassId) (x : PyVal) (hinst : ¬ ∃ oid doid names vals, x = .inst oid doid cls names vals)
    (hwf : ∀ c v, x = .sub c v → c ≠ cls) : (x.ty == Ty.cls cls) = false := by
  cases x with
  | inst oid doid c' names vals =>
    have : c' ≠ cls := fun h => hinst ⟨oid, doid, names, vals, by rw [h]⟩
    simp [PyVal.ty, this]
  | sub c v => simp [PyVal.ty, hwf c v rfl]
  | _ => simp [PyVal.ty]

theorem clsGate_dict (cfg : DictAnyCfg) (x : PyVal) (hc : cfg.coerce = none) (hty : x.ty = .dict) :
    clsGate cfg x = .acc x [] := by
  simp [clsGate, hc, hty]

theorem clsGate_inst (cfg : DictAnyCfg) (oid doid : Nat) (names : List String) (vals : List PyVal) (hc : cfg.coerce = none) :
    clsGate cfg (.inst oid doid cfg.cls names vals) =
      .acc (if cfg.isNT || cfg.cls.slots then instDict 0 names vals else instDict doid names vals) [] := by
  simp only [clsGate, hc, PyVal.ty, reduceCtorEq, if_false, if_true]
  split <;> rfl

theorem clsGate_rej (cfg : DictAnyCfg) (x : PyVal) (hc : cfg.coerce = none) (hty : x.ty ≠ .dict)
    (hinst : ¬ ∃ oid doid names vals, x = .inst oid doid cfg.cls names vals) :
    clsGate cfg x = .rej (.coercion [.dict, .cls cfg.cls] (.cls cfg.cls)) [] := by
  simp only [clsGate, hc, if_neg hty]
  cases x with
  | inst oid doid c' names vals =>
    have : c' ≠ cfg.cls := fun h => hinst ⟨oid, doid, names, vals, by rw [h]⟩
    simp [this]
  | _ => rfl

theorem cGate_exec (cfg : DictAnyCfg) (x : PyVal) (st : DSt) (rest : List DStmt)
    (hwf : ∀ c v, x = .sub c v → c ≠ cfg.cls) :
    (∀ k t, clsGate cfg x = .rej k t →
      outD (DStmt.execL cfg x st (cGate :: rest)) = some (.invalid (.mk k x cfg.vid []), st.tr ++ t)) ∧
    (∀ y t, clsGate cfg x = .acc y t →
      ∃ st', DStmt.execL cfg x st (cGate :: rest) = DStmt.execL cfg x st' rest ∧
        st'.env.coercedVal = .py y ∧ st'.tr = st.tr ++ t) := by
  rw [dexecL_cons, cGate, dexec_ite]
  have hattr : ∀ st1 : DSt, (DExp.selfAttr .coerce).eval cfg x st1 =
      .ok ((match cfg.coerce with | some c => AV.coercer c | none => AV.none), st1) := by
    intro st1; cases h : cfg.coerce <;> simp [DExp.eval, dselfAttr, h]
  rw [hattr]
  cases hc : cfg.coerce with
  | none =>
    simp only [dtruthy]
    rw [dexecL_single, dexec_ite]
    have hcond : (DExp.typeIs .data .dictTy).eval cfg x st = .ok (.bool (x.ty == Ty.dict), st) := by
      simp [DExp.eval]
    rw [hcond]
    by_cases hty : x.ty = Ty.dict
    · have hb : (x.ty == Ty.dict) = true := by simpa using hty
      have hgate := clsGate_dict cfg x hc hty
      simp only [hb, dtruthy]
      refine ⟨?_, ?_⟩
      · intro k t h; rw [hgate] at h; simp at h
      · intro y t h
        rw [hgate] at h
        simp only [Gate.acc.injEq] at h
        obtain ⟨rfl, rfl⟩ := h
        refine ⟨{ st with env := st.env.set .coercedVal (.py x) }, ?_, rfl, by simp⟩
        rw [dexecL_single, dexec_assign]
        simp [DExp.eval]
    · have hb : (x.ty == Ty.dict) = false := by simpa using hty
      simp only [hb, dtruthy]
      -- not a dict: an instance of exactly the target class, or a coercion error
      rw [dexecL_single, dexec_ite]
      have hcond2 : (DExp.typeIs .data (.selfAttr .targetCls)).eval cfg x st = .ok (.bool (x.ty == Ty.cls cfg.cls), st) := by
        simp [DExp.eval, dselfAttr]
      rw [hcond2]
      by_cases hinst : ∃ oid doid names vals, x = .inst oid doid cfg.cls names vals
      · obtain ⟨oid, doid, names, vals, rfl⟩ := hinst
        have hgate := clsGate_inst cfg oid doid names vals hc
        have hb2 : ((PyVal.inst oid doid cfg.cls names vals).ty == Ty.cls cfg.cls) = true := by simp [PyVal.ty]
        simp only [hb2, dtruthy]
        refine ⟨?_, ?_⟩
        · intro k t h; rw [hgate] at h; simp at h
        · intro y t h
          rw [hgate] at h
          simp only [Gate.acc.injEq] at h
          obtain ⟨rfl, rfl⟩ := h
          refine ⟨⟨st.env.set .coercedVal
            (.py (if cfg.isNT || cfg.cls.slots then instDict 0 names vals else instDict doid names vals)), st.tr⟩, ?_, rfl, by simp⟩
          rw [dexecL_single, dexec_assign]
          simp [DExp.eval]
      · have hgate := clsGate_rej cfg x hc hty hinst
        simp only [ty_ne_target cfg.cls x hinst hwf, dtruthy]
        refine ⟨?_, ?_⟩
        · intro k t h
          rw [hgate] at h
          simp only [Gate.rej.injEq] at h
          obtain ⟨rfl, rfl⟩ := h
          simp [dexecL_single, DStmt.exec, DExp.eval, dselfAttr, outD]
        · intro y t h; rw [hgate] at h; simp at h
  | some c =>
    simp only [dtruthy, clsGate, hc]
    rw [dexecL_single, dexec_ite]
    have hcond : (DExp.not (.attr (.walrus .coerced (.call1 (.selfAttr .coerce) .data)) .isJust)).eval cfg x st =
        .ok (.bool (!(callDictCoercer cfg.cls c x).1.isSome),
          { env := st.env.set .coerced (.maybe (callDictCoercer cfg.cls c x).1), tr := st.tr ++ (callDictCoercer cfg.cls c x).2 }) := by
      simp [DExp.eval, dselfAttr, hc, dtruthy]
    rw [hcond]
    cases hg : applyCoerce default Ty.dict Ty.dict cfg.cls c x with
    | exn e t =>
      exfalso
      cases c with
      | dflt => simp only [applyCoerce] at hg; split at hg <;> simp at hg
      | classOnly =>
        simp only [applyCoerce] at hg
        split at hg
        · split at hg
          · split at hg <;> simp at hg
          · simp at hg
        · simp at hg
      | user cid compat f => simp only [applyCoerce] at hg; split at hg <;> simp at hg
    | rej k t =>
      have hk := dictCoerce_rej_kind cfg.cls c x k t hg
      have hcc : callDictCoercer cfg.cls c x = (none, t) := by simp [callDictCoercer, hg]
      simp only [hcc, Option.isSome_none, Bool.not_false, dtruthy]
      refine ⟨?_, ?_⟩
      · intro k' t' h
        simp only [Gate.rej.injEq] at h
        obtain ⟨rfl, rfl⟩ := h
        simp [dexecL_single, DStmt.exec, DExp.eval, dselfAttr, hc, outD, hk]
      · intro y t' h; simp at h
    | acc y t =>
      have hcc : callDictCoercer cfg.cls c x = (some y, t) := by simp [callDictCoercer, hg]
      simp only [hcc, Option.isSome_some, Bool.not_true, dtruthy]
      refine ⟨?_, ?_⟩
      · intro k' t' h; simp at h
      · intro y' t' h
        simp only [Gate.acc.injEq] at h
        obtain ⟨rfl, rfl⟩ := h
        refine ⟨{ env := (st.env.set .coerced (.maybe (some y))).set .coercedVal (.py y), tr := st.tr ++ t }, ?_, rfl, rfl⟩
        rw [dexecL_single, dexec_assign]
        simp [DExp.eval, DEnv.get, DEnv.set]

/-! ### after the loop -/

theorem cFinal_keys (cfg : DictAnyCfg) (x y : PyVal) (fin : DStmt) (hfin : fin = cFinalSync ∨ fin = cFinalAsync) (st : DSt)
    (sd : List (PyVal × PyVal)) (es : List (PyVal × Inv)) (hne : es ≠ []) (hinv : TInv st y sd es) :
    outD (DStmt.execL cfg x st [fin]) =
      some (.invalid (.mk (.keys (es.map Prod.fst)) y cfg.vid (es.map Prod.snd)), st.tr) := by
  obtain ⟨h1, h2, h3⟩ := hinv
  have he : st.env.errs = .keyErrs es := by
    rcases h2 with ⟨h, _⟩ | ⟨_, h⟩
    · exact absurd h hne
    · exact h
  have hemp : es.isEmpty = false := by cases es with
    | nil => exact absurd rfl hne
    | cons a l => rfl
  rcases hfin with rfl | rfl <;>
    simp [cFinalSync, cFinalAsync, tRetKeys, DStmt.execL, DStmt.exec, DExp.eval, DEnv.get, he, h3, dtruthy, hemp, outD]

theorem cFinal_ok (cfg : DictAnyCfg) (x : PyVal) (m : Mode) (fin : DStmt)
    (hfin : (m = .sync ∧ fin = cFinalSync ∧ cfg.aoc = none) ∨ (m = .async ∧ fin = cFinalAsync)) (st : DSt)
    (y : PyVal) (sd : List (PyVal × PyVal)) (hinv : TInv st y sd []) :
    outD (DStmt.execL cfg x st [fin]) =
      some (match (runObjCheck cfg.oc cfg.vid (construct cfg.toClass sd)).1 with
        | .valid _ => ((runAObjCheck m cfg.aoc cfg.vid (construct cfg.toClass sd)).1,
                       st.tr ++ (runObjCheck cfg.oc cfg.vid (construct cfg.toClass sd)).2 ++
                         (runAObjCheck m cfg.aoc cfg.vid (construct cfg.toClass sd)).2)
        | other => (other, st.tr ++ (runObjCheck cfg.oc cfg.vid (construct cfg.toClass sd)).2)) := by
  obtain ⟨h1, h2, h3⟩ := hinv
  have he : st.env.errs = .dictPayload [] := by
    rcases h2 with ⟨_, h⟩ | ⟨h, _⟩
    · exact h
    · exact absurd rfl h
  rcases hfin with ⟨rfl, rfl, hao⟩ | ⟨rfl, rfl⟩
  · cases hoc : cfg.oc with
    | none =>
      simp [cFinalSync, cBuild, rOc, rRetOk, DStmt.execL, DStmt.exec, DExp.eval, DEnv.get, DEnv.set, dselfAttr, he, h1, hoc, hao,
        dtruthy, outD, runObjCheck, runAObjCheck]
    | some c =>
      cases hf : c.f (construct cfg.toClass sd) <;>
        simp [cFinalSync, cBuild, rOc, rRetCustom, rRetOk, DStmt.execL, DStmt.exec, DExp.eval, DEnv.get, DEnv.set, dselfAttr, he, h1,
          hoc, hao, hf, dtruthy, outD, runObjCheck, runAObjCheck]
  · cases hoc : cfg.oc with
    | none =>
      cases hao : cfg.aoc with
      | none =>
        simp [cFinalAsync, cBuild, rOc, rAoc, rRetOk, DStmt.execL, DStmt.exec, DExp.eval, DEnv.get, DEnv.set, dselfAttr, he, h1, hoc,
          hao, dtruthy, outD, runObjCheck, runAObjCheck]
      | some a =>
        cases hg : a.f (construct cfg.toClass sd) <;>
          simp [cFinalAsync, cBuild, rOc, rAoc, rRetCustom, rRetOk, DStmt.execL, DStmt.exec, DExp.eval, DEnv.get, DEnv.set, dselfAttr,
            he, h1, hoc, hao, hg, dtruthy, outD, runObjCheck, runAObjCheck]
    | some c =>
      cases hf : c.f (construct cfg.toClass sd) with
      | some e =>
        simp [cFinalAsync, cBuild, rOc, rAoc, rRetCustom, rRetOk, DStmt.execL, DStmt.exec, DExp.eval, DEnv.get, DEnv.set, dselfAttr,
          he, h1, hoc, hf, dtruthy, outD, runObjCheck, runAObjCheck]
      | none =>
        cases hao : cfg.aoc with
        | none =>
          simp [cFinalAsync, cBuild, rOc, rAoc, rRetOk, DStmt.execL, DStmt.exec, DExp.eval, DEnv.get, DEnv.set, dselfAttr, he, h1,
            hoc, hf, hao, dtruthy, outD, runObjCheck, runAObjCheck]
        | some a =>
          cases hg : a.f (construct cfg.toClass sd) <;>
            simp [cFinalAsync, cBuild, rOc, rAoc, rRetCustom, rRetOk, DStmt.execL, DStmt.exec, DExp.eval, DEnv.get, DEnv.set,
              dselfAttr, he, h1, hoc, hf, hao, hg, dtruthy, outD, runObjCheck, runAObjCheck, List.append_assoc]

/-- from the two initialisations to the end, once the gate and the scan have passed -/
theorem cTail_exec (cfg : DictAnyCfg) (x y : PyVal) (m : Mode) (fast : DSelf) (aw : Bool) (fin : DStmt)
    (hfast : fast = .fastKeysSync ∨ fast = .fastKeysAsync)
    (hfin : (m = .sync ∧ fin = cFinalSync ∧ cfg.aoc = none) ∨ (m = .async ∧ fin = cFinalAsync))
    (st : DSt) (data : List (PyVal × PyVal)) (hx : dictItems y = some data) (hcv : st.env.coercedVal = .py y) :
    outD (DStmt.execL cfg x st [.assign .successDict .emptyDict, .assign .errs .emptyDict, tLoop fast aw, fin]) =
      (match recLoop cfg.vid y data cfg.evs cfg.keys cfg.reqs with
       | none => none
       | some r => some (recFinish m cfg.vid cfg.toClass y st.tr r)) := by
  have hinit : DStmt.execL cfg x st [.assign .successDict .emptyDict, .assign .errs .emptyDict, tLoop fast aw, fin] =
      DStmt.execL cfg x { st with env := (st.env.set .successDict (.dictPayload [])).set .errs (.dictPayload []) }
        [tLoop fast aw, fin] := by
    simp [DStmt.execL, DStmt.exec, DExp.eval]
  rw [hinit]
  let st0 : DSt := { st with env := (st.env.set .successDict (.dictPayload [])).set .errs (.dictPayload []) }
  have hinv0 : TInv st0 y [] [] := ⟨rfl, .inl ⟨rfl, rfl⟩, by simpa [st0, DEnv.set] using hcv⟩
  rw [dexecL_cons]
  have hloop : DStmt.exec cfg x st0 (tLoop fast aw) =
      dforFold3 (fun st => DStmt.execL cfg x st (tLoopBody aw)) .keyU .validator .keyRequired
        (cfg.keys.zip (cfg.evs.zip cfg.reqs)) st0 := by
    rcases hfast with rfl | rfl <;> simp only [tLoop, DStmt.exec, DExp.eval, dselfAttr]
  show outD (match DStmt.exec cfg x st0 (tLoop fast aw) with
    | .error err => .error err
    | .ok (.next st) => DStmt.execL cfg x st [fin]
    | .ok (.returned d st) => .ok (.returned d st)) = _
  rw [hloop]
  obtain ⟨l1, l2, l3⟩ := tforFold3_keys cfg x y aw data hx cfg.evs cfg.keys cfg.reqs st0 [] [] hinv0
  cases hl : recLoop cfg.vid y data cfg.evs cfg.keys cfg.reqs with
  | none =>
    obtain ⟨t, ht⟩ := l1 hl
    rw [ht]; rfl
  | some r =>
    cases hr : r.r with
    | some e =>
      rw [l2 r e hl hr]
      simp [outD, recFinish, hr, st0]
    | none =>
      obtain ⟨st1, es', h1, h2, h3, h4, h5, sd', h6⟩ := l3 r hl hr
      rw [h1]
      simp only [List.nil_append] at h5 h6
      simp only
      cases hes : es' with
      | nil =>
        have hinv1 := h5 hes
        rw [cFinal_ok cfg x m fin hfin st1 y _ hinv1, h2]
        have hks : r.ks = [] := by rw [h3, hes]; rfl
        simp only [recFinish, hr, hks, List.isEmpty_nil, Bool.not_true, Bool.false_eq_true, if_false, st0]
        have hb : recBuild cfg.toClass r.got = construct cfg.toClass (built cfg.keys r.got) := by
          cases hnt : cfg.isNT <;> simp [recBuild, DictAnyCfg.toClass, built, hnt]
        have hk : cfg.toClass.kind ≠ .record := by cases hnt : cfg.isNT <;> simp [DictAnyCfg.toClass, hnt]
        simp only [hb, if_neg hk, List.append_nil, List.nil_append]
        have hoc : cfg.toClass.oc = cfg.oc := rfl
        have hao : cfg.toClass.aoc = cfg.aoc := rfl
        rw [hoc, hao]
        cases (runObjCheck cfg.oc cfg.vid (construct cfg.toClass (built cfg.keys r.got))).1 <;> simp [List.append_assoc]
      | cons a l =>
        have hne : es' ≠ [] := by rw [hes]; simp
        have hfin' : fin = cFinalSync ∨ fin = cFinalAsync := by
          rcases hfin with ⟨_, h, _⟩ | ⟨_, h⟩
          · exact .inl h
          · exact .inr h
        rw [cFinal_keys cfg x y fin hfin' st1 sd' es' hne h6, h2]
        have hks : r.ks.isEmpty = false := by rw [h3, hes]; rfl
        simp [recFinish, hr, hks, h3, h4, st0]
        intro h0; exact absurd h0 hne

/-! ### the methods -/

theorem clsGate_noexn (cfg : DictAnyCfg) (x : PyVal) (e : Exn) (t : List Ev) : clsGate cfg x ≠ .exn e t := by
  unfold clsGate
  cases cfg.coerce with
  | none =>
    simp only
    split
    · simp
    · cases x <;> simp only <;> (try split) <;> (try split) <;> simp
  | some c =>
    simp only
    cases c with
    | dflt => simp only [applyCoerce]; split <;> simp
    | classOnly =>
      simp only [applyCoerce]
      split
      · split
        · split <;> simp
        · simp
      · simp
    | user cid compat f => simp only [applyCoerce]; split <;> simp

/-- what both methods do from the gate on; `hdict`: what the coercer returns is a dict (the model's completion for other
    values - `TypeError` before anything is looked at - is not what Python does for, say, a list) -/
theorem src_class_generic (o : Oracle) (cfg : DictAnyCfg) (x : PyVal) (m : Mode) (fast : DSelf) (aw : Bool) (fin : DStmt)
    (hfast : fast = .fastKeysSync ∨ fast = .fastKeysAsync)
    (hfin : (m = .sync ∧ fin = cFinalSync ∧ cfg.aoc = none) ∨ (m = .async ∧ fin = cFinalAsync))
    (hdict : ∀ y t, clsGate cfg x = .acc y t → (dictItems y).isSome = true)
    (hwf : ∀ c v, x = .sub c v → c ≠ cfg.cls) :
    outD (DStmt.execL cfg x { env := {}, tr := [] }
        [cGate, tScan, .assign .successDict .emptyDict, .assign .errs .emptyDict, tLoop fast aw, fin]) =
      (match recGate o cfg.toClass x with
       | .exn e t => some (.raised e, t)
       | .rej ek t => some (.invalid (.mk ek x cfg.vid []), t)
       | .acc y t =>
         match dictItems y with
         | none => some (.raised .typeError, t)
         | some data =>
           if cfg.failUnknown && hasUnknownKey cfg.keys data then some (.invalid (.mk (.extraKeys cfg.keys) y cfg.vid []), t)
           else
             match recLoop cfg.vid y data cfg.evs cfg.keys cfg.reqs with
             | none => none
             | some r => some (recFinish m cfg.vid cfg.toClass y t r)) := by
  rw [recGate_class]
  obtain ⟨g1, g2⟩ := cGate_exec cfg x { env := {}, tr := [] }
    [tScan, .assign .successDict .emptyDict, .assign .errs .emptyDict, tLoop fast aw, fin] hwf
  cases hg : clsGate cfg x with
  | exn e t => exact absurd hg (clsGate_noexn cfg x e t)
  | rej k t => rw [g1 k t hg]; simp
  | acc y t =>
    obtain ⟨st', h1, h2, h3⟩ := g2 y t hg
    rw [h1]
    have hd := hdict y t hg
    cases hdi : dictItems y with
    | none => rw [hdi] at hd; simp at hd
    | some data =>
      simp only
      obtain ⟨s1, s2⟩ := tScan_exec cfg x y st'
        [.assign .successDict .emptyDict, .assign .errs .emptyDict, tLoop fast aw, fin] data hdi h2
      cases hu : (cfg.failUnknown && hasUnknownKey cfg.keys data) with
      | true => rw [s1 hu, h3]; simp [hdi, hu]
      | false =>
        obtain ⟨st'', e1, e2, e3⟩ := s2 hu
        rw [e1, cTail_exec cfg x y m fast aw fin hfast hfin st'' data hdi e3, e2, h3]
        simp [hdi, hu]

/-- **the synchronous `DataclassValidator`, as written in the source, is the model's `recordStep`** -/
theorem src_dataclass_sync (o : Oracle) (cfg : DictAnyCfg) (x : PyVal)
    (hdict : ∀ y t, clsGate cfg x = .acc y t → (dictItems y).isSome = true)
    (hwf : ∀ c v, x = .sub c v → c ≠ cfg.cls) :
    runDictAnyMethod cfg Src.dataclassSync x = recordStep o .sync cfg.vid cfg.toClass cfg.evs x := by
  rw [runDictAnyMethod_eq, dataclassSync_eq, dGuard_exec]
  simp only [recordStep, recPre]
  have hao : cfg.toClass.aoc = cfg.aoc := rfl
  rw [hao]
  cases ha : cfg.aoc with
  | some a => simp [outD]
  | none =>
    simp only [Option.isSome_none, Bool.false_eq_true, if_false, and_false]
    rw [src_class_generic o cfg x .sync .fastKeysSync false cFinalSync (.inl rfl) (.inl ⟨rfl, rfl, ha⟩) hdict hwf]
    have hfu : cfg.toClass.failUnknown = cfg.failUnknown := rfl
    have hk : cfg.toClass.keys = cfg.keys := rfl
    have hr : cfg.toClass.reqs = cfg.reqs := rfl
    rw [hfu, hk, hr]
    cases recGate o cfg.toClass x with
    | exn e t => rfl
    | rej k t => rfl
    | acc y t =>
      simp only
      cases dictItems y with
      | none => rfl
      | some data =>
        simp only
        cases (cfg.failUnknown && hasUnknownKey cfg.keys data) with
        | true => rfl
        | false =>
          simp only [Bool.false_eq_true, if_false]
          cases recLoop cfg.vid y data cfg.evs cfg.keys cfg.reqs <;> rfl

/-- **the asynchronous `DataclassValidator`, as written in the source, is the model's `recordStep`** -/
theorem src_dataclass_async (o : Oracle) (cfg : DictAnyCfg) (x : PyVal)
    (hdict : ∀ y t, clsGate cfg x = .acc y t → (dictItems y).isSome = true)
    (hwf : ∀ c v, x = .sub c v → c ≠ cfg.cls) :
    runDictAnyMethod cfg Src.dataclassAsync x = recordStep o .async cfg.vid cfg.toClass cfg.evs x := by
  rw [runDictAnyMethod_eq, dataclassAsync_eq]
  simp only [recordStep, recPre]
  have hm : ¬ (Mode.async = Mode.sync ∧ cfg.toClass.aoc.isSome = true) := by simp
  simp only [hm, if_false]
  rw [src_class_generic o cfg x .async .fastKeysAsync true cFinalAsync (.inr rfl) (.inr ⟨rfl, rfl⟩) hdict hwf]
  have hfu : cfg.toClass.failUnknown = cfg.failUnknown := rfl
  have hk : cfg.toClass.keys = cfg.keys := rfl
  have hr : cfg.toClass.reqs = cfg.reqs := rfl
  rw [hfu, hk, hr]
  cases recGate o cfg.toClass x with
  | exn e t => rfl
  | rej k t => rfl
  | acc y t =>
    simp only
    cases dictItems y with
    | none => rfl
    | some data =>
      simp only
      cases (cfg.failUnknown && hasUnknownKey cfg.keys data) with
      | true => rfl
      | false =>
        simp only [Bool.false_eq_true, if_false]
        cases recLoop cfg.vid y data cfg.evs cfg.keys cfg.reqs <;> rfl

/-- with no coercer (the default) what the gate lets through is a dict -/
theorem clsGate_dict_of_no_coercer (cfg : DictAnyCfg) (x : PyVal) (hc : cfg.coerce = none) :
    ∀ y t, clsGate cfg x = .acc y t → (dictItems y).isSome = true := by
  intro y t h
  by_cases hty : x.ty = .dict
  · rw [clsGate_dict cfg x hc hty] at h
    simp only [Gate.acc.injEq] at h
    obtain ⟨rfl, _⟩ := h
    obtain ⟨oid, kvs, rfl⟩ := dict_of_ty x hty
    rfl
  · by_cases hinst : ∃ oid doid names vals, x = .inst oid doid cfg.cls names vals
    · obtain ⟨oid, doid, names, vals, rfl⟩ := hinst
      rw [clsGate_inst cfg oid doid names vals hc] at h
      simp only [Gate.acc.injEq] at h
      obtain ⟨rfl, _⟩ := h
      split <;> rfl
    · rw [clsGate_rej cfg x hc hty hinst] at h
      simp at h

/-- **`NamedTupleValidator`**: the same two theorems (its methods are the same text, `isNT` tells the model which class
    kind it is) -/
theorem src_namedtuple_sync (o : Oracle) (cfg : DictAnyCfg) (x : PyVal)
    (hdict : ∀ y t, clsGate cfg x = .acc y t → (dictItems y).isSome = true) (hwf : ∀ c v, x = .sub c v → c ≠ cfg.cls) :
    runDictAnyMethod cfg Src.namedTupleSync x = recordStep o .sync cfg.vid cfg.toClass cfg.evs x := by
  rw [src_class_same.1]; exact src_dataclass_sync o cfg x hdict hwf

theorem src_namedtuple_async (o : Oracle) (cfg : DictAnyCfg) (x : PyVal)
    (hdict : ∀ y t, clsGate cfg x = .acc y t → (dictItems y).isSome = true) (hwf : ∀ c v, x = .sub c v → c ≠ cfg.cls) :
    runDictAnyMethod cfg Src.namedTupleAsync x = recordStep o .async cfg.vid cfg.toClass cfg.evs x := by
  rw [src_class_same.2]; exact src_dataclass_async o cfg x hdict hwf

/-- how an instance becomes a dict (pinned text): its `__dict__` itself when it has one, else a new dict of the fields
    that hold a value -/
theorem src_instance_to_dict : Src.instanceToDict =
    "if hasattr(val, '__dict__'):     instance_dict: Dict[str, Any] = val.__dict__     return instance_dict ; return {f.name: getattr(val, f.name) for f in fields(val) if hasattr(val, f.name)}" := rfl

/-- the three class-derived validators' `__init__`s (schema derivation, `_fast_keys_*`, `_keys_set`, `_unknown_keys_err`,
    `_disallow_synchronous`): pinned text -/
theorem src_class_inits : Src.classInits =
    ["DataclassValidator.__init__: if not is_dataclass(data_cls):     raise TypeError('Must be a dataclass') ; self.data_cls = cast(Type[_DCT], data_cls) ; self.fail_on_unknown_keys = fail_on_unknown_keys ; self.overrides = overrides ; self.coerce = coerce ; if validate_object and validate_object_async:     _raise_cannot_define_validate_object_and_validate_object_async() ; self.validate_object = validate_object ; self.validate_object_async = validate_object_async ; self._disallow_synchronous = bool(validate_object_async) ; keys_with_defaults: Set[str] = {k for k, v in inspect.signature(self.data_cls).parameters.items() if v.default != inspect.Parameter.empty} ; if sys.version_info >= (3, 9):     type_hints = get_type_hints(self.data_cls, include_extras=True) else:     type_hints = get_type_hints(self.data_cls) ; overrides = self.overrides or {} ; self.schema = {field: overrides[field] if field in overrides else typehint_resolver(annotations) for field, annotations in type_hints.items()} ; self.required_fields = [] ; self._keys_set = set() ; self._fast_keys_sync = [] ; self._fast_keys_async = [] ; for key, val in self.schema.items():     self._keys_set.add(key)     is_required = key not in keys_with_defaults     if is_required:         self.required_fields.append(key)     self._fast_keys_sync.append((key, _wrap_sync_validator(val), is_required))     self._fast_keys_async.append((key, _wrap_async_validator(val), is_required)) ; self._unknown_keys_err: ExtraKeysErr = ExtraKeysErr(set(self.schema.keys()))", "NamedTupleValidator.__init__: self.named_tuple_cls = named_tuple_cls ; self.overrides = overrides ; self.fail_on_unknown_keys = fail_on_unknown_keys ; self.coerce = coerce ; if validate_object and validate_object_async:     _raise_cannot_define_validate_object_and_validate_object_async() ; self.validate_object = validate_object ; self.validate_object_async = validate_object_async ; self._disallow_synchronous = bool(validate_object_async) ; overrides = self.overrides or {} ; if sys.version_info >= (3, 9):     type_hints = get_type_hints(self.named_tuple_cls, include_extras=True) else:     type_hints = get_type_hints(self.named_tuple_cls) ; keys_with_defaults: Set[str] = {k for k, v in inspect.signature(self.named_tuple_cls).parameters.items() if v.default != inspect.Parameter.empty} ; self.schema = {field: overrides[field] if field in overrides else typehint_resolver(annotations) for field, annotations in type_hints.items()} ; self.required_fields = [] ; self._keys_set = set() ; self._fast_keys_sync = [] ; self._fast_keys_async = [] ; for key, val in self.schema.items():     self._keys_set.add(key)     is_required = key not in keys_with_defaults     if is_required:         self.required_fields.append(key)     self._fast_keys_sync.append((key, _wrap_sync_validator(val), is_required))     self._fast_keys_async.append((key, _wrap_async_validator(val), is_required)) ; self._unknown_keys_err: ExtraKeysErr = ExtraKeysErr(set(self.schema.keys()))", "TypedDictValidator.__init__: if not _is_typed_dict_cls(td_cls):     raise TypeError('must be a TypedDict subclass') ; self.td_cls = td_cls ; self.overrides = overrides ; self.fail_on_unknown_keys = fail_on_unknown_keys ; self.coerce = coerce ; if validate_object is not None and validate_object_async is not None:     _raise_cannot_define_validate_object_and_validate_object_async() ; self.validate_object = validate_object ; self.validate_object_async = validate_object_async ; self._disallow_synchronous = bool(validate_object_async) ; if sys.version_info >= (3, 9):     self.required_keys: FrozenSet[str] = getattr(td_cls, '__required_keys__', frozenset())     type_hints = get_type_hints(self.td_cls, include_extras=True) else:     self.required_keys = frozenset([k for k in td_cls.__annotations__]) if getattr(td_cls, '__total__', True) else frozenset()     type_hints = get_type_hints(self.td_cls) ; overrides = self.overrides or {} ; self.schema = {field: overrides[field] if field in overrides else typehint_resolver(annotations) for field, annotations in type_hints.items()} ; self._keys_set = set() ; self._fast_keys_sync = [] ; self._fast_keys_async = [] ; for key, val in self.schema.items():     self._keys_set.add(key)     is_required = key in self.required_keys     self._fast_keys_sync.append((key, _wrap_sync_validator(val), is_required))     self._fast_keys_async.append((key, _wrap_async_validator(val), is_required)) ; self._unknown_keys_err: ExtraKeysErr = ExtraKeysErr(set(self.schema.keys()))"] := rfl

/-! ### non-vacuity: a dataclass `C(a: int, b: str = "d")`, validated from an instance and from a dict without `b` -/

example : runDictAnyMethod
      { vid := 1, keys := [.str [97], .str [98]],
        evs := [fun y => some (scalarStep default .sync 2 .int none [] [] [] y), fun y => some (scalarStep default .sync 3 .str none [] [] [] y)],
        reqs := [true, false], oc := none, aoc := none, failUnknown := false,
        cls := ⟨7, 1, false, false⟩, fieldNames := ["a", "b"], defaults := [none, some (.str [100])] }
      Src.dataclassSync (.dict 9 [(.str [97], .int 5)]) =
    some (.valid (.inst 0 0 ⟨7, 1, false, false⟩ ["a", "b"] [.int 5, .str [100]]), []) := by
  rw [src_dataclass_sync default _ _ (clsGate_dict_of_no_coercer _ _ rfl) (by intro c v h; cases h)]; rfl

end Koda
