/-
  C04 — Record validators: required / optional / unknown keys and complete key errors.
  One set of theorems for all five record-shaped validators (`cfg.kind`), both modes,
  arbitrary child evaluators.
-/
import KodaModel.Lemmas.Mono

namespace Koda

/-! ### what happened key by key -/

/-- `RecRun vid dv data evs keys reqs got ks errs t`: going through the declared keys in order —
    * absent and required: `MissingKeyErr` holding the dict being validated, naming this validator;
    * absent and optional: nothing (payload slot `none`), the child is not consulted;
    * present: the child is run on `data[key]`; its payload, or its own `Invalid`, is recorded.
    `ks`/`errs` list *exactly* the missing-required and present-invalid keys. -/
inductive RecRun (vid : Nat) (dv : PyVal) (data : List (PyVal × PyVal)) :
    List Ev1 → List PyVal → List Bool → List (Option PyVal) → List PyVal → List Inv → List Ev → Prop
  | nil : RecRun vid dv data [] [] [] [] [] [] []
  | missing {ev evs k ks' reqs got ks errs t} : dictGet data k = none →
      RecRun vid dv data evs ks' reqs got ks errs t →
      RecRun vid dv data (ev :: evs) (k :: ks') (true :: reqs) (none :: got) (k :: ks)
        (.mk .missingKey dv vid [] :: errs) t
  | absentOpt {ev evs k ks' reqs got ks errs t} : dictGet data k = none →
      RecRun vid dv data evs ks' reqs got ks errs t →
      RecRun vid dv data (ev :: evs) (k :: ks') (false :: reqs) (none :: got) ks errs t
  | valid {ev evs k ks' req reqs got ks errs t xv w t0} : dictGet data k = some xv →
      ev xv = some (.valid w, t0) → RecRun vid dv data evs ks' reqs got ks errs t →
      RecRun vid dv data (ev :: evs) (k :: ks') (req :: reqs) (some w :: got) ks errs (t0 ++ t)
  | invalid {ev evs k ks' req reqs got ks errs t xv e t0} : dictGet data k = some xv →
      ev xv = some (.invalid e, t0) → RecRun vid dv data evs ks' reqs got ks errs t →
      RecRun vid dv data (ev :: evs) (k :: ks') (req :: reqs) (none :: got) (k :: ks) (e :: errs) (t0 ++ t)

theorem recLoop_of_run {vid dv data evs keys reqs got ks errs t}
    (h : RecRun vid dv data evs keys reqs got ks errs t) :
    recLoop vid dv data evs keys reqs = some ⟨got, ks, errs, t, none⟩ := by
  induction h with
  | nil => rfl
  | missing hd _ ih => simp [recLoop, hd, ih]
  | absentOpt hd _ ih => simp [recLoop, hd, ih]
  | valid hd hx _ ih => simp [recLoop, hd, hx, ih]
  | invalid hd hx _ ih => simp [recLoop, hd, hx, ih]

theorem recLoop_to_run {vid dv data} : ∀ {evs keys reqs got ks errs t},
    evs.length = keys.length → keys.length = reqs.length →
    recLoop vid dv data evs keys reqs = some ⟨got, ks, errs, t, none⟩ →
    RecRun vid dv data evs keys reqs got ks errs t := by
  intro evs
  induction evs with
  | nil =>
    intro keys reqs got ks errs t h1 h2 h
    cases keys with
    | cons _ _ => simp at h1
    | nil =>
      cases reqs with
      | cons _ _ => simp at h2
      | nil =>
        simp [recLoop] at h
        obtain ⟨rfl, rfl, rfl, rfl⟩ := h
        exact .nil
  | cons ev evs ih =>
    intro keys reqs got ks errs t h1 h2 h
    cases keys with
    | nil => simp at h1
    | cons k keys =>
      cases reqs with
      | nil => simp at h2
      | cons req reqs =>
        have h1' : evs.length = keys.length := by simpa using h1
        have h2' : keys.length = reqs.length := by simpa using h2
        simp only [recLoop] at h
        cases hd : dictGet data k with
        | none =>
          simp only [hd] at h
          cases hl : recLoop vid dv data evs keys reqs with
          | none => simp [hl] at h
          | some r =>
            obtain ⟨got', ks', errs', t', r'⟩ := r
            simp only [hl] at h
            cases req with
            | true =>
              simp at h
              obtain ⟨rfl, rfl, rfl, rfl, rfl⟩ := h
              exact .missing hd (ih h1' h2' hl)
            | false =>
              simp at h
              obtain ⟨rfl, rfl, rfl, rfl, rfl⟩ := h
              exact .absentOpt hd (ih h1' h2' hl)
        | some xv =>
          simp only [hd] at h
          cases hx : ev xv with
          | none => simp [hx] at h
          | some p =>
            obtain ⟨o, t0⟩ := p
            cases o with
            | raised e => simp [hx] at h
            | valid w =>
              simp only [hx] at h
              cases hl : recLoop vid dv data evs keys reqs with
              | none => simp [hl] at h
              | some r =>
                obtain ⟨got', ks', errs', t', r'⟩ := r
                simp [hl] at h
                obtain ⟨rfl, rfl, rfl, rfl, rfl⟩ := h
                exact .valid hd hx (ih h1' h2' hl)
            | invalid e =>
              simp only [hx] at h
              cases hl : recLoop vid dv data evs keys reqs with
              | none => simp [hl] at h
              | some r =>
                obtain ⟨got', ks', errs', t', r'⟩ := r
                simp [hl] at h
                obtain ⟨rfl, rfl, rfl, rfl, rfl⟩ := h
                exact .invalid hd hx (ih h1' h2' hl)

/-- the key error has one entry per failing key and nothing else -/
theorem RecRun.errs_length {vid dv data evs keys reqs got ks errs t}
    (h : RecRun vid dv data evs keys reqs got ks errs t) :
    ks.length = errs.length ∧ got.length = keys.length := by
  induction h with
  | nil => simp
  | missing _ _ ih => simp [ih.1, ih.2]
  | absentOpt _ _ ih => simp [ih.1, ih.2]
  | valid _ _ _ ih => simp [ih.1, ih.2]
  | invalid _ _ _ ih => simp [ih.1, ih.2]

/-- no key error ⇔ every required key present and every present declared key accepted -/
theorem RecRun.no_errs_iff {vid dv data evs keys reqs got ks errs t}
    (h : RecRun vid dv data evs keys reqs got ks errs t) :
    ks = [] ↔ errs = [] := by
  have := h.errs_length.1
  constructor
  · intro h'
    subst h'
    exact List.eq_nil_of_length_eq_zero (by simpa using this.symm)
  · intro h'
    subst h'
    exact List.eq_nil_of_length_eq_zero (by simpa using this)

/-! ### the container level: guard, gate, unknown keys — before any value is validated -/

/-- **decided before any value is validated**: when guard, gate or the unknown-key scan decides,
    the result does not depend on the children at all. -/
theorem C04_pre_first {o m vid cfg x r} (h : recPre o m vid cfg x = .inl r) (evs : List Ev1) :
    recordStep o m vid cfg evs x = some r := by
  simp [recordStep, h]

/-- what passing the container level means -/
theorem C04_pre_iff (o : Oracle) (m : Mode) (vid : Nat) (cfg : RecCfg) (x y : PyVal)
    (data : List (PyVal × PyVal)) (t : List Ev) :
    recPre o m vid cfg x = .inr (y, data, t) ↔
      ¬ (m = .sync ∧ cfg.aoc.isSome) ∧ recGate o cfg x = .acc y t ∧ dictItems y = some data ∧
      ¬ (cfg.failUnknown = true ∧ hasUnknownKey cfg.keys data = true) := by
  simp only [recPre]
  constructor
  · intro h
    split at h
    · simp at h
    · rename_i hg
      refine ⟨hg, ?_⟩
      split at h
      · simp at h
      · simp at h
      · rename_i y' t' hgate
        split at h
        · simp at h
        · rename_i data' hd
          split at h
          · simp at h
          · rename_i hu
            simp only [Sum.inr.injEq, Prod.mk.injEq] at h
            obtain ⟨rfl, rfl, rfl⟩ := h
            exact ⟨hgate, hd, by simpa using hu⟩
  · rintro ⟨hg, hgate, hd, hu⟩
    have : (cfg.failUnknown && hasUnknownKey cfg.keys data) = false := by
      cases h1 : cfg.failUnknown <;> cases h2 : hasUnknownKey cfg.keys data <;> simp_all
    simp [hg, hgate, hd, this]

/-- **unknown keys**: when forbidden and present, the error reports the declared key set, holds the
    dict being validated and is produced whatever the children are -/
theorem C04_unknown_first (o : Oracle) (m : Mode) (vid : Nat) (cfg : RecCfg) (x y : PyVal)
    (data : List (PyVal × PyVal)) (t : List Ev) (evs : List Ev1)
    (hg : ¬ (m = .sync ∧ cfg.aoc.isSome)) (hgate : recGate o cfg x = .acc y t)
    (hd : dictItems y = some data) (hf : cfg.failUnknown = true) (hu : hasUnknownKey cfg.keys data = true) :
    recordStep o m vid cfg evs x = some (.invalid (.mk (.extraKeys cfg.keys) y vid []), t) := by
  simp [recordStep, recPre, hg, hgate, hd, hf, hu]

/-- the input gates, as the statement lists them -/
theorem C04_gate_record (o : Oracle) (cfg : RecCfg) (x : PyVal) (hk : cfg.kind = .record) :
    recGate o cfg x = if x.baseTy = .dict then .acc x [] else .rej (.type .dict) [] := by
  simp [recGate, hk]

theorem C04_gate_dictAny (o : Oracle) (cfg : RecCfg) (x : PyVal) (hk : cfg.kind = .dictAny) :
    recGate o cfg x = if x.ty = .dict then .acc x [] else .rej (.type .dict) [] := by
  simp [recGate, hk]

theorem C04_gate_typeddict (o : Oracle) (cfg : RecCfg) (x : PyVal) (hk : cfg.kind = .typeddict)
    (hc : cfg.coerce = none) :
    recGate o cfg x = if x.ty = .dict then .acc x [] else .rej (.type .dict) [] := by
  simp [recGate, hk, hc]

/-- dataclass / named-tuple validators: a plain dict, or an instance of *exactly* the target class
    (read through its fields); everything else is a coercion error naming {dict, class} -/
theorem C04_gate_class_dict (o : Oracle) (cfg : RecCfg) (x : PyVal)
    (hk : cfg.kind = .dataclass ∨ cfg.kind = .namedtuple) (hc : cfg.coerce = none) (hx : x.ty = .dict) :
    recGate o cfg x = .acc x [] := by
  rcases hk with hk | hk <;> simp [recGate, hk, hc, hx]

theorem C04_gate_class_other (o : Oracle) (cfg : RecCfg) (x : PyVal)
    (hk : cfg.kind = .dataclass ∨ cfg.kind = .namedtuple) (hc : cfg.coerce = none) (hx : x.ty ≠ .dict)
    (hi : x.ty ≠ .cls cfg.cls) :
    recGate o cfg x = .rej (.coercion [.dict, .cls cfg.cls] (.cls cfg.cls)) [] := by
  rcases hk with hk | hk <;>
  · simp only [recGate, hk, hc, hx, if_false]
    cases x <;> simp_all [PyVal.ty]

/-! ### after the container level -/

/-- with the container level passed, the step is the key loop followed by `recFinish` -/
theorem recordStep_inr {o m vid cfg x y data t0} (hp : recPre o m vid cfg x = .inr (y, data, t0))
    (evs : List Ev1) :
    recordStep o m vid cfg evs x =
      (recLoop vid y data evs cfg.keys cfg.reqs).map (recFinish m vid cfg y t0) := by
  simp only [recordStep, hp]
  cases recLoop vid y data evs cfg.keys cfg.reqs <;> rfl

/-- **key errors are complete and exact**: if some key fails, the result is `KeyErrs` with exactly
    the failing keys (`RecRun`), each holding the child's own `Invalid` (or `MissingKeyErr`), on the
    dict being validated; **the whole-object check is not run** (the trace ends with the key loop) -/
theorem C04_keyerrs_exact (o : Oracle) (m : Mode) (vid : Nat) (cfg : RecCfg) (evs : List Ev1)
    (x y : PyVal) (data : List (PyVal × PyVal)) (t0 : List Ev)
    (hp : recPre o m vid cfg x = .inr (y, data, t0))
    {got ks errs t1} (hrun : RecRun vid y data evs cfg.keys cfg.reqs got ks errs t1) (hne : ks ≠ []) :
    recordStep o m vid cfg evs x = some (.invalid (.mk (.keys ks) y vid errs), t0 ++ t1) := by
  rw [recordStep_inr hp, recLoop_of_run hrun]
  cases ks with
  | nil => exact absurd rfl hne
  | cons k ks => simp [recFinish]

/-- **acceptance and payload**: all keys pass → the object is built by `recBuild` from the
    children's payloads *only* (its arguments do not include the input), then the whole-object
    check(s) run **last** — sync check, then (async mode) the async check. -/
theorem C04_all_keys_ok (o : Oracle) (m : Mode) (vid : Nat) (cfg : RecCfg) (evs : List Ev1)
    (x y : PyVal) (data : List (PyVal × PyVal)) (t0 : List Ev)
    (hp : recPre o m vid cfg x = .inr (y, data, t0))
    {got errs t1} (hrun : RecRun vid y data evs cfg.keys cfg.reqs got [] errs t1) :
    recordStep o m vid cfg evs x = some (recFinish m vid cfg y t0 ⟨got, [], errs, t1, none⟩) := by
  rw [recordStep_inr hp, recLoop_of_run hrun]; rfl

/-- no object checks configured: accepted with the built object -/
theorem C04_accept_no_oc (o : Oracle) (m : Mode) (vid : Nat) (cfg : RecCfg) (evs : List Ev1)
    (x y : PyVal) (data : List (PyVal × PyVal)) (t0 : List Ev)
    (hp : recPre o m vid cfg x = .inr (y, data, t0))
    {got errs t1} (hrun : RecRun vid y data evs cfg.keys cfg.reqs got [] errs t1)
    (h1 : cfg.oc = none) (h2 : cfg.aoc = none) :
    ∃ ti, recordStep o m vid cfg evs x = some (.valid (recBuild cfg got), t0 ++ t1 ++ ti) := by
  rw [C04_all_keys_ok o m vid cfg evs x y data t0 hp hrun]
  refine ⟨if cfg.kind = .record then [Ev.into cfg.intoId] else [], ?_⟩
  cases m <;> simp [recFinish, runObjCheck, runAObjCheck, h1, h2]

/-- a failing whole-object check rejects with its error on the *built* object -/
theorem C04_objcheck_fails (o : Oracle) (m : Mode) (vid : Nat) (cfg : RecCfg) (evs : List Ev1)
    (x y : PyVal) (data : List (PyVal × PyVal)) (t0 : List Ev)
    (hp : recPre o m vid cfg x = .inr (y, data, t0))
    {got errs t1} (hrun : RecRun vid y data evs cfg.keys cfg.reqs got [] errs t1)
    (c : ObjCheck) (h1 : cfg.oc = some c) (e : Nat) (he : c.f (recBuild cfg got) = some e) :
    ∃ t, recordStep o m vid cfg evs x =
      some (.invalid (.mk (.custom e) (recBuild cfg got) vid []), t) := by
  rw [C04_all_keys_ok o m vid cfg evs x y data t0 hp hrun]
  simp only [recFinish, runObjCheck, h1, he, List.isEmpty_nil, Bool.not_true, Bool.false_eq_true, if_false]
  exact ⟨_, rfl⟩

/-- **payload shapes**: `DictValidatorAny` / `TypedDictValidator` build a new dict of exactly the
    present declared keys (absent optional keys omitted, nothing undeclared) -/
theorem C04_payload_dict (cfg : RecCfg) (got : List (Option PyVal))
    (hk : cfg.kind = .dictAny ∨ cfg.kind = .typeddict) :
    recBuild cfg got =
      .dict 0 ((cfg.keys.zip got).filterMap (fun kg => kg.2.map (fun w => (kg.1, w)))) := by
  rcases hk with hk | hk <;> simp [recBuild, hk]

/-- `RecordValidator` calls its target with one argument per declared key: the payload, or
    `nothing` for an absent optional key -/
theorem C04_payload_record (cfg : RecCfg) (got : List (Option PyVal)) (hk : cfg.kind = .record) :
    recBuild cfg got = cfg.into (got.map (fun g => g.getD .nothing)) := by
  simp [recBuild, hk]

/-- dataclass / named-tuple validators construct the class from the present keys' payloads; absent
    (defaulted) fields take the class's declared default as is -/
theorem C04_payload_class (cfg : RecCfg) (got : List (Option PyVal))
    (hk : cfg.kind = .dataclass ∨ cfg.kind = .namedtuple) :
    recBuild cfg got =
      construct cfg ((cfg.keys.zip got).filterMap (fun kg => kg.2.map (fun w => (kg.1, w)))) := by
  rcases hk with hk | hk <;> simp [recBuild, hk]

theorem C04_run (o : Oracle) (env : Nat → V) (m : Mode) (n vid : Nat) (cfg : RecCfg) (vs : List V) (x : PyVal) :
    run o env m (n + 1) (.record vid cfg vs) x = recordStep o m vid cfg (vs.map (run o env m n)) x := rfl

end Koda
