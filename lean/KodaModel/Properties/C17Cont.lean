/-
  C17 — fixed points for the containers that merge: sets, maps, and the record-shaped validators.

  A set / dict a validator built has pairwise unequal members / keys (that is what `set.add` and
  `d[k] = v` leave behind), so validating it again re-builds it member by member without any merging:
  `dedup_idem`, `mapLoop_fixed`.  Record-shaped validators: the dict (DictValidatorAny, TypedDict) or
  instance (dataclass, NamedTuple) they build has exactly the declared keys that were present, each
  holding the child's payload, so the second pass finds each payload under its key and — the children
  being fixed points — re-builds the same object.
-/
import KodaModel.Properties.C03
import KodaModel.Properties.C04
import KodaModel.Properties.C17

namespace Koda

/-! ### lists without two `==` members (in insertion order) -/

/-- `l` continues `acc` without ever adding a member that an earlier one equals -/
def FreshFrom : List PyVal → List PyVal → Prop
  | _, [] => True
  | acc, x :: l => memL x acc = false ∧ FreshFrom (acc ++ [x]) l

theorem foldl_setAdd_fresh : ∀ (l acc : List PyVal), FreshFrom acc l → l.foldl setAdd acc = acc ++ l
  | [], acc, _ => by simp
  | x :: l, acc, h => by
    obtain ⟨h1, h2⟩ := h
    simp only [List.foldl_cons, setAdd, h1, Bool.false_eq_true, if_false]
    rw [foldl_setAdd_fresh l (acc ++ [x]) h2]
    simp

theorem foldl_setAdd_spec : ∀ (xs acc : List PyVal),
    ∃ l, xs.foldl setAdd acc = acc ++ l ∧ FreshFrom acc l ∧ ∀ w ∈ l, w ∈ xs
  | [], acc => ⟨[], by simp, trivial, by simp⟩
  | x :: xs, acc => by
    simp only [List.foldl_cons, setAdd]
    cases hm : memL x acc with
    | true =>
      obtain ⟨l, h1, h2, h3⟩ := foldl_setAdd_spec xs acc
      exact ⟨l, by simpa using h1, h2, fun w hw => by simp [h3 w hw]⟩
    | false =>
      obtain ⟨l, h1, h2, h3⟩ := foldl_setAdd_spec xs (acc ++ [x])
      refine ⟨x :: l, by simpa using h1, ⟨hm, h2⟩, ?_⟩
      intro w hw
      simp only [List.mem_cons] at hw ⊢
      rcases hw with rfl | hw
      · exact .inl rfl
      · exact .inr (h3 w hw)

theorem dedup_fresh (ws : List PyVal) : FreshFrom [] (dedup ws) ∧ ∀ w ∈ dedup ws, w ∈ ws := by
  obtain ⟨l, h1, h2, h3⟩ := foldl_setAdd_spec ws []
  simp only [List.nil_append] at h1
  unfold dedup
  rw [h1]
  exact ⟨h2, h3⟩

/-- building a set from the members of a set changes nothing -/
theorem dedup_idem (ws : List PyVal) : dedup (dedup ws) = dedup ws := by
  have := foldl_setAdd_fresh (dedup ws) [] (dedup_fresh ws).1
  simpa [dedup] using this

/-! ### sets -/

/-- what an accepting run of the set loop says about the payloads -/
theorem loopItems_set_valid (ev : Ev1) : ∀ (xs : List PyVal) (i : Nat) (ws : List PyVal) (t : List Ev),
    loopItems ev true xs i true = some ⟨ws, [], t, none⟩ →
    ∀ w ∈ ws, hashable w = true ∧ ∃ x u, ev x = some (.valid w, u) := by
  intro xs
  induction xs with
  | nil =>
    intro i ws t h
    simp only [loopItems, Option.some.injEq, LoopR.mk.injEq] at h
    obtain ⟨rfl, _⟩ := h
    intro w hw; simp at hw
  | cons x xs ih =>
    intro i ws t h
    simp only [loopItems] at h
    cases hx : ev x with
    | none => simp [hx] at h
    | some p =>
      obtain ⟨out, u⟩ := p
      cases out with
      | raised e => simp [hx] at h
      | invalid e =>
        simp only [hx] at h
        cases hl : loopItems ev true xs (i + 1) false with
        | none => simp [hl] at h
        | some r => simp [hl] at h
      | valid w0 =>
        simp only [hx, Bool.true_and] at h
        cases hh : hashable w0 with
        | false => simp [hh] at h
        | true =>
          simp only [hh, Bool.not_true, Bool.false_eq_true, if_false] at h
          cases hl : loopItems ev true xs (i + 1) true with
          | none => simp [hl] at h
          | some r =>
            obtain ⟨ws', es', t', r'⟩ := r
            simp only [hl, Option.some.injEq, LoopR.mk.injEq] at h
            obtain ⟨rfl, rfl, rfl, rfl⟩ := h
            intro w hw
            simp only [List.mem_cons] at hw
            rcases hw with rfl | hw
            · exact ⟨hh, x, u, hx⟩
            · exact ih (i + 1) ws' t' hl w hw

theorem loopItems_fixed_hash (ev : Ev1) : ∀ (ws : List PyVal) (i : Nat),
    (∀ w ∈ ws, hashable w = true ∧ ∃ t, ev w = some (.valid w, t)) →
    ∃ t, loopItems ev true ws i true = some ⟨ws, [], t, none⟩ := by
  intro ws
  induction ws with
  | nil => intro i _; exact ⟨[], rfl⟩
  | cons w ws ih =>
    intro i h
    obtain ⟨hh, t0, h0⟩ := h w (by simp)
    obtain ⟨t1, h1⟩ := ih (i + 1) (fun w' hw' => h w' (by simp [hw']))
    exact ⟨t0 ++ t1, by simp [loopItems, h0, h1, hh]⟩

/-- an accepting run of a set validator without container predicates and coercer -/
theorem seqStep_set_valid_inv (o : Oracle) (m : Mode) (vid : Nat) (ev : Ev1) (x w : PyVal) (t : List Ev)
    (h : seqStep .set o m vid [] [] none ev x = some (.valid w, t)) :
    ∃ ws, w = .set 0 (dedup ws) ∧ ∀ w' ∈ ws, hashable w' = true ∧ ∃ x' u, ev x' = some (.valid w', u) := by
  simp only [seqStep] at h
  cases hp : seqPre .set o m vid [] [] none x with
  | inl r =>
    simp only [hp, Option.some.injEq] at h
    exact absurd (by rw [h]) (seqPre_inl_not_valid hp w)
  | inr q =>
    obtain ⟨y, xs, t0⟩ := q
    simp only [hp] at h
    have hset : ((SeqKind.set == SeqKind.set) = true) := by decide
    rw [hset] at h
    cases hl : loopItems ev true xs 0 true with
    | none => simp [hl] at h
    | some r =>
      obtain ⟨ws, es, t1, rr⟩ := r
      simp only [hl, Option.some.injEq, Prod.mk.injEq] at h
      obtain ⟨hfin, _⟩ := h
      simp only [finishSeq] at hfin
      cases rr with
      | some e => simp at hfin
      | none =>
        simp only at hfin
        cases es with
        | cons e es => simp at hfin
        | nil =>
          simp only [List.isEmpty_nil, if_true, Out.valid.injEq, SeqKind.build] at hfin
          exact ⟨ws, hfin.symm, loopItems_set_valid ev xs 0 ws t1 hl⟩

/-- **C17, sets**: the set a `SetValidator` built is accepted by it unchanged -/
theorem C17_set_fixed (o : Oracle) (m : Mode) (vid : Nat) (ev : Ev1) (ws : List PyVal)
    (hitems : ∀ w ∈ ws, hashable w = true ∧ ∃ t, ev w = some (.valid w, t)) :
    ∃ t, seqStep .set o m vid [] [] none ev (.set 0 (dedup ws)) = some (.valid (.set 0 (dedup ws)), t) := by
  have hpre : seqPre .set o m vid [] [] none (.set 0 (dedup ws)) = .inr (.set 0 (dedup ws), dedup ws, [] ++ []) := by
    rw [C03_pre_iff]
    refine ⟨by simp, [], [], by simp [gate, SeqKind.gateTy, PyVal.ty], ?_, rfl, rfl⟩
    cases m <;> simp [contPreds, runPreds, runAPreds]
  obtain ⟨t2, hl⟩ := loopItems_fixed_hash ev (dedup ws) 0 (fun w hw => hitems w ((dedup_fresh ws).2 w hw))
  refine ⟨([] ++ []) ++ t2, ?_⟩
  simp only [seqStep, hpre]
  have hset : ((SeqKind.set == SeqKind.set) = true) := by decide
  rw [hset, hl]
  simp [finishSeq, SeqKind.build, dedup_idem]

/-! ### maps -/

theorem dictSet_keys : ∀ (acc : List (PyVal × PyVal)) (k v : PyVal),
    (dictSet acc k v).map Prod.fst = setAdd (acc.map Prod.fst) k
  | [], k, v => by simp [dictSet, setAdd, memL]
  | (k', v') :: rest, k, v => by
    simp only [dictSet]
    by_cases hk : pyEq k' k = true
    · simp [hk, setAdd, memL]
    · have hk' : pyEq k' k = false := by simpa using hk
      have ih := dictSet_keys rest k v
      simp only [hk', Bool.false_eq_true, if_false, List.map_cons, ih, setAdd, memL, List.any_cons, Bool.false_or]
      split <;> rename_i hh <;> simp [hh]

theorem dictSet_fresh (acc : List (PyVal × PyVal)) (k v : PyVal) (h : memL k (acc.map Prod.fst) = false) :
    dictSet acc k v = acc ++ [(k, v)] := by
  induction acc with
  | nil => rfl
  | cons p rest ih =>
    obtain ⟨k', v'⟩ := p
    simp only [List.map_cons, memL, List.any_cons, Bool.or_eq_false_iff] at h
    simp only [dictSet, h.1, Bool.false_eq_true, if_false, List.cons_append, List.cons.injEq, true_and]
    exact ih (by simpa [memL] using h.2)

/-- the entries of the dict a map validator builds: keys are payloads of the key validator, hashable,
    values payloads of the value validator; no two keys are equal -/
structure MapOut (evk evv : Ev1) (out : List (PyVal × PyVal)) : Prop where
  keys : ∀ p ∈ out, hashable p.1 = true ∧ ∃ k u, evk k = some (.valid p.1, u)
  vals : ∀ p ∈ out, ∃ v u, evv v = some (.valid p.2, u)

theorem dictSet_mem : ∀ (acc : List (PyVal × PyVal)) (k v : PyVal) (p : PyVal × PyVal),
    p ∈ dictSet acc k v → (p.1 = k ∨ ∃ q ∈ acc, q.1 = p.1) ∧ (p.2 = v ∨ ∃ q ∈ acc, q.2 = p.2)
  | [], k, v, p, h => by
    simp only [dictSet, List.mem_cons, List.not_mem_nil, or_false] at h
    subst h; exact ⟨.inl rfl, .inl rfl⟩
  | (k', v') :: rest, k, v, p, h => by
    simp only [dictSet] at h
    split at h
    · simp only [List.mem_cons] at h
      rcases h with rfl | h
      · exact ⟨.inr ⟨(k', v'), by simp, rfl⟩, .inl rfl⟩
      · exact ⟨.inr ⟨p, by simp [h], rfl⟩, .inr ⟨p, by simp [h], rfl⟩⟩
    · simp only [List.mem_cons] at h
      rcases h with rfl | h
      · exact ⟨.inr ⟨(k', v'), by simp, rfl⟩, .inr ⟨(k', v'), by simp, rfl⟩⟩
      · obtain ⟨h1, h2⟩ := dictSet_mem rest k v p h
        refine ⟨?_, ?_⟩
        · rcases h1 with h1 | ⟨q, hq, hq'⟩
          · exact .inl h1
          · exact .inr ⟨q, by simp [hq], hq'⟩
        · rcases h2 with h2 | ⟨q, hq, hq'⟩
          · exact .inl h2
          · exact .inr ⟨q, by simp [hq], hq'⟩

/-- invariant of an accepting map loop -/
theorem mapLoop_valid (evk evv : Ev1) : ∀ (kvs acc out : List (PyVal × PyVal)) (sh : List (Bool × Bool))
    (errs : List Inv) (t : List Ev),
    mapLoop evk evv kvs acc = some ⟨out, [], sh, errs, t, none⟩ →
    (∀ p ∈ acc, (hashable p.1 = true ∧ ∃ k u, evk k = some (.valid p.1, u))) →
    (∀ p ∈ acc, ∃ v u, evv v = some (.valid p.2, u)) →
    (∃ l, acc.map Prod.fst ++ l = out.map Prod.fst ∧ FreshFrom (acc.map Prod.fst) l) ∧
    (∀ p ∈ out, (hashable p.1 = true ∧ ∃ k u, evk k = some (.valid p.1, u))) ∧
    (∀ p ∈ out, ∃ v u, evv v = some (.valid p.2, u)) := by
  intro kvs
  induction kvs with
  | nil =>
    intro acc out sh errs t h hk hv
    simp only [mapLoop, Option.some.injEq, MapR.mk.injEq] at h
    obtain ⟨rfl, _⟩ := h
    exact ⟨⟨[], by simp, trivial⟩, hk, hv⟩
  | cons p kvs ih =>
    intro acc out sh errs t h hk hv
    obtain ⟨k, v⟩ := p
    simp only [mapLoop] at h
    cases hek : evk k with
    | none => simp [hek] at h
    | some pk =>
      obtain ⟨ko, tk⟩ := pk
      cases ko with
      | raised e => simp [hek] at h
      | invalid ke =>
        simp only [hek] at h
        cases hev : evv v with
        | none => simp [hev] at h
        | some pv =>
          obtain ⟨vo, tv⟩ := pv
          cases vo with
          | raised e => simp [hev] at h
          | valid vw =>
            simp only [hev] at h
            cases hl : mapLoop evk evv kvs acc with
            | none => simp [hl] at h
            | some r => simp [hl] at h
          | invalid ve =>
            simp only [hev] at h
            cases hl : mapLoop evk evv kvs acc with
            | none => simp [hl] at h
            | some r => simp [hl] at h
      | valid kw =>
        simp only [hek] at h
        cases hev : evv v with
        | none => simp [hev] at h
        | some pv =>
          obtain ⟨vo, tv⟩ := pv
          cases vo with
          | raised e => simp [hev] at h
          | invalid ve =>
            simp only [hev] at h
            cases hl : mapLoop evk evv kvs acc with
            | none => simp [hl] at h
            | some r => simp [hl] at h
          | valid vw =>
            simp only [hev] at h
            cases hh : hashable kw with
            | false => simp [hh] at h
            | true =>
              simp only [hh, Bool.not_true, Bool.false_eq_true, if_false] at h
              cases hl : mapLoop evk evv kvs (dictSet acc kw vw) with
              | none => simp [hl] at h
              | some r =>
                obtain ⟨out', ks', sh', errs', t', r'⟩ := r
                simp only [hl, Option.some.injEq, MapR.mk.injEq] at h
                obtain ⟨rfl, rfl, rfl, rfl, rfl, rfl⟩ := h
                have hk' : ∀ p ∈ dictSet acc kw vw, hashable p.1 = true ∧ ∃ k u, evk k = some (.valid p.1, u) := by
                  intro p hp
                  rcases (dictSet_mem acc kw vw p hp).1 with h1 | ⟨q, hq, hq'⟩
                  · rw [h1]; exact ⟨hh, k, tk, hek⟩
                  · rw [← hq']; exact hk q hq
                have hv' : ∀ p ∈ dictSet acc kw vw, ∃ v u, evv v = some (.valid p.2, u) := by
                  intro p hp
                  rcases (dictSet_mem acc kw vw p hp).2 with h1 | ⟨q, hq, hq'⟩
                  · rw [h1]; exact ⟨v, tv, hev⟩
                  · rw [← hq']; exact hv q hq
                obtain ⟨⟨l, hl1, hl2⟩, hko, hvo⟩ := ih (dictSet acc kw vw) out' sh' errs' t' hl hk' hv'
                refine ⟨?_, hko, hvo⟩
                rw [dictSet_keys] at hl1 hl2
                simp only [setAdd] at hl1 hl2
                cases hm : memL kw (acc.map Prod.fst) with
                | true =>
                  simp only [hm, if_true] at hl1 hl2
                  exact ⟨l, hl1, hl2⟩
                | false =>
                  simp only [hm, Bool.false_eq_true, if_false] at hl1 hl2
                  exact ⟨kw :: l, by simpa using hl1, ⟨hm, hl2⟩⟩

/-- a dict with pairwise unequal keys whose keys and values are fixed points is re-built as it is -/
theorem mapLoop_fixed (evk evv : Ev1) : ∀ (l acc : List (PyVal × PyVal)),
    FreshFrom (acc.map Prod.fst) (l.map Prod.fst) →
    (∀ p ∈ l, hashable p.1 = true ∧ (∃ t, evk p.1 = some (.valid p.1, t)) ∧ ∃ t, evv p.2 = some (.valid p.2, t)) →
    ∃ t, mapLoop evk evv l acc = some ⟨acc ++ l, [], [], [], t, none⟩ := by
  intro l
  induction l with
  | nil => intro acc _ _; exact ⟨[], by simp [mapLoop]⟩
  | cons p l ih =>
    intro acc hf h
    obtain ⟨k, v⟩ := p
    obtain ⟨hh, ⟨tk, hk⟩, ⟨tv, hv⟩⟩ := h (k, v) (by simp)
    simp only [List.map_cons, FreshFrom] at hf
    obtain ⟨hf1, hf2⟩ := hf
    have hds : dictSet acc k v = acc ++ [(k, v)] := dictSet_fresh acc k v hf1
    obtain ⟨t', ht'⟩ := ih (acc ++ [(k, v)]) (by simpa using hf2) (fun q hq => h q (by simp [hq]))
    simp only at hk hv hh
    exact ⟨tk ++ tv ++ t', by simp [mapLoop, hk, hv, hh, hds, ht']⟩

theorem mapPre_inl_not_valid {o m vid ps aps c x r} (h : mapPre o m vid ps aps c x = .inl r) (w : PyVal) :
    r.1 ≠ .valid w := by
  unfold mapPre at h
  split at h
  · simp at h; rw [← h]; simp
  · split at h
    · simp at h; rw [← h]; simp
    · simp at h; rw [← h]; simp
    · split at h
      · simp at h; rw [← h]; simp
      · split at h
        · simp at h; rw [← h]; simp
        · split at h
          · simp at h; rw [← h]; simp
          · simp at h

/-- **C17, maps**: the dict a `MapValidator` (no container predicates, no coercer) built is accepted by it
    unchanged, provided key and value payloads are fixed points of their validators -/
theorem C17_map_fixed (o : Oracle) (m : Mode) (vid : Nat) (evk evv : Ev1) (x w : PyVal) (t : List Ev)
    (h : mapStep o m vid [] [] none evk evv x = some (.valid w, t))
    (hkfix : ∀ k kw u, evk k = some (.valid kw, u) → ∃ u', evk kw = some (.valid kw, u'))
    (hvfix : ∀ v vw u, evv v = some (.valid vw, u) → ∃ u', evv vw = some (.valid vw, u')) :
    ∃ t', mapStep o m vid [] [] none evk evv w = some (.valid w, t') := by
  simp only [mapStep] at h
  cases hp : mapPre o m vid [] [] none x with
  | inl r =>
    simp only [hp, Option.some.injEq] at h
    exact absurd (by rw [h]) (mapPre_inl_not_valid hp w)
  | inr q =>
    obtain ⟨y, kvs, t0⟩ := q
    simp only [hp] at h
    cases hl : mapLoop evk evv kvs [] with
    | none => simp [hl] at h
    | some r =>
      obtain ⟨out, ks, sh, errs, t1, rr⟩ := r
      simp only [hl, Option.some.injEq, mapFinish] at h
      cases rr with
      | some e => simp at h
      | none =>
        simp only at h
        cases ks with
        | cons k ks => simp at h
        | nil =>
          simp only [List.isEmpty_nil, if_true, Prod.mk.injEq, Out.valid.injEq] at h
          obtain ⟨rfl, _⟩ := h
          obtain ⟨⟨l, hl1, hl2⟩, hko, hvo⟩ := mapLoop_valid evk evv kvs [] out sh errs t1 hl (by simp) (by simp)
          simp only [List.map_nil, List.nil_append] at hl1 hl2
          subst hl1
          have hpre : mapPre o m vid [] [] none (.dict 0 out) = .inr (.dict 0 out, out, [] ++ []) := by
            simp only [mapPre, gate, PyVal.ty, if_true, dictItems]
            cases m <;> simp [contPreds, runPreds, runAPreds]
          obtain ⟨t', ht'⟩ := mapLoop_fixed evk evv out [] (by simpa using hl2) (fun p hp => by
            obtain ⟨hh, k, u, hk⟩ := hko p hp
            obtain ⟨v, u', hv⟩ := hvo p hp
            exact ⟨hh, hkfix k p.1 u hk, hvfix v p.2 u' hv⟩)
          refine ⟨([] ++ []) ++ t', ?_⟩
          simp [mapStep, hpre, ht', mapFinish]

/-! ### record-shaped validators -/

/-- declared keys: strings (so `k == k`), pairwise unequal -/
def isStrVal : PyVal → Bool
  | .str _ => true
  | _ => false

def keysOKb : List PyVal → Bool
  | [] => true
  | k :: ks => isStrVal k && ks.all (fun k' => !pyEq k k' && !pyEq k' k) && keysOKb ks

theorem pyEq_str_refl (k : PyVal) (h : isStrVal k = true) : pyEq k k = true := by
  cases k <;> simp [isStrVal] at h
  simp [pyEq, PyVal.unsub]

/-- the dict of the keys that are present -/
def presentOf (keys : List PyVal) (got : List (Option PyVal)) : List (PyVal × PyVal) :=
  (keys.zip got).filterMap (fun kg => kg.2.map (fun w => (kg.1, w)))

theorem presentOf_cons (k : PyVal) (ks : List PyVal) (g : Option PyVal) (gs : List (Option PyVal)) :
    presentOf (k :: ks) (g :: gs) =
      (match g with | some w => [(k, w)] | none => []) ++ presentOf ks gs := by
  cases g <;> simp [presentOf]

/-- a key no declared key equals is not in the dict -/
theorem dictGet_presentOf_none (k : PyVal) : ∀ (keys : List PyVal) (got : List (Option PyVal)),
    (∀ k' ∈ keys, pyEq k' k = false) → dictGet (presentOf keys got) k = none
  | [], _, _ => by simp [presentOf, dictGet]
  | _ :: _, [], _ => by simp [presentOf, dictGet]
  | k0 :: ks, g :: gs, h => by
    rw [presentOf_cons]
    have ih := dictGet_presentOf_none k ks gs (fun k' hk' => h k' (by simp [hk']))
    cases g with
    | none => simpa using ih
    | some w => simp [dictGet, h k0 (by simp), ih]

/-- looking a declared key up in the dict of present keys gives that key's payload slot -/
theorem dictGet_presentOf : ∀ (keys : List PyVal) (got : List (Option PyVal)), keysOKb keys = true →
    ∀ kg ∈ keys.zip got, dictGet (presentOf keys got) kg.1 = kg.2
  | [], _, _, kg, h => by simp at h
  | _ :: _, [], _, kg, h => by simp at h
  | k0 :: ks, g :: gs, hk, kg, h => by
    simp only [keysOKb, Bool.and_eq_true, List.all_eq_true, Bool.not_eq_true'] at hk
    obtain ⟨⟨hs, hne⟩, hks⟩ := hk
    simp only [List.zip_cons_cons, List.mem_cons] at h
    rw [presentOf_cons]
    rcases h with rfl | h
    · cases g with
      | none =>
        simp only [List.nil_append]
        exact dictGet_presentOf_none k0 ks gs (fun k' hk' => (hne k' hk').2)
      | some w => simp [dictGet, pyEq_str_refl k0 hs]
    · have hmem : kg.1 ∈ ks := (List.of_mem_zip h).1
      have ih := dictGet_presentOf ks gs hks kg h
      cases g with
      | none => simpa using ih
      | some w => simp [dictGet, (hne kg.1 hmem).1, ih]

/-- every key of the dict of present keys is a declared key -/
theorem presentOf_keys (keys : List PyVal) (got : List (Option PyVal)) :
    ∀ p ∈ presentOf keys got, p.1 ∈ keys := by
  intro p hp
  simp only [presentOf, List.mem_filterMap] at hp
  obtain ⟨kg, hkg, hm⟩ := hp
  cases hg : kg.2 with
  | none => simp [hg] at hm
  | some w =>
    simp only [hg, Option.map_some, Option.some.injEq] at hm
    subst hm
    exact (List.of_mem_zip hkg).1

theorem keysOKb_refl : ∀ (keys : List PyVal), keysOKb keys = true → ∀ k ∈ keys, pyEq k k = true
  | [], _, k, hk => by simp at hk
  | k0 :: ks, h, k, hk => by
    simp only [keysOKb, Bool.and_eq_true] at h
    simp only [List.mem_cons] at hk
    rcases hk with rfl | hk
    · exact pyEq_str_refl _ h.1.1
    · exact keysOKb_refl ks h.2 k hk

theorem presentOf_no_unknown (keys : List PyVal) (got : List (Option PyVal)) (hk : keysOKb keys = true) :
    hasUnknownKey keys (presentOf keys got) = false := by
  simp only [hasUnknownKey, List.any_eq_false, Bool.not_eq_true', Bool.not_eq_false]
  intro p hp
  have hmem := presentOf_keys keys got p hp
  simp only [memL, List.any_eq_true]
  exact ⟨p.1, hmem, keysOKb_refl keys hk p.1 hmem⟩

/-- the second pass over the keys: same payload slots, no failing key -/
theorem recLoop_fixed {dv0 : PyVal} {vidn : Nat} {data : List (PyVal × PyVal)} (dv' : PyVal) (data' : List (PyVal × PyVal)) :
    ∀ {evs keys reqs got ks errs t}, RecRun vidn dv0 data evs keys reqs got ks errs t → ks = [] →
    (∀ kg ∈ keys.zip got, dictGet data' kg.1 = kg.2) →
    (∀ ev ∈ evs, ∀ x w u, ev x = some (.valid w, u) → ∃ u', ev w = some (.valid w, u')) →
    ∃ t', recLoop vidn dv' data' evs keys reqs = some ⟨got, [], [], t', none⟩ := by
  intro evs keys reqs got ks errs t h
  induction h with
  | nil => intro _ _ _; exact ⟨[], by simp [recLoop]⟩
  | missing _ _ _ => intro hks; simp at hks
  | invalid _ _ _ _ => intro hks; simp at hks
  | @absentOpt ev evs k ks' reqs got ks errs t hd _ ih =>
    intro hks hget hfix
    obtain ⟨t', ht'⟩ := ih hks (fun kg hkg => hget kg (by simp [hkg])) (fun e he => hfix e (by simp [he]))
    have hg : dictGet data' k = none := hget (k, none) (by simp)
    exact ⟨t', by simp [recLoop, hg, ht']⟩
  | @valid ev evs k ks' req reqs got ks errs t xv w t0 hd hx _ ih =>
    intro hks hget hfix
    obtain ⟨t', ht'⟩ := ih hks (fun kg hkg => hget kg (by simp [hkg])) (fun e he => hfix e (by simp [he]))
    have hg : dictGet data' k = some w := hget (k, some w) (by simp)
    obtain ⟨u', hu'⟩ := hfix ev (by simp) xv w t0 hx
    exact ⟨u' ++ t', by simp [recLoop, hg, hu', ht']⟩

/-- outcome of everything after the key loop, when no key failed: it depends on the payload slots only -/
def recTailOut (m : Mode) (vid : Nat) (cfg : RecCfg) (got : List (Option PyVal)) : Out :=
  match (runObjCheck cfg.oc vid (recBuild cfg got)).1 with
  | .valid _ => (runAObjCheck m cfg.aoc vid (recBuild cfg got)).1
  | other => other

theorem recFinish_out (m : Mode) (vid : Nat) (cfg : RecCfg) (y : PyVal) (t : List Ev) (r : RecR)
    (h1 : r.r = none) (h2 : r.ks = []) : (recFinish m vid cfg y t r).1 = recTailOut m vid cfg r.got := by
  simp only [recFinish, h1, h2, List.isEmpty_nil, Bool.not_true, Bool.false_eq_true, if_false, recTailOut]
  cases (runObjCheck cfg.oc vid (recBuild cfg r.got)).1 <;> rfl

theorem recTailOut_valid (m : Mode) (vid : Nat) (cfg : RecCfg) (got : List (Option PyVal)) (w : PyVal)
    (h : recTailOut m vid cfg got = .valid w) : w = recBuild cfg got := by
  simp only [recTailOut] at h
  have hoc : ∀ obj w', (runObjCheck cfg.oc vid obj).1 = .valid w' → w' = obj := by
    intro obj w' h'
    unfold runObjCheck at h'
    split at h'
    · simpa using h'.symm
    · split at h'
      · simpa using h'.symm
      · simp at h'
  have haoc : ∀ obj w', (runAObjCheck m cfg.aoc vid obj).1 = .valid w' → w' = obj := by
    intro obj w' h'
    unfold runAObjCheck at h'
    split at h'
    · split at h'
      · simpa using h'.symm
      · simp at h'
    · simpa using h'.symm
  split at h
  · exact haoc _ _ h
  · rename_i other hne
    rw [h] at hne
    exact absurd rfl (hne w)

theorem recPre_inl_not_valid {o m vid cfg x r} (h : recPre o m vid cfg x = .inl r) (w : PyVal) :
    r.1 ≠ .valid w := by
  unfold recPre at h
  split at h
  · simp at h; rw [← h]; simp
  · split at h
    · simp at h; rw [← h]; simp
    · simp at h; rw [← h]; simp
    · split at h
      · simp at h; rw [← h]; simp
      · split at h
        · simp at h; rw [← h]; simp
        · simp at h

/-- an accepting run of a record-shaped validator -/
theorem recordStep_valid_inv (o : Oracle) (m : Mode) (vid : Nat) (cfg : RecCfg) (evs : List Ev1) (x w : PyVal)
    (t : List Ev) (hl1 : evs.length = cfg.keys.length) (hl2 : cfg.keys.length = cfg.reqs.length)
    (h : recordStep o m vid cfg evs x = some (.valid w, t)) :
    ∃ y data t0 got errs t1, recPre o m vid cfg x = .inr (y, data, t0) ∧
      RecRun vid y data evs cfg.keys cfg.reqs got [] errs t1 ∧
      recTailOut m vid cfg got = .valid w ∧ w = recBuild cfg got := by
  simp only [recordStep] at h
  cases hp : recPre o m vid cfg x with
  | inl r =>
    simp only [hp, Option.some.injEq] at h
    exact absurd (by rw [h]) (recPre_inl_not_valid hp w)
  | inr q =>
    obtain ⟨y, data, t0⟩ := q
    simp only [hp] at h
    cases hl : recLoop vid y data evs cfg.keys cfg.reqs with
    | none => simp [hl] at h
    | some r =>
      obtain ⟨got, ks, errs, t1, rr⟩ := r
      simp only [hl, Option.some.injEq] at h
      have hout : (recFinish m vid cfg y t0 ⟨got, ks, errs, t1, rr⟩).1 = .valid w := by rw [h]
      cases rr with
      | some e => simp [recFinish] at hout
      | none =>
        cases ks with
        | cons k ks => simp [recFinish] at hout
        | nil =>
          rw [recFinish_out m vid cfg y t0 _ rfl rfl] at hout
          exact ⟨y, data, t0, got, errs, t1, rfl, recLoop_to_run hl1 hl2 hl, hout, recTailOut_valid m vid cfg got w hout⟩

/-- the second pass, given that the object built passes the gate again as `(y', data')` -/
theorem recordStep_fixed_of_pre (o : Oracle) (m : Mode) (vid : Nat) (cfg : RecCfg) (evs : List Ev1) (w : PyVal)
    {y : PyVal} {data : List (PyVal × PyVal)} {got : List (Option PyVal)} {errs : List Inv} {t1 : List Ev}
    (hrun : RecRun vid y data evs cfg.keys cfg.reqs got [] errs t1)
    (hout : recTailOut m vid cfg got = .valid w)
    (y' : PyVal) (data' : List (PyVal × PyVal)) (t0' : List Ev)
    (hpre : recPre o m vid cfg w = .inr (y', data', t0'))
    (hget : ∀ kg ∈ cfg.keys.zip got, dictGet data' kg.1 = kg.2)
    (hfix : ∀ ev ∈ evs, ∀ x w u, ev x = some (.valid w, u) → ∃ u', ev w = some (.valid w, u')) :
    ∃ t', recordStep o m vid cfg evs w = some (.valid w, t') := by
  obtain ⟨t', ht'⟩ := recLoop_fixed y' data' hrun rfl hget hfix
  have hfin : (recFinish m vid cfg y' t0' ⟨got, [], [], t', none⟩).1 = .valid w := by
    rw [recFinish_out m vid cfg y' t0' _ rfl rfl]; exact hout
  refine ⟨(recFinish m vid cfg y' t0' ⟨got, [], [], t', none⟩).2, ?_⟩
  simp only [recordStep, hpre, ht', Option.some.injEq]
  rw [← hfin]

/-- **C17, dict-shaped records** (DictValidatorAny, TypedDictValidator without coercer): string keys,
    pairwise different -/
theorem C17_dictrecord_fixed (o : Oracle) (m : Mode) (vid : Nat) (cfg : RecCfg) (evs : List Ev1) (x w : PyVal)
    (t : List Ev) (hkind : cfg.kind = .dictAny ∨ (cfg.kind = .typeddict ∧ cfg.coerce = none))
    (hkeys : keysOKb cfg.keys = true)
    (hl1 : evs.length = cfg.keys.length) (hl2 : cfg.keys.length = cfg.reqs.length)
    (h : recordStep o m vid cfg evs x = some (.valid w, t))
    (hfix : ∀ ev ∈ evs, ∀ x w u, ev x = some (.valid w, u) → ∃ u', ev w = some (.valid w, u')) :
    ∃ t', recordStep o m vid cfg evs w = some (.valid w, t') := by
  obtain ⟨y, data, t0, got, errs, t1, hp, hrun, hout, hw⟩ := recordStep_valid_inv o m vid cfg evs x w t hl1 hl2 h
  have hguard : ¬ (m = .sync ∧ cfg.aoc.isSome) := ((C04_pre_iff o m vid cfg x y data t0).mp hp).1
  have hwd : w = .dict 0 (presentOf cfg.keys got) := by
    rw [hw]
    rcases hkind with hk | ⟨hk, _⟩ <;> simp [recBuild, hk, presentOf]
  have hpre : recPre o m vid cfg w = .inr (w, presentOf cfg.keys got, []) := by
    rw [C04_pre_iff]
    refine ⟨hguard, ?_, by rw [hwd]; rfl, by simp [presentOf_no_unknown cfg.keys got hkeys]⟩
    rw [hwd]
    rcases hkind with hk | ⟨hk, hc⟩
    · simp [recGate, hk, PyVal.ty]
    · simp [recGate, hk, hc, PyVal.ty]
  exact recordStep_fixed_of_pre o m vid cfg evs w hrun hout w _ [] hpre (dictGet_presentOf cfg.keys got hkeys) hfix

/-! ### class records: dataclass / NamedTuple validators, every field required -/

theorem presentOf_all_some : ∀ (keys vals : List PyVal), presentOf keys (vals.map some) = keys.zip vals
  | [], _ => by simp [presentOf]
  | _ :: _, [] => by simp [presentOf]
  | k :: ks, v :: vs => by
    have ih := presentOf_all_some ks vs
    rw [List.map_cons, presentOf_cons]
    simp [ih]

theorem RecRun_allreq_some {vid dv data} : ∀ {evs keys reqs got ks errs t},
    RecRun vid dv data evs keys reqs got ks errs t → ks = [] → reqs.all id = true → ∀ g ∈ got, g.isSome = true := by
  intro evs keys reqs got ks errs t h
  induction h with
  | nil => intro _ _ g hg; simp at hg
  | missing _ _ _ => intro hks; simp at hks
  | invalid _ _ _ _ => intro hks; simp at hks
  | absentOpt _ _ _ => intro _ hr; simp at hr
  | valid _ _ _ ih =>
    intro hks hr g hg
    simp only [List.all_cons, Bool.and_eq_true] at hr
    simp only [List.mem_cons] at hg
    rcases hg with rfl | hg
    · rfl
    · exact ih hks hr.2 g hg

/-- the constructor arguments are the payloads, in field order -/
theorem construct_vals (f : PyVal → Option PyVal) : ∀ (names : List String) (defaults : List (Option PyVal))
    (got : List (Option PyVal)), names.length = defaults.length → names.length = got.length →
    (∀ g ∈ got, g.isSome = true) → (∀ kg ∈ (names.map keyStr).zip got, f kg.1 = kg.2) →
    ((names.zip defaults).map (fun nd => match f (keyStr nd.1) with | some v => v | none => nd.2.getD .none)).map some = got
  | [], _, got, _, h2, _, _ => by
    cases got with
    | nil => rfl
    | cons _ _ => simp at h2
  | n :: ns, [], _, h1, _, _, _ => by simp at h1
  | n :: ns, d :: ds, [], _, h2, _, _ => by simp at h2
  | n :: ns, d :: ds, g :: gs, h1, h2, hs, hf => by
    have ih := construct_vals f ns ds gs (by simpa using h1) (by simpa using h2)
      (fun g' hg' => hs g' (by simp [hg'])) (fun kg hkg => hf kg (by simp [hkg]))
    have hg : f (keyStr n) = g := hf (keyStr n, g) (by simp)
    have hsome := hs g (by simp)
    cases g with
    | none => simp at hsome
    | some w =>
      simp only [List.zip_cons_cons, List.map_cons, hg, List.cons.injEq, true_and]
      exact ih

/-- **C17, class records** (DataclassValidator / NamedTupleValidator without coercer, every field required):
    the instance built is accepted unchanged -/
theorem C17_classrecord_fixed (o : Oracle) (m : Mode) (vid : Nat) (cfg : RecCfg) (evs : List Ev1) (x w : PyVal)
    (t : List Ev) (hkind : cfg.kind = .dataclass ∨ cfg.kind = .namedtuple) (hco : cfg.coerce = none)
    (hkeys : keysOKb cfg.keys = true) (hkn : cfg.keys = cfg.fieldNames.map keyStr)
    (hdl : cfg.fieldNames.length = cfg.defaults.length) (hreq : cfg.reqs.all id = true)
    (hl1 : evs.length = cfg.keys.length) (hl2 : cfg.keys.length = cfg.reqs.length)
    (h : recordStep o m vid cfg evs x = some (.valid w, t))
    (hfix : ∀ ev ∈ evs, ∀ x w u, ev x = some (.valid w, u) → ∃ u', ev w = some (.valid w, u')) :
    ∃ t', recordStep o m vid cfg evs w = some (.valid w, t') := by
  obtain ⟨y, data, t0, got, errs, t1, hp, hrun, hout, hw⟩ := recordStep_valid_inv o m vid cfg evs x w t hl1 hl2 h
  have hguard : ¬ (m = .sync ∧ cfg.aoc.isSome) := ((C04_pre_iff o m vid cfg x y data t0).mp hp).1
  have hsome := RecRun_allreq_some hrun rfl hreq
  have hgl : cfg.fieldNames.length = got.length := by
    have := hrun.errs_length.2
    rw [this, hkn, List.length_map]
  -- the constructor arguments
  let vals := (cfg.fieldNames.zip cfg.defaults).map (fun nd =>
    match dictGet (presentOf cfg.keys got) (keyStr nd.1) with | some v => v | none => nd.2.getD .none)
  have hvals : vals.map some = got := by
    refine construct_vals (dictGet (presentOf cfg.keys got)) cfg.fieldNames cfg.defaults got hdl hgl hsome ?_
    rw [← hkn]
    exact dictGet_presentOf cfg.keys got hkeys
  have hwd : w = .inst 0 0 cfg.cls cfg.fieldNames vals := by
    rw [hw]
    rcases hkind with hk | hk <;> (simp only [recBuild, hk, construct]; rfl)
  have hdata : dictItems (instDict 0 cfg.fieldNames vals) = some (presentOf cfg.keys got) := by
    rw [← hvals, presentOf_all_some, hkn]
    simp only [instDict, dictItems]
    rfl
  have hgate : recGate o cfg w = .acc (instDict 0 cfg.fieldNames vals) [] := by
    rw [hwd]
    rcases hkind with hk | hk
    · simp only [recGate, hk, hco, PyVal.ty]
      simp
    · simp only [recGate, hk, hco, PyVal.ty]
      simp
  have hpre : recPre o m vid cfg w = .inr (instDict 0 cfg.fieldNames vals, presentOf cfg.keys got, []) := by
    rw [C04_pre_iff]
    exact ⟨hguard, hgate, hdata, by simp [presentOf_no_unknown cfg.keys got hkeys]⟩
  exact recordStep_fixed_of_pre o m vid cfg evs w hrun hout _ _ [] hpre (dictGet_presentOf cfg.keys got hkeys) hfix

end Koda
