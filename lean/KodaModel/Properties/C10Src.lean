/-
  C10 / C11, tied to the source: `generate_schema_predicate` as it stands in
  koda_validate/serialization/json_schema.py, translated on every run (`Generated/SchemaPredSrc.lean`) and
  interpreted (`KodaModel/PySchemaPred.lean`), is the model's `predSchema` — for every predicate (every
  parameter value) and every printer.
-/
import KodaModel.PySchemaPred
import KodaModel.Generated.SchemaPredSrc
import KodaModel.Generated.PredSrc
import KodaModel.Properties.C10
import KodaModel.Properties.C10WF

namespace Koda

theorem src_pred_schema (pr : Printer) (p : PredK) :
    runGenSchemaPred pr Src.genSchemaPredicate p = predSchema pr p := by
  cases p with
  | startsWith v =>
    cases v <;> simp [runGenSchemaPred, Src.genSchemaPredicate, runArms, GCls.matches, GRet.eval, predSchema]
    rename_i bs; cases pr.patBytes bs <;> rfl
  | endsWith v =>
    cases v <;> simp [runGenSchemaPred, Src.genSchemaPredicate, runArms, GCls.matches, GRet.eval, predSchema]
    rename_i bs; cases pr.patBytes bs <;> rfl
  | equalTo v =>
    simp [runGenSchemaPred, Src.genSchemaPredicate, runArms, GCls.matches, GRet.eval, predSchema]
    cases enumValue pr v <;> rfl
  | choices vs =>
    simp [runGenSchemaPred, Src.genSchemaPredicate, runArms, GCls.matches, GRet.eval, predSchema]
    cases sortVals vs with
    | none => rfl
    | some s => simp only []; cases enumValues pr s <;> rfl
  | _ => simp [runGenSchemaPred, Src.genSchemaPredicate, runArms, GCls.matches, GRet.eval, predSchema, PredK.intParam]

/-- **C10 at the source, predicates**: the translated `generate_schema_predicate` returns an object or raises
    `TypeError` — nothing else — for every predicate (CPython's printers being total) … -/
theorem C10_src_pred_outcome (pr : Printer) (ht : pr.Total) (p : PredK) :
    OkOrTE (runGenSchemaPred pr Src.genSchemaPredicate p) := by
  rw [src_pred_schema]; exact predSchema_outcome pr ht p

/-- … and what it returns carries, under every keyword, a value of the shape the Draft 2020-12 metaschema demands
    (for predicates with non-negative length / count parameters and finite numeric bounds: `wfSafe`) -/
theorem C10_src_pred_wf (pr : Printer) (p : PredK) (o : JObj) (hp : p.wfSafe = true)
    (h : runGenSchemaPred pr Src.genSchemaPredicate p = .ok o) : wfO o = true := by
  rw [src_pred_schema] at h; exact predSchema_wf pr p o hp h

/-- the classes with an arm are predicate classes the library defines, each at most once -/
theorem src_pred_schema_arms_known :
    (Src.genSchemaPredicate.arms.map (·.cls)).Nodup ∧
      ∀ a ∈ Src.genSchemaPredicate.arms, (match a.cls with | .other _ => false | _ => true) = true := by decide

/-- `_enum_value`, `unhandled_type` and `_add_predicate_schema` (modelled by `enumValue`, the `TypeError` of the last
    arm, `jaddPred`) are outside the translated subset: pinned -/
theorem src_schema_pins : Src.schemaPins = ["_enum_value: match_t = type(match) ; if match_t is str or match_t is int or match_t is None or (match_t is float) or (match_t is bool):\n    choice: Serializable = match\nelif match_t is date:\n    choice = match.isoformat()\nelif match_t is datetime:\n    choice = match.isoformat()\nelif match_t is Decimal:\n    choice = str(match)\nelif match_t is UUID:\n    choice = str(match)\nelif match_t is bytes:\n    try:\n        choice = match.decode('utf-8')\n    except UnicodeDecodeError as e:\n        raise TypeError(f'bytes value {match!r} cannot be represented in JSON') from e\nelse:\n    raise TypeError(f'got unexpected type: {type(match)}') ; return choice",
    "unhandled_type: raise TypeError(f'type {type(obj)} not handled. You may want to write a wrapper function.')",
    "_add_predicate_schema: if any((keyword in ret for keyword in pred_schema)):\n    all_of = ret.setdefault('allOf', [])\n    assert isinstance(all_of, list)\n    all_of.append(pred_schema)\nelse:\n    ret.update(pred_schema)"] := rfl

/-- non-vacuity: an exclusive Decimal lower bound goes to the format keyword, an integer one to the standard keyword -/
example (pr : Printer) (n : Int) :
    runGenSchemaPred pr Src.genSchemaPredicate (.min (.int n) true) = .ok [(kw "exclusiveMinimum", rawJ (.int n))] := by
  simp [runGenSchemaPred, Src.genSchemaPredicate, runArms, GCls.matches, GRet.eval, boundSchema, isFmtTy]

end Koda
