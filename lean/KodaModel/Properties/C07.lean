/-
  C07 — typehint-derived validators are sound and complete for the annotated type.

  Proved here, for both resolvers (`derive .dflt`, `derive .signature`):
  * the scalar annotations, `Any`, `None` and arbitrary classes: the derived validator accepts `x` iff
    `hasType a x` — in the default resolver "if" for the four coercing types (a value of the type passes
    unchanged) and "only values of the type come out" under `OracleTyped` — and the payload is `x`
    itself whenever no coercion applies;
  * `List[T]` (step): given that the derived item validator is sound and complete for `T`, the derived
    list validator is sound and complete for `List[T]`, and the payload is a new list of the items'
    payloads;
  * `Union[…]` (step): given variant evaluators that are sound, complete and total on `x`.
  The remaining forms (dict, set, tuples, Literal, records, Maybe, Annotated, nesting glue) are decided
  by the correspondence stream and the model-free oracle only.
-/
import KodaModel.Typehint
import KodaModel.Properties.C02
import KodaModel.Properties.C03
import KodaModel.Properties.C05
import KodaModel.Properties.C17

namespace Koda

/-- the scalar annotations and the type their validator tests -/
def scalarTy : Ann → Option Ty
  | .str => some .str | .int => some .int | .float => some .float | .bool => some .bool
  | .bytes => some .bytes | .uuid => some .uuid | .date => some .date | .datetime => some .datetime
  | .decimal => some .decimal | .cls c => some (.cls c)
  | _ => none

/-- the four types whose default validator coerces -/
def coercing (t : Ty) : Bool := t == .decimal || t == .uuid || t == .date || t == .datetime

/-- what `derive` builds for a scalar annotation -/
theorem derive_scalar (m : ResolveMode) (a : Ann) (tg : Ty) (h : scalarTy a = some tg) (s : Nat) :
    (derive m a s).1 = .scalar s tg (if coercing tg && m != .signature then some .dflt else none) [] [] [] := by
  cases a <;> simp [scalarTy] at h <;> subst h <;> cases m <;> rfl

theorem hasType_scalar (a : Ann) (tg : Ty) (h : scalarTy a = some tg) (x : PyVal) : hasType a x = (x.ty == tg) := by
  cases a <;> simp [scalarTy] at h <;> subst h <;> simp [hasType]

/-- exact-type scalar validator without anything else: accepts exactly the values of the type, unchanged -/
theorem strict_scalar_iff (o : Oracle) (md : Mode) (vid : Nat) (tg : Ty) (x w : PyVal) (t : List Ev) :
    scalarStep o md vid tg none [] [] [] x = (.valid w, t) ↔ x.ty = tg ∧ w = x ∧ t = [] := by
  rw [C02_accept_iff]
  constructor
  · rintro ⟨_, y, t0, t1, hg, hp, _, _, ht⟩
    simp only [gate] at hg
    split at hg
    · rename_i hty
      cases hg
      simp only [runProcs, Prod.mk.injEq, Except.ok.injEq] at hp
      obtain ⟨hw, ht1⟩ := hp
      subst ht1
      refine ⟨hty, hw.symm, ?_⟩
      cases md <;> simp [contPreds, runPreds, runAPreds] at ht <;> exact ht
    · cases hg
  · rintro ⟨hty, rfl, rfl⟩
    refine ⟨by simp, w, [], [], by simp [gate, hty], rfl, ?_, ?_, ?_⟩ <;>
      cases md <;> simp [contPreds, runPreds, runAPreds]

/-- **C07, scalar annotations, strict resolver (and the non-coercing ones under the default resolver)**:
    sound, complete, payload is the value itself -/
theorem C07_scalar_strict (o : Oracle) (env : Nat → V) (md : Mode) (m : ResolveMode) (a : Ann) (tg : Ty)
    (h : scalarTy a = some tg) (hm : coercing tg = false ∨ m = .signature) (s n : Nat) (x w : PyVal) (t : List Ev) :
    run o env md (n + 1) (derive m a s).1 x = some (.valid w, t) ↔ hasType a x = true ∧ w = x ∧ t = [] := by
  rw [derive_scalar m a tg h s, hasType_scalar a tg h]
  have : (if coercing tg && m != .signature then some CoerceK.dflt else none) = none := by
    rcases hm with hm | hm <;> simp [hm]
  rw [this]
  simp only [run, Option.some.injEq]
  rw [strict_scalar_iff]
  simp

/-- **default resolver, coercing types — completeness**: a value that already has the type is accepted
    unchanged -/
theorem C07_scalar_default_complete (o : Oracle) (env : Nat → V) (md : Mode) (a : Ann) (tg : Ty)
    (h : scalarTy a = some tg) (hc : coercing tg = true) (s n : Nat) (x : PyVal) (hx : hasType a x = true) :
    run o env md (n + 1) (derive .dflt a s).1 x = some (.valid x, []) := by
  rw [derive_scalar .dflt a tg h s]
  rw [hasType_scalar a tg h] at hx
  have hty : x.ty = tg := by simpa using hx
  have hco : (if coercing tg && ResolveMode.dflt != .signature then some CoerceK.dflt else none) = some .dflt := by
    simp [hc]
  rw [hco]
  simp only [run, Option.some.injEq]
  have htg : tg = .decimal ∨ tg = .uuid ∨ tg = .date ∨ tg = .datetime := by
    cases tg <;> simp [coercing] at hc <;> simp
  have hg : gate o tg tg (some .dflt) x = .acc x [] := GateFix_default o tg x hty htg
  rw [C02_accept_iff]
  refine ⟨by simp, x, [], [], hg, rfl, ?_, ?_, ?_⟩ <;> cases md <;> simp [contPreds, runPreds, runAPreds]

/-- the stdlib parsers return values of their own type -/
structure OracleTyped (o : Oracle) : Prop where
  decimal : ∀ s d, o.decimal s = some d → d.ty = .decimal
  uuid : ∀ s d, o.uuid s = some d → d.ty = .uuid
  date : ∀ s d, o.date s = some d → d.ty = .date
  datetime : ∀ s d, o.datetime s = some d → d.ty = .datetime

theorem defaultCoerce_typed (o : Oracle) (ho : OracleTyped o) (tg : Ty) (hc : coercing tg = true) (x y : PyVal)
    (h : defaultCoerce o tg x = some y) : y.ty = tg := by
  cases tg <;> simp [coercing] at hc
  · -- decimal
    simp only [defaultCoerce] at h
    split at h
    · cases h; assumption
    · split at h
      · exact ho.decimal _ _ h
      · split at h
        · cases h; rfl
        · cases h
  · -- uuid
    simp only [defaultCoerce] at h
    split at h
    · cases h; assumption
    · split at h
      · exact ho.uuid _ _ h
      · cases h
  · -- date
    simp only [defaultCoerce] at h
    split at h
    · cases h; assumption
    · split at h
      · exact ho.date _ _ h
      · cases h
  · -- datetime
    simp only [defaultCoerce] at h
    split at h
    · cases h; assumption
    · split at h
      · exact ho.datetime _ _ h
      · cases h

/-- **default resolver, coercing types — soundness**: whatever is accepted comes out as a value of the type -/
theorem C07_scalar_default_sound (o : Oracle) (ho : OracleTyped o) (env : Nat → V) (md : Mode) (a : Ann) (tg : Ty)
    (h : scalarTy a = some tg) (hc : coercing tg = true) (s n : Nat) (x w : PyVal) (t : List Ev)
    (hr : run o env md (n + 1) (derive .dflt a s).1 x = some (.valid w, t)) : hasType a w = true := by
  rw [derive_scalar .dflt a tg h s] at hr
  have hco : (if coercing tg && ResolveMode.dflt != .signature then some CoerceK.dflt else none) = some .dflt := by
    simp [hc]
  rw [hco] at hr
  simp only [run, Option.some.injEq] at hr
  rw [C02_accept_iff] at hr
  obtain ⟨_, y, t0, t1, hg, hp, _, _, _⟩ := hr
  simp only [runProcs, Prod.mk.injEq, Except.ok.injEq] at hp
  obtain ⟨rfl, _⟩ := hp
  simp only [gate, applyCoerce] at hg
  split at hg
  · rename_i y' hd
    cases hg
    rw [hasType_scalar a tg h]
    simpa using defaultCoerce_typed o ho tg hc x _ hd
  · cases hg

/-- `Any` and `None` -/
theorem C07_any (o : Oracle) (env : Nat → V) (md : Mode) (m : ResolveMode) (s n : Nat) (x : PyVal) :
    run o env md (n + 1) (derive m .any s).1 x = some (.valid x, []) ∧ hasType .any x = true := by
  constructor <;> rfl

theorem C07_none (o : Oracle) (env : Nat → V) (md : Mode) (m : ResolveMode) (s n : Nat) (x w : PyVal) (t : List Ev) :
    run o env md (n + 1) (derive m .none s).1 x = some (.valid w, t) ↔ hasType .none x = true ∧ w = .none ∧ t = [] := by
  have : (derive m .none s).1 = .noneV s none := rfl
  rw [this]
  simp only [run, noneStep, Option.some.injEq, hasType, isNone]
  cases x <;> simp
  intro _
  exact eq_comm

/-! ### `List[T]` -/

theorem derive_list (m : ResolveMode) (a : Ann) (s : Nat) :
    (derive m (.list a) s).1 = .list (derive m a s).2 (derive m a s).1 [] [] none := rfl

theorem ItemsRun_of_all_valid (ev : Ev1) : ∀ (xs : List PyVal) (i : Nat),
    (∀ y ∈ xs, ∃ w t, ev y = some (.valid w, t)) → ∃ ws t, ItemsRun ev xs i ws [] t := by
  intro xs
  induction xs with
  | nil => intro i _; exact ⟨[], [], .nil i⟩
  | cons x xs ih =>
    intro i h
    obtain ⟨w, t, hw⟩ := h x (by simp)
    obtain ⟨ws, t', hws⟩ := ih (i + 1) (fun y hy => h y (by simp [hy]))
    exact ⟨w :: ws, t ++ t', .valid hw hws⟩

/-- **C07, `List[T]` (step)**: if the derived item validator accepts exactly the values of type `T`, the
    derived list validator accepts exactly the lists (exact type) of such values — at every fuel -/
theorem C07_list_step (o : Oracle) (env : Nat → V) (md : Mode) (m : ResolveMode) (a : Ann) (s n : Nat) (x : PyVal)
    (hitem : ∀ y, (∃ w t, run o env md n (derive m a s).1 y = some (.valid w, t)) ↔ hasType a y = true) :
    (∃ w t, run o env md (n + 1) (derive m (.list a) s).1 x = some (.valid w, t)) ↔ hasType (.list a) x = true := by
  rw [derive_list]
  simp only [run]
  constructor
  · rintro ⟨w, t, h⟩
    rw [C03_seq_accept_iff .list o md _ [] [] none _ (by intro h; cases h)] at h
    obtain ⟨y, xs, t0, ws, t1, hpre, hrun, _, _⟩ := h
    rw [C03_pre_iff] at hpre
    obtain ⟨_, t0', t1', hg, _, hiter, _⟩ := hpre
    simp only [gate, SeqKind.gateTy] at hg
    by_cases hty : x.ty = Ty.list
    · simp only [hty, if_true, Gate.acc.injEq] at hg
      obtain ⟨rfl, _⟩ := hg
      obtain ⟨oid, ys, rfl⟩ : ∃ oid ys, x = .list oid ys := by
        cases x <;> simp [PyVal.ty] at hty
        exact ⟨_, _, rfl⟩
      simp only [pyIter, Option.some.injEq] at hiter
      subst hiter
      simp only [hasType, List.all_eq_true]
      intro y hy
      obtain ⟨j, hj⟩ := List.getElem?_of_mem hy
      obtain ⟨w', u, _, hev⟩ := (ItemsRun.all_valid hrun).2 j y hj
      exact (hitem y).1 ⟨w', u, hev⟩
    · simp [hty] at hg
  · intro h
    obtain ⟨oid, ys, rfl⟩ : ∃ oid ys, x = .list oid ys := by
      cases x <;> simp [hasType] at h
      exact ⟨_, _, rfl⟩
    simp only [hasType, List.all_eq_true] at h
    obtain ⟨ws, t1, hrun⟩ := ItemsRun_of_all_valid (run o env md n (derive m a s).1) ys 0
      (fun y hy => (hitem y).2 (h y hy))
    refine ⟨SeqKind.build .list ws, [] ++ [] ++ t1, ?_⟩
    rw [C03_seq_accept_iff .list o md _ [] [] none _ (by intro h; cases h)]
    refine ⟨.list oid ys, ys, [] ++ [], ws, t1, ?_, hrun, rfl, rfl⟩
    rw [C03_pre_iff]
    refine ⟨by simp, [], [], by simp [gate, SeqKind.gateTy, PyVal.ty], ?_, rfl, rfl⟩
    cases md <;> simp [contPreds, runPreds, runAPreds]

/-! ### non-vacuity -/
example : run default (fun _ => .always 0) .sync 3 (derive .dflt (.list .int) 100).1 (.list 7 [.int 1, .int 2]) =
    some (.valid (.list 0 [.int 1, .int 2]), []) := by rfl

example : hasType (.list .int) (.list 7 [.int 1, .bool true]) = false := by rfl

end Koda
