/-
  C14 for the whole error tree.  `C14_root` speaks about the root of a returned error; here: *every
  node, at any depth, of any returned error tree is itself the error some validator returned for
  some value* (or the missing-key leaf a record validator writes), for every validator tree, mode,
  input and fuel — so `C14_root` (names the responsible validator, holds the value it examined)
  applies to every node (`C14_everywhere`).
-/
import KodaModel.Properties.C14

namespace Koda

/-- `e` is what some validator returned for some value -/
def Returned (o : Oracle) (env : Nat → V) (m : Mode) (e : Inv) : Prop :=
  ∃ n v x t, run o env m n v x = some (.invalid e, t)

/-- the leaf a record-shaped validator writes for an absent required key -/
def IsMissingLeaf (c : Inv) : Prop := ∃ dv vid, c = .mk .missingKey dv vid []

/-- every node of the tree was returned by a validator, or is a missing-key leaf -/
inductive WellSourced (o : Oracle) (env : Nat → V) (m : Mode) : Inv → Prop
  | missing (dv : PyVal) (vid : Nat) : WellSourced o env m (.mk .missingKey dv vid [])
  | node (e : Inv) : Returned o env m e → (∀ c ∈ e.children, WellSourced o env m c) → WellSourced o env m e

/-! ### where the children of an error come from -/

theorem loopItems_children (ev : Ev1) (hr : Bool) : ∀ (xs : List PyVal) (i : Nat) (ne : Bool) (r : LoopR),
    loopItems ev hr xs i ne = some r → ∀ p ∈ r.es, ∃ y t, ev y = some (.invalid p.2, t) := by
  intro xs
  induction xs with
  | nil =>
    intro i ne r h p hp
    simp only [loopItems, Option.some.injEq] at h
    subst h; simp at hp
  | cons x xs ih =>
    intro i ne r h p hp
    simp only [loopItems] at h
    cases hx : ev x with
    | none => simp [hx] at h
    | some q =>
      obtain ⟨out, t0⟩ := q
      cases out with
      | raised e => simp only [hx, Option.some.injEq] at h; subst h; simp at hp
      | valid w =>
        simp only [hx] at h
        split at h
        · simp only [Option.some.injEq] at h; subst h; simp at hp
        · cases hl : loopItems ev hr xs (i + 1) ne with
          | none => simp [hl] at h
          | some r' =>
            simp only [hl, Option.some.injEq] at h
            subst h
            exact ih (i + 1) ne r' hl p hp
      | invalid e =>
        simp only [hx] at h
        cases hl : loopItems ev hr xs (i + 1) false with
        | none => simp [hl] at h
        | some r' =>
          simp only [hl, Option.some.injEq] at h
          subst h
          simp only [List.mem_cons] at hp
          rcases hp with rfl | hp
          · exact ⟨x, t0, hx⟩
          · exact ih (i + 1) false r' hl p hp

theorem loopFields_children : ∀ (evs : List Ev1) (xs : List PyVal) (i : Nat) (r : LoopR),
    loopFields evs xs i = some r → ∀ p ∈ r.es, ∃ ev ∈ evs, ∃ y t, ev y = some (.invalid p.2, t) := by
  intro evs
  induction evs with
  | nil => intro xs i r h p hp; simp only [loopFields, Option.some.injEq] at h; subst h; simp at hp
  | cons ev evs ih =>
    intro xs i r h p hp
    cases xs with
    | nil => simp only [loopFields, Option.some.injEq] at h; subst h; simp at hp
    | cons x xs =>
      simp only [loopFields] at h
      cases hx : ev x with
      | none => simp [hx] at h
      | some q =>
        obtain ⟨out, t0⟩ := q
        cases out with
        | raised e => simp only [hx, Option.some.injEq] at h; subst h; simp at hp
        | valid w =>
          simp only [hx] at h
          cases hl : loopFields evs xs (i + 1) with
          | none => simp [hl] at h
          | some r' =>
            simp only [hl, Option.some.injEq] at h
            subst h
            obtain ⟨ev', hev', y, t, hy⟩ := ih xs (i + 1) r' hl p hp
            exact ⟨ev', by simp [hev'], y, t, hy⟩
        | invalid e =>
          simp only [hx] at h
          cases hl : loopFields evs xs (i + 1) with
          | none => simp [hl] at h
          | some r' =>
            simp only [hl, Option.some.injEq] at h
            subst h
            simp only [List.mem_cons] at hp
            rcases hp with rfl | hp
            · exact ⟨ev, by simp, x, t0, hx⟩
            · obtain ⟨ev', hev', y, t, hy⟩ := ih xs (i + 1) r' hl p hp
              exact ⟨ev', by simp [hev'], y, t, hy⟩

theorem unionLoop_children (x : PyVal) : ∀ (evs : List Ev1) (w : Option PyVal) (es : List Inv) (t : List Ev)
    (r : Option Exn), unionLoop x evs = some (w, es, t, r) →
    ∀ c ∈ es, ∃ ev ∈ evs, ∃ t', ev x = some (.invalid c, t') := by
  intro evs
  induction evs with
  | nil => intro w es t r h c hc; simp only [unionLoop, Option.some.injEq, Prod.mk.injEq] at h; obtain ⟨_, rfl, _⟩ := h; simp at hc
  | cons ev evs ih =>
    intro w es t r h c hc
    simp only [unionLoop] at h
    cases hx : ev x with
    | none => simp [hx] at h
    | some q =>
      obtain ⟨out, t0⟩ := q
      cases out with
      | raised e => simp only [hx, Option.some.injEq, Prod.mk.injEq] at h; obtain ⟨_, rfl, _⟩ := h; simp at hc
      | valid w0 => simp only [hx, Option.some.injEq, Prod.mk.injEq] at h; obtain ⟨_, rfl, _⟩ := h; simp at hc
      | invalid e =>
        simp only [hx] at h
        cases hl : unionLoop x evs with
        | none => simp [hl] at h
        | some q' =>
          obtain ⟨w', es', t', r'⟩ := q'
          simp only [hl, Option.some.injEq, Prod.mk.injEq] at h
          obtain ⟨_, rfl, _, _⟩ := h
          simp only [List.mem_cons] at hc
          rcases hc with rfl | hc
          · exact ⟨ev, by simp, t0, hx⟩
          · obtain ⟨ev', hev', t'', hy⟩ := ih w' es' t' r' hl c hc
            exact ⟨ev', by simp [hev'], t'', hy⟩

theorem mapLoop_children (evk evv : Ev1) : ∀ (kvs acc : List (PyVal × PyVal)) (r : MapR),
    mapLoop evk evv kvs acc = some r →
    ∀ c ∈ r.errs, ∃ y t, evk y = some (.invalid c, t) ∨ evv y = some (.invalid c, t) := by
  intro kvs
  induction kvs with
  | nil => intro acc r h c hc; simp only [mapLoop, Option.some.injEq] at h; subst h; simp at hc
  | cons p kvs ih =>
    intro acc r h c hc
    obtain ⟨k, v⟩ := p
    simp only [mapLoop] at h
    cases hk : evk k with
    | none => simp [hk] at h
    | some qk =>
      obtain ⟨ko, tk⟩ := qk
      cases ko with
      | raised e => simp only [hk, Option.some.injEq] at h; subst h; simp at hc
      | valid kw =>
        simp only [hk] at h
        cases hv : evv v with
        | none => simp [hv] at h
        | some qv =>
          obtain ⟨vo, tv⟩ := qv
          cases vo with
          | raised e => simp only [hv, Option.some.injEq] at h; subst h; simp at hc
          | valid vw =>
            simp only [hv] at h
            split at h
            · simp only [Option.some.injEq] at h; subst h; simp at hc
            · cases hl : mapLoop evk evv kvs (dictSet acc kw vw) with
              | none => simp [hl] at h
              | some r' =>
                simp only [hl, Option.some.injEq] at h
                subst h
                exact ih _ r' hl c hc
          | invalid ve =>
            simp only [hv] at h
            cases hl : mapLoop evk evv kvs acc with
            | none => simp [hl] at h
            | some r' =>
              simp only [hl, Option.some.injEq] at h
              subst h
              simp only [List.nil_append, List.cons_append, List.mem_cons] at hc
              rcases hc with rfl | hc
              · exact ⟨v, tv, .inr hv⟩
              · exact ih _ r' hl c hc
      | invalid ke =>
        simp only [hk] at h
        cases hv : evv v with
        | none => simp [hv] at h
        | some qv =>
          obtain ⟨vo, tv⟩ := qv
          cases vo with
          | raised e => simp only [hv, Option.some.injEq] at h; subst h; simp at hc
          | valid vw =>
            simp only [hv] at h
            cases hl : mapLoop evk evv kvs acc with
            | none => simp [hl] at h
            | some r' =>
              simp only [hl, Option.some.injEq] at h
              subst h
              simp only [List.cons_append, List.nil_append, List.mem_cons] at hc
              rcases hc with rfl | hc
              · exact ⟨k, tk, .inl hk⟩
              · exact ih _ r' hl c hc
          | invalid ve =>
            simp only [hv] at h
            cases hl : mapLoop evk evv kvs acc with
            | none => simp [hl] at h
            | some r' =>
              simp only [hl, Option.some.injEq] at h
              subst h
              simp only [List.cons_append, List.nil_append, List.mem_cons] at hc
              rcases hc with rfl | rfl | hc
              · exact ⟨k, tk, .inl hk⟩
              · exact ⟨v, tv, .inr hv⟩
              · exact ih _ r' hl c hc

theorem recLoop_children (vid : Nat) (dv : PyVal) (data : List (PyVal × PyVal)) :
    ∀ (evs : List Ev1) (ks : List PyVal) (reqs : List Bool) (r : RecR),
    recLoop vid dv data evs ks reqs = some r →
    ∀ c ∈ r.errs, (∃ ev ∈ evs, ∃ y t, ev y = some (.invalid c, t)) ∨ IsMissingLeaf c := by
  intro evs
  induction evs with
  | nil => intro ks reqs r h c hc; simp only [recLoop, Option.some.injEq] at h; subst h; simp at hc
  | cons ev evs ih =>
    intro ks reqs r h c hc
    cases ks with
    | nil => simp only [recLoop, Option.some.injEq] at h; subst h; simp at hc
    | cons k ks =>
      cases reqs with
      | nil => simp only [recLoop, Option.some.injEq] at h; subst h; simp at hc
      | cons req reqs =>
        have lift : ∀ c, ((∃ ev' ∈ evs, ∃ y t, ev' y = some (.invalid c, t)) ∨ IsMissingLeaf c) →
            ((∃ ev' ∈ ev :: evs, ∃ y t, ev' y = some (.invalid c, t)) ∨ IsMissingLeaf c) := by
          intro c hh
          rcases hh with ⟨ev', hev', y, t, hy⟩ | hm
          · exact .inl ⟨ev', by simp [hev'], y, t, hy⟩
          · exact .inr hm
        simp only [recLoop] at h
        cases hd : dictGet data k with
        | none =>
          simp only [hd] at h
          cases hl : recLoop vid dv data evs ks reqs with
          | none => simp [hl] at h
          | some r' =>
            simp only [hl] at h
            split at h
            · simp only [Option.some.injEq] at h; subst h
              simp only [List.mem_cons] at hc
              rcases hc with rfl | hc
              · exact .inr ⟨dv, vid, rfl⟩
              · exact lift c (ih ks reqs r' hl c hc)
            · simp only [Option.some.injEq] at h; subst h
              exact lift c (ih ks reqs r' hl c hc)
        | some xv =>
          simp only [hd] at h
          cases hx : ev xv with
          | none => simp [hx] at h
          | some q =>
            obtain ⟨out, t0⟩ := q
            cases out with
            | raised e => simp only [hx, Option.some.injEq] at h; subst h; simp at hc
            | valid w =>
              simp only [hx] at h
              cases hl : recLoop vid dv data evs ks reqs with
              | none => simp [hl] at h
              | some r' =>
                simp only [hl, Option.some.injEq] at h; subst h
                exact lift c (ih ks reqs r' hl c hc)
            | invalid e =>
              simp only [hx] at h
              cases hl : recLoop vid dv data evs ks reqs with
              | none => simp [hl] at h
              | some r' =>
                simp only [hl, Option.some.injEq] at h; subst h
                simp only [List.mem_cons] at hc
                rcases hc with rfl | hc
                · exact .inl ⟨ev, by simp, xv, t0, hx⟩
                · exact lift c (ih ks reqs r' hl c hc)

/-! ### steps -/

theorem seqStep_children {k o m vid ps aps c ev x e t}
    (h : seqStep k o m vid ps aps c ev x = some (.invalid e, t)) :
    ∀ c' ∈ e.children, ∃ y t', ev y = some (.invalid c', t') := by
  simp only [seqStep] at h
  cases hp : seqPre k o m vid ps aps c x with
  | inl r =>
    simp only [hp, Option.some.injEq] at h
    subst h
    -- decided at the container level: a leaf
    simp only [seqPre] at hp
    split at hp
    · simp at hp
    · split at hp
      · simp at hp
      · simp only [Sum.inl.injEq, Prod.mk.injEq, Out.invalid.injEq] at hp; rw [← hp.1]; simp [Inv.children]
      · split at hp
        · simp at hp
        · split at hp
          · simp only [Sum.inl.injEq, Prod.mk.injEq, Out.invalid.injEq] at hp; rw [← hp.1]; simp [Inv.children]
          · split at hp <;> simp at hp
  | inr q =>
    obtain ⟨y, xs, t0⟩ := q
    simp only [hp] at h
    cases hl : loopItems ev (k == .set) xs 0 true with
    | none => simp [hl] at h
    | some r =>
      simp only [hl, Option.some.injEq, Prod.mk.injEq] at h
      obtain ⟨hf, _⟩ := h
      have hch := loopItems_children ev (k == .set) xs 0 true r hl
      simp only [finishSeq] at hf
      split at hf
      · simp at hf
      · split at hf
        · simp at hf
        · split at hf
          · simp only [Out.invalid.injEq] at hf; subst hf
            intro c' hc'
            simp only [Inv.children, List.mem_map] at hc'
            obtain ⟨p, hp', rfl⟩ := hc'
            exact hch p hp'
          · simp only [Out.invalid.injEq] at hf; subst hf
            intro c' hc'
            simp only [Inv.children, List.mem_map] at hc'
            obtain ⟨p, hp', rfl⟩ := hc'
            exact hch p hp'

theorem ntupleStep_children {o vid oc c lp evs x e t}
    (h : ntupleStep o vid oc c lp evs x = some (.invalid e, t)) :
    ∀ c' ∈ e.children, ∃ ev ∈ evs, ∃ y t', ev y = some (.invalid c', t') := by
  simp only [ntupleStep] at h
  cases hp : ntuplePre o vid c lp evs.length x with
  | inl r =>
    simp only [hp, Option.some.injEq] at h
    subst h
    simp only [ntuplePre] at hp
    split at hp
    · simp at hp
    · simp only [Sum.inl.injEq, Prod.mk.injEq, Out.invalid.injEq] at hp; rw [← hp.1]; simp [Inv.children]
    · split at hp
      · simp at hp
      · split at hp
        · simp only [Sum.inl.injEq, Prod.mk.injEq, Out.invalid.injEq] at hp; rw [← hp.1]; simp [Inv.children]
        · split at hp <;> simp at hp
  | inr q =>
    obtain ⟨y, xs, t0⟩ := q
    simp only [hp] at h
    cases hl : loopFields evs xs 0 with
    | none => simp [hl] at h
    | some r =>
      simp only [hl, Option.some.injEq] at h
      have hch := loopFields_children evs xs 0 r hl
      simp only [ntupleFinish] at h
      split at h
      · simp at h
      · split at h
        · simp only [Prod.mk.injEq, Out.invalid.injEq] at h
          obtain ⟨rfl, _⟩ := h
          intro c' hc'
          simp only [Inv.children, List.mem_map] at hc'
          obtain ⟨p, hp', rfl⟩ := hc'
          exact hch p hp'
        · simp only [Prod.mk.injEq] at h
          obtain ⟨hoc, _⟩ := h
          -- the whole-object check failed: a leaf
          simp only [runObjCheck] at hoc
          split at hoc
          · simp at hoc
          · split at hoc
            · simp at hoc
            · simp only [Out.invalid.injEq] at hoc; subst hoc; simp [Inv.children]

theorem mapStep_children {o m vid ps aps c evk evv x e t}
    (h : mapStep o m vid ps aps c evk evv x = some (.invalid e, t)) :
    ∀ c' ∈ e.children, ∃ y t', evk y = some (.invalid c', t') ∨ evv y = some (.invalid c', t') := by
  simp only [mapStep] at h
  cases hp : mapPre o m vid ps aps c x with
  | inl r =>
    simp only [hp, Option.some.injEq] at h
    subst h
    simp only [mapPre] at hp
    split at hp
    · simp at hp
    · split at hp
      · simp at hp
      · simp only [Sum.inl.injEq, Prod.mk.injEq, Out.invalid.injEq] at hp; rw [← hp.1]; simp [Inv.children]
      · split at hp
        · simp at hp
        · split at hp
          · simp only [Sum.inl.injEq, Prod.mk.injEq, Out.invalid.injEq] at hp; rw [← hp.1]; simp [Inv.children]
          · split at hp <;> simp at hp
  | inr q =>
    obtain ⟨y, kvs, t0⟩ := q
    simp only [hp] at h
    cases hl : mapLoop evk evv kvs [] with
    | none => simp [hl] at h
    | some r =>
      simp only [hl, Option.some.injEq] at h
      have hch := mapLoop_children evk evv kvs [] r hl
      simp only [mapFinish] at h
      split at h
      · simp at h
      · split at h
        · simp at h
        · simp only [Prod.mk.injEq, Out.invalid.injEq] at h
          obtain ⟨rfl, _⟩ := h
          intro c' hc'
          exact hch c' (by simpa [Inv.children] using hc')

theorem recordStep_children {o m vid cfg evs x e t}
    (h : recordStep o m vid cfg evs x = some (.invalid e, t)) :
    ∀ c' ∈ e.children, (∃ ev ∈ evs, ∃ y t', ev y = some (.invalid c', t')) ∨ IsMissingLeaf c' := by
  simp only [recordStep] at h
  cases hp : recPre o m vid cfg x with
  | inl r =>
    simp only [hp, Option.some.injEq] at h
    subst h
    simp only [recPre] at hp
    split at hp
    · simp at hp
    · split at hp
      · simp at hp
      · simp only [Sum.inl.injEq, Prod.mk.injEq, Out.invalid.injEq] at hp; rw [← hp.1]; simp [Inv.children]
      · split at hp
        · simp at hp
        · split at hp
          · simp only [Sum.inl.injEq, Prod.mk.injEq, Out.invalid.injEq] at hp; rw [← hp.1]; simp [Inv.children]
          · simp at hp
  | inr q =>
    obtain ⟨y, data, t0⟩ := q
    simp only [hp] at h
    cases hl : recLoop vid y data evs cfg.keys cfg.reqs with
    | none => simp [hl] at h
    | some r =>
      simp only [hl, Option.some.injEq] at h
      have hch := recLoop_children vid y data evs cfg.keys cfg.reqs r hl
      simp only [recFinish] at h
      split at h
      · simp at h
      · split at h
        · simp only [Prod.mk.injEq, Out.invalid.injEq] at h
          obtain ⟨rfl, _⟩ := h
          intro c' hc'
          exact hch c' (by simpa [Inv.children] using hc')
        · -- a whole-object check failed: a leaf
          have leaf_oc : ∀ obj e', (runObjCheck cfg.oc vid obj).1 = .invalid e' → e'.children = [] := by
            intro obj e' hh
            simp only [runObjCheck] at hh
            split at hh
            · simp at hh
            · split at hh
              · simp at hh
              · simp only [Out.invalid.injEq] at hh; subst hh; rfl
          have leaf_aoc : ∀ obj e', (runAObjCheck m cfg.aoc vid obj).1 = .invalid e' → e'.children = [] := by
            intro obj e' hh
            simp only [runAObjCheck] at hh
            split at hh
            · split at hh
              · simp at hh
              · simp only [Out.invalid.injEq] at hh; subst hh; rfl
            · simp at hh
          split at h
          · simp only [Prod.mk.injEq] at h
            intro c' hc'
            rw [leaf_aoc _ e h.1] at hc'
            simp at hc'
          · rename_i other hne
            simp only [Prod.mk.injEq] at h
            intro c' hc'
            rw [leaf_oc _ e h.1] at hc'
            simp at hc'

theorem unionStep_children {vid evs x e t} (h : unionStep vid evs x = some (.invalid e, t)) :
    ∀ c' ∈ e.children, ∃ ev ∈ evs, ∃ t', ev x = some (.invalid c', t') := by
  simp only [unionStep] at h
  cases hl : unionLoop x evs with
  | none => simp [hl] at h
  | some q =>
    obtain ⟨w, es, t0, r⟩ := q
    have hch := unionLoop_children x evs w es t0 r hl
    simp only [hl] at h
    cases r with
    | some ex => simp at h
    | none =>
      cases w with
      | some w' => simp at h
      | none =>
        simp only [Option.some.injEq, Prod.mk.injEq, Out.invalid.injEq] at h
        obtain ⟨rfl, _⟩ := h
        intro c' hc'
        exact hch c' (by simpa [Inv.children] using hc')

/-- **C14, everywhere**: every node of every returned error tree was itself returned by a validator
    for some value (or is a missing-key leaf) -/
theorem C14_everywhere (o : Oracle) (env : Nat → V) (m : Mode) :
    ∀ n v x e t, run o env m n v x = some (.invalid e, t) → WellSourced o env m e := by
  intro n
  induction n with
  | zero => intro v x e t h; simp [run] at h
  | succ n ih =>
    intro v x e t h
    have ret : Returned o env m e := ⟨n + 1, v, x, t, h⟩
    have leaf : e.children = [] → WellSourced o env m e := fun hc =>
      .node e ret (by intro c hcm; rw [hc] at hcm; simp at hcm)
    cases v with
    | scalar vid tg c pre ps aps =>
      simp only [run, Option.some.injEq] at h
      apply leaf
      unfold scalarStep at h
      split at h
      · simp at h
      · split at h
        · simp at h
        · simp only [Prod.mk.injEq, Out.invalid.injEq] at h; rw [← h.1]; rfl
        · split at h
          · simp at h
          · unfold finishPreds at h
            split at h
            · simp at h
            · split at h
              · simp at h
              · simp only [Prod.mk.injEq, Out.invalid.injEq] at h; rw [← h.1]; rfl
    | equals vid mt pre pid =>
      simp only [run, Option.some.injEq] at h
      apply leaf
      unfold equalsStep at h
      split at h
      · split at h
        · simp at h
        · split at h
          · simp at h
          · simp at h
          · simp only [Prod.mk.injEq, Out.invalid.injEq] at h; rw [← h.1]; rfl
      · simp only [Prod.mk.injEq, Out.invalid.injEq] at h; rw [← h.1]; rfl
    | noneV vid c =>
      simp only [run, Option.some.injEq] at h
      apply leaf
      unfold noneStep at h
      split at h
      · split at h
        · simp at h
        · simp only [Prod.mk.injEq, Out.invalid.injEq] at h; rw [← h.1]; rfl
        · simp at h
      · split at h
        · simp at h
        · simp only [Prod.mk.injEq, Out.invalid.injEq] at h; rw [← h.1]; rfl
    | always vid => simp [run] at h
    | isDict vid =>
      simp only [run, Option.some.injEq] at h
      apply leaf
      unfold isDictStep at h
      split at h
      · simp at h
      · simp only [Prod.mk.injEq, Out.invalid.injEq] at h; rw [← h.1]; rfl
    | list vid item ps aps c =>
      simp only [run] at h
      exact .node e ret (fun c' hc' => by
        obtain ⟨y, t', hy⟩ := seqStep_children h c' hc'
        exact ih item y c' t' hy)
    | set vid item ps aps c =>
      simp only [run] at h
      exact .node e ret (fun c' hc' => by
        obtain ⟨y, t', hy⟩ := seqStep_children h c' hc'
        exact ih item y c' t' hy)
    | utuple vid item ps aps c =>
      simp only [run] at h
      exact .node e ret (fun c' hc' => by
        obtain ⟨y, t', hy⟩ := seqStep_children h c' hc'
        exact ih item y c' t' hy)
    | ntuple vid fs oc c lp =>
      simp only [run] at h
      exact .node e ret (fun c' hc' => by
        obtain ⟨ev, hev, y, t', hy⟩ := ntupleStep_children h c' hc'
        obtain ⟨w, _, rfl⟩ := List.mem_map.mp hev
        exact ih w y c' t' hy)
    | map vid kv vv ps aps c =>
      simp only [run] at h
      exact .node e ret (fun c' hc' => by
        obtain ⟨y, t', hy | hy⟩ := mapStep_children h c' hc'
        · exact ih kv y c' t' hy
        · exact ih vv y c' t' hy)
    | record vid cfg vs =>
      simp only [run] at h
      exact .node e ret (fun c' hc' => by
        rcases recordStep_children h c' hc' with ⟨ev, hev, y, t', hy⟩ | ⟨dv, vid', rfl⟩
        · obtain ⟨w, _, rfl⟩ := List.mem_map.mp hev
          exact ih w y c' t' hy
        · exact .missing dv vid')
    | union vid vs =>
      simp only [run] at h
      exact .node e ret (fun c' hc' => by
        obtain ⟨ev, hev, t', hy⟩ := unionStep_children h c' hc'
        obtain ⟨w, _, rfl⟩ := List.mem_map.mp hev
        exact ih w x c' t' hy)
    | optional vid nv inner =>
      simp only [run] at h
      exact .node e ret (fun c' hc' => by
        obtain ⟨ev, hev, t', hy⟩ := unionStep_children h c' hc'
        simp only [List.mem_cons, List.not_mem_nil, or_false] at hev
        rcases hev with rfl | rfl
        · exact ih nv x c' t' hy
        · exact ih inner x c' t' hy)
    | maybe vid inner =>
      simp only [run] at h
      cases x with
      | just oid v =>
        simp only [maybeStep] at h
        cases hv : run o env m n inner v with
        | none => simp [hv] at h
        | some q =>
          obtain ⟨out, t0⟩ := q
          cases out with
          | valid w => simp [hv] at h
          | raised ex => simp [hv] at h
          | invalid e0 =>
            simp only [hv, Option.some.injEq, Prod.mk.injEq, Out.invalid.injEq] at h
            obtain ⟨rfl, _⟩ := h
            exact .node _ ret (fun c' hc' => by
              simp only [Inv.children, List.mem_cons, List.not_mem_nil, or_false] at hc'
              subst hc'
              exact ih inner v c' t0 hv)
      | nothing => simp [maybeStep] at h
      | _ =>
        simp only [maybeStep, Option.some.injEq, Prod.mk.injEq, Out.invalid.injEq] at h
        apply leaf; rw [← h.1]; rfl
    | «lazy» vid ref =>
      simp only [run] at h
      exact ih (env ref) x e t h
    | knr vid inner =>
      simp only [run, knrStep] at h
      cases hv : run o env m n inner x with
      | none => simp [hv] at h
      | some q =>
        obtain ⟨out, t0⟩ := q
        cases out with
        | valid w => simp [hv] at h
        | raised ex => simp [hv] at h
        | invalid e0 =>
          simp only [hv, Option.some.injEq, Prod.mk.injEq, Out.invalid.injEq] at h
          obtain ⟨rfl, _⟩ := h
          exact ih inner x e0 t0 hv
    | user vid inner =>
      simp only [run, userStep] at h
      cases hv : run o env m n inner x with
      | none => simp [hv] at h
      | some q =>
        obtain ⟨out, t0⟩ := q
        simp only [hv, Option.some.injEq, Prod.mk.injEq] at h
        obtain ⟨rfl, _⟩ := h
        exact ih inner x e t0 hv

/-- … hence `C14_root` holds of every node: it names the validator responsible for the run that
    returned it, and a type / coercion / union / container error holds that run's input itself -/
theorem C14_node_of_sourced {o : Oracle} {env : Nat → V} {m : Mode} {e : Inv} (h : Returned o env m e) :
    ∃ v x, Names env v e.vid ∧ (e.kind.early = true → e.value = x) := by
  obtain ⟨n, v, x, t, hr⟩ := h
  exact ⟨v, x, C14_root o env m n v x e t hr⟩

end Koda
