/-
  C14 — Every error node names the validator that rejected and the value it examined.

  `C14_root`: for every tree, input, mode and fuel, the root of a returned error tree names the
  responsible validator (transparent wrappers name the validator they wrap) and — for type, coercion,
  union and container errors — holds the caller's own object (equality of `PyVal` includes the object
  identities `oid`).  The children of an error node are the children's *own* `Invalid`s on the
  elements / fields they were given (C03 `ItemsRun.sound`, C04 `RecRun`, C05 `AllReject`), so the
  statement propagates to every node of the tree by the same theorem applied to the child.
-/
import KodaModel.Lemmas.Mono

namespace Koda

/-- error kinds produced before any coercion or preprocessing has been applied -/
def ErrK.early : ErrK → Bool
  | .type _ => true
  | .coercion _ _ => true
  | .union => true
  | .container => true
  | _ => false

/-- `Names env v i`: `i` is the identity of the validator responsible for `v`'s own failures —
    `v` itself, or, for a transparent wrapper, the validator it stands for -/
inductive Names (env : Nat → V) : V → Nat → Prop
  | user {vid inner i} : Names env inner i → Names env (.user vid inner) i
  | lazy {vid ref i} : Names env (env ref) i → Names env (.lazy vid ref) i
  | knr {vid inner i} : Names env inner i → Names env (.knr vid inner) i
  | self (v : V) : (∀ a b, v ≠ .user a b) → (∀ a b, v ≠ .lazy a b) → (∀ a b, v ≠ .knr a b) → Names env v v.vid

/-- what `C14_root` says of one evaluator -/
def Prov (env : Nat → V) (v : V) (ev : Ev1) : Prop :=
  ∀ x e t, ev x = some (.invalid e, t) → Names env v e.vid ∧ (e.kind.early = true → e.value = x)

theorem gate_rej_early {o tg d c x k t} (h : gate o tg d c x = .rej k t) : k.early = true := by
  unfold gate at h
  split at h
  · unfold applyCoerce at h
    split at h
    · split at h <;> simp at h; rw [← h.1]; rfl
    · split at h
      · split at h
        · split at h <;> simp at h
        · simp at h; rw [← h.1]; rfl
      · simp at h; rw [← h.1]; rfl
    · split at h <;> simp at h; rw [← h.1]; rfl
  · split at h <;> simp at h; rw [← h.1]; rfl

theorem scalarStep_prov {o m vid tg c pre ps aps x e t}
    (h : scalarStep o m vid tg c pre ps aps x = (.invalid e, t)) :
    e.vid = vid ∧ (e.kind.early = true → e.value = x) := by
  unfold scalarStep at h
  split at h
  · simp at h
  · split at h
    · simp at h
    · rename_i k t0 hg
      simp only [Prod.mk.injEq, Out.invalid.injEq] at h
      rw [← h.1]; exact ⟨rfl, fun _ => rfl⟩
    · split at h
      · simp at h
      · unfold finishPreds at h
        split at h
        · simp at h
        · split at h
          · simp at h
          · simp only [Prod.mk.injEq, Out.invalid.injEq] at h
            rw [← h.1]; exact ⟨rfl, fun hh => by simp [Inv.kind, ErrK.early] at hh⟩

theorem equalsStep_prov {vid mt pre pid x e t} (h : equalsStep vid mt pre pid x = (.invalid e, t)) :
    e.vid = vid ∧ (e.kind.early = true → e.value = x) := by
  unfold equalsStep at h
  split at h
  · split at h
    · simp at h
    · split at h
      · simp at h
      · simp at h
      · simp only [Prod.mk.injEq, Out.invalid.injEq] at h
        rw [← h.1]; exact ⟨rfl, fun hh => by simp [Inv.kind, ErrK.early] at hh⟩
  · simp only [Prod.mk.injEq, Out.invalid.injEq] at h
    rw [← h.1]; exact ⟨rfl, fun _ => rfl⟩

theorem noneStep_prov {o vid c x e t} (h : noneStep o vid c x = (.invalid e, t)) :
    e.vid = vid ∧ (e.kind.early = true → e.value = x) := by
  unfold noneStep at h
  split at h
  · split at h
    · simp at h
    · simp only [Prod.mk.injEq, Out.invalid.injEq] at h
      rw [← h.1]; exact ⟨rfl, fun _ => rfl⟩
    · simp at h
  · split at h
    · simp at h
    · simp only [Prod.mk.injEq, Out.invalid.injEq] at h
      rw [← h.1]; exact ⟨rfl, fun _ => rfl⟩

theorem seqStep_prov {k o m vid ps aps c ev x e t} (h : seqStep k o m vid ps aps c ev x = some (.invalid e, t)) :
    e.vid = vid ∧ (e.kind.early = true → e.value = x) := by
  unfold seqStep at h
  split at h
  · rename_i r hp
    simp only [Option.some.injEq] at h
    subst h
    simp only [seqPre] at hp
    split at hp
    · simp at hp
    · split at hp
      · simp at hp
      · simp only [Sum.inl.injEq, Prod.mk.injEq, Out.invalid.injEq] at hp
        rw [← hp.1]; exact ⟨rfl, fun _ => rfl⟩
      · split at hp
        · simp at hp
        · split at hp
          · simp only [Sum.inl.injEq, Prod.mk.injEq, Out.invalid.injEq] at hp
            rw [← hp.1]; exact ⟨rfl, fun hh => by simp [Inv.kind, ErrK.early] at hh⟩
          · split at hp <;> simp at hp
  · split at h
    · simp at h
    · rename_i r hl
      simp only [Option.some.injEq, Prod.mk.injEq] at h
      obtain ⟨h1, _⟩ := h
      unfold finishSeq at h1
      split at h1
      · simp at h1
      · split at h1
        · simp at h1
        · split at h1 <;>
          · simp only [Out.invalid.injEq] at h1
            rw [← h1]; exact ⟨rfl, fun hh => by simp [Inv.kind, ErrK.early] at hh⟩

theorem runObjCheck_prov {oc vid obj e} (h : (runObjCheck oc vid obj).1 = .invalid e) :
    e.vid = vid ∧ e.kind.early = false := by
  unfold runObjCheck at h
  split at h
  · simp at h
  · split at h
    · simp at h
    · simp only [Out.invalid.injEq] at h
      rw [← h]; exact ⟨rfl, rfl⟩

theorem ntupleStep_prov {o vid oc c lp evs x e t} (h : ntupleStep o vid oc c lp evs x = some (.invalid e, t)) :
    e.vid = vid ∧ (e.kind.early = true → e.value = x) := by
  unfold ntupleStep at h
  split at h
  · rename_i r hp
    simp only [Option.some.injEq] at h
    subst h
    simp only [ntuplePre] at hp
    split at hp
    · simp at hp
    · simp only [Sum.inl.injEq, Prod.mk.injEq, Out.invalid.injEq] at hp
      rw [← hp.1]; exact ⟨rfl, fun _ => rfl⟩
    · split at hp
      · simp at hp
      · split at hp
        · simp only [Sum.inl.injEq, Prod.mk.injEq, Out.invalid.injEq] at hp
          rw [← hp.1]; exact ⟨rfl, fun hh => by simp [Inv.kind, ErrK.early] at hh⟩
        · split at hp <;> simp at hp
  · split at h
    · simp at h
    · simp only [Option.some.injEq] at h
      unfold ntupleFinish at h
      split at h
      · simp at h
      · split at h
        · simp only [Prod.mk.injEq, Out.invalid.injEq] at h
          rw [← h.1]; exact ⟨rfl, fun hh => by simp [Inv.kind, ErrK.early] at hh⟩
        · simp only [Prod.mk.injEq] at h
          obtain ⟨a, b⟩ := runObjCheck_prov h.1
          exact ⟨a, fun hh => by rw [b] at hh; exact absurd hh (by simp)⟩

theorem mapStep_prov {o m vid ps aps c evk evv x e t}
    (h : mapStep o m vid ps aps c evk evv x = some (.invalid e, t)) :
    e.vid = vid ∧ (e.kind.early = true → e.value = x) := by
  unfold mapStep at h
  split at h
  · rename_i r hp
    simp only [Option.some.injEq] at h
    subst h
    simp only [mapPre] at hp
    split at hp
    · simp at hp
    · split at hp
      · simp at hp
      · simp only [Sum.inl.injEq, Prod.mk.injEq, Out.invalid.injEq] at hp
        rw [← hp.1]; exact ⟨rfl, fun _ => rfl⟩
      · split at hp
        · simp at hp
        · split at hp
          · simp only [Sum.inl.injEq, Prod.mk.injEq, Out.invalid.injEq] at hp
            rw [← hp.1]; exact ⟨rfl, fun hh => by simp [Inv.kind, ErrK.early] at hh⟩
          · split at hp <;> simp at hp
  · split at h
    · simp at h
    · simp only [Option.some.injEq] at h
      unfold mapFinish at h
      split at h
      · simp at h
      · split at h
        · simp at h
        · simp only [Prod.mk.injEq, Out.invalid.injEq] at h
          rw [← h.1]; exact ⟨rfl, fun hh => by simp [Inv.kind, ErrK.early] at hh⟩

theorem recGate_rej_early {o cfg x k t} (h : recGate o cfg x = .rej k t) : k.early = true := by
  unfold recGate at h
  split at h
  · split at h <;> simp at h; rw [← h.1]; rfl
  · split at h <;> simp at h; rw [← h.1]; rfl
  · split at h
    · unfold applyCoerce at h
      split at h
      · split at h <;> simp at h; rw [← h.1]; rfl
      · split at h
        · split at h
          · split at h <;> simp at h
          · simp at h; rw [← h.1]; rfl
        · simp at h; rw [← h.1]; rfl
      · split at h <;> simp at h; rw [← h.1]; rfl
    · split at h <;> simp at h; rw [← h.1]; rfl
  · split at h
    · unfold applyCoerce at h
      split at h
      · split at h <;> simp at h; rw [← h.1]; rfl
      · split at h
        · split at h
          · split at h <;> simp at h
          · simp at h; rw [← h.1]; rfl
        · simp at h; rw [← h.1]; rfl
      · split at h <;> simp at h; rw [← h.1]; rfl
    · split at h
      · simp at h
      · split at h
        · split at h
          · split at h <;> simp at h
          · simp at h; rw [← h.1]; rfl
        · simp at h; rw [← h.1]; rfl

theorem recordStep_prov {o m vid cfg evs x e t} (h : recordStep o m vid cfg evs x = some (.invalid e, t)) :
    e.vid = vid ∧ (e.kind.early = true → e.value = x) := by
  unfold recordStep at h
  split at h
  · rename_i r hp
    simp only [Option.some.injEq] at h
    subst h
    simp only [recPre] at hp
    split at hp
    · simp at hp
    · split at hp
      · simp at hp
      · simp only [Sum.inl.injEq, Prod.mk.injEq, Out.invalid.injEq] at hp
        rw [← hp.1]; exact ⟨rfl, fun _ => rfl⟩
      · split at hp
        · simp at hp
        · split at hp
          · simp only [Sum.inl.injEq, Prod.mk.injEq, Out.invalid.injEq] at hp
            rw [← hp.1]; exact ⟨rfl, fun hh => by simp [Inv.kind, ErrK.early] at hh⟩
          · simp at hp
  · split at h
    · simp at h
    · simp only [Option.some.injEq] at h
      unfold recFinish at h
      split at h
      · simp at h
      · split at h
        · simp only [Prod.mk.injEq, Out.invalid.injEq] at h
          rw [← h.1]; exact ⟨rfl, fun hh => by simp [Inv.kind, ErrK.early] at hh⟩
        · simp only at h
          split at h
          · simp only [Prod.mk.injEq] at h
            unfold runAObjCheck at h
            split at h
            · split at h
              · simp at h
              · simp only [Out.invalid.injEq] at h
                rw [← h.1]; exact ⟨rfl, fun hh => by simp [Inv.kind, ErrK.early] at hh⟩
            · simp at h
          · simp only [Prod.mk.injEq] at h
            obtain ⟨a, b⟩ := runObjCheck_prov h.1
            exact ⟨a, fun hh => by rw [b] at hh; exact absurd hh (by simp)⟩

theorem unionStep_prov {vid evs x e t} (h : unionStep vid evs x = some (.invalid e, t)) :
    e.vid = vid ∧ (e.kind.early = true → e.value = x) := by
  unfold unionStep at h
  split at h
  · simp at h
  · simp at h
  · simp at h
  · simp only [Option.some.injEq, Prod.mk.injEq, Out.invalid.injEq] at h
    rw [← h.1]; exact ⟨rfl, fun _ => rfl⟩

theorem maybeStep_prov {vid ev x e t} (h : maybeStep vid ev x = some (.invalid e, t)) :
    e.vid = vid ∧ (e.kind.early = true → e.value = x) := by
  cases x with
  | just oid v =>
    simp only [maybeStep] at h
    cases hx : ev v with
    | none => simp [hx] at h
    | some p =>
      obtain ⟨o, t0⟩ := p
      cases o with
      | valid w => simp [hx] at h
      | raised e' => simp [hx] at h
      | invalid e' =>
        simp only [hx, Option.some.injEq, Prod.mk.injEq, Out.invalid.injEq] at h
        rw [← h.1]; exact ⟨rfl, fun _ => rfl⟩
  | nothing => simp [maybeStep] at h
  | _ =>
    simp only [maybeStep, Option.some.injEq, Prod.mk.injEq, Out.invalid.injEq] at h
    rw [← h.1]; exact ⟨rfl, fun _ => rfl⟩

/-- **C14 at the root of every error tree**, for every validator tree, input, mode and fuel -/
theorem C14_root (o : Oracle) (env : Nat → V) (m : Mode) :
    ∀ n v, Prov env v (run o env m n v) := by
  intro n
  induction n with
  | zero => intro v x e t h; simp [run] at h
  | succ n ih =>
    intro v x e t h
    have self : ∀ (w : V), (∀ a b, w ≠ .user a b) → (∀ a b, w ≠ .lazy a b) → (∀ a b, w ≠ .knr a b) →
        e.vid = w.vid → Names env w e.vid := fun w h1 h2 h3 he => he ▸ Names.self w h1 h2 h3
    cases v with
    | scalar vid tg c pre ps aps =>
      simp only [run, Option.some.injEq] at h
      obtain ⟨a, b⟩ := scalarStep_prov h
      exact ⟨self _ (by simp) (by simp) (by simp) a, b⟩
    | equals vid mt pre pid =>
      simp only [run, Option.some.injEq] at h
      obtain ⟨a, b⟩ := equalsStep_prov h
      exact ⟨self _ (by simp) (by simp) (by simp) a, b⟩
    | noneV vid c =>
      simp only [run, Option.some.injEq] at h
      obtain ⟨a, b⟩ := noneStep_prov h
      exact ⟨self _ (by simp) (by simp) (by simp) a, b⟩
    | always vid => simp [run] at h
    | isDict vid =>
      simp only [run, Option.some.injEq, isDictStep] at h
      split at h
      · simp at h
      · simp only [Prod.mk.injEq, Out.invalid.injEq] at h
        obtain ⟨rfl, rfl⟩ := h
        exact ⟨Names.self (.isDict vid) (by simp) (by simp) (by simp), fun _ => rfl⟩
    | list vid item ps aps c =>
      simp only [run] at h
      obtain ⟨a, b⟩ := seqStep_prov h
      exact ⟨self _ (by simp) (by simp) (by simp) a, b⟩
    | set vid item ps aps c =>
      simp only [run] at h
      obtain ⟨a, b⟩ := seqStep_prov h
      exact ⟨self _ (by simp) (by simp) (by simp) a, b⟩
    | utuple vid item ps aps c =>
      simp only [run] at h
      obtain ⟨a, b⟩ := seqStep_prov h
      exact ⟨self _ (by simp) (by simp) (by simp) a, b⟩
    | ntuple vid fs oc c lp =>
      simp only [run] at h
      obtain ⟨a, b⟩ := ntupleStep_prov h
      exact ⟨self _ (by simp) (by simp) (by simp) a, b⟩
    | map vid kv vv ps aps c =>
      simp only [run] at h
      obtain ⟨a, b⟩ := mapStep_prov h
      exact ⟨self _ (by simp) (by simp) (by simp) a, b⟩
    | record vid cfg vs =>
      simp only [run] at h
      obtain ⟨a, b⟩ := recordStep_prov h
      exact ⟨self _ (by simp) (by simp) (by simp) a, b⟩
    | union vid vs =>
      simp only [run] at h
      obtain ⟨a, b⟩ := unionStep_prov h
      exact ⟨self _ (by simp) (by simp) (by simp) a, b⟩
    | optional vid nv inner =>
      simp only [run] at h
      obtain ⟨a, b⟩ := unionStep_prov h
      exact ⟨self _ (by simp) (by simp) (by simp) a, b⟩
    | maybe vid inner =>
      simp only [run] at h
      obtain ⟨a, b⟩ := maybeStep_prov h
      exact ⟨self _ (by simp) (by simp) (by simp) a, b⟩
    | «lazy» vid ref =>
      simp only [run] at h
      obtain ⟨a, b⟩ := ih _ x e t h
      exact ⟨.lazy a, b⟩
    | knr vid inner =>
      simp only [run, knrStep] at h
      cases hx : run o env m n inner x with
      | none => simp [hx] at h
      | some p =>
        obtain ⟨oo, t0⟩ := p
        cases oo with
        | valid w => simp [hx] at h
        | raised e' => simp [hx] at h
        | invalid e' =>
          simp only [hx, Option.some.injEq, Prod.mk.injEq, Out.invalid.injEq] at h
          obtain ⟨a, b⟩ := ih inner x e' t0 hx
          rw [← h.1]; exact ⟨.knr a, b⟩
    | user vid inner =>
      simp only [run, userStep] at h
      cases hx : run o env m n inner x with
      | none => simp [hx] at h
      | some p =>
        obtain ⟨oo, t0⟩ := p
        simp only [hx, Option.some.injEq, Prod.mk.injEq] at h
        obtain ⟨a, b⟩ := ih inner x e t0 (by rw [hx, h.1])
        exact ⟨.user a, b⟩

/-- later stages hold the coerced / constructed value: e.g. a list's element errors hold the
    coerced container the gate produced (not the raw input) -/
theorem C14_list_later_stage (o : Oracle) (m : Mode) (vid : Nat) (ps aps : List Pred) (c : Option CoerceK)
    (ev : Ev1) (x y : PyVal) (xs : List PyVal) (t0 : List Ev)
    (hp : seqPre .list o m vid ps aps c x = .inr (y, xs, t0)) (e : Inv) (t : List Ev)
    (h : seqStep .list o m vid ps aps c ev x = some (.invalid e, t)) : e.value = y := by
  simp only [seqStep, hp] at h
  split at h
  · simp at h
  · simp only [Option.some.injEq, Prod.mk.injEq] at h
    obtain ⟨h1, _⟩ := h
    unfold finishSeq at h1
    split at h1
    · simp at h1
    · split at h1
      · simp at h1
      · simp only [Out.invalid.injEq] at h1
        rw [← h1]; rfl

/-- non-vacuity: a user wrapper around a list validator — the error names the *list* validator (2),
    not the wrapper (1), and holds the caller's own object (oid 77) -/
example :
    (run default (fun _ => .always 0) .sync 4 (.user 1 (.list 2 (.always 0) [] [] none)) (.tuple 77 [])).map
      (fun r => match r.1 with | .invalid e => (e.vid, e.value) | _ => (0, .none)) = some (2, .tuple 77 []) := by rfl

end Koda
