/-
  C03 — the n-tuple validator *as written in /repo's current source*.

  `Generated/NTupleSrc.lean` is rewritten on every run from the AST of `NTupleValidator._validate_to_tuple` and
  `_validate_to_tuple_async` (koda_validate/tuple.py).  Interpreting the translated methods
  (`KodaModel/PyNTuple.lean`) is the model's `ntupleStep`: for every configuration (coercer or not, whole-object check or
  not), every tuple of slot validators and every input — gate, the arity check on the coerced value (before any slot is
  looked at), every slot validated by its own validator, every failing index with the child's own `Invalid`, the
  whole-object check on the tuple of payloads only when every slot passed, trace and exceptions.
-/
import KodaModel.Generated.NTupleSrc
import KodaModel.Properties.C03
import KodaModel.Properties.C01

set_option linter.unusedSimpArgs false

namespace Koda

/-! ### the pieces of the two methods -/

def nGate : NStmt :=
  .ite (.selfAttr .coerce)
    [.ite (.not (.attr (.walrus .coerced (.call1 (.selfAttr .coerce) .val)) .isJust))
       [.ret (.pair (.bool false) (.mkInvalid (.mkCoercionErr (.attr (.selfAttr .coerce) .compatibleTypes) .listTy) .val .self))]
       [.assign .coercedVal (.attr (.var .coerced) .valA)]]
    [.ite (.typeIs .val .tupleTy) [.assign .coercedVal .val]
       [.ret (.pair (.bool false) (.mkInvalid (.mkTypeErr .tupleTy) .val .self))]]

def nArity : NStmt :=
  .ite (.not (.call1 (.selfAttr .lenPredicate) (.var .coercedVal)))
    [.ret (.pair (.bool false) (.mkInvalid (.mkPredErrs (.list1 (.selfAttr .lenPredicate))) (.var .coercedVal) .self))] []

def nLoopBody (aw : Bool) : List NStmt :=
  [.assign2 .succeeded .newVal
     (if aw then .await (.call1 (.var .validator) (.var .tupleVal)) else .call1 (.var .validator) (.var .tupleVal)),
   .ite (.var .succeeded) [.append .vals (.var .newVal)] [.setItem .errs (.var .i) (.var .newVal)]]

def nLoop (wrapped : NSelf) (aw : Bool) : NStmt :=
  .forIn3 .i .validator .tupleVal (.enumerate (.zip (.selfAttr wrapped) (.var .coercedVal))) (nLoopBody aw)

def nFinal : NStmt :=
  .ite (.var .errs)
    [.ret (.pair (.bool false) (.mkInvalid (.mkIndexErrs (.var .errs)) (.var .coercedVal) .self))]
    [.assign .obj (.tupleOf (.var .vals)),
     .ite (.isNone (.selfAttr .validateObject))
       [.ret (.pair (.bool true) (.var .obj))]
       [.assign .objResult (.call1 (.selfAttr .validateObject) (.var .obj)),
        .ite (.isNone (.var .objResult))
          [.ret (.pair (.bool true) (.var .obj))]
          [.ret (.pair (.bool false) (.mkInvalid (.var .objResult) (.var .obj) .self))]]]

def nTail (wrapped : NSelf) (aw : Bool) : List NStmt :=
  [.assign .errs .emptyDict, .assign .vals .emptyList, nLoop wrapped aw, nFinal]

theorem ntupleSync_eq : Src.ntupleSync = nGate :: nArity :: nTail .wrappedSync false := rfl
theorem ntupleAsync_eq : Src.ntupleAsync = nGate :: nArity :: nTail .wrappedAsync true := rfl

def outN : Except (NErr × List Ev) NFlow → Option (Out × List Ev)
  | .error (.exn e, t) => some (.raised e, t)
  | .error (_, _) => none
  | .ok (.returned (.pair (.bool true) (.tupled ws)) st) => some (.valid (.tuple 0 ws), st.tr)
  | .ok (.returned (.pair (.bool false) (.invalid e)) st) => some (.invalid e, st.tr)
  | .ok _ => none

theorem runNTupleMethod_eq (o : Oracle) (cfg : NTupCfg) (body : List NStmt) (x : PyVal) :
    runNTupleMethod o cfg body x = outN (NStmt.execL o cfg x { env := {}, tr := [] } body) := by
  simp only [runNTupleMethod, outN]
  rfl

/-! ### unfolding helpers -/

theorem nflow_id (r : Except (NErr × List Ev) NFlow) :
    (match r with
     | .error err => .error err
     | .ok (.next st) => .ok (.next st)
     | .ok (.returned d st) => .ok (.returned d st)) = r := by
  cases r with
  | error e => rfl
  | ok f => cases f <;> rfl

theorem nexecL_nil (o : Oracle) (cfg : NTupCfg) (x : PyVal) (st : NSt) : NStmt.execL o cfg x st [] = .ok (.next st) := by
  simp only [NStmt.execL]

theorem nexecL_cons (o : Oracle) (cfg : NTupCfg) (x : PyVal) (st : NSt) (s : NStmt) (rest : List NStmt) :
    NStmt.execL o cfg x st (s :: rest) =
      (match s.exec o cfg x st with
       | .error err => .error err
       | .ok (.next st) => NStmt.execL o cfg x st rest
       | .ok (.returned d st) => .ok (.returned d st)) := by
  simp only [NStmt.execL]
  rfl

theorem nexecL_single (o : Oracle) (cfg : NTupCfg) (x : PyVal) (st : NSt) (s : NStmt) :
    NStmt.execL o cfg x st [s] = NStmt.exec o cfg x st s := by
  rw [nexecL_cons]
  simp only [nexecL_nil]
  exact nflow_id _

theorem nexec_ite (o : Oracle) (cfg : NTupCfg) (x : PyVal) (st : NSt) (c : NExp) (t e : List NStmt) :
    NStmt.exec o cfg x st (.ite c t e) =
      (match c.eval o cfg x st with
       | .error err => .error err
       | .ok (d, st) =>
         match ntruthy d with
         | none => .error (.stuck "truth value", st.tr)
         | some true => NStmt.execL o cfg x st t
         | some false => NStmt.execL o cfg x st e) := by
  simp only [NStmt.exec]
  rfl

theorem nexec_assign (o : Oracle) (cfg : NTupCfg) (x : PyVal) (st : NSt) (v : NVar) (e : NExp) :
    NStmt.exec o cfg x st (.assign v e) =
      (match e.eval o cfg x st with
       | .error err => .error err
       | .ok (d, st) => .ok (.next { st with env := st.env.set v d })) := by
  simp only [NStmt.exec]
  rfl

theorem tupCoerce_rej_kind (o : Oracle) (c : CoerceK) (x : PyVal) (k : ErrK) (t : List Ev)
    (h : applyCoerce o Ty.tuple Ty.list default c x = .rej k t) : k = .coercion (tupCompat c) Ty.list := by
  cases c with
  | dflt =>
    simp only [applyCoerce] at h
    split at h
    · simp at h
    · simp only [Gate.rej.injEq] at h; rw [← h.1]; rfl
  | classOnly =>
    simp only [applyCoerce] at h
    split at h
    · split at h
      · split at h <;> simp at h
      · simp only [Gate.rej.injEq] at h; rw [← h.1]; rfl
    · simp only [Gate.rej.injEq] at h; rw [← h.1]; rfl
  | user cid compat f =>
    simp only [applyCoerce] at h
    split at h
    · simp at h
    · simp only [Gate.rej.injEq] at h; rw [← h.1]; rfl

theorem nGate_exec (o : Oracle) (cfg : NTupCfg) (x : PyVal) (st : NSt) (rest : List NStmt) :
    (∀ k t, gate o Ty.tuple Ty.list cfg.coerce x = .rej k t →
      outN (NStmt.execL o cfg x st (nGate :: rest)) = some (.invalid (.mk k x cfg.vid []), st.tr ++ t)) ∧
    (∀ y t, gate o Ty.tuple Ty.list cfg.coerce x = .acc y t →
      ∃ st', NStmt.execL o cfg x st (nGate :: rest) = NStmt.execL o cfg x st' rest ∧
        st'.env.coercedVal = .py y ∧ st'.tr = st.tr ++ t) := by
  rw [nexecL_cons, nGate, nexec_ite]
  have hattr : ∀ st1 : NSt, (NExp.selfAttr .coerce).eval o cfg x st1 =
      .ok ((match cfg.coerce with | some c => NV.coercer c | none => NV.none), st1) := by
    intro st1; cases h : cfg.coerce <;> simp [NExp.eval, nselfAttr, h]
  rw [hattr]
  cases hc : cfg.coerce with
  | none =>
    simp only [ntruthy, gate]
    rw [nexecL_single, nexec_ite]
    have hcond : (NExp.typeIs .val .tupleTy).eval o cfg x st = .ok (.bool (x.ty == Ty.tuple), st) := by
      simp [NExp.eval]
    rw [hcond]
    by_cases hty : x.ty = Ty.tuple
    · have hb : (x.ty == Ty.tuple) = true := by simpa using hty
      simp only [hb, ntruthy, if_pos hty]
      refine ⟨?_, ?_⟩
      · intro k t h; simp at h
      · intro y t h
        simp only [Gate.acc.injEq] at h
        obtain ⟨rfl, rfl⟩ := h
        refine ⟨{ st with env := st.env.set .coercedVal (.py x) }, ?_, rfl, by simp⟩
        rw [nexecL_single, nexec_assign]
        simp [NExp.eval]
    · have hb : (x.ty == Ty.tuple) = false := by simpa using hty
      simp only [hb, ntruthy, if_neg hty]
      refine ⟨?_, ?_⟩
      · intro k t h
        simp only [Gate.rej.injEq] at h
        obtain ⟨rfl, rfl⟩ := h
        simp [nexecL_single, NStmt.exec, NExp.eval, outN]
      · intro y t h; simp at h
  | some c =>
    simp only [ntruthy, gate]
    rw [nexecL_single, nexec_ite]
    have hcond : (NExp.not (.attr (.walrus .coerced (.call1 (.selfAttr .coerce) .val)) .isJust)).eval o cfg x st =
        .ok (.bool (!(callTupCoercer o c x).1.isSome),
          { env := st.env.set .coerced (.maybe (callTupCoercer o c x).1), tr := st.tr ++ (callTupCoercer o c x).2 }) := by
      simp [NExp.eval, nselfAttr, hc, ntruthy]
    rw [hcond]
    cases hg : applyCoerce o Ty.tuple Ty.list default c x with
    | exn e t =>
      exfalso
      cases c with
      | dflt => simp only [applyCoerce] at hg; split at hg <;> simp at hg
      | classOnly =>
        simp only [applyCoerce] at hg
        split at hg
        · split at hg
          · split at hg <;> simp at hg
          · simp at hg
        · simp at hg
      | user cid compat f => simp only [applyCoerce] at hg; split at hg <;> simp at hg
    | rej k t =>
      have hk := tupCoerce_rej_kind o c x k t hg
      have hcc : callTupCoercer o c x = (none, t) := by simp [callTupCoercer, hg]
      simp only [hcc, Option.isSome_none, Bool.not_false, ntruthy]
      refine ⟨?_, ?_⟩
      · intro k' t' h
        simp only [Gate.rej.injEq] at h
        obtain ⟨rfl, rfl⟩ := h
        simp [nexecL_single, NStmt.exec, NExp.eval, nselfAttr, hc, outN, hk]
      · intro y t' h; simp at h
    | acc y t =>
      have hcc : callTupCoercer o c x = (some y, t) := by simp [callTupCoercer, hg]
      simp only [hcc, Option.isSome_some, Bool.not_true, ntruthy]
      refine ⟨?_, ?_⟩
      · intro k' t' h; simp at h
      · intro y' t' h
        simp only [Gate.acc.injEq] at h
        obtain ⟨rfl, rfl⟩ := h
        refine ⟨{ env := (st.env.set .coerced (.maybe (some y))).set .coercedVal (.py y), tr := st.tr ++ t }, ?_, rfl, rfl⟩
        rw [nexecL_single, nexec_assign]
        simp [NExp.eval, NEnv.get, NEnv.set]

/-! ### the arity check -/

theorem nArity_exec (o : Oracle) (cfg : NTupCfg) (x : PyVal) (st : NSt) (y : PyVal) (hy : st.env.coercedVal = .py y)
    (rest : List NStmt) :
    (pyLen y = none → outN (NStmt.execL o cfg x st (nArity :: rest)) = some (.raised .typeError, st.tr)) ∧
    (∀ n, pyLen y = some n → n ≠ cfg.fields.length →
      outN (NStmt.execL o cfg x st (nArity :: rest)) = some (.invalid (.mk (.preds [cfg.lenPid]) y cfg.vid []), st.tr)) ∧
    (pyLen y = some cfg.fields.length → NStmt.execL o cfg x st (nArity :: rest) = NStmt.execL o cfg x st rest) := by
  rw [nexecL_cons, nArity, nexec_ite]
  refine ⟨?_, ?_, ?_⟩
  · intro h
    simp [NExp.eval, nselfAttr, NEnv.get, hy, h, outN]
  · intro n h hne
    have hb : (n == cfg.fields.length) = false := by simpa using hne
    simp [NExp.eval, nselfAttr, NEnv.get, hy, h, hb, ntruthy, nexecL_single, NStmt.exec, outN]
  · intro h
    simp [NExp.eval, nselfAttr, NEnv.get, hy, h, ntruthy, nexecL_nil]

/-! ### the loop over the slots -/

structure NInv (st : NSt) (rl : List PyVal) (ie : List (Nat × Inv)) (cv : NV) : Prop where
  rl : st.env.vals = .payloads rl
  ie : st.env.errs = .idxErrs ie
  cv : st.env.coercedVal = cv

/-- one round: call the slot's own wrapped validator, append the payload or file the error under the index -/
theorem nLoopBody_exec (o : Oracle) (cfg : NTupCfg) (x : PyVal) (aw : Bool)
    (st : NSt) (n : Nat) (ev : Ev1) (y : PyVal) (rl : List PyVal) (ie : List (Nat × Inv)) (cv : NV)
    (hi : st.env.i = .nat n) (hv : st.env.validator = .fieldV ev) (hy : st.env.tupleVal = .py y) (hinv : NInv st rl ie cv) :
    (ev y = none → ∃ t, NStmt.execL o cfg x st (nLoopBody aw) = .error (.diverge, t)) ∧
    (∀ e t, ev y = some (.raised e, t) → NStmt.execL o cfg x st (nLoopBody aw) = .error (.exn e, st.tr ++ t)) ∧
    (∀ w t, ev y = some (.valid w, t) →
      ∃ st1, NStmt.execL o cfg x st (nLoopBody aw) = .ok (.next st1) ∧ NInv st1 (rl ++ [w]) ie cv ∧ st1.tr = st.tr ++ t) ∧
    (∀ e t, ev y = some (.invalid e, t) →
      ∃ st1, NStmt.execL o cfg x st (nLoopBody aw) = .ok (.next st1) ∧ NInv st1 rl (ie ++ [(n, e)]) cv ∧ st1.tr = st.tr ++ t) := by
  obtain ⟨h1, h2, h3⟩ := hinv
  refine ⟨?_, ?_, ?_, ?_⟩
  · intro h
    refine ⟨st.tr, ?_⟩
    cases aw <;> simp [nLoopBody, NStmt.execL, NStmt.exec, NExp.eval, NEnv.get, hv, hy, h]
  · intro e t h
    cases aw <;> simp [nLoopBody, NStmt.execL, NStmt.exec, NExp.eval, NEnv.get, hv, hy, h]
  · intro w t h
    cases aw <;>
      simp [nLoopBody, NStmt.execL, NStmt.exec, NExp.eval, NEnv.get, NEnv.set, hv, hy, h, ntruthy, h1, h2, h3] <;>
      exact ⟨rfl, rfl, rfl⟩
  · intro e t h
    cases aw <;>
      simp [nLoopBody, NStmt.execL, NStmt.exec, NExp.eval, NEnv.get, NEnv.set, hv, hy, hi, h, ntruthy, h1, h2, h3] <;>
      exact ⟨rfl, rfl, rfl⟩

theorem nforFold3_fields (execBody : NSt → Except (NErr × List Ev) NFlow)
    (Hb : ∀ (st : NSt) (n : Nat) (ev : Ev1) (y : PyVal) (rl : List PyVal) (ie : List (Nat × Inv)) (cv : NV),
      st.env.i = .nat n → st.env.validator = .fieldV ev → st.env.tupleVal = .py y → NInv st rl ie cv →
      (ev y = none → ∃ t, execBody st = .error (.diverge, t)) ∧
      (∀ e t, ev y = some (.raised e, t) → execBody st = .error (.exn e, st.tr ++ t)) ∧
      (∀ w t, ev y = some (.valid w, t) →
        ∃ st1, execBody st = .ok (.next st1) ∧ NInv st1 (rl ++ [w]) ie cv ∧ st1.tr = st.tr ++ t) ∧
      (∀ e t, ev y = some (.invalid e, t) →
        ∃ st1, execBody st = .ok (.next st1) ∧ NInv st1 rl (ie ++ [(n, e)]) cv ∧ st1.tr = st.tr ++ t)) :
    ∀ (evs : List Ev1) (xs : List PyVal) (n : Nat) (st : NSt) (rl : List PyVal) (ie : List (Nat × Inv)) (cv : NV),
      NInv st rl ie cv →
      (loopFields evs xs n = none →
        ∃ t, nforFold3 execBody .i .validator .tupleVal (evs.zip xs) n st = .error (.diverge, t)) ∧
      (∀ r e, loopFields evs xs n = some r → r.r = some e →
        nforFold3 execBody .i .validator .tupleVal (evs.zip xs) n st = .error (.exn e, st.tr ++ r.t)) ∧
      (∀ r, loopFields evs xs n = some r → r.r = none →
        ∃ st1, nforFold3 execBody .i .validator .tupleVal (evs.zip xs) n st = .ok (.next st1) ∧ st1.tr = st.tr ++ r.t ∧
          NInv st1 (rl ++ r.ws) (ie ++ r.es) cv) := by
  intro evs
  induction evs with
  | nil =>
    intro xs n st rl ie cv hinv
    refine ⟨?_, ?_, ?_⟩
    · intro h; simp [loopFields] at h
    · intro r e h hr
      simp only [loopFields, Option.some.injEq] at h; subst h; simp at hr
    · intro r h _
      simp only [loopFields, Option.some.injEq] at h; subst h
      exact ⟨st, by simp [nforFold3], by simp, by simpa using hinv⟩
  | cons ev evs ih =>
    intro xs n st rl ie cv hinv
    cases xs with
    | nil =>
      refine ⟨?_, ?_, ?_⟩
      · intro h; simp [loopFields] at h
      · intro r e h hr
        simp only [loopFields, Option.some.injEq] at h; subst h; simp at hr
      · intro r h _
        simp only [loopFields, Option.some.injEq] at h; subst h
        exact ⟨st, by simp [nforFold3], by simp, by simpa using hinv⟩
    | cons y ys =>
      have hinv' : NInv { st with env := ((st.env.set .i (.nat n)).set .validator (.fieldV ev)).set .tupleVal (.py y) } rl ie cv :=
        ⟨by simpa [NEnv.set] using hinv.rl, by simpa [NEnv.set] using hinv.ie, by simpa [NEnv.set] using hinv.cv⟩
      obtain ⟨b1, b2, b3, b4⟩ := Hb { st with env := ((st.env.set .i (.nat n)).set .validator (.fieldV ev)).set .tupleVal (.py y) }
        n ev y rl ie cv (by simp [NEnv.set]) (by simp [NEnv.set]) (by simp [NEnv.set]) hinv'
      simp only [loopFields, List.zip_cons_cons, nforFold3]
      cases hc : ev y with
      | none =>
        obtain ⟨t0, h0⟩ := b1 hc
        refine ⟨?_, ?_, ?_⟩
        · intro _; exact ⟨t0, by rw [h0]⟩
        · intro r e h; simp at h
        · intro r h; simp at h
      | some p =>
        obtain ⟨out, t0⟩ := p
        cases out with
        | raised e0 =>
          have h0 := b2 e0 t0 hc
          refine ⟨?_, ?_, ?_⟩
          · intro h; simp at h
          · intro r e h hr
            simp only [Option.some.injEq] at h; subst h
            simp only [Option.some.injEq] at hr; subst hr
            rw [h0]
          · intro r h hr
            simp only [Option.some.injEq] at h; subst h; simp at hr
        | valid w0 =>
          obtain ⟨st1, h0, hi1, ht1⟩ := b3 w0 t0 hc
          obtain ⟨i1, i2, i3⟩ := ih ys (n + 1) st1 (rl ++ [w0]) ie cv hi1
          rw [h0]
          simp only
          cases hl : loopFields evs ys (n + 1) with
          | none =>
            refine ⟨?_, ?_, ?_⟩
            · intro _; exact i1 hl
            · intro r e h; simp at h
            · intro r h; simp at h
          | some r' =>
            refine ⟨?_, ?_, ?_⟩
            · intro h; simp at h
            · intro r e h hr
              simp only [Option.some.injEq] at h; subst h
              rw [i2 r' e hl hr, ht1]; simp [List.append_assoc]
            · intro r h hr
              simp only [Option.some.injEq] at h; subst h
              obtain ⟨st2, j1, j2, j3⟩ := i3 r' hl hr
              exact ⟨st2, j1, by rw [j2, ht1]; simp [List.append_assoc], by simpa [List.append_assoc] using j3⟩
        | invalid e0 =>
          obtain ⟨st1, h0, hi1, ht1⟩ := b4 e0 t0 hc
          obtain ⟨i1, i2, i3⟩ := ih ys (n + 1) st1 rl (ie ++ [(n, e0)]) cv hi1
          rw [h0]
          simp only
          cases hl : loopFields evs ys (n + 1) with
          | none =>
            refine ⟨?_, ?_, ?_⟩
            · intro _; exact i1 hl
            · intro r e h; simp at h
            · intro r h; simp at h
          | some r' =>
            refine ⟨?_, ?_, ?_⟩
            · intro h; simp at h
            · intro r e h hr
              simp only [Option.some.injEq] at h; subst h
              rw [i2 r' e hl hr, ht1]; simp [List.append_assoc]
            · intro r h hr
              simp only [Option.some.injEq] at h; subst h
              obtain ⟨st2, j1, j2, j3⟩ := i3 r' hl hr
              exact ⟨st2, j1, by rw [j2, ht1]; simp [List.append_assoc], by simpa [List.append_assoc] using j3⟩

/-! ### after the loop: index errors, or the whole-object check on the tuple of payloads -/

theorem nFinal_exec (o : Oracle) (cfg : NTupCfg) (x : PyVal) (st : NSt) (y : PyVal) (rl : List PyVal) (ie : List (Nat × Inv))
    (hinv : NInv st rl ie (.py y)) :
    outN (NStmt.execL o cfg x st [nFinal]) =
      some (if !ie.isEmpty then (.invalid (.mk (.index (ie.map Prod.fst)) y cfg.vid (ie.map Prod.snd)), st.tr)
            else ((runObjCheck cfg.oc cfg.vid (.tuple 0 rl)).1, st.tr ++ (runObjCheck cfg.oc cfg.vid (.tuple 0 rl)).2)) := by
  obtain ⟨h1, h2, h3⟩ := hinv
  rw [nexecL_single, nFinal, nexec_ite]
  have hv : (NExp.var .errs).eval o cfg x st = .ok (.idxErrs ie, st) := by simp [NExp.eval, NEnv.get, h2]
  rw [hv]
  cases ie with
  | cons a l =>
    simp only [ntruthy, List.isEmpty_cons, Bool.not_false, if_true]
    rw [nexecL_single]
    simp [NStmt.exec, NExp.eval, NEnv.get, h2, h3, outN]
  | nil =>
    simp only [ntruthy, List.isEmpty_nil, Bool.not_true, Bool.false_eq_true, if_false]
    cases hoc : cfg.oc with
    | none =>
      simp [NStmt.execL, NStmt.exec, NExp.eval, NEnv.get, NEnv.set, nselfAttr, hoc, h1, ntruthy, outN, runObjCheck]
    | some c =>
      cases hf : c.f (.tuple 0 rl) with
      | none =>
        simp [NStmt.execL, NStmt.exec, NExp.eval, NEnv.get, NEnv.set, nselfAttr, hoc, h1, ntruthy, outN, runObjCheck, hf]
      | some e =>
        simp [NStmt.execL, NStmt.exec, NExp.eval, NEnv.get, NEnv.set, nselfAttr, hoc, h1, ntruthy, outN, runObjCheck, hf]

/-- `errs = {}; vals = []; for i, (validator, tuple_val) in enumerate(zip(wrapped, coerced_val)): …; if errs: … else: …`,
    once the arity is right -/
theorem nTail_exec (o : Oracle) (cfg : NTupCfg) (x : PyVal) (wrapped : NSelf) (aw : Bool)
    (hw : wrapped = .wrappedSync ∨ wrapped = .wrappedAsync) (st : NSt) (y : PyVal) (hy : st.env.coercedVal = .py y) :
    outN (NStmt.execL o cfg x st (nTail wrapped aw)) =
      (match pyIter y with
       | none => some (.raised .typeError, st.tr)
       | some xs =>
         match loopFields cfg.fields xs 0 with
         | none => none
         | some r => some (ntupleFinish cfg.vid cfg.oc y st.tr r)) := by
  have hinit : NStmt.execL o cfg x st (nTail wrapped aw) =
      NStmt.execL o cfg x { st with env := (st.env.set .errs (.idxErrs [])).set .vals (.payloads []) }
        [nLoop wrapped aw, nFinal] := by
    simp [nTail, NStmt.execL, NStmt.exec, NExp.eval]
  rw [hinit]
  let st0 : NSt := { st with env := (st.env.set .errs (.idxErrs [])).set .vals (.payloads []) }
  have hinv0 : NInv st0 [] [] (.py y) := ⟨rfl, rfl, by simpa [st0, NEnv.set] using hy⟩
  rw [nexecL_cons]
  have hloop : NStmt.exec o cfg x st0 (nLoop wrapped aw) =
      (match pyIter y with
       | none => .error (.exn .typeError, st0.tr)
       | some xs => nforFold3 (fun st => NStmt.execL o cfg x st (nLoopBody aw)) .i .validator .tupleVal (cfg.fields.zip xs) 0 st0) := by
    have hcv : st0.env.get .coercedVal = .py y := hinv0.cv
    rcases hw with rfl | rfl <;> simp only [nLoop, NStmt.exec, NExp.eval, nselfAttr, hcv] <;> cases pyIter y <;> rfl
  show outN (match NStmt.exec o cfg x st0 (nLoop wrapped aw) with
    | .error err => .error err
    | .ok (.next st) => NStmt.execL o cfg x st [nFinal]
    | .ok (.returned d st) => .ok (.returned d st)) = _
  rw [hloop]
  cases hit : pyIter y with
  | none => rfl
  | some xs =>
    simp only
    obtain ⟨l1, l2, l3⟩ := nforFold3_fields (fun st => NStmt.execL o cfg x st (nLoopBody aw))
      (fun st n ev y' rl ie cv hi hv hy' hinv => nLoopBody_exec o cfg x aw st n ev y' rl ie cv hi hv hy' hinv)
      cfg.fields xs 0 st0 [] [] (.py y) hinv0
    cases hl : loopFields cfg.fields xs 0 with
    | none =>
      obtain ⟨t, ht⟩ := l1 hl
      rw [ht]; rfl
    | some r =>
      cases hr : r.r with
      | some e =>
        rw [l2 r e hl hr]
        simp [outN, ntupleFinish, hr, st0]
      | none =>
        obtain ⟨st1, h1, h2, h3⟩ := l3 r hl hr
        rw [h1]
        simp only [List.nil_append] at h3
        simp only
        rw [nFinal_exec o cfg x st1 y r.ws r.es h3, h2]
        simp only [ntupleFinish, hr, st0]
        try (cases r.es <;> simp [List.append_assoc])

/-! ### the two methods -/

theorem src_ntuple_generic (o : Oracle) (cfg : NTupCfg) (x : PyVal) (wrapped : NSelf) (aw : Bool)
    (hw : wrapped = .wrappedSync ∨ wrapped = .wrappedAsync) :
    outN (NStmt.execL o cfg x { env := {}, tr := [] } (nGate :: nArity :: nTail wrapped aw)) =
      ntupleStep o cfg.vid cfg.oc cfg.coerce cfg.lenPid cfg.fields x := by
  simp only [ntupleStep, ntuplePre]
  obtain ⟨g1, g2⟩ := nGate_exec o cfg x { env := {}, tr := [] } (nArity :: nTail wrapped aw)
  cases hg : gate o .tuple .list cfg.coerce x with
  | exn e t => exact absurd hg (gate_noexn o _ _ cfg.coerce x e t)
  | rej k t => rw [g1 k t hg]; simp
  | acc y t =>
    obtain ⟨st', h1, h2, h3⟩ := g2 y t hg
    rw [h1]
    obtain ⟨a1, a2, a3⟩ := nArity_exec o cfg x st' y h2 (nTail wrapped aw)
    cases hlen : pyLen y with
    | none => rw [a1 hlen, h3]; simp [hlen]
    | some n =>
      by_cases hn : n = cfg.fields.length
      · subst hn
        rw [a3 hlen, nTail_exec o cfg x wrapped aw hw st' y h2, h3]
        simp only [hlen, ne_eq, not_true_eq_false, if_false, List.nil_append]
        cases pyIter y with
        | none => rfl
        | some xs =>
          simp only
          cases loopFields cfg.fields xs 0 <;> rfl
      · rw [a2 n hlen hn, h3]
        simp [hlen, hn]

/-- **the synchronous n-tuple validator, as written in the source, is the model's `ntupleStep`** -/
theorem src_ntuple_sync (o : Oracle) (cfg : NTupCfg) (x : PyVal) :
    runNTupleMethod o cfg Src.ntupleSync x = ntupleStep o cfg.vid cfg.oc cfg.coerce cfg.lenPid cfg.fields x := by
  rw [runNTupleMethod_eq, ntupleSync_eq]
  exact src_ntuple_generic o cfg x .wrappedSync false (.inl rfl)

/-- **the asynchronous n-tuple validator, as written in the source, is the model's `ntupleStep`** -/
theorem src_ntuple_async (o : Oracle) (cfg : NTupCfg) (x : PyVal) :
    runNTupleMethod o cfg Src.ntupleAsync x = ntupleStep o cfg.vid cfg.oc cfg.coerce cfg.lenPid cfg.fields x := by
  rw [runNTupleMethod_eq, ntupleAsync_eq]
  exact src_ntuple_generic o cfg x .wrappedAsync true (.inr rfl)

/-- `_len_predicate = ExactItemCount(len(fields))`; every slot validator is wrapped once, by `_wrap_sync_validator` /
    `_wrap_async_validator` (whose text is pinned by `src_list_wraps`) -/
theorem src_ntuple_init : Src.ntupleInit =
    "self.fields = fields ; self.validate_object = validate_object ; self.coerce = coerce ; self._len_predicate: Predicate[Tuple[Any, ...]] = ExactItemCount(len(fields)) ; self._wrapped_fields_sync = [_wrap_sync_validator(v) for v in fields] ; self._wrapped_fields_async = [_wrap_async_validator(v) for v in fields]" := rfl

/-! ### non-vacuity: `NTupleValidator.typed(fields=(IntValidator(), StringValidator()))` on `[1, 2]` (default coercer) -/

example : runNTupleMethod default
      ⟨1, [fun y => some (scalarStep default .sync 2 .int none [] [] [] y),
           fun y => some (scalarStep default .sync 3 .str none [] [] [] y)], some .dflt, none, 9⟩ Src.ntupleSync
      (.list 7 [.int 1, .int 2]) =
    some (.invalid (.mk (.index [1]) (.tuple 0 [.int 1, .int 2]) 1 [.mk (.type .str) (.int 2) 3 []]), []) := by
  rw [src_ntuple_sync]; rfl

end Koda
