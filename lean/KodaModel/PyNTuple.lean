/-
  KodaModel.PyNTuple — the Python subset in which `NTupleValidator._validate_to_tuple` and
  `_validate_to_tuple_async` (koda_validate/tuple.py) are written, with a big-step interpreter.
  `harness/pysrc.py` translates the current source of both methods (`Generated/NTupleSrc.lean`);
  `Properties/C03NTuple.lean` proves that running them is the model's `ntupleStep`, for every configuration
  (coercer or not, whole-object check or not), every tuple of slot validators and every input: gate, arity (the
  validator's own `ExactItemCount` on the coerced value), every slot validated by its own validator, every failing
  index with the child's own `Invalid`, then the whole-object check on the tuple of payloads.

  A slot validator is its evaluator (`Ev1`) as wrapped by `_wrap_sync_validator` / `_wrap_async_validator` in
  `__init__` (pinned): calling it yields the pair `(succeeded, payload-or-Invalid)`.
-/
import KodaModel.Eval

namespace Koda

inductive NVar
  | coerced | coercedVal | errs | vals | i | validator | tupleVal | succeeded | newVal | obj | objResult
deriving DecidableEq, Repr, Inhabited

inductive NSelf
  | coerce | lenPredicate | validateObject | wrappedSync | wrappedAsync
  | other (name : String)
deriving DecidableEq, Repr, Inhabited

inductive NAttr | isJust | valA | compatibleTypes | other (name : String)
deriving DecidableEq, Repr, Inhabited

inductive NExp
  | var (v : NVar)
  | self
  | val                                      -- the parameter `val`
  | selfAttr (a : NSelf)
  | attr (e : NExp) (a : NAttr)
  | walrus (v : NVar) (e : NExp)
  | call1 (f : NExp) (a : NExp)
  | typeIs (e : NExp) (t : NExp)             -- `type(e) is t`
  | not (e : NExp)
  | isNone (e : NExp)                        -- `e is None`
  | listTy | tupleTy
  | mkCoercionErr (compat dest : NExp)
  | mkTypeErr (t : NExp)
  | mkPredErrs (e : NExp)
  | mkIndexErrs (e : NExp)
  | mkInvalid (errE valE slfE : NExp)
  | list1 (e : NExp)                         -- `[e]`
  | emptyList
  | emptyDict
  | enumerate (e : NExp)
  | zip (a b : NExp)
  | tupleOf (e : NExp)
  | pair (a b : NExp)
  | bool (b : Bool)
  | await (e : NExp)
  | unsupported (why : String)
deriving Repr, Inhabited

inductive NStmt
  | assign (v : NVar) (e : NExp)
  | assign2 (v w : NVar) (e : NExp)
  | ite (c : NExp) (t e : List NStmt)
  | forIn3 (vi vv vw : NVar) (iter : NExp) (body : List NStmt)   -- `for i, (v, w) in enumerate(zip(..)):`
  | ret (e : NExp)
  | setItem (d : NVar) (k v : NExp)
  | append (l : NVar) (e : NExp)
  | unsupported (why : String)
deriving Repr, Inhabited

structure NTupCfg where
  vid : Nat
  fields : List Ev1
  coerce : Option CoerceK
  oc : Option ObjCheck
  lenPid : Nat                              -- identity of `self._len_predicate`

inductive NV
  | py (v : PyVal)
  | bool (b : Bool)
  | none
  | self
  | tyName (t : Ty)
  | coercer (c : CoerceK)
  | maybe (m : Option PyVal)
  | tys (ts : List Ty)
  | errK (k : ErrK)
  | idxErrK (es : List (Nat × Inv))
  | invalid (e : Inv)
  | pair (a b : NV)
  | payloads (ws : List PyVal)             -- `vals`
  | tupled (ws : List PyVal)               -- `tuple(vals)`
  | idxErrs (es : List (Nat × Inv))        -- `errs`
  | nat (n : Nat)
  | fieldV (ev : Ev1)                      -- one wrapped slot validator
  | fieldVs (evs : List Ev1)
  | zipped (ps : List (Ev1 × PyVal))
  | enumZipped (ps : List (Ev1 × PyVal))
  | lenPred
  | lenPredList
  | objCheck (c : ObjCheck)
  | customErr (e : Nat)
deriving Inhabited

structure NEnv where
  coerced : NV := .none
  coercedVal : NV := .none
  errs : NV := .none
  vals : NV := .none
  i : NV := .none
  validator : NV := .none
  tupleVal : NV := .none
  succeeded : NV := .none
  newVal : NV := .none
  obj : NV := .none
  objResult : NV := .none

def NEnv.get (e : NEnv) : NVar → NV
  | .coerced => e.coerced | .coercedVal => e.coercedVal | .errs => e.errs | .vals => e.vals | .i => e.i
  | .validator => e.validator | .tupleVal => e.tupleVal | .succeeded => e.succeeded | .newVal => e.newVal
  | .obj => e.obj | .objResult => e.objResult

def NEnv.set (e : NEnv) (v : NVar) (d : NV) : NEnv :=
  match v with
  | .coerced => { e with coerced := d } | .coercedVal => { e with coercedVal := d } | .errs => { e with errs := d }
  | .vals => { e with vals := d } | .i => { e with i := d } | .validator => { e with validator := d }
  | .tupleVal => { e with tupleVal := d } | .succeeded => { e with succeeded := d } | .newVal => { e with newVal := d }
  | .obj => { e with obj := d } | .objResult => { e with objResult := d }

inductive NErr
  | exn (e : Exn)
  | diverge
  | stuck (why : String)
deriving Inhabited

structure NSt where
  env : NEnv
  tr : List Ev

abbrev NM (α : Type) := Except (NErr × List Ev) (α × NSt)

def ntruthy : NV → Option Bool
  | .bool b => some b
  | .none => some false
  | .coercer _ => some true
  | .idxErrs es => some (!es.isEmpty)
  | .payloads ws => some (!ws.isEmpty)
  | _ => Option.none

/-- calling the coercer (target `tuple`, destination type reported `list`) -/
def callTupCoercer (o : Oracle) (c : CoerceK) (x : PyVal) : Option PyVal × List Ev :=
  match applyCoerce o .tuple .list default c x with
  | .acc y t => (some y, t)
  | .rej _ t => (none, t)
  | .exn _ t => (none, t)

def tupCompat : CoerceK → List Ty
  | .dflt => defaultCompat .tuple
  | .classOnly => [.cls default]
  | .user _ compat _ => compat

def nselfAttr (cfg : NTupCfg) : NSelf → Option NV
  | .coerce => some (match cfg.coerce with | some c => .coercer c | none => .none)
  | .lenPredicate => some .lenPred
  | .validateObject => some (match cfg.oc with | some c => .objCheck c | none => .none)
  -- `[_wrap_sync_validator(v) for v in fields]` / `[_wrap_async_validator(v) for v in fields]` (pinned by `src_ntuple_init`)
  | .wrappedSync => some (.fieldVs cfg.fields)
  | .wrappedAsync => some (.fieldVs cfg.fields)
  | .other _ => Option.none

inductive NFlow
  | next (st : NSt)
  | returned (d : NV) (st : NSt)

/-- `for i, (v, w) in enumerate(zip(..)): <body>`, counting from `n` -/
def nforFold3 (execBody : NSt → Except (NErr × List Ev) NFlow) (vi vv vw : NVar) :
    List (Ev1 × PyVal) → Nat → NSt → Except (NErr × List Ev) NFlow
  | [], _, st => .ok (.next st)
  | (ev, x) :: rest, n, st =>
    match execBody { st with env := ((st.env.set vi (.nat n)).set vv (.fieldV ev)).set vw (.py x) } with
    | .ok (.next st') => nforFold3 execBody vi vv vw rest (n + 1) st'
    | other => other

def NExp.eval (o : Oracle) (cfg : NTupCfg) (x : PyVal) (st : NSt) : NExp → NM NV
  | .var v => .ok (st.env.get v, st)
  | .self => .ok (.self, st)
  | .val => .ok (.py x, st)
  | .selfAttr a => (match nselfAttr cfg a with | some r => .ok (r, st) | none => .error (.stuck "self attribute", st.tr))
  | .attr e a =>
    match e.eval o cfg x st with
    | .error err => .error err
    | .ok (d, st) =>
      match d, a with
      | .maybe m, .isJust => .ok (.bool m.isSome, st)
      | .maybe (some y), .valA => .ok (.py y, st)
      | .coercer c, .compatibleTypes => .ok (.tys (tupCompat c), st)
      | _, _ => .error (.stuck "attribute", st.tr)
  | .walrus v e =>
    match e.eval o cfg x st with
    | .error err => .error err
    | .ok (d, st) => .ok (d, { st with env := st.env.set v d })
  | .call1 f a =>
    match f.eval o cfg x st with
    | .error err => .error err
    | .ok (fd, st) =>
      match a.eval o cfg x st with
      | .error err => .error err
      | .ok (ad, st) =>
        match fd, ad with
        | .coercer c, .py y =>
          let r := callTupCoercer o c y
          .ok (.maybe r.1, { st with tr := st.tr ++ r.2 })
        -- `ExactItemCount(len(fields))(y)`: `len(y) == n`
        | .lenPred, .py y =>
          (match pyLen y with
           | some n => .ok (.bool (n == cfg.fields.length), st)
           | Option.none => .error (.exn .typeError, st.tr))
        | .fieldV ev, .py y =>
          (match ev y with
           | Option.none => .error (.diverge, st.tr)
           | some (.raised e, t) => .error (.exn e, st.tr ++ t)
           | some (.valid w, t) => .ok (.pair (.bool true) (.py w), { st with tr := st.tr ++ t })
           | some (.invalid e, t) => .ok (.pair (.bool false) (.invalid e), { st with tr := st.tr ++ t }))
        | .objCheck c, .tupled ws =>
          (match c.f (.tuple 0 ws) with
           | Option.none => .ok (.none, { st with tr := st.tr ++ [.oc c.id] })
           | some e => .ok (.customErr e, { st with tr := st.tr ++ [.oc c.id] }))
        | _, _ => .error (.stuck "call", st.tr)
  | .typeIs e t =>
    match e.eval o cfg x st with
    | .error err => .error err
    | .ok (.py y, st) =>
      (match t.eval o cfg x st with
       | .error err => .error err
       | .ok (.tyName ty, st) => .ok (.bool (y.ty == ty), st)
       | .ok (_, st) => .error (.stuck "is", st.tr))
    | .ok (_, st) => .error (.stuck "type()", st.tr)
  | .not e =>
    match e.eval o cfg x st with
    | .error err => .error err
    | .ok (d, st) => (match ntruthy d with | some b => .ok (.bool (!b), st) | none => .error (.stuck "truth value", st.tr))
  | .isNone e =>
    match e.eval o cfg x st with
    | .error err => .error err
    | .ok (.none, st) => .ok (.bool true, st)
    | .ok (_, st) => .ok (.bool false, st)
  | .listTy => .ok (.tyName .list, st)
  | .tupleTy => .ok (.tyName .tuple, st)
  | .mkCoercionErr compat dest =>
    match compat.eval o cfg x st with
    | .error err => .error err
    | .ok (cd, st) =>
      match dest.eval o cfg x st with
      | .error err => .error err
      | .ok (dd, st) =>
        (match cd, dd with
         | .tys ts, .tyName ty => .ok (.errK (.coercion ts ty), st)
         | _, _ => .error (.stuck "CoercionErr", st.tr))
  | .mkTypeErr t =>
    match t.eval o cfg x st with
    | .error err => .error err
    | .ok (.tyName ty, st) => .ok (.errK (.type ty), st)
    | .ok (_, st) => .error (.stuck "TypeErr", st.tr)
  | .mkPredErrs e =>
    match e.eval o cfg x st with
    | .error err => .error err
    | .ok (.lenPredList, st) => .ok (.errK (.preds [cfg.lenPid]), st)
    | .ok (_, st) => .error (.stuck "PredicateErrs", st.tr)
  | .mkIndexErrs e =>
    match e.eval o cfg x st with
    | .error err => .error err
    | .ok (.idxErrs es, st) => .ok (.idxErrK es, st)
    | .ok (_, st) => .error (.stuck "IndexErrs", st.tr)
  | .mkInvalid errE valE slfE =>
    match errE.eval o cfg x st with
    | .error e => .error e
    | .ok (ed, st) =>
      match valE.eval o cfg x st with
      | .error e => .error e
      | .ok (vd, st) =>
        match slfE.eval o cfg x st with
        | .error e => .error e
        | .ok (sd, st) =>
          (match ed, vd, sd with
           | .errK k, .py y, .self => .ok (.invalid (.mk k y cfg.vid []), st)
           | .idxErrK es, .py y, .self => .ok (.invalid (.mk (.index (es.map Prod.fst)) y cfg.vid (es.map Prod.snd)), st)
           | .customErr e, .tupled ws, .self => .ok (.invalid (.mk (.custom e) (.tuple 0 ws) cfg.vid []), st)
           | _, _, _ => .error (.stuck "Invalid", st.tr))
  | .list1 e =>
    match e.eval o cfg x st with
    | .error err => .error err
    | .ok (.lenPred, st) => .ok (.lenPredList, st)
    | .ok (_, st) => .error (.stuck "list", st.tr)
  | .emptyList => .ok (.payloads [], st)
  | .emptyDict => .ok (.idxErrs [], st)
  | .enumerate e =>                         -- (the counter itself is kept by the loop)
    match e.eval o cfg x st with
    | .error err => .error err
    | .ok (.zipped ps, st) => .ok (.enumZipped ps, st)
    | .ok (_, st) => .error (.stuck "enumerate", st.tr)
  | .zip a b =>
    match a.eval o cfg x st with
    | .error err => .error err
    | .ok (ad, st) =>
      match b.eval o cfg x st with
      | .error err => .error err
      | .ok (bd, st) =>
        (match ad, bd with
         | .fieldVs evs, .py y =>
           (match pyIter y with
            | some xs => .ok (.zipped (evs.zip xs), st)
            | Option.none => .error (.exn .typeError, st.tr))
         | _, _ => .error (.stuck "zip", st.tr))
  | .tupleOf e =>
    match e.eval o cfg x st with
    | .error err => .error err
    | .ok (.payloads ws, st) => .ok (.tupled ws, st)
    | .ok (_, st) => .error (.stuck "tuple()", st.tr)
  | .pair a b =>
    match a.eval o cfg x st with
    | .error err => .error err
    | .ok (ad, st) =>
      match b.eval o cfg x st with
      | .error err => .error err
      | .ok (bd, st) => .ok (.pair ad bd, st)
  | .bool b => .ok (.bool b, st)
  | .await e => e.eval o cfg x st
  | .unsupported why => .error (.stuck why, st.tr)

mutual
def NStmt.exec (o : Oracle) (cfg : NTupCfg) (x : PyVal) (st : NSt) : NStmt → Except (NErr × List Ev) NFlow
  | .assign v e =>
    match e.eval o cfg x st with
    | .error err => .error err
    | .ok (d, st) => .ok (.next { st with env := st.env.set v d })
  | .assign2 v w e =>
    match e.eval o cfg x st with
    | .error err => .error err
    | .ok (.pair a b, st) => .ok (.next { st with env := (st.env.set v a).set w b })
    | .ok (_, st) => .error (.stuck "unpacking", st.tr)
  | .ite c t e =>
    match c.eval o cfg x st with
    | .error err => .error err
    | .ok (d, st) =>
      match ntruthy d with
      | none => .error (.stuck "truth value", st.tr)
      | some true => NStmt.execL o cfg x st t
      | some false => NStmt.execL o cfg x st e
  | .forIn3 vi vv vw iter body =>
    match iter.eval o cfg x st with
    | .error err => .error err
    | .ok (.enumZipped ps, st) => nforFold3 (fun st => NStmt.execL o cfg x st body) vi vv vw ps 0 st
    | .ok (_, st) => .error (.stuck "iteration", st.tr)
  | .ret e =>
    match e.eval o cfg x st with
    | .error err => .error err
    | .ok (d, st) => .ok (.returned d st)
  | .setItem d k v =>
    match k.eval o cfg x st with
    | .error err => .error err
    | .ok (kd, st) =>
      match v.eval o cfg x st with
      | .error err => .error err
      | .ok (vd, st) =>
        (match st.env.get d, kd, vd with
         | .idxErrs es, .nat n, .invalid e => .ok (.next { st with env := st.env.set d (.idxErrs (es ++ [(n, e)])) })
         | _, _, _ => .error (.stuck "item assignment", st.tr))
  | .append l e =>
    match e.eval o cfg x st with
    | .error err => .error err
    | .ok (d, st) =>
      (match st.env.get l, d with
       | .payloads ws, .py w => .ok (.next { st with env := st.env.set l (.payloads (ws ++ [w])) })
       | _, _ => .error (.stuck "append", st.tr))
  | .unsupported why => .error (.stuck why, st.tr)
termination_by structural s => s
def NStmt.execL (o : Oracle) (cfg : NTupCfg) (x : PyVal) (st : NSt) : List NStmt → Except (NErr × List Ev) NFlow
  | [] => .ok (.next st)
  | s :: rest =>
    match s.exec o cfg x st with
    | .error err => .error err
    | .ok (.next st) => NStmt.execL o cfg x st rest
    | .ok (.returned d st) => .ok (.returned d st)
termination_by structural l => l
end

/-- run a method body on input `x` -/
def runNTupleMethod (o : Oracle) (cfg : NTupCfg) (body : List NStmt) (x : PyVal) : Option (Out × List Ev) :=
  match NStmt.execL o cfg x { env := {}, tr := [] } body with
  | .error (.exn e, t) => some (.raised e, t)
  | .error (_, _) => none
  | .ok (.returned (.pair (.bool true) (.tupled ws)) st) => some (.valid (.tuple 0 ws), st.tr)
  | .ok (.returned (.pair (.bool false) (.invalid e)) st) => some (.invalid e, st.tr)
  | .ok _ => none

end Koda
