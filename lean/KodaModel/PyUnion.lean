/-
  KodaModel.PyUnion — the Python subset in which `_union_validator` / `_union_validator_async`
  (koda_validate/_internal.py: the loop behind UnionValidator and OptionalValidator) are written, with a
  big-step interpreter.  `harness/pysrc.py` translates the current source of both functions
  (`Generated/UnionSrc.lean`); `Properties/C05Src.lean` proves that running them is the model's
  `unionStep`, for every list of variants — of either flavour (`_ToTupleValidator` or plain `Validator`) —
  and every input: first accepting variant wins, later ones are not consulted, otherwise every variant's
  error in order; trace and exceptions included.

  A variant is its evaluator (`Ev1`, `none` = does not return) plus the flavour flag `isinstance(v,
  _ToTupleValidator)` decides on; both ways of calling it (`_validate_to_tuple(val)` → a pair,
  `validator(val)` → a result object) answer with the evaluator's outcome.
-/
import KodaModel.Eval

namespace Koda

inductive UVar | errs | validator | resultTup | result
deriving DecidableEq, Repr, Inhabited

inductive UParam | val | sourceValidator | validators
deriving DecidableEq, Repr, Inhabited

inductive UMeth
  | validateToTuple | validateToTupleAsync | call | validateAsync
  | other (name : String)
deriving DecidableEq, Repr, Inhabited

inductive UAttr | isValid | valA | other (name : String)
deriving DecidableEq, Repr, Inhabited

inductive UExp
  | var (v : UVar)
  | param (p : UParam)
  | emptyList
  | bool (b : Bool)
  | isToTuple (e : UExp)                        -- `isinstance(e, _ToTupleValidator)`
  | meth (recv : UExp) (m : UMeth) (arg : UExp)  -- `recv.m(arg)`; `.call` is `recv(arg)`
  | subscript (e : UExp) (i : Nat)
  | attr (e : UExp) (a : UAttr)
  | pair (a b : UExp)
  | mkUnionInvalid (errs val src : UExp)        -- `Invalid(UnionErrs(errs), val, src)`
  | await (e : UExp)
  | unsupported (why : String)
deriving Repr, Inhabited

inductive UStmt
  | assign (v : UVar) (e : UExp)
  | ite (c : UExp) (t e : List UStmt)
  | forIn (v : UVar) (iter : UExp) (body : List UStmt)
  | ret (e : UExp)
  | append (v : UVar) (e : UExp)                -- `v.append(e)`
  | unsupported (why : String)
deriving Repr, Inhabited

/-- a variant: its evaluator and whether it is a `_ToTupleValidator` -/
structure UChild where
  ev : Ev1
  toTuple : Bool

inductive UV
  | py (v : PyVal)
  | bool (b : Bool)
  | none
  | src                                  -- the union validator itself
  | child (c : UChild)
  | children (cs : List UChild)
  | invs (es : List Inv)                 -- `errs`
  | invalid (e : Inv)
  | pair (a b : UV)
  | resObj (out : Out)                   -- a `Valid` / `Invalid` object
deriving Inhabited

structure UEnv where
  errs : UV := .none
  validator : UV := .none
  resultTup : UV := .none
  result : UV := .none

def UEnv.get (e : UEnv) : UVar → UV
  | .errs => e.errs | .validator => e.validator | .resultTup => e.resultTup | .result => e.result

def UEnv.set (e : UEnv) (v : UVar) (d : UV) : UEnv :=
  match v with
  | .errs => { e with errs := d } | .validator => { e with validator := d }
  | .resultTup => { e with resultTup := d } | .result => { e with result := d }

inductive UErr
  | exn (e : Exn)
  | diverge            -- a variant does not return
  | stuck (why : String)
deriving Inhabited

structure USt where
  env : UEnv
  tr : List Ev

abbrev UM (α : Type) := Except (UErr × List Ev) (α × USt)

/-- the call context: the union's identity, the variants, the input -/
structure UCtx where
  vid : Nat
  children : List UChild
  x : PyVal

def utruthy : UV → Option Bool
  | .bool b => some b
  | .none => some false
  | .invs es => some (!es.isEmpty)
  | _ => Option.none

/-- calling a variant (either way): its outcome, or divergence, with what it logged -/
def callChild (c : UChild) (x : PyVal) (st : USt) (asPair : Bool) : UM UV :=
  match c.ev x with
  | none => .error (.diverge, st.tr)
  | some (.raised e, t) => .error (.exn e, st.tr ++ t)
  | some (.valid w, t) =>
    .ok ((if asPair then .pair (.bool true) (.py w) else .resObj (.valid w)), { st with tr := st.tr ++ t })
  | some (.invalid e, t) =>
    .ok ((if asPair then .pair (.bool false) (.invalid e) else .resObj (.invalid e)), { st with tr := st.tr ++ t })

def UExp.eval (cx : UCtx) (st : USt) : UExp → UM UV
  | .var v => .ok (st.env.get v, st)
  | .param .val => .ok (.py cx.x, st)
  | .param .sourceValidator => .ok (.src, st)
  | .param .validators => .ok (.children cx.children, st)
  | .emptyList => .ok (.invs [], st)
  | .bool b => .ok (.bool b, st)
  | .isToTuple e =>
    match e.eval cx st with
    | .error err => .error err
    | .ok (.child c, st) => .ok (.bool c.toTuple, st)
    | .ok (_, st) => .error (.stuck "isinstance", st.tr)
  | .meth recv m arg =>
    match recv.eval cx st with
    | .error err => .error err
    | .ok (rd, st) =>
      match arg.eval cx st with
      | .error err => .error err
      | .ok (ad, st) =>
        match rd, m, ad with
        -- the tuple protocol exists on `_ToTupleValidator`s only; `validator(val)` / `validate_async` on every Validator
        | .child c, .validateToTuple, .py x => if c.toTuple then callChild c x st true else .error (.stuck "no such method", st.tr)
        | .child c, .validateToTupleAsync, .py x => if c.toTuple then callChild c x st true else .error (.stuck "no such method", st.tr)
        | .child c, .call, .py x => callChild c x st false
        | .child c, .validateAsync, .py x => callChild c x st false
        | _, _, _ => .error (.stuck "call", st.tr)
  | .subscript e i =>
    match e.eval cx st with
    | .error err => .error err
    | .ok (.pair a b, st) => (match i with | 0 => .ok (a, st) | 1 => .ok (b, st) | _ => .error (.stuck "index", st.tr))
    | .ok (_, st) => .error (.stuck "subscript", st.tr)
  | .attr e a =>
    match e.eval cx st with
    | .error err => .error err
    | .ok (.resObj out, st) =>
      (match a, out with
       | .isValid, .valid _ => .ok (.bool true, st)
       | .isValid, .invalid _ => .ok (.bool false, st)
       | .valA, .valid w => .ok (.py w, st)
       | _, _ => .error (.stuck "attribute", st.tr))
    | .ok (_, st) => .error (.stuck "attribute", st.tr)
  | .pair a b =>
    match a.eval cx st with
    | .error err => .error err
    | .ok (ad, st) =>
      match b.eval cx st with
      | .error err => .error err
      | .ok (bd, st) => .ok (.pair ad bd, st)
  | .mkUnionInvalid errs val src =>
    match errs.eval cx st with
    | .error err => .error err
    | .ok (ed, st) =>
      match val.eval cx st with
      | .error err => .error err
      | .ok (vd, st) =>
        match src.eval cx st with
        | .error err => .error err
        | .ok (sd, st) =>
          match ed, vd, sd with
          | .invs es, .py x, .src => .ok (.invalid (.mk .union x cx.vid es), st)
          | _, _, _ => .error (.stuck "Invalid(...)", st.tr)
  | .await e => e.eval cx st
  | .unsupported why => .error (.stuck why, st.tr)

inductive UFlow
  | next (st : USt)
  | returned (d : UV) (st : USt)

/-- `for v in items: <body>`; a `return` inside the body ends the loop -/
def uforFold (execBody : USt → Except (UErr × List Ev) UFlow) (v : UVar) : List UV → USt → Except (UErr × List Ev) UFlow
  | [], st => .ok (.next st)
  | item :: rest, st =>
    match execBody { st with env := st.env.set v item } with
    | .ok (.next st') => uforFold execBody v rest st'
    | other => other

mutual
def UStmt.exec (cx : UCtx) (st : USt) : UStmt → Except (UErr × List Ev) UFlow
  | .assign v e =>
    match e.eval cx st with
    | .error err => .error err
    | .ok (d, st) => .ok (.next { st with env := st.env.set v d })
  | .ite c t e =>
    match c.eval cx st with
    | .error err => .error err
    | .ok (d, st) =>
      match utruthy d with
      | none => .error (.stuck "truth value", st.tr)
      | some true => UStmt.execL cx st t
      | some false => UStmt.execL cx st e
  | .forIn v iter body =>
    match iter.eval cx st with
    | .error err => .error err
    | .ok (.children cs, st) => uforFold (fun st => UStmt.execL cx st body) v (cs.map UV.child) st
    | .ok (_, st) => .error (.stuck "iteration", st.tr)
  | .ret e =>
    match e.eval cx st with
    | .error err => .error err
    | .ok (d, st) => .ok (.returned d st)
  | .append v e =>
    match e.eval cx st with
    | .error err => .error err
    | .ok (d, st) =>
      (match st.env.get v, d with
       | .invs es, .invalid e1 => .ok (.next { st with env := st.env.set v (.invs (es ++ [e1])) })
       | .invs es, .resObj (.invalid e1) => .ok (.next { st with env := st.env.set v (.invs (es ++ [e1])) })
       | _, _ => .error (.stuck "append", st.tr))
  | .unsupported why => .error (.stuck why, st.tr)
termination_by structural s => s
def UStmt.execL (cx : UCtx) (st : USt) : List UStmt → Except (UErr × List Ev) UFlow
  | [] => .ok (.next st)
  | s :: rest =>
    match s.exec cx st with
    | .error err => .error err
    | .ok (.next st) => UStmt.execL cx st rest
    | .ok (.returned d st) => .ok (.returned d st)
termination_by structural l => l
end

/-- run a function body: `none` when a variant does not return (or the interpreter is stuck) -/
def runUnionBody (cx : UCtx) (body : List UStmt) : Option (Out × List Ev) :=
  match UStmt.execL cx { env := {}, tr := [] } body with
  | .error (.exn e, t) => some (.raised e, t)
  | .error (_, _) => none
  | .ok (.returned (.pair (.bool true) (.py w)) st) => some (.valid w, st.tr)
  | .ok (.returned (.pair (.bool false) (.invalid e)) st) => some (.invalid e, st.tr)
  | .ok _ => none

end Koda
