/-
  KodaModel.Schema — JSON Schema generation (serialization/json_schema.py), transliterated.

  `J` has a constructor for non-JSON leaves so that "emits a non-JSON object" is a property of the
  result rather than impossible by typing.  Printing of Python values (`str(Decimal)`, `isoformat`,
  `str(key)`, bytes in f-strings, utf-8 decoding) is an abstract `Printer` (the driver supplies the
  table computed by CPython for the constants of the case).
-/
import KodaModel.Eval

namespace Koda

inductive J
  | null
  | bool (b : Bool)
  | int (i : Int)
  | float (f : FloatV)
  | str (s : List Nat)
  | arr (xs : List J)
  | obj (kvs : List (List Nat × J))
  | nonjson (v : PyVal)            -- bytes, Decimal, date, … : not a JSON type
deriving Repr, Inhabited

abbrev JObj := List (List Nat × J)

def kw (s : String) : List Nat := s.toList.map Char.toNat

/-- `dict.update` for one key: an existing key keeps its position, its value is replaced -/
def jset : JObj → List Nat → J → JObj
  | [], k, v => [(k, v)]
  | (k', v') :: rest, k, v => if k' == k then (k', v) :: rest else (k', v') :: jset rest k v

/-- `a.update(b)` -/
def jupdate (a b : JObj) : JObj := b.foldl (fun acc p => jset acc p.1 p.2) a

structure Printer where
  /-- `str(x)` (labels, Decimal, UUID) -/
  str : PyVal → Option (List Nat)
  /-- `x.isoformat()` -/
  iso : PyVal → Option (List Nat)
  /-- `x.decode("utf-8")`; `none` = UnicodeDecodeError -/
  decode : List Nat → Option (List Nat)
  /-- the text of `f"{re.escape(b)}"` for a bytes prefix / suffix -/
  patBytes : List Nat → Option (List Nat)
deriving Inhabited

/-- `re.escape` on str -/
def reEscape (s : List Nat) : List Nat :=
  s.flatMap (fun c =>
    if [40, 41, 91, 93, 123, 125, 63, 42, 43, 45, 124, 94, 36, 92, 46, 38, 126, 35, 32, 9, 10, 13, 11, 12].contains c
    then [92, c] else [c])

/-- source text of a user pattern (as harness/build.py:mk_pat writes it) -/
def Pat.source (p : Pat) : List Nat :=
  (if p.anchorStart then [94] else []) ++
  p.els.flatMap (fun e => match e with
    | .lit c => reEscape [c]
    | .cls cs => [91] ++ reEscape cs ++ [93]
    | .any => [46]
    | .star cs => [91] ++ reEscape cs ++ [93, 42]) ++
  (if p.anchorEnd then [36] else [])

/-- a bound as the generator emits it (numbers raw) -/
def rawJ : PyVal → J
  | .none => .null
  | .bool b => .bool b
  | .int i => .int i
  | .float f => .float f
  | .str s => .str s
  | v => .nonjson v

/-- `_enum_value`: how `EqualTo` and `Choices` convert a value for `enum`;
    undecodable bytes and unsupported types are a `TypeError` -/
def enumValue (pr : Printer) (v : PyVal) : Except Exn J :=
  match v with
  | .str _ | .int _ | .float _ | .bool _ => .ok (rawJ v)
  | .date _ | .datetime _ _ =>
    (match pr.iso v with
     | some t => .ok (.str t)
     | none => .error .other)
  | .decimal _ | .uuid _ =>
    (match pr.str v with
     | some t => .ok (.str t)
     | none => .error .other)
  | .bytes b =>
    (match pr.decode b with
     | some t => .ok (.str t)
     | none => .error .typeError)
  | _ => .error .typeError

def enumValues (pr : Printer) : List PyVal → Except Exn (List J)
  | [] => .ok []
  | v :: vs =>
    match enumValue pr v with
    | .error e => .error e
    | .ok j => match enumValues pr vs with
      | .error e => .error e
      | .ok js => .ok (j :: js)

/-- insertion sort with Python's `<`; `none` = `sorted()` raises TypeError -/
def insertSorted (x : PyVal) : List PyVal → Option (List PyVal)
  | [] => some [x]
  | y :: ys =>
    match pyLt x y with
    | .ok true => some (x :: y :: ys)
    | .ok false => (insertSorted x ys).map (fun r => y :: r)
    | .error _ => none

def sortVals : List PyVal → Option (List PyVal)
  | [] => some []
  | x :: xs => (sortVals xs).bind (insertSorted x)

def isFmtTy (v : PyVal) : Bool :=
  match v with
  | .decimal _ => true | .date _ => true | .datetime _ _ => true | _ => false

/-- text used for a bound of a "format" type -/
def fmtText (pr : Printer) (v : PyVal) : Option (List Nat) :=
  match v with
  | .decimal _ => pr.str v
  | _ => pr.iso v

def boundSchema (pr : Printer) (v : PyVal) (excl : Bool) (kExcl kIncl fExcl fIncl : String) : Except Exn JObj :=
  if isFmtTy v then
    match fmtText pr v with
    | some t => .ok [(kw (if excl then fExcl else fIncl), .str t)]
    | none => .error .other
  else .ok [(kw (if excl then kExcl else kIncl), rawJ v)]

/-- `generate_schema_predicate` -/
def predSchema (pr : Printer) (p : PredK) : Except Exn JObj :=
  match p with
  | .email => .ok [(kw "format", .str (kw "email"))]
  | .maxLength n => .ok [(kw "maxLength", .int n)]
  | .minLength n => .ok [(kw "minLength", .int n)]
  | .exactLength n => .ok [(kw "minLength", .int n), (kw "maxLength", .int n)]
  | .choices vs =>
    match sortVals vs with
    | some s =>
      (match enumValues pr s with
       | .ok js => .ok [(kw "enum", .arr js)]
       | .error e => .error e)
    | none => .error .typeError
  | .notBlank => .ok [(kw "pattern", .str (kw "^(?!\\s*$).+"))]
  | .regex pat => .ok [(kw "pattern", .str pat.source)]
  | .startsWith (.str s) => .ok [(kw "pattern", .str ([94] ++ reEscape s))]
  | .startsWith (.bytes b) =>
    match pr.patBytes b with
    | some t => .ok [(kw "pattern", .str ([94] ++ t))]
    | none => .error .other
  | .startsWith _ => .error .typeError
  | .endsWith (.str s) => .ok [(kw "pattern", .str (reEscape s ++ [36]))]
  | .endsWith (.bytes b) =>
    match pr.patBytes b with
    | some t => .ok [(kw "pattern", .str (t ++ [36]))]
    | none => .error .other
  | .endsWith _ => .error .typeError
  | .min v excl => boundSchema pr v excl "exclusiveMinimum" "minimum" "formatExclusiveMinimum" "formatMinimum"
  | .max v excl => boundSchema pr v excl "exclusiveMaximum" "maximum" "formatExclusiveMaximum" "formatMaximum"
  | .equalTo v =>
    match enumValue pr v with
    | .ok j => .ok [(kw "enum", .arr [j])]
    | .error e => .error e
  | .minKeys n => .ok [(kw "minProperties", .int n)]
  | .maxKeys n => .ok [(kw "maxProperties", .int n)]
  | .minItems n => .ok [(kw "minItems", .int n)]
  | .maxItems n => .ok [(kw "maxItems", .int n)]
  | .uniqueItems => .ok [(kw "uniqueItems", .bool true)]
  | .multipleOf _ => .error .typeError
  | .exactItemCount _ => .error .typeError
  | .user _ => .error .typeError

/-- `_add_predicate_schema`: the keywords of one predicate join the validator's schema; if one of them
    is already set, the predicate's schema goes under `allOf` instead (nothing is overwritten) -/
def jaddPred (base o : JObj) : JObj :=
  if o.any (fun p => base.any (fun q => q.1 == p.1)) then
    match base.find? (fun q => q.1 == kw "allOf") with
    | some (_, .arr xs) => jset base (kw "allOf") (.arr (xs ++ [.obj o]))
    | _ => jset base (kw "allOf") (.arr [.obj o])
  else jupdate base o

/-- all predicates of a validator -/
def predsSchema (pr : Printer) (base : JObj) : List Pred → Except Exn JObj
  | [] => .ok base
  | p :: ps =>
    match predSchema pr p.k with
    | .error e => .error e
    | .ok o => predsSchema pr (jaddPred base o) ps

/-- `get_base` -/
def baseSchema : Ty → Except Exn JObj
  | .str => .ok [(kw "type", .str (kw "string"))]
  | .bytes => .ok [(kw "type", .str (kw "string")), (kw "format", .str (kw "byte"))]
  | .int => .ok [(kw "type", .str (kw "integer"))]
  | .decimal => .ok [(kw "type", .str (kw "string")), (kw "format", .str (kw "number")),
      (kw "pattern", .str (kw "^(\\-|\\+)?((\\d+(\\.\\d*)?)|(\\.\\d+))$"))]
  | .float => .ok [(kw "type", .str (kw "number"))]
  | .date => .ok [(kw "type", .str (kw "string")), (kw "format", .str (kw "date"))]
  | .datetime => .ok [(kw "type", .str (kw "string")), (kw "format", .str (kw "date-time"))]
  | .bool => .ok [(kw "type", .str (kw "boolean"))]
  | .uuid => .ok [(kw "type", .str (kw "string")), (kw "format", .str (kw "uuid"))]
  | _ => .error .typeError

/-- naming context: `none` = `to_json_schema`; `some (refLocation ++ name)` = named mode -/
abbrev RefCtx := Option (List Nat)

def natText (n : Nat) : List Nat := (toString n).toList.map Char.toNat

/-- label of a property: `str(key)` -/
def labelText (pr : Printer) (k : PyVal) : Option (List Nat) :=
  match k with
  | .str s => some s
  | _ => pr.str k

def labelsText (pr : Printer) : List PyVal → Option (List (List Nat))
  | [] => some []
  | k :: ks => match labelText pr k, labelsText pr ks with
    | some t, some ts => some (t :: ts)
    | _, _ => none

/-- insertion sort of texts (TypedDict's `sorted(required_keys)`) -/
def insertText (x : List Nat) : List (List Nat) → List (List Nat)
  | [] => [x]
  | y :: ys => if x < y then x :: y :: ys else y :: insertText x ys

def sortTexts (xs : List (List Nat)) : List (List Nat) := xs.foldr insertText []

mutual
/-- `generate_schema_validator` / `generate_named_schema_base`; `tvs` = vids of TypeValidators, `nrs` = vids of `Lazy(…, recurrent=False)`;
    (unsupported), structural recursion on the validator: a `Lazy` is never followed -/
def toSchema (pr : Printer) (ctx : RefCtx) (tvs nrs : List Nat) : V → Except Exn J
  | .scalar vid tg _ _ ps aps =>
    if tvs.contains vid then .error .typeError
    else do
      let b ← baseSchema tg
      let o ← predsSchema pr b (ps ++ aps)
      .ok (.obj o)
  | .equals _ m _ _ => do
    let b ← baseSchema m.ty
    let o ← predSchema pr (.equalTo m)
    .ok (.obj (jupdate b o))
  | .noneV _ _ => .error .typeError
  | .always _ => .error .typeError
  | .isDict _ => .ok (.obj [(kw "type", .str (kw "object"))])
  | .list _ item ps aps _ => do
    let it ← toSchema pr ctx tvs nrs item
    let o ← predsSchema pr [(kw "type", .str (kw "array")), (kw "items", it)] (ps ++ aps)
    .ok (.obj o)
  | .utuple _ item ps aps _ => do
    let it ← toSchema pr ctx tvs nrs item
    let o ← predsSchema pr [(kw "type", .str (kw "array")), (kw "items", it)] (ps ++ aps)
    .ok (.obj o)
  | .set _ _ _ _ _ => .error .typeError
  | .ntuple _ fs _ _ _ => do
    let items ← toSchemaL pr ctx tvs nrs fs
    .ok (.obj ([(kw "description", .str (kw "a " ++ natText fs.length ++ kw "-tuple of the fields in \"prefixItems\"")),
      (kw "type", .str (kw "array")), (kw "additionalItems", .bool false),
      (kw "maxItems", .int fs.length), (kw "minItems", .int fs.length)] ++
      (if items.isEmpty then [] else [(kw "prefixItems", .arr items)])))
  | .map _ _ value ps aps _ => do
    let vs ← toSchema pr ctx tvs nrs value
    let o ← predsSchema pr [(kw "type", .str (kw "object")), (kw "additionalProperties", vs)] (ps ++ aps)
    .ok (.obj o)
  | .record _ cfg vs => do
    let props ← toSchemaL pr ctx tvs nrs vs
    match labelsText pr cfg.keys with
    | none => .error .other
    | some labels =>
      let req := ((labels.zip cfg.reqs).filter (·.2)).map (·.1)
      let req := if cfg.kind = .typeddict then sortTexts req else req
      .ok (.obj [(kw "type", .str (kw "object")), (kw "additionalProperties", .bool (!cfg.failUnknown)),
        (kw "required", .arr (req.map J.str)),
        (kw "properties", .obj ((labels.zip props).foldl (fun acc p => jset acc p.1 p.2) []))])
  | .union _ vs => do
    let items ← toSchemaL pr ctx tvs nrs vs
    .ok (.obj [(kw "oneOf", .arr items)])
  | .optional _ _ inner => do
    let s ← toSchema pr ctx tvs nrs inner
    match s with
    | .obj o => .ok (.obj (jset o (kw "nullable") (.bool true)))
    | _ => .error .assertion
  | .maybe _ _ => .error .typeError
  | .lazy vid _ =>
    match ctx with
    | none => .error .typeError
    | some ref =>
      -- `Lazy(..., recurrent=False)`: "cannot proceed from here since the validator is a thunk"
      if nrs.contains vid then .ok (.obj []) else .ok (.obj [(kw "$ref", .str ref)])
  | .knr _ inner => toSchema pr ctx tvs nrs inner
  | .user _ _ => .error .typeError
termination_by structural v => v
def toSchemaL (pr : Printer) (ctx : RefCtx) (tvs nrs : List Nat) : List V → Except Exn (List J)
  | [] => .ok []
  | v :: vs => do
    let s ← toSchema pr ctx tvs nrs v
    let ss ← toSchemaL pr ctx tvs nrs vs
    .ok (s :: ss)
termination_by structural vs => vs
end

/-! ### what "made only of JSON types that serialise to strict JSON" means -/

mutual
def jsonOnly : J → Bool
  | .nonjson _ => false
  | .float .nan => false
  | .float (.inf _) => false
  | .arr xs => jsonOnlyL xs
  | .obj kvs => jsonOnlyO kvs
  | _ => true
termination_by structural j => j
def jsonOnlyL : List J → Bool
  | [] => true
  | x :: xs => jsonOnly x && jsonOnlyL xs
termination_by structural xs => xs
def jsonOnlyO : List (List Nat × J) → Bool
  | [] => true
  | (_, v) :: rest => jsonOnly v && jsonOnlyO rest
termination_by structural kvs => kvs
end

end Koda
