/-
  KodaModel.PySchemaPred — the shape of `generate_schema_predicate` (koda_validate/serialization/json_schema.py):
  a chain of `isinstance(pred, K)` arms, each returning a one- or two-keyword dict built from the predicate's
  parameter.  `harness/pysrc.py` translates the current source (`Generated/SchemaPredSrc.lean`: class tested,
  keyword(s), which parameter, which of a handful of value forms); `Properties/C10Src.lean` proves the
  interpretation equal to the model's `predSchema` for every predicate and every printer.

  The value forms are read with the model's own helpers (`enumValue(s)`, `sortVals`, `reEscape`, `boundSchema`):
  what the tie adds is the dispatch — which class, in which order, gets which keywords from which parameter.
-/
import KodaModel.Schema

namespace Koda

inductive GCls
  | email | maxLength | minLength | exactLength | choices | notBlank | regex | startsWith | endsWith
  | min | max | equalTo | minKeys | maxKeys | minItems | maxItems | uniqueItems | multipleOf | exactItemCount
  | other (name : String)
deriving DecidableEq, Repr, Inhabited

inductive GRet
  | const (k v : String)                     -- `{k: "<literal>"}`
  | attrInt (ks : List String)               -- `{k1: pred.<its integer field>, …}`
  | enumSortedChoices (k : String)           -- `{k: [_enum_value(c) for c in sorted(pred.choices)]}`
  | patternSrc (k : String)                  -- `{k: pred.pattern.pattern}`
  | prefixPat (k : String)                   -- `{k: rf"^{re.escape(pred.prefix)}"}`
  | suffixPat (k : String)                   -- `{k: rf"{re.escape(pred.suffix)}$"}`
  | bound (kExcl kIncl fExcl fIncl : String) -- the Min / Max arm
  | enumMatch (k : String)                   -- `{k: [_enum_value(pred.match)]}`
  | flagTrue (k : String)                    -- `{k: True}`
  | unsupported (why : String)
deriving Repr, Inhabited

structure GArm where
  cls : GCls
  ret : GRet
deriving Repr, Inhabited

structure GenSchemaPredSrc where
  arms : List GArm
  elseUnhandled : Bool          -- the last `else` calls `unhandled_type(pred)` (raises TypeError: pinned)

def GCls.matches : GCls → PredK → Bool
  | .email, .email => true
  | .maxLength, .maxLength _ => true
  | .minLength, .minLength _ => true
  | .exactLength, .exactLength _ => true
  | .choices, .choices _ => true
  | .notBlank, .notBlank => true
  | .regex, .regex _ => true
  | .startsWith, .startsWith _ => true
  | .endsWith, .endsWith _ => true
  | .min, .min _ _ => true
  | .max, .max _ _ => true
  | .equalTo, .equalTo _ => true
  | .minKeys, .minKeys _ => true
  | .maxKeys, .maxKeys _ => true
  | .minItems, .minItems _ => true
  | .maxItems, .maxItems _ => true
  | .uniqueItems, .uniqueItems => true
  | .multipleOf, .multipleOf _ => true
  | .exactItemCount, .exactItemCount _ => true
  | _, _ => false

/-- the integer field of the length / count predicates -/
def PredK.intParam : PredK → Option Int
  | .minLength n | .maxLength n | .exactLength n => some n
  | .minItems n | .maxItems n | .exactItemCount n => some n
  | .minKeys n | .maxKeys n => some n
  | _ => none

def GRet.eval (pr : Printer) : GRet → PredK → Except Exn JObj
  | .const k v, _ => .ok [(kw k, .str (kw v))]
  | .attrInt ks, p =>
    match p.intParam with
    | some n => .ok (ks.map (fun k => (kw k, J.int n)))
    | none => .error .other
  | .enumSortedChoices k, .choices vs =>
    match sortVals vs with
    | some s =>
      (match enumValues pr s with
       | .ok js => .ok [(kw k, .arr js)]
       | .error e => .error e)
    | none => .error .typeError
  | .patternSrc k, .regex pat => .ok [(kw k, .str pat.source)]
  | .prefixPat k, .startsWith (.str s) => .ok [(kw k, .str ([94] ++ reEscape s))]
  | .prefixPat k, .startsWith (.bytes b) =>
    match pr.patBytes b with
    | some t => .ok [(kw k, .str ([94] ++ t))]
    | none => .error .other
  | .prefixPat _, .startsWith _ => .error .typeError
  | .suffixPat k, .endsWith (.str s) => .ok [(kw k, .str (reEscape s ++ [36]))]
  | .suffixPat k, .endsWith (.bytes b) =>
    match pr.patBytes b with
    | some t => .ok [(kw k, .str (t ++ [36]))]
    | none => .error .other
  | .suffixPat _, .endsWith _ => .error .typeError
  | .bound kE kI fE fI, .min v excl => boundSchema pr v excl kE kI fE fI
  | .bound kE kI fE fI, .max v excl => boundSchema pr v excl kE kI fE fI
  | .enumMatch k, .equalTo v =>
    match enumValue pr v with
    | .ok j => .ok [(kw k, .arr [j])]
    | .error e => .error e
  | .flagTrue k, _ => .ok [(kw k, .bool true)]
  | _, _ => .error .other

def runArms (pr : Printer) : List GArm → PredK → Option (Except Exn JObj)
  | [], _ => none
  | a :: rest, p => if a.cls.matches p then some (a.ret.eval pr p) else runArms pr rest p

def runGenSchemaPred (pr : Printer) (src : GenSchemaPredSrc) (p : PredK) : Except Exn JObj :=
  match runArms pr src.arms p with
  | some r => r
  | none => if src.elseUnhandled then .error .typeError else .error .other

end Koda
