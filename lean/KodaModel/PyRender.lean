/-
  KodaModel.PyRender — the Python subset in which `to_serializable_errs` and `pred_to_err_message`
  (koda_validate/serialization/errors.py) are written: a chain of `isinstance` tests on the error (and, in
  the coercion branch, on the rejecting validator and the destination type), each arm returning one of a
  handful of shapes.  `harness/pysrc.py` translates the current source (`Generated/RenderSrc.lean`);
  `Properties/C12Src.lean` proves the interpretation of the translated chain equal to the model's `render`.

  Message *texts* are abstracted, as in `KodaModel.Render`: a statement that only computes text (an assignment
  to a local name other than the three the prologue binds) is `.text`, a returned list of one string is
  `.msgList`.
-/
import KodaModel.Render

namespace Koda

/-- the error classes the chain tests with `isinstance(err, _)` -/
inductive RErr
  | coercion | serializable | extraKeys | type | preds | index | missingKey | map | set | keys | union | container
  | other (name : String)
deriving DecidableEq, Repr, Inhabited

/-- the validator classes the coercion arm tests with `isinstance(vldtr, _)` -/
inductive RVld
  | uuid | decimal | datetime | date | dataclass | namedtuple
  | other (name : String)
deriving DecidableEq, Repr, Inhabited

inductive RCond
  | isErr (c : RErr)
  | isVldtr (cs : List RVld)
  | destIs (t : Ty)              -- `err.dest_type is t`
  | expectedIs (t : Ty)          -- `err.expected_type is t`
  | or (a b : RCond)
  | unsupported (why : String)
deriving Repr, Inhabited

/-- what an arm returns -/
inductive RExp
  | msgList                      -- `["..."]` / `[f"..."]`
  | containerMsg                 -- `{"__container__": ["..."]}`
  | unknownKeys                  -- `{"__unknown_keys__": <text>}`
  | obj                          -- `err.obj`
  | predMsgs                     -- `[pred_to_err_message(p) for p in err.predicates]`
  | indexPairs                   -- `[[i, next_level(err)] for i, err in err.indexes.items()]`
  | mapDict                      -- the loop over `err.keys.items()` building `{str(key): {"key": .., "value": ..}}`
  | members                      -- `{"member_errors": [next_level(x) for x in err.item_errs]}`
  | keysDict                     -- `{str(k): next_level(v) for k, v in err.keys.items()}`
  | variants                     -- `{"variants": [next_level(x) for x in err.variants]}`
  | child                        -- `next_level(err.child)`
  | unsupported (why : String)
deriving Repr, Inhabited

inductive RStmt
  | ite (c : RCond) (t e : List RStmt)
  | ret (e : RExp)
  | raiseTypeError
  | text                         -- computes message text only
  | unsupported (why : String)
deriving Repr, Inhabited

/-- what the interpreter is given besides the error: which predicates are not the library's, and the class
    of each validator -/
structure RCfg where
  userPids : List Nat
  vcls : Nat → RVld
  next : Inv → Ser

def RErr.matches : RErr → ErrK → Bool
  | .coercion, .coercion _ _ => true
  | .extraKeys, .extraKeys _ => true
  | .type, .type _ => true
  | .preds, .preds _ => true
  | .index, .index _ => true
  | .missingKey, .missingKey => true
  | .map, .map _ _ => true
  | .set, .set => true
  | .keys, .keys _ => true
  | .union, .union => true
  | .container, .container => true
  | _, _ => false          -- `SerializableErr` and user-defined error types are not errors the library produces

def RCond.eval (cfg : RCfg) : RCond → Inv → Option Bool
  | .isErr c, .mk k _ _ _ => some (c.matches k)
  | .isVldtr cs, .mk _ _ vid _ => some (cs.contains (cfg.vcls vid))
  | .destIs t, .mk (.coercion _ d) _ _ _ => some (d == t)
  | .destIs _, _ => none                                   -- AttributeError
  | .expectedIs t, .mk (.type t') _ _ _ => some (t' == t)
  | .expectedIs _, _ => none
  | .or a b, e =>
    match a.eval cfg e with
    | some true => some true
    | some false => b.eval cfg e
    | none => none
  | .unsupported _, _ => none

def RExp.eval (cfg : RCfg) : RExp → Inv → Except Exn Ser
  | .msgList, _ => .ok (.list [.msg])
  | .containerMsg, _ => .ok (.dict [("__container__", .list [.msg])])
  | .unknownKeys, _ => .ok (.dict [("__unknown_keys__", .msg)])
  | .predMsgs, .mk (.preds pids) _ _ _ =>
    if pids.any (fun p => cfg.userPids.contains p) then .error .typeError else .ok (.list (pids.map (fun _ => Ser.msg)))
  | .indexPairs, .mk (.index idx) _ _ ch => .ok (.list ((idx.zip ch).map (fun p => .list [.num p.1, cfg.next p.2])))
  | .mapDict, .mk (.map _ shape) _ _ ch => .ok (.dict (mapEntries cfg.next shape ch))
  | .members, .mk .set _ _ ch => .ok (.dict [("member_errors", .list (ch.map cfg.next))])
  | .keysDict, .mk (.keys ks) _ _ ch => .ok (.dict ((ks.zip ch).map (fun p => ("k", cfg.next p.2))))
  | .variants, .mk .union _ _ ch => .ok (.dict [("variants", .list (ch.map cfg.next))])
  | .child, .mk .container _ _ [c] => .ok (cfg.next c)
  | _, _ => .error .other                                  -- an attribute the error does not have

mutual
def RStmt.exec (cfg : RCfg) (e : Inv) : RStmt → Option (Except Exn Ser)     -- `none`: fell through
  | .ite c t f =>
    match c.eval cfg e with
    | none => some (.error .other)
    | some true => RStmt.execL cfg e t
    | some false => RStmt.execL cfg e f
  | .ret x => some (x.eval cfg e)
  | .raiseTypeError => some (.error .typeError)
  | .text => none
  | .unsupported _ => some (.error .other)
termination_by structural s => s
def RStmt.execL (cfg : RCfg) (e : Inv) : List RStmt → Option (Except Exn Ser)
  | [] => none
  | s :: rest =>
    match s.exec cfg e with
    | some r => some r
    | none => RStmt.execL cfg e rest
termination_by structural l => l
end

/-- run the translated body; falling off the end returns `None`, which is not a rendering -/
def runRender (cfg : RCfg) (body : List RStmt) (e : Inv) : Except Exn Ser :=
  match RStmt.execL cfg e body with
  | some r => r
  | none => .error .other

/-! ### with a callback that may raise — the default `next_level = to_serializable_errs` itself -/

/-- a comprehension `[next_level(x) for x in …]`: left to right, the first exception ends it -/
def mapME (f : Inv → Except Exn Ser) : List Inv → Except Exn (List Ser)
  | [] => .ok []
  | e :: es => do
    let s ← f e
    let ss ← mapME f es
    .ok (s :: ss)

def RExp.evalM (up : List Nat) (next : Inv → Except Exn Ser) : RExp → Inv → Except Exn Ser
  | .msgList, _ => .ok (.list [.msg])
  | .containerMsg, _ => .ok (.dict [("__container__", .list [.msg])])
  | .unknownKeys, _ => .ok (.dict [("__unknown_keys__", .msg)])
  | .predMsgs, .mk (.preds pids) _ _ _ =>
    if pids.any (fun p => up.contains p) then .error .typeError else .ok (.list (pids.map (fun _ => Ser.msg)))
  | .indexPairs, .mk (.index idx) _ _ ch => do
    let cs ← mapME next ch
    .ok (.list ((idx.zip cs).map (fun p => .list [.num p.1, p.2])))
  | .mapDict, .mk (.map _ shape) _ _ ch => do
    let cs ← mapME next ch
    .ok (.dict (mapEntriesS shape cs))
  | .members, .mk .set _ _ ch => do
    let cs ← mapME next ch
    .ok (.dict [("member_errors", .list cs)])
  | .keysDict, .mk (.keys ks) _ _ ch => do
    let cs ← mapME next ch
    .ok (.dict ((ks.zip cs).map (fun p => ("k", p.2))))
  | .variants, .mk .union _ _ ch => do
    let cs ← mapME next ch
    .ok (.dict [("variants", .list cs)])
  | .child, .mk .container _ _ ch => do
    let cs ← mapME next ch
    match cs with
    | [c] => .ok c
    | _ => .error .other
  | _, _ => .error .other

mutual
def RStmt.execM (up : List Nat) (vcls : Nat → RVld) (next : Inv → Except Exn Ser) (e : Inv) :
    RStmt → Option (Except Exn Ser)
  | .ite c t f =>
    match c.eval ⟨up, vcls, fun _ => .msg⟩ e with
    | none => some (.error .other)
    | some true => RStmt.execLM up vcls next e t
    | some false => RStmt.execLM up vcls next e f
  | .ret x => some (x.evalM up next e)
  | .raiseTypeError => some (.error .typeError)
  | .text => none
  | .unsupported _ => some (.error .other)
termination_by structural s => s
def RStmt.execLM (up : List Nat) (vcls : Nat → RVld) (next : Inv → Except Exn Ser) (e : Inv) :
    List RStmt → Option (Except Exn Ser)
  | [] => none
  | s :: rest =>
    match s.execM up vcls next e with
    | some r => some r
    | none => RStmt.execLM up vcls next e rest
termination_by structural l => l
end

def runRenderM (up : List Nat) (vcls : Nat → RVld) (next : Inv → Except Exn Ser) (body : List RStmt) (e : Inv) :
    Except Exn Ser :=
  match RStmt.execLM up vcls next e body with
  | some r => r
  | none => .error .other

/-- the function calling itself: `n` bounds the depth of the recursion (0: no call at all) -/
def runRenderFuel (up : List Nat) (vcls : Nat → RVld) (body : List RStmt) : Nat → Inv → Except Exn Ser
  | 0, _ => .error .other
  | n + 1, e => runRenderM up vcls (runRenderFuel up vcls body n) body e

/-- the predicate classes `pred_to_err_message` has an arm for, in order; the last arm raises `TypeError` -/
structure PredMsgSrc where
  handled : List String
  elseRaisesTypeError : Bool

end Koda
