/-
  KodaModel.Pred — built-in predicates and processors (transliterating `__call__` of each class in
  koda_validate/generic.py, string.py, dictionary.py) and the exceptions CPython raises inside them.
-/
import KodaModel.Value

namespace Koda

/-- Exception classes that can escape the library (everything else is impossible in the model). -/
inductive Exn
  | assertion | typeError | invalidOperation | attributeError | zeroDivision | unicodeDecode
  | other
deriving DecidableEq, Repr, Inhabited

/-! ### strings -/

/-- `str.isspace` per character == what `str.strip()` removes -/
def isSpaceStr (c : Nat) : Bool :=
  (9 ≤ c && c ≤ 13) || (28 ≤ c && c ≤ 32) || c == 0x85 || c == 0xA0 || c == 0x1680
  || (0x2000 ≤ c && c ≤ 0x200A) || c == 0x2028 || c == 0x2029 || c == 0x202F || c == 0x205F
  || c == 0x3000

/-- what `bytes.strip()` removes -/
def isSpaceBytes (c : Nat) : Bool := (9 ≤ c && c ≤ 13) || c == 32

def stripWith (sp : Nat → Bool) (s : List Nat) : List Nat :=
  ((s.dropWhile sp).reverse.dropWhile sp).reverse

/-- ASCII case mapping; the generator's alphabet contains no other cased character -/
def upperC (c : Nat) : Nat := if 97 ≤ c && c ≤ 122 then c - 32 else c
def lowerC (c : Nat) : Nat := if 65 ≤ c && c ≤ 90 then c + 32 else c

def isPrefix : List Nat → List Nat → Bool
  | [], _ => true
  | _ :: _, [] => false
  | a :: as, b :: bs => a == b && isPrefix as bs

def isSuffix (p s : List Nat) : Bool := isPrefix p.reverse s.reverse

/-! ### the e-mail pattern `[a-zA-Z0-9_.+-]+@[a-zA-Z0-9-]+\.[a-zA-Z0-9-.]+`, matched at offset 0 -/

def isAlnum (c : Nat) : Bool := (48 ≤ c && c ≤ 57) || (65 ≤ c && c ≤ 90) || (97 ≤ c && c ≤ 122)
def emailA (c : Nat) : Bool := isAlnum c || c == 95 || c == 46 || c == 43 || c == 45
def emailB (c : Nat) : Bool := isAlnum c || c == 45
def emailC (c : Nat) : Bool := isAlnum c || c == 45 || c == 46

def emailMatch (s : List Nat) : Bool :=
  let a := s.takeWhile emailA
  let r := s.dropWhile emailA
  !a.isEmpty &&
  match r with
  | 64 :: r1 =>
    let b := r1.takeWhile emailB
    let r2 := r1.dropWhile emailB
    !b.isEmpty &&
    (match r2 with
     | 46 :: c :: _ => emailC c
     | _ => false)
  | _ => false

/-! ### a small regex language for user patterns (the common Python / ECMA-262 subset) -/

/-- one pattern element -/
inductive PatEl
  | lit (c : Nat)          -- a literal character
  | cls (cs : List Nat)    -- `[...]`
  | any                    -- `.` (anything but `\n`)
  | star (cs : List Nat)   -- `[...]*`
deriving Repr, DecidableEq, Inhabited

/-- a pattern: optional `^`, elements, optional `$` -/
structure Pat where
  anchorStart : Bool
  els : List PatEl
  anchorEnd : Bool
deriving Repr, DecidableEq, Inhabited

/-- how a trailing `$` is read -/
inductive EndMode
  | none      -- no `$`
  | python    -- `re`: at the end, or just before a newline that ends the string
  | ecma      -- ECMA-262 without the `m` flag: at the end only
deriving DecidableEq, Repr, Inhabited

def atEnd (s : List Nat) : EndMode → Bool
  | .none => true
  | .python => s.isEmpty || s == [10]
  | .ecma => s.isEmpty

/-- does the element list match a prefix of `s` (ending as `e` demands)?  backtracking over `star`;
    the last argument is fuel for `star` (the string length suffices) -/
def matchEls : List PatEl → List Nat → EndMode → Nat → Bool
  | [], s, e, _ => atEnd s e
  | .lit c :: ps, x :: s, e, f => c == x && matchEls ps s e f
  | .cls cs :: ps, x :: s, e, f => cs.contains x && matchEls ps s e f
  | .any :: ps, x :: s, e, f => x != 10 && matchEls ps s e f
  | .star cs :: ps, s, e, f + 1 =>
    matchEls ps s e (f + 1) ||
    (match s with
     | x :: s' => cs.contains x && matchEls (.star cs :: ps) s' e f
     | [] => false)
  | _, _, _, _ => false

/-- `Pattern.match(s)`: the pattern matches starting at offset 0 (Python semantics) -/
def Pat.matchStart (p : Pat) (s : List Nat) : Bool :=
  matchEls p.els s (if p.anchorEnd then .python else .none) (s.length + 1)

/-- JSON Schema `pattern` (ECMA-262 `search`): matches starting at some offset -/
def Pat.search (p : Pat) (s : List Nat) : Bool :=
  let e := if p.anchorEnd then EndMode.ecma else EndMode.none
  if p.anchorStart then matchEls p.els s e (s.length + 1)
  else (List.range (s.length + 1)).any (fun i => matchEls p.els (s.drop i) e (s.length + 1))

/-! ### ordering and equality as the predicates see them -/

def isDecNaN : PyVal → Bool
  | .decimal .nan => true | .decimal .snan => true | _ => false
def isSNaN : PyVal → Bool
  | .decimal .snan => true | _ => false
def isDec : PyVal → Bool
  | .decimal _ => true | _ => false

/-- `a < b` -/
def pyLt (a b : PyVal) : Except Exn Bool :=
  match a.unsub, b.unsub with
  | .date x, .date y => .ok (decide (x < y))
  | .uuid x, .uuid y => .ok (decide (x < y))
  | .datetime x none, .datetime y none => .ok (decide (x < y))
  | .datetime x (some p), .datetime y (some q) => .ok (decide (dtInstant x p < dtInstant y q))
  | .datetime _ _, .datetime _ _ => .error .typeError
  | .str x, .str y => .ok (decide (x < y))
  | .bytes x, .bytes y => .ok (decide (x < y))
  | a', b' =>
    match xnum a', xnum b' with
    | some x, some y =>
      if isDecNaN a' || isDecNaN b' then .error .invalidOperation
      else .ok (x.lt y)
    | _, _ => .error .typeError

/-- `a == b`, with the one raising case -/
def pyEqX (a b : PyVal) : Except Exn Bool :=
  if isSNaN a.unsub || isSNaN b.unsub then
    (match xnum a.unsub, xnum b.unsub with
     | some _, some _ => .error .invalidOperation
     | _, _ => .ok false)
  else .ok (pyEq a b)

/-- `a <= b` -/
def pyLe (a b : PyVal) : Except Exn Bool :=
  match pyLt a b with
  | .error e => .error e
  | .ok true => .ok true
  | .ok false => .ok (pyEq a b)

/-- number of decimal digits of a positive natural (1 for 0) -/
def ndigits (n : Nat) : Nat := (Nat.toDigits 10 n).length

def Dec.adjusted : Dec → Int
  | .fin _ c e => e + (ndigits c : Int) - 1
  | _ => 0

/-- `Decimal.__mod__ … == 0` under the default context (prec 28) -/
def decModIsZero (a b : Dec) : Except Exn Bool :=
  match a, b with
  | .snan, _ => .error .invalidOperation
  | _, .snan => .error .invalidOperation
  | .nan, _ => .ok false
  | _, .nan => .ok false
  | .inf _, _ => .error .invalidOperation
  | .fin _ c _, .inf _ => .ok (c == 0)
  | .fin na ca ea, .fin nb cb eb =>
    if cb == 0 then .error .invalidOperation
    else if ca == 0 then .ok true
    else
      let d := (Dec.fin na ca ea).adjusted - (Dec.fin nb cb eb).adjusted
      if d ≤ -2 then .ok false
      else if d > 28 then .error .invalidOperation
      else
        -- |a| / |b| as naturals after aligning exponents
        let e := min ea eb
        let x := ca * 10 ^ (ea - e).toNat
        let y := cb * 10 ^ (eb - e).toNat
        if x / y ≥ 10 ^ 28 then .error .invalidOperation
        else .ok (x % y == 0)

/-- `val % factor == 0` -/
def modIsZero (v f : PyVal) : Except Exn Bool :=
  match v.unsub, f.unsub with
  | .decimal a, .decimal b => decModIsZero a b
  | .float .nan, .float (.fin _ m _) => if m == 0 then .error .zeroDivision else .ok false   -- `nan % 0.0` raises too
  | .float .nan, .float _ => .ok false
  | .float _, .float .nan => .ok false
  | .float (.inf _), .float (.fin _ m _) => if m == 0 then .error .zeroDivision else .ok false
  | .float (.inf _), .float _ => .ok false
  | .float (.fin _ m _), .float (.inf _) => .ok (m == 0)
  | a, b =>
    match a, b with
    | .decimal _, _ => .error .typeError
    | _, .decimal _ => .error .typeError
    | _, _ =>
      match numFrac a, numFrac b with
      | some x, some y => if y.isZero then .error .zeroDivision else .ok (x.divisible y)
      | _, _ => .error .typeError

/-- `len(x)` -/
def pyLen : PyVal → Option Nat
  | .str s => some s.length | .bytes s => some s.length
  | .list _ xs => some xs.length | .tuple _ xs => some xs.length | .set _ xs => some xs.length
  | .dict _ kvs => some kvs.length
  | .sub _ v => pyLen v
  | _ => none

/-- elements yielded by `for item in x` -/
def pyIter : PyVal → Option (List PyVal)
  | .list _ xs => some xs | .tuple _ xs => some xs | .set _ xs => some xs
  | .dict _ kvs => some (kvs.map Prod.fst)
  | .sub _ v => pyIter v
  | _ => none

/-- `(type(a), a) == (type(b), b)` -/
def typedEq (a b : PyVal) : Bool := a.ty == b.ty && pyEq a b

/-- the two-store loop of `UniqueItems.__call__` -/
def uniqueLoop : List PyVal → List PyVal → List PyVal → Bool
  | [], _, _ => true
  | x :: xs, hs, us =>
    if hashable x then
      if hs.any (typedEq x) then false else uniqueLoop xs (x :: hs) us
    else
      if us.any (typedEq x) then false else uniqueLoop xs hs (x :: us)

/-! ### `==` over containers that may hold a signalling Decimal NaN

`Decimal('sNaN') == x` signals `InvalidOperation` for every number `x`; inside containers the exception surfaces
exactly when Python's element-by-element comparison reaches such a pair: lists compare lengths first, tuples (and
dataclass / NamedTuple instances, which compare as tuples of their fields) compare their common prefix first, dicts
compare sizes, then the values key by key.  `none` = the comparison raises `InvalidOperation`. -/

mutual
def snanInside : PyVal → Bool
  | .decimal .snan => true
  | .list _ xs => snanInsideL xs
  | .tuple _ xs => snanInsideL xs
  | .set _ xs => snanInsideL xs
  | .dict _ kvs => snanInsideKV kvs
  | .just _ v => snanInside v
  | .inst _ _ _ _ vs => snanInsideL vs
  | .sub _ v => snanInside v
  | _ => false
termination_by structural x => x
def snanInsideL : List PyVal → Bool
  | [] => false
  | x :: xs => snanInside x || snanInsideL xs
termination_by structural x => x
def snanInsideKV : List (PyVal × PyVal) → Bool
  | [] => false
  | (k, v) :: rest => snanInside k || snanInside v || snanInsideKV rest
termination_by structural x => x
end

def eqScalarO (a b : PyVal) : Option Bool :=
  match pyEqX a b with
  | .ok r => some r
  | .error _ => none

mutual
def deepEqO : PyVal → PyVal → Option Bool
  | .sub _ a, b => deepEqO a b
  | .list _ xs, b =>
    match b.unsub with
    | .list _ ys => if xs.length != ys.length then some false else deepEqOL xs ys
    | _ => some false
  | .tuple _ xs, b =>
    match b.unsub with
    | .tuple _ ys => deepEqOL xs ys
    | .inst _ _ c _ vs => if c.kind == 2 then deepEqOL xs vs else some false
    | _ => some false
  | .dict _ kvs, b =>
    match b.unsub with
    | .dict _ kvs' => if kvs.length != kvs'.length then some false else deepEqOD kvs kvs'
    | _ => some false
  | .just _ x, b => match b.unsub with | .just _ y => deepEqO x y | _ => some false
  | .inst oid _ c _ vs, b =>
    match b.unsub with
    | .inst oid' _ c' _ vs' =>
      if c.kind == 2 then (if c'.kind == 2 then deepEqOL vs vs' else some false)
      else if c.kind == 1 then (if c == c' then deepEqOL vs vs' else some false)
      else some (oid == oid')
    | .tuple _ ys => if c.kind == 2 then deepEqOL vs ys else some false
    | _ => some false
  | .none, b => eqScalarO .none b
  | .bool x, b => eqScalarO (.bool x) b
  | .int x, b => eqScalarO (.int x) b
  | .float x, b => eqScalarO (.float x) b
  | .decimal x, b => eqScalarO (.decimal x) b
  | .str x, b => eqScalarO (.str x) b
  | .bytes x, b => eqScalarO (.bytes x) b
  | .uuid x, b => eqScalarO (.uuid x) b
  | .date x, b => eqScalarO (.date x) b
  | .datetime x o, b => eqScalarO (.datetime x o) b
  | .set o xs, b => some (pyEq (.set o xs) b)
  | .nothing, b => some (pyEq .nothing b)
termination_by structural x => x
/-- element by element over the common prefix, then the lengths -/
def deepEqOL : List PyVal → List PyVal → Option Bool
  | x :: xs, y :: ys =>
    match deepEqO x y with
    | none => none
    | some false => some false
    | some true => deepEqOL xs ys
  | [], [] => some true
  | _, _ => some false
termination_by structural x => x
/-- the values of the first dict against the second's, key by key in the first's order -/
def deepEqOD : List (PyVal × PyVal) → List (PyVal × PyVal) → Option Bool
  | [], _ => some true
  | (k, v) :: rest, o =>
    match dictGet o k with
    | none => some false
    | some v' =>
      match deepEqO v v' with
      | none => none
      | some false => some false
      | some true => deepEqOD rest o
termination_by structural x => x
end

def anyO (f : PyVal → Option Bool) : List PyVal → Option Bool
  | [] => some false
  | y :: ys =>
    match f y with
    | none => none
    | some true => some true
    | some false => anyO f ys

/-- `UniqueItems.__call__` when a signalling NaN is about: `us` is `unhashable_items` in insertion order, searched
    from the front; `none` = a comparison raised `InvalidOperation` -/
def uniqueLoopO : List PyVal → List PyVal → List PyVal → Option Bool
  | [], _, _ => some true
  | x :: xs, hs, us =>
    if hashable x then
      if hs.any (typedEq x) then some false else uniqueLoopO xs (x :: hs) us
    else
      match anyO (fun y => if y.ty == x.ty then deepEqO y x else some false) us with
      | none => none
      | some true => some false
      | some false => uniqueLoopO xs hs (us ++ [x])

/-! ### predicates -/

inductive PredK
  | min (v : PyVal) (excl : Bool)
  | max (v : PyVal) (excl : Bool)
  | multipleOf (f : PyVal)
  | equalTo (v : PyVal)
  | choices (vs : List PyVal)
  | minLength (n : Int) | maxLength (n : Int) | exactLength (n : Int)
  | startsWith (p : PyVal) | endsWith (p : PyVal)
  | notBlank
  | regex (p : Pat)
  | email
  | minItems (n : Int) | maxItems (n : Int) | exactItemCount (n : Int)
  | uniqueItems
  | minKeys (n : Int) | maxKeys (n : Int)
  /-- a predicate written by a user: a total Boolean function -/
  | user (f : PyVal → Bool)
deriving Inhabited

/-- a predicate object: `pid` is its identity (what `PredicateErrs` lists and `==` by identity see) -/
structure Pred where
  pid : Nat
  k : PredK
deriving Inhabited

def lenCmp (x : PyVal) (f : Int → Bool) : Except Exn Bool :=
  match pyLen x with
  | some n => .ok (f n)
  | none => .error .typeError

/-- `Predicate.__call__` -/
def PredK.call : PredK → PyVal → Except Exn Bool
  | .min m excl, x => if excl then pyLt m x else pyLe m x
  | .max m excl, x => if excl then pyLt x m else pyLe x m
  | .multipleOf f, x => modIsZero x f
  | .equalTo m, x => pyEqX x m
  | .choices vs, x =>
    if !hashable x then .error .typeError else .ok (memL x vs)
  | .minLength n, x => lenCmp x (fun l => decide (l ≥ n))
  | .maxLength n, x => lenCmp x (fun l => decide (l ≤ n))
  | .exactLength n, x => lenCmp x (fun l => decide (l = n))
  | .startsWith p, x =>
    match x.unsub, p.unsub with
    | .str s, .str q => .ok (isPrefix q s)
    | .bytes s, .bytes q => .ok (isPrefix q s)
    | _, _ => .error .typeError
  | .endsWith p, x =>
    match x.unsub, p.unsub with
    | .str s, .str q => .ok (isSuffix q s)
    | .bytes s, .bytes q => .ok (isSuffix q s)
    | _, _ => .error .typeError
  | .notBlank, x =>
    match x.unsub with
    | .str s => .ok (!(stripWith isSpaceStr s).isEmpty)
    | .bytes s => .ok (!(stripWith isSpaceBytes s).isEmpty)
    | _ => .error .attributeError
  | .regex p, x =>
    match x.unsub with
    | .str s => .ok (p.matchStart s)
    | _ => .error .typeError
  | .email, x =>
    match x.unsub with
    | .str s => .ok (emailMatch s)
    | _ => .error .typeError
  | .minItems n, x => lenCmp x (fun l => decide (l ≥ n))
  | .maxItems n, x => lenCmp x (fun l => decide (l ≤ n))
  | .exactItemCount n, x => lenCmp x (fun l => decide (l = n))
  | .uniqueItems, x =>
    match pyIter x with
    | some xs =>
      if snanInsideL xs then
        (match uniqueLoopO xs [] [] with
         | some b => .ok b
         | none => .error .invalidOperation)
      else .ok (uniqueLoop xs [] [])
    | none => .error .typeError
  | .minKeys n, x => lenCmp x (fun l => decide (l ≥ n))
  | .maxKeys n, x => lenCmp x (fun l => decide (l ≤ n))
  | .user f, x => .ok (f x)

/-! ### processors -/

inductive ProcK
  | strip | upper | lower
  | user (f : PyVal → PyVal)
deriving Inhabited

structure Proc where
  pid : Nat
  k : ProcK
deriving Inhabited

def ProcK.call : ProcK → PyVal → Except Exn PyVal
  | .strip, x =>
    match x.unsub with
    | .str s => .ok (.str (stripWith isSpaceStr s))
    | .bytes s => .ok (.bytes (stripWith isSpaceBytes s))
    | _ => .error .attributeError
  | .upper, x =>
    match x.unsub with
    | .str s => .ok (.str (s.map upperC))
    | .bytes s => .ok (.bytes (s.map upperC))
    | _ => .error .attributeError
  | .lower, x =>
    match x.unsub with
    | .str s => .ok (.str (s.map lowerC))
    | .bytes s => .ok (.bytes (s.map lowerC))
    | _ => .error .attributeError
  | .user f, x => .ok (f x)

end Koda
