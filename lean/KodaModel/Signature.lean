/-
  KodaModel.Signature — `validate_signature` (signature.py `_wrap_fn`): which supplied argument is
  checked by which validator, when the body runs, what it receives, what the caller gets.
-/
import KodaModel.Eval

namespace Koda

inductive PKind | posOnly | posOrKw | varPos | kwOnly | varKw
deriving DecidableEq, Repr, Inhabited

/-- a parameter with its *effective* validator: `some v` iff the parameter is checked (annotated or
    overridden, and not ignored) -/
structure Param where
  name : String
  kind : PKind
  v : Option V
deriving Inhabited

structure SigM where
  params : List Param
  /-- validator of the return value, if it is checked -/
  ret : Option V
  /-- names in `ignore_args` that are not parameters: `**kwargs` entries with these keys are skipped -/
  ignoredKw : List String
deriving Inhabited

structure Call where
  args : List PyVal
  kwargs : List (String × PyVal)
deriving Inhabited

/-- what the function body does with the arguments it is given -/
inductive BodyRes
  | ret (v : PyVal)
  | exc (id : Nat)
deriving Inhabited

inductive CallOut
  | invalidArgs (keys : List String)        -- InvalidArgsError, keyed by these names
  | invalidReturn                           -- InvalidReturnError
  | returned (v : PyVal)                    -- the body's own return value
  | bodyRaised (id : Nat)                   -- the body's own exception
  | validationRaised (e : Exn)              -- a validator raised (C01's business)
  | fuel
deriving Inhabited

/-- one supplied argument: where it goes, under which key it is reported, its validator -/
structure Slot where
  key : String
  v : Option V
  x : PyVal
deriving Inhabited

def SigM.positional (s : SigM) : List Param := s.params.filter (fun p => p.kind = .posOnly ∨ p.kind = .posOrKw)
def SigM.varPos (s : SigM) : Option Param := s.params.find? (fun p => p.kind = .varPos)
def SigM.varKw (s : SigM) : Option Param := s.params.find? (fun p => p.kind = .varKw)
/-- parameters addressable by keyword (positional-only names are *not*: such a keyword belongs to `**kwargs`) -/
def SigM.byKeyword (s : SigM) : List Param := s.params.filter (fun p => p.kind = .posOrKw ∨ p.kind = .kwOnly)

/-- the slots of the positional arguments: declared positions first, overflow goes to `*args` -/
def posSlots (s : SigM) (args : List PyVal) : List Slot :=
  let ps := s.positional
  (args.zipIdx).map (fun (x, i) =>
    match ps[i]? with
    | some p => ⟨p.name, p.v, x⟩
    | none => match s.varPos with
      | some p => ⟨p.name, p.v, x⟩
      | none => ⟨"", none, x⟩)

/-- the slots of the keyword arguments -/
def kwSlots (s : SigM) (kwargs : List (String × PyVal)) : List Slot :=
  kwargs.map (fun (k, x) =>
    match s.byKeyword.find? (fun p => p.name = k) with
    | some p => ⟨k, p.v, x⟩
    | none => match s.varKw with
      | some p => if s.ignoredKw.contains k then ⟨k, none, x⟩ else ⟨k, p.v, x⟩
      | none => ⟨k, none, x⟩)

/-- validate one slot: the payload to deliver, or the failure -/
inductive SlotRes
  | pass (w : PyVal)          -- delivered value (payload if checked, the caller's value otherwise)
  | fail
  | raised (e : Exn)
  | fuel

def checkSlot (ev : V → PyVal → Res) (sl : Slot) : SlotRes :=
  match sl.v with
  | none => .pass sl.x
  | some v =>
    match ev v sl.x with
    | none => .fuel
    | some (.valid w, _) => .pass w
    | some (.invalid _, _) => .fail
    | some (.raised e, _) => .raised e

def dedupS : List String → List String
  | [] => []
  | k :: ks => if (dedupS ks).contains k then dedupS ks else k :: dedupS ks

/-- the arguments passed validation: run the body on what they delivered, check the return value -/
def finishCall (ev : V → PyVal → Res) (s : SigM) (body : List PyVal → List (String × PyVal) → BodyRes)
    (okArgs : List PyVal) (okKw : List (String × PyVal)) : CallOut × Option (List PyVal × List (String × PyVal)) :=
  match body okArgs okKw with
  | .exc id => (.bodyRaised id, some (okArgs, okKw))
  | .ret v =>
    match s.ret with
    | none => (.returned v, some (okArgs, okKw))
    | some rv =>
      match ev rv v with
      | none => (.fuel, some (okArgs, okKw))
      | some (.valid _, _) => (.returned v, some (okArgs, okKw))
      | some (.invalid _, _) => (.invalidReturn, some (okArgs, okKw))
      | some (.raised e, _) => (.validationRaised e, some (okArgs, okKw))

def SlotRes.raisedOf : SlotRes → Option Exn
  | .raised e => some e
  | _ => none
def SlotRes.isFuel : SlotRes → Bool
  | .fuel => true
  | _ => false
def SlotRes.passVal : SlotRes → Option PyVal
  | .pass w => some w
  | _ => none
/-- the key under which a failing slot is reported -/
def failKey (p : Slot × SlotRes) : Option String :=
  match p.2 with
  | .fail => some p.1.key
  | _ => none
def passKw (p : Slot × SlotRes) : Option (String × PyVal) :=
  match p.2 with
  | .pass w => some (p.1.key, w)
  | _ => none

/-- the decorated function -/
def wrapCall (ev : V → PyVal → Res) (s : SigM) (body : List PyVal → List (String × PyVal) → BodyRes)
    (c : Call) : CallOut × Option (List PyVal × List (String × PyVal)) :=
  let ps := posSlots s c.args
  let ks := kwSlots s c.kwargs
  let pr := ps.map (checkSlot ev)
  let kr := ks.map (checkSlot ev)
  let all := pr ++ kr
  match all.findSome? SlotRes.raisedOf with
  | some e => (.validationRaised e, none)
  | none =>
    if all.any SlotRes.isFuel then (.fuel, none)
    else
      let failing := ((ps ++ ks).zip all).filterMap failKey
      if !failing.isEmpty then (.invalidArgs (dedupS failing.reverse).reverse, none)
      else finishCall ev s body (pr.filterMap SlotRes.passVal) ((ks.zip kr).filterMap passKw)

end Koda
