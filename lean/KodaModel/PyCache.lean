/-
  KodaModel.PyCache — the Python subset in which `CacheValidatorBase.__call__` / `validate_async`
  (koda_validate/base.py) are written, with an interpreter over a faithful store.  `harness/pysrc.py` translates the
  current source of both methods (`Generated/CacheSrc.lean`); `Properties/C20Src.lean` proves that running them is the
  model's `Cache.step`: one lookup; on a hit the stored result and nothing else; on a miss the wrapped validator is
  entered once through the entry point of the same flavour, its result stored under the input and returned; an
  exception of the wrapped validator propagates with nothing stored.

  The four `cache_*` hooks are the subclass's: the interpreter gives them the faithful-store meaning the property
  assumes (`Store.get` / `Store.set`).  A coroutine method answers a coroutine object (`.coro`): its value exists only
  once awaited, and one that is never awaited is an error of the interpreter, not a silent no-op.
-/
import KodaModel.Cache

namespace Koda

inductive KVar | cacheResult | result
deriving DecidableEq, Repr, Inhabited

inductive KMeth | getSync | setSync | getAsync | setAsync | other (name : String)
deriving DecidableEq, Repr, Inhabited

inductive KAttr | isJust | valA | other (name : String)
deriving DecidableEq, Repr, Inhabited

inductive KExp
  | var (v : KVar)
  | val                                      -- the parameter `val`
  | selfMeth1 (m : KMeth) (a : KExp)         -- `self.m(a)`
  | selfMeth2 (m : KMeth) (a b : KExp)       -- `self.m(a, b)`
  | callValidator (a : KExp)                 -- `self.validator(a)`
  | validatorAsync (a : KExp)                -- `self.validator.validate_async(a)`
  | attr (e : KExp) (a : KAttr)
  | await (e : KExp)
  | unsupported (why : String)
deriving Repr, Inhabited

inductive KStmt
  | assign (v : KVar) (e : KExp)
  | ite (c : KExp) (t e : List KStmt)
  | ret (e : KExp)
  | expr (e : KExp)
  | unsupported (why : String)
deriving Repr, Inhabited

inductive KV
  | py (v : PyVal)
  | bool (b : Bool)
  | none
  | maybe (m : Option Out)                   -- what a lookup answers
  | res (r : Out)                            -- a `Valid` / `Invalid` object
  | coro (d : KV)                            -- a coroutine object; `await` yields `d`
deriving Inhabited

structure KEnv where
  cacheResult : KV := .none
  result : KV := .none

def KEnv.get (e : KEnv) : KVar → KV
  | .cacheResult => e.cacheResult | .result => e.result

def KEnv.set (e : KEnv) (v : KVar) (d : KV) : KEnv :=
  match v with
  | .cacheResult => { e with cacheResult := d } | .result => { e with result := d }

inductive KErr
  | exn (e : Exn)
  | stuck (why : String)
deriving Inhabited

structure KSt where
  env : KEnv
  store : Store
  tr : List CEv

abbrev KM (α : Type) := Except (KErr × KSt) (α × KSt)

/-- the wrapped validator, entered through `__call__` (`.sync`) or `validate_async` (`.async`) -/
def callBare (bare : Mode → PyVal → Out) (m : Mode) (y : PyVal) (st : KSt) : KM KV :=
  let st' := { st with tr := st.tr ++ [.run m] }
  match bare m y with
  | .raised e => .error (.exn e, st')
  | r => .ok (.res r, st')

def KExp.eval (keq : PyVal → PyVal → Bool) (bare : Mode → PyVal → Out) (x : PyVal) (st : KSt) : KExp → KM KV
  | .var v => .ok (st.env.get v, st)
  | .val => .ok (.py x, st)
  | .selfMeth1 m a =>
    match a.eval keq bare x st with
    | .error err => .error err
    | .ok (ad, st) =>
      (match m, ad with
       | .getSync, .py y => .ok (.maybe (st.store.get keq y), { st with tr := st.tr ++ [.get .sync] })
       | .getAsync, .py y => .ok (.coro (.maybe (st.store.get keq y)), { st with tr := st.tr ++ [.get .async] })
       | _, _ => .error (.stuck "method call", st))
  | .selfMeth2 m a b =>
    match a.eval keq bare x st with
    | .error err => .error err
    | .ok (ad, st) =>
      match b.eval keq bare x st with
      | .error err => .error err
      | .ok (bd, st) =>
        (match m, ad, bd with
         | .setSync, .py y, .res r => .ok (.none, { st with store := st.store.set y r, tr := st.tr ++ [.set .sync] })
         | .setAsync, .py y, .res r => .ok (.coro .none, { st with store := st.store.set y r, tr := st.tr ++ [.set .async] })
         | _, _, _ => .error (.stuck "method call", st))
  | .callValidator a =>
    match a.eval keq bare x st with
    | .error err => .error err
    | .ok (.py y, st) => callBare bare .sync y st
    | .ok (_, st) => .error (.stuck "validator call", st)
  | .validatorAsync a =>
    match a.eval keq bare x st with
    | .error err => .error err
    | .ok (.py y, st) =>
      (match callBare bare .async y st with
       | .error err => .error err
       | .ok (d, st) => .ok (.coro d, st))
    | .ok (_, st) => .error (.stuck "validator call", st)
  | .attr e a =>
    match e.eval keq bare x st with
    | .error err => .error err
    | .ok (d, st) =>
      (match d, a with
       | .maybe m, .isJust => .ok (.bool m.isSome, st)
       | .maybe (some r), .valA => .ok (.res r, st)
       | _, _ => .error (.stuck "attribute", st))
  | .await e =>
    match e.eval keq bare x st with
    | .error err => .error err
    | .ok (.coro d, st) => .ok (d, st)
    | .ok (_, st) => .error (.stuck "await of a non-awaitable", st)
  | .unsupported why => .error (.stuck why, st)

inductive KFlow
  | next (st : KSt)
  | returned (d : KV) (st : KSt)

def ktruthy : KV → Option Bool
  | .bool b => some b
  | .none => some false
  | _ => Option.none

mutual
def KStmt.exec (keq : PyVal → PyVal → Bool) (bare : Mode → PyVal → Out) (x : PyVal) (st : KSt) : KStmt → Except (KErr × KSt) KFlow
  | .assign v e =>
    match e.eval keq bare x st with
    | .error err => .error err
    | .ok (d, st) => .ok (.next { st with env := st.env.set v d })
  | .ite c t e =>
    match c.eval keq bare x st with
    | .error err => .error err
    | .ok (d, st) =>
      match ktruthy d with
      | none => .error (.stuck "truth value", st)
      | some true => KStmt.execL keq bare x st t
      | some false => KStmt.execL keq bare x st e
  | .ret e =>
    match e.eval keq bare x st with
    | .error err => .error err
    | .ok (d, st) => .ok (.returned d st)
  | .expr e =>
    match e.eval keq bare x st with
    | .error err => .error err
    | .ok (.coro _, st) => .error (.stuck "coroutine never awaited", st)
    | .ok (_, st) => .ok (.next st)
  | .unsupported why => .error (.stuck why, st)
termination_by structural s => s
def KStmt.execL (keq : PyVal → PyVal → Bool) (bare : Mode → PyVal → Out) (x : PyVal) (st : KSt) : List KStmt → Except (KErr × KSt) KFlow
  | [] => .ok (.next st)
  | s :: rest =>
    match s.exec keq bare x st with
    | .error err => .error err
    | .ok (.next st) => KStmt.execL keq bare x st rest
    | .ok (.returned d st) => .ok (.returned d st)
termination_by structural l => l
end

/-- run a method body on input `x` over store `s`: the new store, the outcome, what was observed -/
def runCache (keq : PyVal → PyVal → Bool) (bare : Mode → PyVal → Out) (s : Store) (body : List KStmt) (x : PyVal) :
    Option (Store × Out × List CEv) :=
  match KStmt.execL keq bare x { env := {}, store := s, tr := [] } body with
  | .error (.exn e, st) => some (st.store, .raised e, st.tr)
  | .error (.stuck _, _) => none
  | .ok (.returned (.res r) st) => some (st.store, r, st.tr)
  | .ok _ => none

end Koda
