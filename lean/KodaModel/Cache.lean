/-
  KodaModel.Cache — `CacheValidatorBase` as a state machine over a faithful store.
  Transliterates `__call__` / `validate_async` of koda_validate/base.py:CacheValidatorBase.
-/
import KodaModel.Eval

namespace Koda

/-- what the harness can observe of one cached call -/
inductive CEv
  | get (m : Mode)            -- cache_get_sync / cache_get_async was called
  | run (m : Mode)            -- the wrapped validator was entered through this entry point
  | set (m : Mode)            -- cache_set_sync / cache_set_async was called
deriving DecidableEq, Repr, Inhabited

/-- a faithful store: lookup returns what was stored for that input (up to the store's key
    equivalence `keq`), nothing otherwise -/
abbrev Store := List (PyVal × Out)

def Store.get (keq : PyVal → PyVal → Bool) (s : Store) (x : PyVal) : Option Out :=
  match s.find? (fun p => keq p.1 x) with
  | some p => some p.2
  | none => none

def Store.set (s : Store) (x : PyVal) (r : Out) : Store := (x, r) :: s

/-- one call through the cache wrapper -/
def Cache.step (keq : PyVal → PyVal → Bool) (bare : Mode → PyVal → Out) (s : Store) (m : Mode)
    (x : PyVal) : Store × Out × List CEv :=
  match s.get keq x with
  | some r => (s, r, [.get m])
  | none =>
    match bare m x with
    | .raised e => (s, .raised e, [.get m, .run m])     -- the exception propagates: nothing is stored
    | r => (s.set x r, r, [.get m, .run m, .set m])

/-- a history of calls -/
def Cache.runHist (keq : PyVal → PyVal → Bool) (bare : Mode → PyVal → Out) :
    Store → List (Mode × PyVal) → Store × List (Out × List CEv)
  | s, [] => (s, [])
  | s, (m, x) :: rest =>
    let r := Cache.step keq bare s m x
    let rr := Cache.runHist keq bare r.1 rest
    (rr.1, (r.2.1, r.2.2) :: rr.2)

end Koda
