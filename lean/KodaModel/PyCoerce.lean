/-
  KodaModel.PyCoerce — the statement subset in which the library's default coercers are written
  (`coerce_decimal`, `coerce_uuid`, `coerce_date`, `coerce_datetime`, `tuple_or_list_to_tuple`), with an
  evaluator over the model's values.  `harness/pysrc.py` translates the current source of each into a
  `CStmt` (`Generated/CoerceSrc.lean`); `Properties/C16Src.lean` proves each translated body equal to
  the model's `defaultCoerce`, for every oracle and every value — in particular that no exception
  escapes the `try` blocks as written.

  Constructor calls (`Decimal(val)`, `UUID(val)`, `date.fromisoformat(val)`, …) are the stdlib's: on
  text they are the `Oracle`'s parsers (failure = the exception class CPython documents), on other
  values the exception CPython raises.
-/
import KodaModel.Eval

namespace Koda

inductive CTest
  | typeIs (t : Ty)              -- `type(val) is T`
  | isInst (ts : List Ty)        -- `isinstance(val, (T, …))`
deriving Repr, Inhabited

inductive CStmt
  | ite (c : CTest) (t e : CStmt)
  | retJustVal                    -- `return Just(val)`
  | retNothing                    -- `return nothing`
  | retJustTupleOfVal             -- `return Just(tuple(val))`
  /-- `try: return Just(<ctor>(val))  except <excs>: <handler>` -/
  | tryRetJust (ctor : String) (excs : List String) (handler : CStmt)
  | seq (a b : CStmt)
  | pass
  | unsupported (why : String)
deriving Repr, Inhabited

/-- `isinstance(x, T)` for the builtin types the coercers mention -/
def isInstOf (x : PyVal) : Ty → Bool
  | .int => x.baseTy == .int || x.baseTy == .bool
  | t => x.baseTy == t

def CTest.eval (x : PyVal) : CTest → Bool
  | .typeIs t => x.ty == t
  | .isInst ts => ts.any (isInstOf x)

/-- the stdlib constructors the coercers call: the value, or the name of the exception raised -/
def callCtor (o : Oracle) (ctor : String) (x : PyVal) : Except String PyVal :=
  if ctor = "Decimal" then
    match strLike x with
    | some s => (match o.decimal s with | some d => .ok d | none => .error "InvalidOperation")
    | none => (match intLike x with | some i => .ok (decOfInt i) | none => .error "TypeError")
  else if ctor = "UUID" then
    match strLike x with
    | some s => (match o.uuid s with | some d => .ok d | none => .error "ValueError")
    | none => .error "AttributeError"
  else if ctor = "date.fromisoformat" then
    match strLike x with
    | some s => (match o.date s with | some d => .ok d | none => .error "ValueError")
    | none => .error "TypeError"
  else if ctor = "datetime.fromisoformat" then
    match strLike x with
    | some s => (match o.datetime s with | some d => .ok d | none => .error "ValueError")
    | none => .error "TypeError"
  else .error "NameError"

/-- `some r`: the body returned the Maybe `r`; `none`: it fell through to the next statement;
    `.error e`: exception `e` escaped -/
def CStmt.run (o : Oracle) (x : PyVal) : CStmt → Except String (Option (Option PyVal))
  | .ite c t e => if c.eval x then t.run o x else e.run o x
  | .retJustVal => .ok (some (some x))
  | .retNothing => .ok (some none)
  | .retJustTupleOfVal =>
    match x with
    | .list _ xs => .ok (some (some (.tuple 0 xs)))
    | .tuple _ xs => .ok (some (some (.tuple 0 xs)))
    | _ => .error "TypeError"
  | .tryRetJust ctor excs handler =>
    match callCtor o ctor x with
    | .ok v => .ok (some (some v))
    | .error e => if excs.contains e then handler.run o x else .error e
  | .seq a b =>
    match a.run o x with
    | .ok none => b.run o x
    | other => other
  | .pass => .ok none
  | .unsupported _ => .error "unsupported"

def lookupCoerce : List (String × List Ty × CStmt) → String → List Ty × CStmt
  | [], n => ([], .unsupported ("no function " ++ n))
  | (k, c, s) :: rest, n => if k = n then (c, s) else lookupCoerce rest n

end Koda
