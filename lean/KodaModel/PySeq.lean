/-
  KodaModel.PySeq — the Python subset in which `SetValidator` and `UniformTupleValidator` (koda_validate/set.py,
  tuple.py: `_validate_to_tuple` and `_validate_to_tuple_async` of each) are written, with a big-step interpreter.
  `harness/pysrc.py` translates the current source of the four methods (`Generated/SeqSrc.lean`);
  `Properties/C03Seq.lean` proves that running them is the model's `seqStep .set` / `seqStep .utuple`, for every
  configuration, every item validator of either flavour and every input.

  Same language as `PyList` plus what these two classes use and the list validator does not: the item validator is
  called directly — `_validate_to_tuple(item)` when `isinstance(item_validator, _ToTupleValidator)` (the flag
  `_item_validator_is_tuple` set in `__init__`), `item_validator(item)` otherwise, whose result object is taken apart
  with a conditional expression —, `set()` / `.add` (raising `TypeError` on an unhashable payload), `tuple(...)`, a list
  of member errors.
-/
import KodaModel.Eval

namespace Koda

inductive QVar
  | coerced | coercedVal | listErrors | returnList | indexErrs | i | item | isValid | itemResult
  | predicateErrors | pred | predAsync | result
deriving DecidableEq, Repr, Inhabited

inductive QSelf
  | coerce | predicates | predicatesAsync | cls | itemIsTuple | itemValidator
  | other (name : String)
deriving DecidableEq, Repr, Inhabited

inductive QAttr | isJust | valA | compatibleTypes | isValid | other (name : String)
deriving DecidableEq, Repr, Inhabited

inductive QMeth | call | validateAsync | validateToTuple | validateToTupleAsync | other (name : String)
deriving DecidableEq, Repr, Inhabited

inductive QExp
  | var (v : QVar)
  | self
  | val                                      -- the parameter `val`
  | selfAttr (a : QSelf)
  | attr (e : QExp) (a : QAttr)
  | walrus (v : QVar) (e : QExp)             -- `(v := e)`
  | call1 (f : QExp) (a : QExp)              -- `f(a)`
  | meth (recv : QExp) (m : QMeth) (a : QExp) -- `recv.__call__(a)` / `recv.validate_async(a)`
  | typeIs (e : QExp) (t : QExp)             -- `type(e) is t`
  | not (e : QExp)
  | isNotNone (e : QExp)
  | listTy | setTy | tupleTy                 -- the names `list`, `set`, `tuple`
  | mkSetErrs (e : QExp)
  | ifExp (c a b : QExp)                     -- `a if c else b`
  | emptySet                                 -- `set()`
  | tupleOf (e : QExp)                       -- `tuple(e)`
  | mkCoercionErr (compat dest : QExp)
  | mkTypeErr (t : QExp)
  | mkPredErrs (e : QExp)
  | mkIndexErrs (e : QExp)
  | mkInvalid (err val slf : QExp)
  | warn (e : QExp)                          -- `_async_predicates_warning(e)`
  | listComp (elt : QExp) (v : QVar) (iter : QExp) (cond : QExp)
  | emptyList
  | emptyDict
  | enumerate (e : QExp)
  | pair (a b : QExp)
  | bool (b : Bool)
  | await (e : QExp)
  | unsupported (why : String)
deriving Repr, Inhabited

inductive QStmt
  | assign (v : QVar) (e : QExp)
  | assign2 (v w : QVar) (e : QExp)          -- `v, w = e`
  | ite (c : QExp) (t e : List QStmt)
  | forIn (v : QVar) (iter : QExp) (body : List QStmt)
  | forIn2 (v w : QVar) (iter : QExp) (body : List QStmt)   -- `for v, w in enumerate(..)`
  | ret (e : QExp)
  | expr (e : QExp)
  | setItem (d : QVar) (k v : QExp)          -- `d[k] = v`
  | append (l : QVar) (e : QExp)
  | extend (l : QVar) (e : QExp)
  | add (l : QVar) (e : QExp)                -- `l.add(e)`
  | unsupported (why : String)
deriving Repr, Inhabited

structure SeqCfg where
  kind : SeqKind
  vid : Nat
  item : Ev1
  isTuple : Bool                           -- `isinstance(item_validator, _ToTupleValidator)`
  coerce : Option CoerceK
  preds : Option (List Pred)
  apreds : Option (List Pred)

inductive QV
  | py (v : PyVal)
  | bool (b : Bool)
  | none
  | self
  | cls
  | tyName (t : Ty)
  | coercer (c : CoerceK)
  | maybe (m : Option PyVal)
  | preds (ps : List Pred) | pred (p : Pred)
  | apreds (ps : List Pred) | apred (p : Pred)
  | tys (ts : List Ty)
  | errK (k : ErrK)
  | idxErrK (es : List (Nat × Inv))
  | setErrK (es : List Inv)
  | invalid (e : Inv)
  | pair (a b : QV)
  | payloads (ws : List PyVal)             -- `return_list`
  | setPayloads (ws : List PyVal)          -- `return_set`: what was added, in order
  | tupled (ws : List PyVal)               -- `tuple(return_list)`
  | idxErrs (es : List (Nat × Inv))        -- `index_errors`
  | invs (es : List Inv)                   -- `item_errs`
  | resObj (out : Out)                     -- a `Valid` / `Invalid` object
  | nat (n : Nat)
  | enumItems (xs : List PyVal)
  | itemV                                   -- the item validator
deriving Inhabited

structure QEnv where
  coerced : QV := .none
  coercedVal : QV := .none
  listErrors : QV := .none
  returnList : QV := .none
  indexErrs : QV := .none
  i : QV := .none
  item : QV := .none
  isValid : QV := .none
  itemResult : QV := .none
  predicateErrors : QV := .none
  pred : QV := .none
  predAsync : QV := .none
  result : QV := .none

def QEnv.get (e : QEnv) : QVar → QV
  | .coerced => e.coerced | .coercedVal => e.coercedVal | .listErrors => e.listErrors
  | .returnList => e.returnList | .indexErrs => e.indexErrs | .i => e.i | .item => e.item
  | .isValid => e.isValid | .itemResult => e.itemResult | .predicateErrors => e.predicateErrors
  | .pred => e.pred | .predAsync => e.predAsync | .result => e.result

def QEnv.set (e : QEnv) (v : QVar) (d : QV) : QEnv :=
  match v with
  | .coerced => { e with coerced := d } | .coercedVal => { e with coercedVal := d }
  | .listErrors => { e with listErrors := d } | .returnList => { e with returnList := d }
  | .indexErrs => { e with indexErrs := d } | .i => { e with i := d } | .item => { e with item := d }
  | .isValid => { e with isValid := d } | .itemResult => { e with itemResult := d }
  | .predicateErrors => { e with predicateErrors := d } | .pred => { e with pred := d }
  | .predAsync => { e with predAsync := d } | .result => { e with result := d }

inductive QErr
  | exn (e : Exn)
  | diverge
  | stuck (why : String)
deriving Inhabited

structure QSt where
  env : QEnv
  tr : List Ev

abbrev QM (α : Type) := Except (QErr × List Ev) (α × QSt)

def qtruthy : QV → Option Bool
  | .bool b => some b
  | .none => some false
  | .coercer _ => some true
  | .preds ps => some (!ps.isEmpty)
  | .apreds ps => some (!ps.isEmpty)
  | .idxErrs es => some (!es.isEmpty)
  | .payloads ws => some (!ws.isEmpty)
  | .invs es => some (!es.isEmpty)
  | _ => Option.none

def qoptList {α} (f : List α → QV) : Option (List α) → QV
  | some l => f l
  | none => .none

/-- calling the container's coercer -/
def callSeqCoercer (o : Oracle) (k : SeqKind) (c : CoerceK) (x : PyVal) : Option PyVal × List Ev :=
  match applyCoerce o k.gateTy k.destTy default c x with
  | .acc y t => (some y, t)
  | .rej _ t => (none, t)
  | .exn _ t => (none, t)

def seqCompat (k : SeqKind) : CoerceK → List Ty
  | .dflt => defaultCompat k.gateTy
  | .classOnly => [.cls default]
  | .user _ compat _ => compat

def qselfAttr (cfg : SeqCfg) : QSelf → Option QV
  | .coerce => some (match cfg.coerce with | some c => .coercer c | none => .none)
  | .predicates => some (qoptList .preds cfg.preds)
  | .predicatesAsync => some (qoptList .apreds cfg.apreds)
  | .cls => some .cls
  -- `self._item_validator_is_tuple = isinstance(item_validator, _ToTupleValidator)` (pinned by `src_seq_inits`)
  | .itemIsTuple => some (.bool cfg.isTuple)
  | .itemValidator => some .itemV
  | .other _ => Option.none

/-- one pass of `[<elt> for v in items if <cond>]` -/
def qcompFold (evalCond evalElt : QSt → QM QV) (v : QVar) : List QV → QM (List QV) → QM (List QV)
  | [], acc => acc
  | item :: rest, acc =>
    match acc with
    | .error err => .error err
    | .ok (kept, st) =>
      match evalCond { st with env := st.env.set v item } with
      | .error err => .error err
      | .ok (cd, st2) =>
        match qtruthy cd with
        | none => .error (.stuck "truth value", st2.tr)
        | some true =>
          (match evalElt st2 with
           | .error err => .error err
           | .ok (ed, st3) => qcompFold evalCond evalElt v rest (.ok (kept ++ [ed], st3)))
        | some false => qcompFold evalCond evalElt v rest (.ok (kept, st2))

inductive QFlow
  | next (st : QSt)
  | returned (d : QV) (st : QSt)

/-- `for v in items: <body>` -/
def qforFold (execBody : QSt → Except (QErr × List Ev) QFlow) (v : QVar) : List QV → QSt → Except (QErr × List Ev) QFlow
  | [], st => .ok (.next st)
  | item :: rest, st =>
    match execBody { st with env := st.env.set v item } with
    | .ok (.next st') => qforFold execBody v rest st'
    | other => other

/-- `for v, w in enumerate(items): <body>`, counting from `n` -/
def qforFold2 (execBody : QSt → Except (QErr × List Ev) QFlow) (v w : QVar) : List PyVal → Nat → QSt → Except (QErr × List Ev) QFlow
  | [], _, st => .ok (.next st)
  | x :: rest, n, st =>
    match execBody { st with env := (st.env.set v (.nat n)).set w (.py x) } with
    | .ok (.next st') => qforFold2 execBody v w rest (n + 1) st'
    | other => other

/-- calling the item validator (either way): its outcome, or divergence, with what it logged -/
def callItem (cfg : SeqCfg) (y : PyVal) (st : QSt) (asPair : Bool) : QM QV :=
  match cfg.item y with
  | none => .error (.diverge, st.tr)
  | some (.raised e, t) => .error (.exn e, st.tr ++ t)
  | some (.valid w, t) =>
    .ok ((if asPair then .pair (.bool true) (.py w) else .resObj (.valid w)), { st with tr := st.tr ++ t })
  | some (.invalid e, t) =>
    .ok ((if asPair then .pair (.bool false) (.invalid e) else .resObj (.invalid e)), { st with tr := st.tr ++ t })

def QExp.eval (o : Oracle) (cfg : SeqCfg) (x : PyVal) (st : QSt) : QExp → QM QV
  | .var v => .ok (st.env.get v, st)
  | .self => .ok (.self, st)
  | .val => .ok (.py x, st)
  | .selfAttr a => (match qselfAttr cfg a with | some r => .ok (r, st) | none => .error (.stuck "self attribute", st.tr))
  | .attr e a =>
    match e.eval o cfg x st with
    | .error err => .error err
    | .ok (d, st) =>
      match d, a with
      | .maybe m, .isJust => .ok (.bool m.isSome, st)
      | .maybe (some y), .valA => .ok (.py y, st)
      | .coercer c, .compatibleTypes => .ok (.tys (seqCompat cfg.kind c), st)
      | .resObj (.valid _), .isValid => .ok (.bool true, st)
      | .resObj (.invalid _), .isValid => .ok (.bool false, st)
      | .resObj (.valid w), .valA => .ok (.py w, st)
      | _, _ => .error (.stuck "attribute", st.tr)
  | .walrus v e =>
    match e.eval o cfg x st with
    | .error err => .error err
    | .ok (d, st) => .ok (d, { st with env := st.env.set v d })
  | .call1 f a =>
    match f.eval o cfg x st with
    | .error err => .error err
    | .ok (fd, st) =>
      match a.eval o cfg x st with
      | .error err => .error err
      | .ok (ad, st) =>
        match fd, ad with
        | .coercer c, .py y =>
          let r := callSeqCoercer o cfg.kind c y
          .ok (.maybe r.1, { st with tr := st.tr ++ r.2 })
        | .pred p, .py y =>
          (match p.k.call y with
           | .ok b => .ok (.bool b, { st with tr := st.tr ++ p.ev })
           | .error e => .error (.exn e, st.tr ++ p.ev))
        -- `self.item_validator(item)`: a result object
        | .itemV, .py y => callItem cfg y st false
        | _, _ => .error (.stuck "call", st.tr)
  | .meth recv m a =>
    match recv.eval o cfg x st with
    | .error err => .error err
    | .ok (rd, st) =>
      match a.eval o cfg x st with
      | .error err => .error err
      | .ok (ad, st) =>
        match rd, m, ad with
        | .pred p, .call, .py y =>
          (match p.k.call y with
           | .ok b => .ok (.bool b, { st with tr := st.tr ++ p.ev })
           | .error e => .error (.exn e, st.tr ++ p.ev))
        | .apred p, .validateAsync, .py y =>
          (match p.k.call y with
           | .ok b => .ok (.bool b, { st with tr := st.tr ++ [.apred p.pid] })
           | .error e => .error (.exn e, st.tr ++ [.apred p.pid]))
        -- the tuple protocol exists on `_ToTupleValidator`s only; `validate_async` on every Validator
        | .itemV, .validateToTuple, .py y => if cfg.isTuple then callItem cfg y st true else .error (.stuck "no such method", st.tr)
        | .itemV, .validateToTupleAsync, .py y => if cfg.isTuple then callItem cfg y st true else .error (.stuck "no such method", st.tr)
        | .itemV, .validateAsync, .py y => callItem cfg y st false
        | _, _, _ => .error (.stuck "method call", st.tr)
  | .typeIs e t =>
    match e.eval o cfg x st with
    | .error err => .error err
    | .ok (.py y, st) =>
      (match t.eval o cfg x st with
       | .error err => .error err
       | .ok (.tyName ty, st) => .ok (.bool (y.ty == ty), st)
       | .ok (_, st) => .error (.stuck "is", st.tr))
    | .ok (_, st) => .error (.stuck "type()", st.tr)
  | .not e =>
    match e.eval o cfg x st with
    | .error err => .error err
    | .ok (d, st) => (match qtruthy d with | some b => .ok (.bool (!b), st) | none => .error (.stuck "truth value", st.tr))
  | .isNotNone e =>
    match e.eval o cfg x st with
    | .error err => .error err
    | .ok (.none, st) => .ok (.bool false, st)
    | .ok (_, st) => .ok (.bool true, st)
  | .listTy => .ok (.tyName .list, st)
  | .setTy => .ok (.tyName .set, st)
  | .tupleTy => .ok (.tyName .tuple, st)
  | .mkCoercionErr compat dest =>
    match compat.eval o cfg x st with
    | .error err => .error err
    | .ok (cd, st) =>
      match dest.eval o cfg x st with
      | .error err => .error err
      | .ok (dd, st) =>
        (match cd, dd with
         | .tys ts, .tyName ty => .ok (.errK (.coercion ts ty), st)
         | _, _ => .error (.stuck "CoercionErr", st.tr))
  | .mkTypeErr t =>
    match t.eval o cfg x st with
    | .error err => .error err
    | .ok (.tyName ty, st) => .ok (.errK (.type ty), st)
    | .ok (_, st) => .error (.stuck "TypeErr", st.tr)
  | .mkPredErrs e =>
    match e.eval o cfg x st with
    | .error err => .error err
    | .ok (.preds ps, st) => .ok (.errK (.preds (ps.map (·.pid))), st)
    | .ok (_, st) => .error (.stuck "PredicateErrs", st.tr)
  | .mkIndexErrs e =>
    match e.eval o cfg x st with
    | .error err => .error err
    | .ok (.idxErrs es, st) => .ok (.idxErrK es, st)
    | .ok (_, st) => .error (.stuck "IndexErrs", st.tr)
  | .mkSetErrs e =>
    match e.eval o cfg x st with
    | .error err => .error err
    | .ok (.invs es, st) => .ok (.setErrK es, st)
    | .ok (_, st) => .error (.stuck "SetErrs", st.tr)
  | .ifExp c a b =>
    match c.eval o cfg x st with
    | .error err => .error err
    | .ok (cd, st) =>
      (match qtruthy cd with
       | none => .error (.stuck "truth value", st.tr)
       | some true => a.eval o cfg x st
       | some false => b.eval o cfg x st)
  | .emptySet => .ok (.setPayloads [], st)
  | .tupleOf e =>
    match e.eval o cfg x st with
    | .error err => .error err
    | .ok (.payloads ws, st) => .ok (.tupled ws, st)
    | .ok (_, st) => .error (.stuck "tuple()", st.tr)
  | .mkInvalid errE valE slfE =>
    match errE.eval o cfg x st with
    | .error e => .error e
    | .ok (ed, st) =>
      match valE.eval o cfg x st with
      | .error e => .error e
      | .ok (vd, st) =>
        match slfE.eval o cfg x st with
        | .error e => .error e
        | .ok (sd, st) =>
          (match ed, vd, sd with
           | .errK k, .py y, .self => .ok (.invalid (.mk k y cfg.vid []), st)
           | .idxErrK es, .py y, .self => .ok (.invalid (.mk (.index (es.map Prod.fst)) y cfg.vid (es.map Prod.snd)), st)
           | .setErrK es, .py y, .self => .ok (.invalid (.mk .set y cfg.vid es), st)
           | _, _, _ => .error (.stuck "Invalid", st.tr))
  | .warn e =>
    match e.eval o cfg x st with
    | .error err => .error err
    | .ok (_, st) => .error (.exn .assertion, st.tr)
  | .listComp elt v iter cond =>
    match iter.eval o cfg x st with
    | .error err => .error err
    | .ok (itd, st) =>
      match itd with
      | .preds ps =>
        (match qcompFold (fun st => cond.eval o cfg x st) (fun st => elt.eval o cfg x st) v (ps.map QV.pred) (.ok ([], st)) with
         | .error err => .error err
         | .ok (kept, st) =>
           let qs := kept.filterMap (fun d => match d with | .pred p => some p | .apred p => some p | _ => Option.none)
           if qs.length = kept.length then .ok (.preds qs, st) else .error (.stuck "comprehension element", st.tr))
      | _ => .error (.stuck "iteration", st.tr)
  -- `[]`: the start of `return_list`, of `item_errs` and of the async predicate errors alike
  | .emptyList => .ok (.payloads [], st)
  | .emptyDict => .ok (.idxErrs [], st)
  | .enumerate e =>
    match e.eval o cfg x st with
    | .error err => .error err
    | .ok (.py y, st) => (match pyIter y with | some xs => .ok (.enumItems xs, st) | none => .error (.exn .typeError, st.tr))
    | .ok (_, st) => .error (.stuck "enumerate", st.tr)
  | .pair a b =>
    match a.eval o cfg x st with
    | .error err => .error err
    | .ok (ad, st) =>
      match b.eval o cfg x st with
      | .error err => .error err
      | .ok (bd, st) => .ok (.pair ad bd, st)
  | .bool b => .ok (.bool b, st)
  | .await e => e.eval o cfg x st
  | .unsupported why => .error (.stuck why, st.tr)

mutual
def QStmt.exec (o : Oracle) (cfg : SeqCfg) (x : PyVal) (st : QSt) : QStmt → Except (QErr × List Ev) QFlow
  | .assign v e =>
    match e.eval o cfg x st with
    | .error err => .error err
    | .ok (d, st) => .ok (.next { st with env := st.env.set v d })
  | .assign2 v w e =>
    match e.eval o cfg x st with
    | .error err => .error err
    | .ok (.pair a b, st) => .ok (.next { st with env := (st.env.set v a).set w b })
    | .ok (_, st) => .error (.stuck "unpacking", st.tr)
  | .ite c t e =>
    match c.eval o cfg x st with
    | .error err => .error err
    | .ok (d, st) =>
      match qtruthy d with
      | none => .error (.stuck "truth value", st.tr)
      | some true => QStmt.execL o cfg x st t
      | some false => QStmt.execL o cfg x st e
  | .forIn v iter body =>
    match iter.eval o cfg x st with
    | .error err => .error err
    | .ok (.apreds ps, st) => qforFold (fun st => QStmt.execL o cfg x st body) v (ps.map QV.apred) st
    | .ok (_, st) => .error (.stuck "iteration", st.tr)
  | .forIn2 v w iter body =>
    match iter.eval o cfg x st with
    | .error err => .error err
    | .ok (.enumItems xs, st) => qforFold2 (fun st => QStmt.execL o cfg x st body) v w xs 0 st
    | .ok (_, st) => .error (.stuck "iteration", st.tr)
  | .ret e =>
    match e.eval o cfg x st with
    | .error err => .error err
    | .ok (d, st) => .ok (.returned d st)
  | .expr e =>
    match e.eval o cfg x st with
    | .error err => .error err
    | .ok (_, st) => .ok (.next st)
  | .setItem d k v =>
    match k.eval o cfg x st with
    | .error err => .error err
    | .ok (kd, st) =>
      match v.eval o cfg x st with
      | .error err => .error err
      | .ok (vd, st) =>
        (match st.env.get d, kd, vd with
         | .idxErrs es, .nat n, .invalid e => .ok (.next { st with env := st.env.set d (.idxErrs (es ++ [(n, e)])) })
         | .idxErrs es, .nat n, .resObj (.invalid e) => .ok (.next { st with env := st.env.set d (.idxErrs (es ++ [(n, e)])) })
         | _, _, _ => .error (.stuck "item assignment", st.tr))
  | .append l e =>
    match e.eval o cfg x st with
    | .error err => .error err
    | .ok (d, st) =>
      (match st.env.get l, d with
       | .payloads ws, .py w => .ok (.next { st with env := st.env.set l (.payloads (ws ++ [w])) })
       -- `item_errs.append(item_result)`: a child's Invalid, either as such or as the result object it came in
       | .invs es, .invalid e1 => .ok (.next { st with env := st.env.set l (.invs (es ++ [e1])) })
       | .invs es, .resObj (.invalid e1) => .ok (.next { st with env := st.env.set l (.invs (es ++ [e1])) })
       | .payloads [], .invalid e1 => .ok (.next { st with env := st.env.set l (.invs [e1]) })
       | .payloads [], .resObj (.invalid e1) => .ok (.next { st with env := st.env.set l (.invs [e1]) })
       | .preds ps, .apred p => .ok (.next { st with env := st.env.set l (.preds (ps ++ [p])) })
       | .payloads [], .apred p => .ok (.next { st with env := st.env.set l (.preds [p]) })
       | _, _ => .error (.stuck "append", st.tr))
  | .extend l e =>
    match e.eval o cfg x st with
    | .error err => .error err
    | .ok (d, st) =>
      (match st.env.get l, d with
       | .preds ps, .preds qs => .ok (.next { st with env := st.env.set l (.preds (ps ++ qs)) })
       | .payloads [], .preds qs => .ok (.next { st with env := st.env.set l (.preds qs) })
       | _, _ => .error (.stuck "extend", st.tr))
  | .add l e =>
    match e.eval o cfg x st with
    | .error err => .error err
    | .ok (d, st) =>
      (match st.env.get l, d with
       | .setPayloads ws, .py w =>
         if hashable w then .ok (.next { st with env := st.env.set l (.setPayloads (ws ++ [w])) })
         else .error (.exn .typeError, st.tr)
       | _, _ => .error (.stuck "add", st.tr))
  | .unsupported why => .error (.stuck why, st.tr)
termination_by structural s => s
def QStmt.execL (o : Oracle) (cfg : SeqCfg) (x : PyVal) (st : QSt) : List QStmt → Except (QErr × List Ev) QFlow
  | [] => .ok (.next st)
  | s :: rest =>
    match s.exec o cfg x st with
    | .error err => .error err
    | .ok (.next st) => QStmt.execL o cfg x st rest
    | .ok (.returned d st) => .ok (.returned d st)
termination_by structural l => l
end

/-- run a method body on input `x` -/
def runSeqMethod (o : Oracle) (cfg : SeqCfg) (body : List QStmt) (x : PyVal) : Option (Out × List Ev) :=
  match QStmt.execL o cfg x { env := {}, tr := [] } body with
  | .error (.exn e, t) => some (.raised e, t)
  | .error (_, _) => none
  | .ok (.returned (.pair (.bool true) (.setPayloads ws)) st) =>
    if cfg.kind = .set then some (.valid (.set 0 (dedup ws)), st.tr) else none
  | .ok (.returned (.pair (.bool true) (.tupled ws)) st) =>
    if cfg.kind = .utuple then some (.valid (.tuple 0 ws), st.tr) else none
  | .ok (.returned (.pair (.bool false) (.invalid e)) st) => some (.invalid e, st.tr)
  | .ok _ => none

end Koda
