def hello := "world"
