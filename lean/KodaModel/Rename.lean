/-
  KodaModel.Rename — renaming the identities of validator / predicate / processor objects in a
  validator tree and in a result.  Definitions only (the driver executes them); the theorem that
  identities are inert is in Properties/C19.
-/
import KodaModel.Eval

namespace Koda

/-- a renaming of identities: `p` for predicate / processor objects, `v` for validator objects -/
structure Rn where
  p : Nat → Nat
  v : Nat → Nat

def Pred.rn (r : Rn) (p : Pred) : Pred := ⟨r.p p.pid, p.k⟩
def Proc.rn (r : Rn) (p : Proc) : Proc := ⟨r.p p.pid, p.k⟩

mutual
def V.rn (r : Rn) : V → V
  | .scalar vid tg c pre ps aps =>
    .scalar (r.v vid) tg c (pre.map (Proc.rn r)) (ps.map (Pred.rn r)) (aps.map (Pred.rn r))
  | .equals vid m pre pid => .equals (r.v vid) m (pre.map (Proc.rn r)) (r.p pid)
  | .noneV vid c => .noneV (r.v vid) c
  | .always vid => .always (r.v vid)
  | .isDict vid => .isDict (r.v vid)
  | .list vid item ps aps c => .list (r.v vid) (V.rn r item) (ps.map (Pred.rn r)) (aps.map (Pred.rn r)) c
  | .set vid item ps aps c => .set (r.v vid) (V.rn r item) (ps.map (Pred.rn r)) (aps.map (Pred.rn r)) c
  | .utuple vid item ps aps c => .utuple (r.v vid) (V.rn r item) (ps.map (Pred.rn r)) (aps.map (Pred.rn r)) c
  | .ntuple vid fs oc c lp => .ntuple (r.v vid) (V.rnL r fs) oc c (r.p lp)
  | .map vid kv vv ps aps c =>
    .map (r.v vid) (V.rn r kv) (V.rn r vv) (ps.map (Pred.rn r)) (aps.map (Pred.rn r)) c
  | .record vid cfg vs => .record (r.v vid) cfg (V.rnL r vs)
  | .union vid vs => .union (r.v vid) (V.rnL r vs)
  | .optional vid nv inner => .optional (r.v vid) (V.rn r nv) (V.rn r inner)
  | .maybe vid inner => .maybe (r.v vid) (V.rn r inner)
  | .lazy vid ref => .lazy (r.v vid) ref
  | .knr vid inner => .knr (r.v vid) (V.rn r inner)
  | .user vid inner => .user (r.v vid) (V.rn r inner)
termination_by structural v => v
def V.rnL (r : Rn) : List V → List V
  | [] => []
  | v :: vs => V.rn r v :: V.rnL r vs
termination_by structural vs => vs
end

theorem V.rnL_eq_map (r : Rn) : ∀ vs, V.rnL r vs = vs.map (V.rn r)
  | [] => rfl
  | v :: vs => by simp [V.rnL, V.rnL_eq_map r vs]

def ErrK.rn (r : Rn) : ErrK → ErrK
  | .preds pids => .preds (pids.map r.p)
  | k => k

mutual
def Inv.rn (r : Rn) : Inv → Inv
  | .mk k v vid cs => .mk (k.rn r) v (r.v vid) (Inv.rnL r cs)
termination_by structural e => e
def Inv.rnL (r : Rn) : List Inv → List Inv
  | [] => []
  | e :: es => Inv.rn r e :: Inv.rnL r es
termination_by structural es => es
end

theorem Inv.rnL_eq_map (r : Rn) : ∀ es, Inv.rnL r es = es.map (Inv.rn r)
  | [] => rfl
  | e :: es => by simp [Inv.rnL, Inv.rnL_eq_map r es]

def Ev.rn (r : Rn) : Ev → Ev
  | .pred pid => .pred (r.p pid)
  | .apred pid => .apred (r.p pid)
  | .proc pid => .proc (r.p pid)
  | .uv vid m => .uv (r.v vid) m
  | e => e

def Out.rn (r : Rn) : Out → Out
  | .valid w => .valid w
  | .invalid e => .invalid (e.rn r)
  | .raised x => .raised x

/-- renaming a step's result -/
def rnOT (r : Rn) (p : Out × List Ev) : Out × List Ev := (p.1.rn r, p.2.map (Ev.rn r))

def rnRes (r : Rn) (x : Res) : Res := x.map (rnOT r)

@[simp] theorem rnRes_none (r : Rn) : rnRes r none = none := rfl
@[simp] theorem rnRes_some (r : Rn) (p : Out × List Ev) : rnRes r (some p) = some (rnOT r p) := rfl

end Koda
