/-
  KodaModel.Sched — an abstract interleaving semantics for validations that share one validator.

  A task is a resumable computation over its own local state; one step may *read* the shared
  store (the validator's configuration) and yields either a new local state (an await point was
  reached) or a result.  Writes are confined to the task's locals — which is what
  `Generated/Effects.lean` establishes of the code, syntactically.
-/
namespace Koda

/-- one cooperative task system: shared store `σ`, local states `S`, results `R` -/
structure TaskSys (σ S R : Type) where
  step : σ → S → S ⊕ R

inductive TState (S R : Type)
  | running (s : S)
  | done (r : R)
deriving Repr

variable {σ S R : Type}

/-- resume a task once (a finished task stays finished) -/
def TaskSys.resume (sys : TaskSys σ S R) (st : σ) : TState S R → TState S R
  | .running s => match sys.step st s with
    | .inl s' => .running s'
    | .inr r => .done r
  | .done r => .done r

/-- run a task alone for `n` resumptions -/
def TaskSys.solo (sys : TaskSys σ S R) (st : σ) (t : TState S R) : Nat → TState S R
  | 0 => t
  | n + 1 => sys.solo st (sys.resume st t) n

/-- run a schedule: at each point the scheduler picks which task to resume -/
def TaskSys.runSched (sys : TaskSys σ S R) (st : σ) (ts : List (TState S R)) : List Nat → List (TState S R)
  | [] => ts
  | i :: rest =>
    match ts[i]? with
    | some t => sys.runSched st (ts.set i (sys.resume st t)) rest
    | none => sys.runSched st ts rest

end Koda
