/-
  KodaModel.Eval — validation, sync and async, with an event trace.

  Style: every validator kind is a non-recursive *step* parameterised by its children's evaluators;
  `run` only ties the knot on a fuel argument (needed because `Lazy` makes validators cyclic).
  The steps transliterate the code that exists in koda_validate (both copies where they differ).
-/
import KodaModel.Validator

namespace Koda

/-! ### predicate lists and processors -/

def Pred.ev (p : Pred) : List Ev :=
  match p.k with
  | .user _ => [.pred p.pid]
  | _ => []

/-- `[p for p in preds if not p(x)]`: failing pids in order, trace, exception that cut it short -/
def runPreds : List Pred → PyVal → List Nat × List Ev × Option Exn
  | [], _ => ([], [], none)
  | p :: ps, x =>
    match p.k.call x with
    | .error e => ([], p.ev, some e)
    | .ok b =>
      let r := runPreds ps x
      (if b then r.1 else p.pid :: r.1, p.ev ++ r.2.1, r.2.2)

/-- the async predicate list: every one is awaited, in order -/
def runAPreds : List Pred → PyVal → List Nat × List Ev × Option Exn
  | [], _ => ([], [], none)
  | p :: ps, x =>
    match p.k.call x with
    | .error e => ([], [.apred p.pid], some e)
    | .ok b =>
      let r := runAPreds ps x
      (if b then r.1 else p.pid :: r.1, Ev.apred p.pid :: r.2.1, r.2.2)

/-- sync predicates, then (async mode only) async predicates -/
def contPreds (m : Mode) (preds apreds : List Pred) (x : PyVal) : List Nat × List Ev × Option Exn :=
  let r1 := runPreds preds x
  match r1.2.2 with
  | some e => ([], r1.2.1, some e)
  | none =>
    if m = .async then
      let r2 := runAPreds apreds x
      (r1.1 ++ r2.1, r1.2.1 ++ r2.2.1, r2.2.2)
    else (r1.1, r1.2.1, none)

def Proc.ev (p : Proc) : List Ev :=
  match p.k with
  | .user _ => [.proc p.pid]
  | _ => []

def runProcs : List Proc → PyVal → Except Exn PyVal × List Ev
  | [], x => (.ok x, [])
  | p :: ps, x =>
    match p.k.call x with
    | .error e => (.error e, p.ev)
    | .ok y => let r := runProcs ps y; (r.1, p.ev ++ r.2)

/-! ### gates: coercion or exact type -/

inductive Gate
  | acc (y : PyVal) (t : List Ev)
  | rej (k : ErrK) (t : List Ev)
  | exn (e : Exn) (t : List Ev)

def strLike (x : PyVal) : Option (List Nat) :=
  match x.unsub with
  | .str s => some s
  | _ => none

def intLike (x : PyVal) : Option Int :=
  match x.unsub with
  | .int i => some i
  | .bool b => some (if b then 1 else 0)
  | _ => none

def decOfInt (i : Int) : PyVal := .decimal (.fin (decide (i < 0)) i.natAbs 0)

/-- the library's default coercers (`coerce_decimal`, `coerce_uuid`, `coerce_date`,
    `coerce_datetime`, `tuple_or_list_to_tuple`) -/
def defaultCoerce (o : Oracle) (target : Ty) (x : PyVal) : Option PyVal :=
  match target with
  | .decimal =>
    if x.ty = .decimal then some x
    else match strLike x with
      | some s => o.decimal s
      | none => match intLike x with
        | some i => some (decOfInt i)
        | none => none
  | .uuid =>
    if x.ty = .uuid then some x
    else match x with
      | .str s => o.uuid s
      | _ => none
  | .date =>
    if x.ty = .date then some x
    else match strLike x with
      | some s => o.date s
      | none => none
  | .datetime =>
    if x.ty = .datetime then some x
    else match strLike x with
      | some s => o.datetime s
      | none => none
  | .tuple =>
    match x with
    | .tuple _ _ => some x
    | .list _ xs => some (.tuple 0 xs)
    | _ => none
  | _ => none

def defaultCompat : Ty → List Ty
  | .decimal => [.str, .int, .decimal]
  | .uuid => [.str, .uuid]
  | .date => [.str, .date]
  | .datetime => [.str, .datetime]
  | .tuple => [.list, .tuple]
  | _ => []

/-- `inst.__dict__` as a dict value -/
def instDict (doid : Nat) (names : List String) (vals : List PyVal) : PyVal :=
  .dict doid ((names.map (fun n => PyVal.str (n.toList.map Char.toNat))).zip vals)

/-- apply a coercer: `target` selects the default coercer, `dest` is the `dest_type` reported,
    `cls` the record class for `classOnly` -/
def applyCoerce (o : Oracle) (target dest : Ty) (cls : ClassId) (c : CoerceK) (x : PyVal) : Gate :=
  match c with
  | .dflt =>
    match defaultCoerce o target x with
    | some y => .acc y []
    | none => .rej (.coercion (defaultCompat target) dest) []
  | .classOnly =>
    match x with
    | .inst _ doid c' names vals =>
      if c' = cls then
        (if cls.kind == 2 || cls.slots then .acc (instDict 0 names vals) []
         else .acc (instDict doid names vals) [])
      else .rej (.coercion [.cls cls] dest) []
    | _ => .rej (.coercion [.cls cls] dest) []
  | .user cid compat f =>
    match f x with
    | some y => .acc y [.coerce cid]
    | none => .rej (.coercion compat dest) [.coerce cid]

/-- coercer if there is one, else exact type -/
def gate (o : Oracle) (target dest : Ty) (c : Option CoerceK) (x : PyVal) : Gate :=
  match c with
  | some c => applyCoerce o target dest default c x
  | none => if x.ty = target then .acc x [] else .rej (.type target) []

/-! ### scalars -/

def finishPreds (vid : Nat) (z : PyVal) (t : List Ev) (r : List Nat × List Ev × Option Exn) :
    Out × List Ev :=
  match r.2.2 with
  | some e => (.raised e, t ++ r.2.1)
  | none =>
    if r.1.isEmpty then (.valid z, t ++ r.2.1)
    else (.invalid (.mk (.preds r.1) z vid []), t ++ r.2.1)

def scalarStep (o : Oracle) (m : Mode) (vid : Nat) (target : Ty) (c : Option CoerceK)
    (pre : List Proc) (preds apreds : List Pred) (x : PyVal) : Out × List Ev :=
  if m = .sync ∧ apreds ≠ [] then (.raised .assertion, [])
  else
    match gate o target target c x with
    | .exn e t => (.raised e, t)
    | .rej k t => (.invalid (.mk k x vid []), t)
    | .acc y t =>
      match runProcs pre y with
      | (.error e, t2) => (.raised e, t ++ t2)
      | (.ok z, t2) => finishPreds vid z (t ++ t2) (contPreds m preds apreds z)

def equalsStep (vid : Nat) (mt : PyVal) (pre : List Proc) (pid : Nat) (x : PyVal) : Out × List Ev :=
  if mt.ty = x.ty then
    match runProcs pre x with
    | (.error e, t) => (.raised e, t)
    | (.ok z, t) =>
      match pyEqX z mt with
      | .error e => (.raised e, t)
      | .ok true => (.valid z, t)
      | .ok false => (.invalid (.mk (.preds [pid]) z vid []), t)
  else (.invalid (.mk (.type mt.ty) x vid []), [])

def noneStep (o : Oracle) (vid : Nat) (c : Option CoerceK) (x : PyVal) : Out × List Ev :=
  match c with
  | some c =>
    match applyCoerce o .none .none default c x with
    | .acc _ t => (.valid .none, t)
    | .rej k t => (.invalid (.mk k x vid []), t)
    | .exn e t => (.raised e, t)
  | none =>
    match x with
    | .none => (.valid .none, [])
    | _ => (.invalid (.mk (.type .none) x vid []), [])

def isDictStep (vid : Nat) (x : PyVal) : Out × List Ev :=
  if x.baseTy = .dict then (.valid x, []) else (.invalid (.mk (.type .dict) x vid []), [])

/-! ### sequences: list, set, uniform tuple -/

structure LoopR where
  ws : List PyVal
  es : List (Nat × Inv)
  t : List Ev
  r : Option Exn
deriving Inhabited

/-- the item loop: every element is validated; `hashReq` (sets) raises `TypeError` when an
    unhashable payload is added (payloads are only added while no error has been seen) -/
def loopItems (ev : Ev1) (hashReq : Bool) : List PyVal → Nat → Bool → Option LoopR
  | [], _, _ => some ⟨[], [], [], none⟩
  | x :: xs, i, noErr =>
    match ev x with
    | none => none
    | some (.raised e, t) => some ⟨[], [], t, some e⟩
    | some (.valid w, t) =>
      if hashReq && noErr && !hashable w then some ⟨[], [], t, some .typeError⟩
      else
        match loopItems ev hashReq xs (i + 1) noErr with
        | none => none
        | some r => some ⟨w :: r.ws, r.es, t ++ r.t, r.r⟩
    | some (.invalid e, t) =>
      match loopItems ev hashReq xs (i + 1) false with
      | none => none
      | some r => some ⟨r.ws, (i, e) :: r.es, t ++ r.t, r.r⟩

inductive SeqKind | list | set | utuple
deriving DecidableEq, Repr, Inhabited

def SeqKind.gateTy : SeqKind → Ty
  | .list => .list | .set => .set | .utuple => .tuple
/-- `dest_type` of the coercion error (`list` for tuples, as the code has it) -/
def SeqKind.destTy : SeqKind → Ty
  | .list => .list | .set => .set | .utuple => .list

def SeqKind.build : SeqKind → List PyVal → PyVal
  | .list, ws => .list 0 ws
  | .set, ws => .set 0 (dedup ws)
  | .utuple, ws => .tuple 0 ws

def finishSeq (k : SeqKind) (vid : Nat) (y : PyVal) (r : LoopR) : Out :=
  match r.r with
  | some e => .raised e
  | none =>
    if r.es.isEmpty then .valid (k.build r.ws)
    else
      match k with
      | .set => .invalid (.mk .set y vid (r.es.map Prod.snd))
      | _ => .invalid (.mk (.index (r.es.map Prod.fst)) y vid (r.es.map Prod.snd))

/-- everything `seqStep` does before looking at an element: guard, gate, container predicates.
    `inl` = the result is already decided (no element is validated); `inr (y, xs, t)` = go on with
    the coerced container `y`, its elements `xs`, trace so far `t`. -/
def seqPre (k : SeqKind) (o : Oracle) (m : Mode) (vid : Nat) (preds apreds : List Pred)
    (c : Option CoerceK) (x : PyVal) : (Out × List Ev) ⊕ (PyVal × List PyVal × List Ev) :=
  if m = .sync ∧ apreds ≠ [] then .inl (.raised .assertion, [])
  else
    match gate o k.gateTy k.destTy c x with
    | .exn e t => .inl (.raised e, t)
    | .rej ek t => .inl (.invalid (.mk ek x vid []), t)
    | .acc y t =>
      match contPreds m preds apreds y with
      | (_, t2, some e) => .inl (.raised e, t ++ t2)
      | (f, t2, none) =>
        if !f.isEmpty then .inl (.invalid (.mk (.preds f) y vid []), t ++ t2)
        else
          match pyIter y with
          | none => .inl (.raised .typeError, t ++ t2)
          | some xs => .inr (y, xs, t ++ t2)

def seqStep (k : SeqKind) (o : Oracle) (m : Mode) (vid : Nat) (preds apreds : List Pred)
    (c : Option CoerceK) (ev : Ev1) (x : PyVal) : Res :=
  match seqPre k o m vid preds apreds c x with
  | .inl r => some r
  | .inr (y, xs, t) =>
    match loopItems ev (k == .set) xs 0 true with
    | none => none
    | some r => some (finishSeq k vid y r, t ++ r.t)

/-! ### n-tuples -/

/-- `zip(field validators, values)` -/
def loopFields : List Ev1 → List PyVal → Nat → Option LoopR
  | ev :: evs, x :: xs, i =>
    match ev x with
    | none => none
    | some (.raised e, t) => some ⟨[], [], t, some e⟩
    | some (.valid w, t) =>
      match loopFields evs xs (i + 1) with
      | none => none
      | some r => some ⟨w :: r.ws, r.es, t ++ r.t, r.r⟩
    | some (.invalid e, t) =>
      match loopFields evs xs (i + 1) with
      | none => none
      | some r => some ⟨r.ws, (i, e) :: r.es, t ++ r.t, r.r⟩
  | _, _, _ => some ⟨[], [], [], none⟩

def runObjCheck (oc : Option ObjCheck) (vid : Nat) (obj : PyVal) : Out × List Ev :=
  match oc with
  | none => (.valid obj, [])
  | some c =>
    match c.f obj with
    | none => (.valid obj, [.oc c.id])
    | some e => (.invalid (.mk (.custom e) obj vid []), [.oc c.id])

def ntuplePre (o : Oracle) (vid : Nat) (c : Option CoerceK) (lenPid : Nat) (arity : Nat) (x : PyVal) :
    (Out × List Ev) ⊕ (PyVal × List PyVal × List Ev) :=
  match gate o .tuple .list c x with
  | .exn e t => .inl (.raised e, t)
  | .rej ek t => .inl (.invalid (.mk ek x vid []), t)
  | .acc y t =>
    match pyLen y with
    | none => .inl (.raised .typeError, t)
    | some n =>
      if n ≠ arity then .inl (.invalid (.mk (.preds [lenPid]) y vid []), t)
      else
        match pyIter y with
        | none => .inl (.raised .typeError, t)
        | some xs => .inr (y, xs, t)

def ntupleFinish (vid : Nat) (oc : Option ObjCheck) (y : PyVal) (t : List Ev) (r : LoopR) :
    Out × List Ev :=
  match r.r with
  | some e => (.raised e, t ++ r.t)
  | none =>
    if !r.es.isEmpty then
      (.invalid (.mk (.index (r.es.map Prod.fst)) y vid (r.es.map Prod.snd)), t ++ r.t)
    else
      let oc' := runObjCheck oc vid (.tuple 0 r.ws)
      (oc'.1, t ++ r.t ++ oc'.2)

def ntupleStep (o : Oracle) (vid : Nat) (oc : Option ObjCheck) (c : Option CoerceK)
    (lenPid : Nat) (evs : List Ev1) (x : PyVal) : Res :=
  match ntuplePre o vid c lenPid evs.length x with
  | .inl r => some r
  | .inr (y, xs, t) =>
    match loopFields evs xs 0 with
    | none => none
    | some r => some (ntupleFinish vid oc y t r)

/-! ### maps -/

structure MapR where
  out : List (PyVal × PyVal)
  ks : List PyVal
  shape : List (Bool × Bool)
  errs : List Inv
  t : List Ev
  r : Option Exn
deriving Inhabited

/-- every key and every value is validated; `acc` is the dict built so far -/
def mapLoop (evk evv : Ev1) : List (PyVal × PyVal) → List (PyVal × PyVal) → Option MapR
  | [], acc => some ⟨acc, [], [], [], [], none⟩
  | (k, v) :: rest, acc =>
    match evk k with
    | none => none
    | some (.raised e, t) => some ⟨acc, [], [], [], t, some e⟩
    | some (ko, tk) =>
      match evv v with
      | none => none
      | some (.raised e, t) => some ⟨acc, [], [], [], tk ++ t, some e⟩
      | some (vo, tv) =>
        match ko, vo with
        | .valid kw, .valid vw =>
          if !hashable kw then some ⟨acc, [], [], [], tk ++ tv, some .typeError⟩
          else
            match mapLoop evk evv rest (dictSet acc kw vw) with
            | none => none
            | some r => some { r with t := tk ++ tv ++ r.t }
        | _, _ =>
          let ke := match ko with | .invalid e => [e] | _ => []
          let ve := match vo with | .invalid e => [e] | _ => []
          match mapLoop evk evv rest acc with
          | none => none
          | some r =>
            some { r with ks := k :: r.ks, shape := (!ke.isEmpty, !ve.isEmpty) :: r.shape,
                          errs := ke ++ ve ++ r.errs, t := tk ++ tv ++ r.t }

def dictItems : PyVal → Option (List (PyVal × PyVal))
  | .dict _ kvs => some kvs
  | .sub _ v => dictItems v
  | _ => none

def mapPre (o : Oracle) (m : Mode) (vid : Nat) (preds apreds : List Pred) (c : Option CoerceK)
    (x : PyVal) : (Out × List Ev) ⊕ (PyVal × List (PyVal × PyVal) × List Ev) :=
  if m = .sync ∧ apreds ≠ [] then .inl (.raised .assertion, [])
  else
    match gate o .dict .dict c x with
    | .exn e t => .inl (.raised e, t)
    | .rej ek t => .inl (.invalid (.mk ek x vid []), t)
    | .acc y t =>
      match contPreds m preds apreds y with
      | (_, t2, some e) => .inl (.raised e, t ++ t2)
      | (f, t2, none) =>
        if !f.isEmpty then .inl (.invalid (.mk (.preds f) y vid []), t ++ t2)
        else
          match dictItems y with
          | none => .inl (.raised .attributeError, t ++ t2)
          | some kvs => .inr (y, kvs, t ++ t2)

def mapFinish (vid : Nat) (y : PyVal) (t : List Ev) (r : MapR) : Out × List Ev :=
  match r.r with
  | some e => (.raised e, t ++ r.t)
  | none =>
    if r.ks.isEmpty then (.valid (.dict 0 r.out), t ++ r.t)
    else (.invalid (.mk (.map r.ks r.shape) y vid r.errs), t ++ r.t)

def mapStep (o : Oracle) (m : Mode) (vid : Nat) (preds apreds : List Pred) (c : Option CoerceK)
    (evk evv : Ev1) (x : PyVal) : Res :=
  match mapPre o m vid preds apreds c x with
  | .inl r => some r
  | .inr (y, kvs, t) =>
    match mapLoop evk evv kvs [] with
    | none => none
    | some r => some (mapFinish vid y t r)

/-! ### record-shaped validators -/

structure RecR where
  /-- per declared key: the child's payload, or `none` when an optional key is absent -/
  got : List (Option PyVal)
  ks : List PyVal
  errs : List Inv
  t : List Ev
  r : Option Exn
deriving Inhabited

/-- the per-key loop shared by all five record-shaped validators -/
def recLoop (vid : Nat) (dataVal : PyVal) (data : List (PyVal × PyVal)) :
    List Ev1 → List PyVal → List Bool → Option RecR
  | ev :: evs, k :: ks, req :: reqs =>
    match dictGet data k with
    | none =>
      match recLoop vid dataVal data evs ks reqs with
      | none => none
      | some r =>
        if req then some { r with got := none :: r.got, ks := k :: r.ks,
                                  errs := .mk .missingKey dataVal vid [] :: r.errs }
        else some { r with got := none :: r.got }
    | some xv =>
      match ev xv with
      | none => none
      | some (.raised e, t) => some ⟨[], [], [], t, some e⟩
      | some (.valid w, t) =>
        match recLoop vid dataVal data evs ks reqs with
        | none => none
        | some r => some { r with got := some w :: r.got, t := t ++ r.t }
      | some (.invalid e, t) =>
        match recLoop vid dataVal data evs ks reqs with
        | none => none
        | some r => some { r with got := none :: r.got, ks := k :: r.ks, errs := e :: r.errs,
                                  t := t ++ r.t }
  | _, _, _ => some ⟨[], [], [], [], none⟩

/-- the gate of each record-shaped validator: yields the value later stages hold (`dataVal`) -/
def recGate (o : Oracle) (cfg : RecCfg) (x : PyVal) : Gate :=
  match cfg.kind with
  | .record => if x.baseTy = .dict then .acc x [] else .rej (.type .dict) []
  | .dictAny => if x.ty = .dict then .acc x [] else .rej (.type .dict) []
  | .typeddict =>
    match cfg.coerce with
    | some c => applyCoerce o .dict .dict cfg.cls c x
    | none => if x.ty = .dict then .acc x [] else .rej (.type .dict) []
  | _ =>
    match cfg.coerce with
    | some c => applyCoerce o .dict .dict cfg.cls c x
    | none =>
      if x.ty = .dict then .acc x []
      else
        match x with
        | .inst _ doid c' names vals =>
          if c' = cfg.cls then
            (if cfg.kind = .namedtuple || cfg.cls.slots then .acc (instDict 0 names vals) []
             else .acc (instDict doid names vals) [])
          else .rej (.coercion [.dict, .cls cfg.cls] (.cls cfg.cls)) []
        | _ => .rej (.coercion [.dict, .cls cfg.cls] (.cls cfg.cls)) []

/-- first undeclared key, if any -/
def hasUnknownKey (declared : List PyVal) (data : List (PyVal × PyVal)) : Bool :=
  data.any (fun p => !memL p.1 declared)

def keyStr (s : String) : PyVal := .str (s.toList.map Char.toNat)

/-- `cls(**success_dict)`: absent fields take the class's default -/
def construct (cfg : RecCfg) (present : List (PyVal × PyVal)) : PyVal :=
  .inst 0 0 cfg.cls cfg.fieldNames
    ((cfg.fieldNames.zip cfg.defaults).map (fun nd =>
      match dictGet present (keyStr nd.1) with
      | some v => v
      | none => nd.2.getD .none))

/-- the object built from the per-key payloads -/
def recBuild (cfg : RecCfg) (got : List (Option PyVal)) : PyVal :=
  match cfg.kind with
  | .record => cfg.into (got.map (fun g => g.getD .nothing))
  | .dictAny | .typeddict =>
    .dict 0 ((cfg.keys.zip got).filterMap (fun kg => kg.2.map (fun w => (kg.1, w))))
  | _ =>
    construct cfg ((cfg.keys.zip got).filterMap (fun kg => kg.2.map (fun w => (kg.1, w))))

/-- guard, gate and unknown-key scan: everything before a declared key's value is validated -/
def recPre (o : Oracle) (m : Mode) (vid : Nat) (cfg : RecCfg) (x : PyVal) :
    (Out × List Ev) ⊕ (PyVal × List (PyVal × PyVal) × List Ev) :=
  if m = .sync ∧ cfg.aoc.isSome then .inl (.raised .assertion, [])
  else
    match recGate o cfg x with
    | .exn e t => .inl (.raised e, t)
    | .rej ek t => .inl (.invalid (.mk ek x vid []), t)
    | .acc y t =>
      match dictItems y with
      | none => .inl (.raised .typeError, t)
      | some data =>
        if cfg.failUnknown && hasUnknownKey cfg.keys data then
          .inl (.invalid (.mk (.extraKeys cfg.keys) y vid []), t)
        else .inr (y, data, t)

/-- async whole-object check (async mode only) -/
def runAObjCheck (m : Mode) (aoc : Option ObjCheck) (vid : Nat) (obj : PyVal) : Out × List Ev :=
  match m, aoc with
  | .async, some a =>
    match a.f obj with
    | none => (.valid obj, [.aoc a.id])
    | some e => (.invalid (.mk (.custom e) obj vid []), [.aoc a.id])
  | _, _ => (.valid obj, [])

def recFinish (m : Mode) (vid : Nat) (cfg : RecCfg) (y : PyVal) (t : List Ev) (r : RecR) :
    Out × List Ev :=
  match r.r with
  | some e => (.raised e, t ++ r.t)
  | none =>
    if !r.ks.isEmpty then (.invalid (.mk (.keys r.ks) y vid r.errs), t ++ r.t)
    else
      let obj := recBuild cfg r.got
      let ti := if cfg.kind = .record then [Ev.into cfg.intoId] else []
      let oc' := runObjCheck cfg.oc vid obj
      match oc'.1 with
      | .valid _ =>
        let a := runAObjCheck m cfg.aoc vid obj
        (a.1, t ++ r.t ++ ti ++ oc'.2 ++ a.2)
      | other => (other, t ++ r.t ++ ti ++ oc'.2)

def recordStep (o : Oracle) (m : Mode) (vid : Nat) (cfg : RecCfg) (evs : List Ev1) (x : PyVal) :
    Res :=
  match recPre o m vid cfg x with
  | .inl r => some r
  | .inr (y, data, t) =>
    match recLoop vid y data evs cfg.keys cfg.reqs with
    | none => none
    | some r => some (recFinish m vid cfg y t r)

/-! ### unions and wrappers -/

/-- try the variants in order; stop at the first that accepts -/
def unionLoop (x : PyVal) : List Ev1 → Option (Option PyVal × List Inv × List Ev × Option Exn)
  | [] => some (none, [], [], none)
  | ev :: evs =>
    match ev x with
    | none => none
    | some (.raised e, t) => some (none, [], t, some e)
    | some (.valid w, t) => some (some w, [], t, none)
    | some (.invalid e, t) =>
      match unionLoop x evs with
      | none => none
      | some (w, es, t', r) => some (w, e :: es, t ++ t', r)

def unionStep (vid : Nat) (evs : List Ev1) (x : PyVal) : Res :=
  match unionLoop x evs with
  | none => none
  | some (_, _, t, some e) => some (.raised e, t)
  | some (some w, _, t, none) => some (.valid w, t)
  | some (none, es, t, none) => some (.invalid (.mk .union x vid es), t)

def maybeStep (vid : Nat) (ev : Ev1) (x : PyVal) : Res :=
  match x with
  | .nothing => some (.valid .nothing, [])
  | .just _ v =>
    match ev v with
    | none => none
    | some (.valid w, t) => some (.valid (.just 0 w), t)
    | some (.invalid e, t) => some (.invalid (.mk .container x vid [e]), t)
    | some (.raised e, t) => some (.raised e, t)
  | _ => some (.invalid (.mk (.type .maybeAny) x vid []), [])

def knrStep (ev : Ev1) (x : PyVal) : Res :=
  match ev x with
  | none => none
  | some (.valid w, t) => some (.valid (.just 0 w), t)
  | some other => some other

def userStep (vid : Nat) (m : Mode) (ev : Ev1) (x : PyVal) : Res :=
  match ev x with
  | none => none
  | some (out, t) => some (out, Ev.uv vid m :: t)

/-! ### tying the knot -/

def run (o : Oracle) (env : Nat → V) (m : Mode) : Nat → V → PyVal → Res
  | 0, _, _ => none
  | n + 1, v, x =>
    match v with
    | .scalar vid tg c pre ps aps => some (scalarStep o m vid tg c pre ps aps x)
    | .equals vid mt pre pid => some (equalsStep vid mt pre pid x)
    | .noneV vid c => some (noneStep o vid c x)
    | .always _ => some (.valid x, [])
    | .isDict vid => some (isDictStep vid x)
    | .list vid item ps aps c => seqStep .list o m vid ps aps c (run o env m n item) x
    | .set vid item ps aps c => seqStep .set o m vid ps aps c (run o env m n item) x
    | .utuple vid item ps aps c => seqStep .utuple o m vid ps aps c (run o env m n item) x
    | .ntuple vid fs oc c lp => ntupleStep o vid oc c lp (fs.map (run o env m n)) x
    | .map vid kv vv ps aps c => mapStep o m vid ps aps c (run o env m n kv) (run o env m n vv) x
    | .record vid cfg vs => recordStep o m vid cfg (vs.map (run o env m n)) x
    | .union vid vs => unionStep vid (vs.map (run o env m n)) x
    | .optional vid nv inner => unionStep vid [run o env m n nv, run o env m n inner] x
    | .maybe vid inner => maybeStep vid (run o env m n inner) x
    | .lazy _ ref => run o env m n (env ref) x
    | .knr _ inner => knrStep (run o env m n inner) x
    | .user vid inner => userStep vid m (run o env m n inner) x

end Koda
