/-
  KodaModel.PyList — the Python subset in which `ListValidator._validate_to_tuple` and
  `_validate_to_tuple_async` (koda_validate/list.py) are written, with a big-step interpreter.
  `harness/pysrc.py` translates the current source of both methods (`Generated/ListSrc.lean`);
  `Properties/C03Src.lean` proves that running them is the model's `seqStep .list`, for every
  configuration (coercer or not, any container predicates, any async predicates — `None` and `[]` told
  apart where the source can), every item validator and every input.

  The item validator is its evaluator (`Ev1`, `none` = does not return) as wrapped by
  `_wrap_sync_validator` / `_wrap_async_validator`: calling it yields the pair `(is_valid, payload-or-Invalid)`.
-/
import KodaModel.Eval

namespace Koda

inductive LVar
  | coerced | coercedVal | listErrors | returnList | indexErrs | i | item | isValid | itemResult
  | predicateErrors | pred | predAsync
deriving DecidableEq, Repr, Inhabited

inductive LSelf
  | coerce | predicates | predicatesAsync | disallowSync | cls | wrappedSync | wrappedAsync
  | other (name : String)
deriving DecidableEq, Repr, Inhabited

inductive LAttr | isJust | valA | compatibleTypes | other (name : String)
deriving DecidableEq, Repr, Inhabited

inductive LMeth | call | validateAsync | other (name : String)
deriving DecidableEq, Repr, Inhabited

inductive LExp
  | var (v : LVar)
  | self
  | val                                      -- the parameter `val`
  | selfAttr (a : LSelf)
  | attr (e : LExp) (a : LAttr)
  | walrus (v : LVar) (e : LExp)             -- `(v := e)`
  | call1 (f : LExp) (a : LExp)              -- `f(a)`
  | meth (recv : LExp) (m : LMeth) (a : LExp) -- `recv.__call__(a)` / `recv.validate_async(a)`
  | typeIsList (e : LExp)                    -- `type(e) is list`
  | not (e : LExp)
  | isNotNone (e : LExp)
  | listTy                                   -- the name `list`
  | mkCoercionErr (compat dest : LExp)
  | mkTypeErr (t : LExp)
  | mkPredErrs (e : LExp)
  | mkIndexErrs (e : LExp)
  | mkInvalid (err val slf : LExp)
  | warn (e : LExp)                          -- `_async_predicates_warning(e)`
  | listComp (elt : LExp) (v : LVar) (iter : LExp) (cond : LExp)
  | emptyList
  | emptyDict
  | enumerate (e : LExp)
  | pair (a b : LExp)
  | bool (b : Bool)
  | await (e : LExp)
  | unsupported (why : String)
deriving Repr, Inhabited

inductive LStmt
  | assign (v : LVar) (e : LExp)
  | assign2 (v w : LVar) (e : LExp)          -- `v, w = e`
  | ite (c : LExp) (t e : List LStmt)
  | forIn (v : LVar) (iter : LExp) (body : List LStmt)
  | forIn2 (v w : LVar) (iter : LExp) (body : List LStmt)   -- `for v, w in enumerate(..)`
  | ret (e : LExp)
  | expr (e : LExp)
  | setItem (d : LVar) (k v : LExp)          -- `d[k] = v`
  | append (l : LVar) (e : LExp)
  | extend (l : LVar) (e : LExp)
  | unsupported (why : String)
deriving Repr, Inhabited

structure ListCfg where
  vid : Nat
  item : Ev1
  coerce : Option CoerceK
  preds : Option (List Pred)
  apreds : Option (List Pred)

inductive LV
  | py (v : PyVal)
  | bool (b : Bool)
  | none
  | self
  | cls
  | listTy
  | coercer (c : CoerceK)
  | maybe (m : Option PyVal)
  | preds (ps : List Pred) | pred (p : Pred)
  | apreds (ps : List Pred) | apred (p : Pred)
  | tys (ts : List Ty)
  | errK (k : ErrK)
  | idxErrK (es : List (Nat × Inv))
  | invalid (e : Inv)
  | pair (a b : LV)
  | payloads (ws : List PyVal)             -- `return_list`
  | idxErrs (es : List (Nat × Inv))        -- `index_errs`
  | nat (n : Nat)
  | enumItems (xs : List PyVal)
  | wrapped                                 -- the wrapped item validator
deriving Inhabited

structure LEnv where
  coerced : LV := .none
  coercedVal : LV := .none
  listErrors : LV := .none
  returnList : LV := .none
  indexErrs : LV := .none
  i : LV := .none
  item : LV := .none
  isValid : LV := .none
  itemResult : LV := .none
  predicateErrors : LV := .none
  pred : LV := .none
  predAsync : LV := .none

def LEnv.get (e : LEnv) : LVar → LV
  | .coerced => e.coerced | .coercedVal => e.coercedVal | .listErrors => e.listErrors
  | .returnList => e.returnList | .indexErrs => e.indexErrs | .i => e.i | .item => e.item
  | .isValid => e.isValid | .itemResult => e.itemResult | .predicateErrors => e.predicateErrors
  | .pred => e.pred | .predAsync => e.predAsync

def LEnv.set (e : LEnv) (v : LVar) (d : LV) : LEnv :=
  match v with
  | .coerced => { e with coerced := d } | .coercedVal => { e with coercedVal := d }
  | .listErrors => { e with listErrors := d } | .returnList => { e with returnList := d }
  | .indexErrs => { e with indexErrs := d } | .i => { e with i := d } | .item => { e with item := d }
  | .isValid => { e with isValid := d } | .itemResult => { e with itemResult := d }
  | .predicateErrors => { e with predicateErrors := d } | .pred => { e with pred := d }
  | .predAsync => { e with predAsync := d }

inductive LErr
  | exn (e : Exn)
  | diverge
  | stuck (why : String)
deriving Inhabited

structure LSt where
  env : LEnv
  tr : List Ev

abbrev LM (α : Type) := Except (LErr × List Ev) (α × LSt)

def ltruthy : LV → Option Bool
  | .bool b => some b
  | .none => some false
  | .coercer _ => some true
  | .preds ps => some (!ps.isEmpty)
  | .apreds ps => some (!ps.isEmpty)
  | .idxErrs es => some (!es.isEmpty)
  | .payloads ws => some (!ws.isEmpty)
  | _ => Option.none

def loptList {α} (f : List α → LV) : Option (List α) → LV
  | some l => f l
  | none => .none

/-- calling the list's coercer (target and destination type `list`) -/
def callListCoercer (o : Oracle) (c : CoerceK) (x : PyVal) : Option PyVal × List Ev :=
  match applyCoerce o .list .list default c x with
  | .acc y t => (some y, t)
  | .rej _ t => (none, t)
  | .exn _ t => (none, t)

def listCompat : CoerceK → List Ty
  | .dflt => defaultCompat .list
  | .classOnly => [.cls default]
  | .user _ compat _ => compat

def lselfAttr (cfg : ListCfg) : LSelf → Option LV
  | .coerce => some (match cfg.coerce with | some c => .coercer c | none => .none)
  | .predicates => some (loptList .preds cfg.preds)
  | .predicatesAsync => some (loptList .apreds cfg.apreds)
  -- `self._disallow_synchronous = bool(predicates_async)` (pinned by `src_list_init`)
  | .disallowSync => some (.bool (match cfg.apreds with | some l => !l.isEmpty | none => false))
  | .cls => some .cls
  | .wrappedSync => some .wrapped
  | .wrappedAsync => some .wrapped
  | .other _ => Option.none

/-- one pass of `[<elt> for v in items if <cond>]` -/
def lcompFold (evalCond evalElt : LSt → LM LV) (v : LVar) : List LV → LM (List LV) → LM (List LV)
  | [], acc => acc
  | item :: rest, acc =>
    match acc with
    | .error err => .error err
    | .ok (kept, st) =>
      match evalCond { st with env := st.env.set v item } with
      | .error err => .error err
      | .ok (cd, st2) =>
        match ltruthy cd with
        | none => .error (.stuck "truth value", st2.tr)
        | some true =>
          (match evalElt st2 with
           | .error err => .error err
           | .ok (ed, st3) => lcompFold evalCond evalElt v rest (.ok (kept ++ [ed], st3)))
        | some false => lcompFold evalCond evalElt v rest (.ok (kept, st2))

inductive LFlow
  | next (st : LSt)
  | returned (d : LV) (st : LSt)

/-- `for v in items: <body>` -/
def lforFold (execBody : LSt → Except (LErr × List Ev) LFlow) (v : LVar) : List LV → LSt → Except (LErr × List Ev) LFlow
  | [], st => .ok (.next st)
  | item :: rest, st =>
    match execBody { st with env := st.env.set v item } with
    | .ok (.next st') => lforFold execBody v rest st'
    | other => other

/-- `for v, w in enumerate(items): <body>`, counting from `n` -/
def lforFold2 (execBody : LSt → Except (LErr × List Ev) LFlow) (v w : LVar) : List PyVal → Nat → LSt → Except (LErr × List Ev) LFlow
  | [], _, st => .ok (.next st)
  | x :: rest, n, st =>
    match execBody { st with env := (st.env.set v (.nat n)).set w (.py x) } with
    | .ok (.next st') => lforFold2 execBody v w rest (n + 1) st'
    | other => other

def LExp.eval (o : Oracle) (cfg : ListCfg) (x : PyVal) (st : LSt) : LExp → LM LV
  | .var v => .ok (st.env.get v, st)
  | .self => .ok (.self, st)
  | .val => .ok (.py x, st)
  | .selfAttr a => (match lselfAttr cfg a with | some r => .ok (r, st) | none => .error (.stuck "self attribute", st.tr))
  | .attr e a =>
    match e.eval o cfg x st with
    | .error err => .error err
    | .ok (d, st) =>
      match d, a with
      | .maybe m, .isJust => .ok (.bool m.isSome, st)
      | .maybe (some y), .valA => .ok (.py y, st)
      | .coercer c, .compatibleTypes => .ok (.tys (listCompat c), st)
      | _, _ => .error (.stuck "attribute", st.tr)
  | .walrus v e =>
    match e.eval o cfg x st with
    | .error err => .error err
    | .ok (d, st) => .ok (d, { st with env := st.env.set v d })
  | .call1 f a =>
    match f.eval o cfg x st with
    | .error err => .error err
    | .ok (fd, st) =>
      match a.eval o cfg x st with
      | .error err => .error err
      | .ok (ad, st) =>
        match fd, ad with
        | .coercer c, .py y =>
          let r := callListCoercer o c y
          .ok (.maybe r.1, { st with tr := st.tr ++ r.2 })
        | .pred p, .py y =>
          (match p.k.call y with
           | .ok b => .ok (.bool b, { st with tr := st.tr ++ p.ev })
           | .error e => .error (.exn e, st.tr ++ p.ev))
        | .wrapped, .py y =>
          (match cfg.item y with
           | none => .error (.diverge, st.tr)
           | some (.raised e, t) => .error (.exn e, st.tr ++ t)
           | some (.valid w, t) => .ok (.pair (.bool true) (.py w), { st with tr := st.tr ++ t })
           | some (.invalid e, t) => .ok (.pair (.bool false) (.invalid e), { st with tr := st.tr ++ t }))
        | _, _ => .error (.stuck "call", st.tr)
  | .meth recv m a =>
    match recv.eval o cfg x st with
    | .error err => .error err
    | .ok (rd, st) =>
      match a.eval o cfg x st with
      | .error err => .error err
      | .ok (ad, st) =>
        match rd, m, ad with
        | .pred p, .call, .py y =>
          (match p.k.call y with
           | .ok b => .ok (.bool b, { st with tr := st.tr ++ p.ev })
           | .error e => .error (.exn e, st.tr ++ p.ev))
        | .apred p, .validateAsync, .py y =>
          (match p.k.call y with
           | .ok b => .ok (.bool b, { st with tr := st.tr ++ [.apred p.pid] })
           | .error e => .error (.exn e, st.tr ++ [.apred p.pid]))
        | _, _, _ => .error (.stuck "method call", st.tr)
  | .typeIsList e =>
    match e.eval o cfg x st with
    | .error err => .error err
    | .ok (.py y, st) => .ok (.bool (y.ty == .list), st)
    | .ok (_, st) => .error (.stuck "type()", st.tr)
  | .not e =>
    match e.eval o cfg x st with
    | .error err => .error err
    | .ok (d, st) => (match ltruthy d with | some b => .ok (.bool (!b), st) | none => .error (.stuck "truth value", st.tr))
  | .isNotNone e =>
    match e.eval o cfg x st with
    | .error err => .error err
    | .ok (.none, st) => .ok (.bool false, st)
    | .ok (_, st) => .ok (.bool true, st)
  | .listTy => .ok (.listTy, st)
  | .mkCoercionErr compat dest =>
    match compat.eval o cfg x st with
    | .error err => .error err
    | .ok (cd, st) =>
      match dest.eval o cfg x st with
      | .error err => .error err
      | .ok (dd, st) =>
        (match cd, dd with
         | .tys ts, .listTy => .ok (.errK (.coercion ts .list), st)
         | _, _ => .error (.stuck "CoercionErr", st.tr))
  | .mkTypeErr t =>
    match t.eval o cfg x st with
    | .error err => .error err
    | .ok (.listTy, st) => .ok (.errK (.type .list), st)
    | .ok (_, st) => .error (.stuck "TypeErr", st.tr)
  | .mkPredErrs e =>
    match e.eval o cfg x st with
    | .error err => .error err
    | .ok (.preds ps, st) => .ok (.errK (.preds (ps.map (·.pid))), st)
    | .ok (_, st) => .error (.stuck "PredicateErrs", st.tr)
  | .mkIndexErrs e =>
    match e.eval o cfg x st with
    | .error err => .error err
    | .ok (.idxErrs es, st) => .ok (.idxErrK es, st)
    | .ok (_, st) => .error (.stuck "IndexErrs", st.tr)
  | .mkInvalid errE valE slfE =>
    match errE.eval o cfg x st with
    | .error e => .error e
    | .ok (ed, st) =>
      match valE.eval o cfg x st with
      | .error e => .error e
      | .ok (vd, st) =>
        match slfE.eval o cfg x st with
        | .error e => .error e
        | .ok (sd, st) =>
          (match ed, vd, sd with
           | .errK k, .py y, .self => .ok (.invalid (.mk k y cfg.vid []), st)
           | .idxErrK es, .py y, .self => .ok (.invalid (.mk (.index (es.map Prod.fst)) y cfg.vid (es.map Prod.snd)), st)
           | _, _, _ => .error (.stuck "Invalid", st.tr))
  | .warn e =>
    match e.eval o cfg x st with
    | .error err => .error err
    | .ok (_, st) => .error (.exn .assertion, st.tr)
  | .listComp elt v iter cond =>
    match iter.eval o cfg x st with
    | .error err => .error err
    | .ok (itd, st) =>
      match itd with
      | .preds ps =>
        (match lcompFold (fun st => cond.eval o cfg x st) (fun st => elt.eval o cfg x st) v (ps.map LV.pred) (.ok ([], st)) with
         | .error err => .error err
         | .ok (kept, st) =>
           let qs := kept.filterMap (fun d => match d with | .pred p => some p | .apred p => some p | _ => Option.none)
           if qs.length = kept.length then .ok (.preds qs, st) else .error (.stuck "comprehension element", st.tr))
      | _ => .error (.stuck "iteration", st.tr)
  | .emptyList => .ok (.payloads [], st)
  | .emptyDict => .ok (.idxErrs [], st)
  | .enumerate e =>
    match e.eval o cfg x st with
    | .error err => .error err
    | .ok (.py y, st) => (match pyIter y with | some xs => .ok (.enumItems xs, st) | none => .error (.exn .typeError, st.tr))
    | .ok (_, st) => .error (.stuck "enumerate", st.tr)
  | .pair a b =>
    match a.eval o cfg x st with
    | .error err => .error err
    | .ok (ad, st) =>
      match b.eval o cfg x st with
      | .error err => .error err
      | .ok (bd, st) => .ok (.pair ad bd, st)
  | .bool b => .ok (.bool b, st)
  | .await e => e.eval o cfg x st
  | .unsupported why => .error (.stuck why, st.tr)

mutual
def LStmt.exec (o : Oracle) (cfg : ListCfg) (x : PyVal) (st : LSt) : LStmt → Except (LErr × List Ev) LFlow
  | .assign v e =>
    match e.eval o cfg x st with
    | .error err => .error err
    | .ok (d, st) => .ok (.next { st with env := st.env.set v d })
  | .assign2 v w e =>
    match e.eval o cfg x st with
    | .error err => .error err
    | .ok (.pair a b, st) => .ok (.next { st with env := (st.env.set v a).set w b })
    | .ok (_, st) => .error (.stuck "unpacking", st.tr)
  | .ite c t e =>
    match c.eval o cfg x st with
    | .error err => .error err
    | .ok (d, st) =>
      match ltruthy d with
      | none => .error (.stuck "truth value", st.tr)
      | some true => LStmt.execL o cfg x st t
      | some false => LStmt.execL o cfg x st e
  | .forIn v iter body =>
    match iter.eval o cfg x st with
    | .error err => .error err
    | .ok (.apreds ps, st) => lforFold (fun st => LStmt.execL o cfg x st body) v (ps.map LV.apred) st
    | .ok (_, st) => .error (.stuck "iteration", st.tr)
  | .forIn2 v w iter body =>
    match iter.eval o cfg x st with
    | .error err => .error err
    | .ok (.enumItems xs, st) => lforFold2 (fun st => LStmt.execL o cfg x st body) v w xs 0 st
    | .ok (_, st) => .error (.stuck "iteration", st.tr)
  | .ret e =>
    match e.eval o cfg x st with
    | .error err => .error err
    | .ok (d, st) => .ok (.returned d st)
  | .expr e =>
    match e.eval o cfg x st with
    | .error err => .error err
    | .ok (_, st) => .ok (.next st)
  | .setItem d k v =>
    match k.eval o cfg x st with
    | .error err => .error err
    | .ok (kd, st) =>
      match v.eval o cfg x st with
      | .error err => .error err
      | .ok (vd, st) =>
        (match st.env.get d, kd, vd with
         | .idxErrs es, .nat n, .invalid e => .ok (.next { st with env := st.env.set d (.idxErrs (es ++ [(n, e)])) })
         | _, _, _ => .error (.stuck "item assignment", st.tr))
  | .append l e =>
    match e.eval o cfg x st with
    | .error err => .error err
    | .ok (d, st) =>
      (match st.env.get l, d with
       | .payloads ws, .py w => .ok (.next { st with env := st.env.set l (.payloads (ws ++ [w])) })
       | .preds ps, .apred p => .ok (.next { st with env := st.env.set l (.preds (ps ++ [p])) })
       | .payloads [], .apred p => .ok (.next { st with env := st.env.set l (.preds [p]) })
       | _, _ => .error (.stuck "append", st.tr))
  | .extend l e =>
    match e.eval o cfg x st with
    | .error err => .error err
    | .ok (d, st) =>
      (match st.env.get l, d with
       | .preds ps, .preds qs => .ok (.next { st with env := st.env.set l (.preds (ps ++ qs)) })
       | .payloads [], .preds qs => .ok (.next { st with env := st.env.set l (.preds qs) })
       | _, _ => .error (.stuck "extend", st.tr))
  | .unsupported why => .error (.stuck why, st.tr)
termination_by structural s => s
def LStmt.execL (o : Oracle) (cfg : ListCfg) (x : PyVal) (st : LSt) : List LStmt → Except (LErr × List Ev) LFlow
  | [] => .ok (.next st)
  | s :: rest =>
    match s.exec o cfg x st with
    | .error err => .error err
    | .ok (.next st) => LStmt.execL o cfg x st rest
    | .ok (.returned d st) => .ok (.returned d st)
termination_by structural l => l
end

/-- run a method body on input `x` -/
def runListMethod (o : Oracle) (cfg : ListCfg) (body : List LStmt) (x : PyVal) : Option (Out × List Ev) :=
  match LStmt.execL o cfg x { env := {}, tr := [] } body with
  | .error (.exn e, t) => some (.raised e, t)
  | .error (_, _) => none
  | .ok (.returned (.pair (.bool true) (.payloads ws)) st) => some (.valid (.list 0 ws), st.tr)
  | .ok (.returned (.pair (.bool false) (.invalid e)) st) => some (.invalid e, st.tr)
  | .ok _ => none

end Koda
