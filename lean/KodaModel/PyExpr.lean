/-
  KodaModel.PyExpr — a deep embedding of the small Python expression subset in which the built-in
  predicates and processors of koda_validate are written (`__call__` bodies of the classes in
  generic.py, string.py, dictionary.py), with an evaluator over the model's value universe.

  `harness/pysrc.py` translates the *current* source of every such class into a term of `PStmt`
  (`Generated/PredSrc.lean`, rewritten on every run); `Properties/C15Src.lean` proves, for every class,
  that evaluating the translated body is the model's `PredK.call` / `ProcK.call`.  A change to a
  predicate's source changes the generated term, and the theorem about it no longer checks.

  The meaning of the primitive operations (`<`, `==`, `%`, `len`, `in`, `str.strip`, …) is the model's
  (validated against CPython by the correspondence runs); the translator and this evaluator fix only
  how a body combines them.
-/
import KodaModel.Pred

namespace Koda

inductive CmpOp | lt | le | gt | ge | eq | ne | isin | isNot
deriving DecidableEq, Repr, Inhabited

inductive PExp
  | val                                   -- the argument of `__call__`
  | self (attr : String)                  -- `self.<attr>`
  | int (i : Int)
  | noneLit
  | cmp (op : CmpOp) (a b : PExp)
  | mod (a b : PExp)
  | len (a : PExp)
  | meth0 (recv : PExp) (name : String)              -- `recv.name()`
  | meth1 (recv : PExp) (name : String) (arg : PExp) -- `recv.name(arg)`
  | unsupported (why : String)
deriving Repr, Inhabited

inductive PStmt
  | ret (e : PExp)
  | ite (c : PExp) (t e : PStmt)
  | unsupported (why : String)
deriving Repr, Inhabited

/-- the object the body runs on: its attributes (Python values) and, for the regex predicates, the
    compiled pattern -/
structure SelfEnv where
  attr : String → PyVal
  pat : Option Pat := none

def truthy : PyVal → Except Exn Bool
  | .bool b => .ok b
  | .none => .ok false
  | _ => .error .other

def boolV (r : Except Exn Bool) : Except Exn PyVal := r.map PyVal.bool

def swapLt (a b : PyVal) : Except Exn Bool := pyLt b a
def swapLe (a b : PyVal) : Except Exn Bool := pyLe b a

/-- `recv.name()` for the three string methods the processors use -/
def callMeth0 (recv : PyVal) (name : String) : Except Exn PyVal :=
  if name = "strip" then ProcK.call .strip recv
  else if name = "upper" then ProcK.call .upper recv
  else if name = "lower" then ProcK.call .lower recv
  else .error .other

def PExp.eval (env : SelfEnv) (x : PyVal) : PExp → Except Exn PyVal
  | .val => .ok x
  | .self a => .ok (env.attr a)
  | .int i => .ok (.int i)
  | .noneLit => .ok .none
  -- `a % b == 0`: the model has the fused operation only
  | .cmp .eq (.mod a b) (.int 0) =>
    match a.eval env x, b.eval env x with
    | .ok va, .ok vb => boolV (modIsZero va vb)
    | .error e, _ => .error e
    | _, .error e => .error e
  -- `self.pattern.match(e) is not None`
  | .cmp .isNot (.meth1 (.self "pattern") "match" e) .noneLit =>
    match env.pat, e.eval env x with
    | some p, .ok v => boolV ((PredK.regex p).call v)
    | none, .ok _ => .error .other
    | _, .error e => .error e
  | .cmp op a b =>
    match a.eval env x, b.eval env x with
    | .ok va, .ok vb =>
      (match op with
       | .lt => boolV (pyLt va vb)
       | .le => boolV (pyLe va vb)
       | .gt => boolV (swapLt va vb)
       | .ge => boolV (swapLe va vb)
       | .eq => boolV (pyEqX va vb)
       | .ne => boolV ((pyEqX va vb).map not)
       | .isin =>
         (match vb with
          | .set _ vs => if !hashable va then .error .typeError else .ok (.bool (memL va vs))
          | _ => .error .other)
       | .isNot => .error .other)
    | .error e, _ => .error e
    | _, .error e => .error e
  | .mod _ _ => .error .other
  | .len a =>
    match a.eval env x with
    | .ok v => (match pyLen v with | some n => .ok (.int n) | none => .error .typeError)
    | .error e => .error e
  | .meth0 r name =>
    match r.eval env x with
    | .ok v => callMeth0 v name
    | .error e => .error e
  | .meth1 r name a =>
    match r.eval env x, a.eval env x with
    | .ok v, .ok w =>
      if name = "startswith" then boolV ((PredK.startsWith w).call v)
      else if name = "endswith" then boolV ((PredK.endsWith w).call v)
      else .error .other
    | .error e, _ => .error e
    | _, .error e => .error e
  | .unsupported _ => .error .other

def PStmt.eval (env : SelfEnv) (x : PyVal) : PStmt → Except Exn PyVal
  | .ret e => e.eval env x
  | .ite c t e =>
    match c.eval env x with
    | .error er => .error er
    | .ok v =>
      match truthy v with
      | .error er => .error er
      | .ok true => t.eval env x
      | .ok false => e.eval env x
  | .unsupported _ => .error .other

/-- look a class's translated `__call__` body up -/
def lookupSrc : List (String × PStmt) → String → PStmt
  | [], n => .unsupported ("no class " ++ n)
  | (k, s) :: rest, n => if k = n then s else lookupSrc rest n

end Koda
