/-
  KodaModel.PyWrap — the Python subset in which the small validators are written: `MaybeValidator`,
  `KeyNotRequired`, `Lazy`, `AlwaysValid`, `NoneValidator`, `IsDictValidator` (maybe.py, dictionary.py,
  generic.py, none.py), with an interpreter.  `harness/pysrc.py` translates their current source
  (`Generated/WrapSrc.lean`); `Properties/C05Wrap.lean` proves each equal to the model's step
  (`maybeStep`, `knrStep`, the wrapped validator itself for `Lazy`, `noneStep`, `isDictStep`, acceptance
  of everything for `AlwaysValid`).

  The wrapped validator is its evaluator (`Ev1`); it can be called as a plain `Validator` (`v(x)` /
  `await v.validate_async(x)` → a result object) or through `_wrap_sync_validator` / `_wrap_async_validator`
  (→ the pair `(is_valid, payload-or-Invalid)`).
-/
import KodaModel.Eval

namespace Koda

inductive WVar | result
deriving DecidableEq, Repr, Inhabited

inductive WSelf
  | validator | validatorSync | validatorAsync | coerce
  | other (name : String)
deriving DecidableEq, Repr, Inhabited

inductive WAttr | valA | isValid | isJust | compatibleTypes | validateAsync | other (name : String)
deriving DecidableEq, Repr, Inhabited

inductive WExp
  | val                                   -- the parameter (`val` / `data`)
  | self
  | var (v : WVar)
  | noneLit | bool (b : Bool)
  | nothing                               -- koda's `nothing`
  | selfAttr (a : WSelf)
  | attr (e : WExp) (a : WAttr)
  | is_ (a b : WExp)                      -- `a is b`
  | typeIsJust (e : WExp)                 -- `type(e) is Just`
  | isInstDict (e : WExp)                 -- `isinstance(e, dict)`
  | call0 (f : WExp)                      -- `f()`
  | call1 (f : WExp) (a : WExp)           -- `f(a)`
  | subscript (e : WExp) (i : Nat)
  | justOf (e : WExp)                     -- `Just(e)`
  | validOf (e : WExp)                    -- `Valid(e)`
  | pair (a b : WExp)
  | noneTy | dictTy | maybeAnyTy          -- `type(None)`, `dict`, `Maybe[Any]`
  | mkTypeErr (t : WExp)
  | mkContainerErr (e : WExp)
  | mkCoercionErr (compat dest : WExp)
  | mkInvalid (errE valE slfE : WExp)
  | await (e : WExp)
  | unsupported (why : String)
deriving Repr, Inhabited

inductive WStmt
  | assign (v : WVar) (e : WExp)
  | ite (c : WExp) (t e : List WStmt)
  | ret (e : WExp)
  | unsupported (why : String)
deriving Repr, Inhabited

structure WCfg where
  vid : Nat
  inner : Ev1                       -- the wrapped validator
  coerce : Option CoerceK := none   -- NoneValidator
  thunked : Bool := false           -- Lazy: `self.validator` is a thunk returning the validator

inductive WV
  | py (v : PyVal)
  | bool (b : Bool)
  | self
  | child                           -- the wrapped validator, as a `Validator`
  | thunk                           -- `Lazy.validator`: calling it yields the validator
  | boundAsync                      -- `<validator>.validate_async`
  | wrapped                         -- `_wrap_sync_validator(v)` / `_wrap_async_validator(v)`
  | coercer (c : CoerceK)
  | noCoercer
  | maybe (m : Option PyVal)
  | resObj (out : Out)
  | pair (a b : WV)
  | invalid (e : Inv)
  | errK (k : ErrK)
  | ty (t : Ty)
  | tys (ts : List Ty)
deriving Inhabited

inductive WErr
  | exn (e : Exn)
  | diverge
  | stuck (why : String)
deriving Inhabited

structure WSt where
  result : WV := .bool false
  tr : List Ev := []

abbrev WM (α : Type) := Except (WErr × List Ev) (α × WSt)

def wtruthy : WV → Option Bool
  | .bool b => some b
  | .coercer _ => some true
  | .noCoercer => some false
  | _ => Option.none

/-- calling the wrapped validator: as a `Validator` (result object) or through a wrapper (pair) -/
def wcallChild (ev : Ev1) (x : PyVal) (st : WSt) (asPair : Bool) : WM WV :=
  match ev x with
  | none => .error (.diverge, st.tr)
  | some (.raised e, t) => .error (.exn e, st.tr ++ t)
  | some (.valid w, t) =>
    .ok ((if asPair then .pair (.bool true) (.py w) else .resObj (.valid w)), { st with tr := st.tr ++ t })
  | some (.invalid e, t) =>
    .ok ((if asPair then .pair (.bool false) (.invalid e) else .resObj (.invalid e)), { st with tr := st.tr ++ t })

def callNoneCoercer (o : Oracle) (c : CoerceK) (x : PyVal) : Option PyVal × List Ev :=
  match applyCoerce o .none .none default c x with
  | .acc y t => (some y, t)
  | .rej _ t => (none, t)
  | .exn _ t => (none, t)

def noneCompat : CoerceK → List Ty
  | .dflt => defaultCompat .none
  | .classOnly => [.cls default]
  | .user _ compat _ => compat

def WExp.eval (o : Oracle) (cfg : WCfg) (x : PyVal) (st : WSt) : WExp → WM WV
  | .val => .ok (.py x, st)
  | .self => .ok (.self, st)
  | .var .result => .ok (st.result, st)
  | .noneLit => .ok (.py .none, st)
  | .bool b => .ok (.bool b, st)
  | .nothing => .ok (.py .nothing, st)
  | .selfAttr a =>
    (match a with
     | .validator => .ok ((if cfg.thunked then .thunk else .child), st)
     | .validatorSync => .ok (.wrapped, st)
     | .validatorAsync => .ok (.wrapped, st)
     | .coerce => .ok ((match cfg.coerce with | some c => .coercer c | none => .noCoercer), st)
     | .other _ => .error (.stuck "self attribute", st.tr))
  | .attr e a =>
    match e.eval o cfg x st with
    | .error err => .error err
    | .ok (d, st) =>
      (match d, a with
       | .py (.just _ v), .valA => .ok (.py v, st)
       | .resObj (.valid w), .valA => .ok (.py w, st)
       | .resObj (.valid _), .isValid => .ok (.bool true, st)
       | .resObj (.invalid _), .isValid => .ok (.bool false, st)
       | .maybe m, .isJust => .ok (.bool m.isSome, st)
       | .coercer c, .compatibleTypes => .ok (.tys (noneCompat c), st)
       | .child, .validateAsync => .ok (.boundAsync, st)
       | _, _ => .error (.stuck "attribute", st.tr))
  | .is_ a b =>
    match a.eval o cfg x st with
    | .error err => .error err
    | .ok (ad, st) =>
      match b.eval o cfg x st with
      | .error err => .error err
      | .ok (bd, st) =>
        (match ad, bd with
         | .py v, .py .nothing => .ok (.bool (match v with | .nothing => true | _ => false), st)
         | .py v, .py .none => .ok (.bool (match v with | .none => true | _ => false), st)
         | _, _ => .error (.stuck "is", st.tr))
  | .typeIsJust e =>
    match e.eval o cfg x st with
    | .error err => .error err
    | .ok (.py v, st) => .ok (.bool (v.ty == .just), st)
    | .ok (_, st) => .error (.stuck "type()", st.tr)
  | .isInstDict e =>
    match e.eval o cfg x st with
    | .error err => .error err
    | .ok (.py v, st) => .ok (.bool (v.baseTy == .dict), st)
    | .ok (_, st) => .error (.stuck "isinstance", st.tr)
  | .call0 f =>
    match f.eval o cfg x st with
    | .error err => .error err
    | .ok (.thunk, st) => .ok (.child, st)
    | .ok (_, st) => .error (.stuck "call", st.tr)
  | .call1 f a =>
    match f.eval o cfg x st with
    | .error err => .error err
    | .ok (fd, st) =>
      match a.eval o cfg x st with
      | .error err => .error err
      | .ok (ad, st) =>
        (match fd, ad with
         | .child, .py y => wcallChild cfg.inner y st false
         | .boundAsync, .py y => wcallChild cfg.inner y st false
         | .wrapped, .py y => wcallChild cfg.inner y st true
         | .coercer c, .py y =>
           let r := callNoneCoercer o c y
           .ok (.maybe r.1, { st with tr := st.tr ++ r.2 })
         | _, _ => .error (.stuck "call", st.tr))
  | .subscript e i =>
    match e.eval o cfg x st with
    | .error err => .error err
    | .ok (.pair a b, st) => (match i with | 0 => .ok (a, st) | 1 => .ok (b, st) | _ => .error (.stuck "index", st.tr))
    | .ok (_, st) => .error (.stuck "subscript", st.tr)
  | .justOf e =>
    match e.eval o cfg x st with
    | .error err => .error err
    | .ok (.py v, st) => .ok (.py (.just 0 v), st)
    | .ok (_, st) => .error (.stuck "Just", st.tr)
  | .validOf e =>
    match e.eval o cfg x st with
    | .error err => .error err
    | .ok (.py v, st) => .ok (.resObj (.valid v), st)
    | .ok (_, st) => .error (.stuck "Valid", st.tr)
  | .pair a b =>
    match a.eval o cfg x st with
    | .error err => .error err
    | .ok (ad, st) =>
      match b.eval o cfg x st with
      | .error err => .error err
      | .ok (bd, st) => .ok (.pair ad bd, st)
  | .noneTy => .ok (.ty .none, st)
  | .dictTy => .ok (.ty .dict, st)
  | .maybeAnyTy => .ok (.ty .maybeAny, st)
  | .mkTypeErr t =>
    match t.eval o cfg x st with
    | .error err => .error err
    | .ok (.ty ty, st) => .ok (.errK (.type ty), st)
    | .ok (_, st) => .error (.stuck "TypeErr", st.tr)
  | .mkContainerErr e =>
    match e.eval o cfg x st with
    | .error err => .error err
    | .ok (.invalid e1, st) => .ok (.pair (.errK .container) (.invalid e1), st)
    | .ok (_, st) => .error (.stuck "ContainerErr", st.tr)
  | .mkCoercionErr compat dest =>
    match compat.eval o cfg x st with
    | .error err => .error err
    | .ok (cd, st) =>
      match dest.eval o cfg x st with
      | .error err => .error err
      | .ok (dd, st) =>
        (match cd, dd with
         | .tys ts, .ty t => .ok (.errK (.coercion ts t), st)
         | _, _ => .error (.stuck "CoercionErr", st.tr))
  | .mkInvalid errE valE slfE =>
    match errE.eval o cfg x st with
    | .error e => .error e
    | .ok (ed, st) =>
      match valE.eval o cfg x st with
      | .error e => .error e
      | .ok (vd, st) =>
        match slfE.eval o cfg x st with
        | .error e => .error e
        | .ok (sd, st) =>
          (match ed, vd, sd with
           | .errK k, .py y, .self => .ok (.invalid (.mk k y cfg.vid []), st)
           | .pair (.errK .container) (.invalid e1), .py y, .self => .ok (.invalid (.mk .container y cfg.vid [e1]), st)
           | _, _, _ => .error (.stuck "Invalid", st.tr))
  | .await e => e.eval o cfg x st
  | .unsupported why => .error (.stuck why, st.tr)

inductive WFlow
  | next (st : WSt)
  | returned (d : WV) (st : WSt)

mutual
def WStmt.exec (o : Oracle) (cfg : WCfg) (x : PyVal) (st : WSt) : WStmt → Except (WErr × List Ev) WFlow
  | .assign .result e =>
    match e.eval o cfg x st with
    | .error err => .error err
    | .ok (d, st) => .ok (.next { st with result := d })
  | .ite c t e =>
    match c.eval o cfg x st with
    | .error err => .error err
    | .ok (d, st) =>
      match wtruthy d with
      | none => .error (.stuck "truth value", st.tr)
      | some true => WStmt.execL o cfg x st t
      | some false => WStmt.execL o cfg x st e
  | .ret e =>
    match e.eval o cfg x st with
    | .error err => .error err
    | .ok (d, st) => .ok (.returned d st)
  | .unsupported why => .error (.stuck why, st.tr)
termination_by structural s => s
def WStmt.execL (o : Oracle) (cfg : WCfg) (x : PyVal) (st : WSt) : List WStmt → Except (WErr × List Ev) WFlow
  | [] => .ok (.next st)
  | s :: rest =>
    match s.exec o cfg x st with
    | .error err => .error err
    | .ok (.next st) => WStmt.execL o cfg x st rest
    | .ok (.returned d st) => .ok (.returned d st)
termination_by structural l => l
end

/-- run a body; the function returns either the pair of the tuple protocol or a result object -/
def runWrap (o : Oracle) (cfg : WCfg) (body : List WStmt) (x : PyVal) : Option (Out × List Ev) :=
  match WStmt.execL o cfg x {} body with
  | .error (.exn e, t) => some (.raised e, t)
  | .error (_, _) => none
  | .ok (.returned (.pair (.bool true) (.py w)) st) => some (.valid w, st.tr)
  | .ok (.returned (.pair (.bool false) (.invalid e)) st) => some (.invalid e, st.tr)
  | .ok (.returned (.resObj out) st) => some (out, st.tr)
  | .ok _ => none

end Koda
