/-
  KodaModel.Validator — validator syntax trees, error trees, outcomes, trace events.
-/
import KodaModel.Pred

namespace Koda

inductive Mode | sync | async
deriving DecidableEq, Repr, Inhabited

/-- Events at harness-observable points (only user-supplied callbacks are observable). -/
inductive Ev
  | pred (pid : Nat)              -- a user predicate was called
  | apred (pid : Nat)             -- an async predicate was awaited
  | proc (pid : Nat)              -- a user processor was called
  | coerce (cid : Nat)            -- a user coercer was called
  | uv (vid : Nat) (m : Mode)     -- a user-written validator was entered through this entry point
  | oc (id : Nat)                 -- a whole-object check was called
  | aoc (id : Nat)                -- an async whole-object check was awaited
  | into (id : Nat)               -- a RecordValidator target constructor was called
deriving DecidableEq, Repr, Inhabited

/-- The kinds of error (`err_type`), with the non-recursive data each carries.  Children of a node
    are kept separately in `Inv.mk … children` (one nested occurrence keeps recursion simple):
    `index idx` has one child per index, `keys ks` one per key, `map ks shape` has for each key a
    key-error child and/or a value-error child (as `shape` says, flattened in order), `set` /
    `union` one per failing member / variant, `container` exactly one. -/
inductive ErrK
  | type (t : Ty)
  | coercion (compat : List Ty) (dest : Ty)
  | preds (pids : List Nat)
  | index (idx : List Nat)
  | keys (ks : List PyVal)
  | map (ks : List PyVal) (shape : List (Bool × Bool))
  | set
  | union
  | container
  | extraKeys (expected : List PyVal)
  | missingKey
  | custom (id : Nat)
deriving Repr, Inhabited

/-- `Invalid(err_type, value, validator)` -/
inductive Inv
  | mk (k : ErrK) (value : PyVal) (vid : Nat) (children : List Inv)
deriving Repr, Inhabited

def Inv.kind : Inv → ErrK | .mk k _ _ _ => k
def Inv.value : Inv → PyVal | .mk _ v _ _ => v
def Inv.vid : Inv → Nat | .mk _ _ i _ => i
def Inv.children : Inv → List Inv | .mk _ _ _ c => c

inductive Out
  | valid (w : PyVal)
  | invalid (e : Inv)
  | raised (x : Exn)
deriving Repr, Inhabited

/-- result of a child evaluation: `none` = out of fuel -/
abbrev Res := Option (Out × List Ev)
abbrev Ev1 := PyVal → Res

/-- The stdlib parsers the default coercers delegate to (abstract; the driver supplies a table
    computed by the real constructors). -/
structure Oracle where
  decimal : List Nat → Option PyVal
  uuid : List Nat → Option PyVal
  date : List Nat → Option PyVal
  datetime : List Nat → Option PyVal
deriving Inhabited

inductive CoerceK
  /-- the validator's documented default coercer (Decimal / UUID / date / datetime / tuple) -/
  | dflt
  /-- `dataclass_no_coerce` / `namedtuple_no_coerce`: only an instance of exactly the class -/
  | classOnly
  /-- a user coercer -/
  | user (cid : Nat) (compat : List Ty) (f : PyVal → Option PyVal)
deriving Inhabited

/-- whole-object check: returns the id of a custom error, or nothing -/
structure ObjCheck where
  id : Nat
  f : PyVal → Option Nat
deriving Inhabited

inductive RecKind | record | dictAny | dataclass | namedtuple | typeddict
deriving DecidableEq, Repr, Inhabited

structure RecCfg where
  kind : RecKind
  keys : List PyVal
  reqs : List Bool
  /-- dataclass / namedtuple: the target class and its field names in constructor order -/
  cls : ClassId
  fieldNames : List String
  /-- default for each field of the class (constructor fills these in) -/
  defaults : List (Option PyVal)
  /-- RecordValidator: the target constructor -/
  intoId : Nat
  into : List PyVal → PyVal
  oc : Option ObjCheck
  aoc : Option ObjCheck
  failUnknown : Bool
  coerce : Option CoerceK
deriving Inhabited

/-- Validator syntax.  Every node carries `vid`, the identity of the validator object. -/
inductive V
  | scalar (vid : Nat) (target : Ty) (coerce : Option CoerceK) (pre : List Proc)
      (preds : List Pred) (apreds : List Pred)
  | equals (vid : Nat) (m : PyVal) (pre : List Proc) (pid : Nat)
  | noneV (vid : Nat) (coerce : Option CoerceK)
  | always (vid : Nat)
  | isDict (vid : Nat)
  | list (vid : Nat) (item : V) (preds : List Pred) (apreds : List Pred) (coerce : Option CoerceK)
  | set (vid : Nat) (item : V) (preds : List Pred) (apreds : List Pred) (coerce : Option CoerceK)
  | utuple (vid : Nat) (item : V) (preds : List Pred) (apreds : List Pred) (coerce : Option CoerceK)
  | ntuple (vid : Nat) (fields : List V) (oc : Option ObjCheck) (coerce : Option CoerceK) (lenPid : Nat)
  | map (vid : Nat) (key : V) (value : V) (preds : List Pred) (apreds : List Pred)
      (coerce : Option CoerceK)
  | record (vid : Nat) (cfg : RecCfg) (vals : List V)
  | union (vid : Nat) (vs : List V)
  | optional (vid : Nat) (noneV : V) (inner : V)
  | maybe (vid : Nat) (inner : V)
  | lazy (vid : Nat) (ref : Nat)
  | knr (vid : Nat) (inner : V)
  /-- a validator written by a user against the public `Validator` base class, forwarding each of
      its two entry points to the corresponding entry point of `inner` -/
  | user (vid : Nat) (inner : V)
deriving Inhabited

def V.vid : V → Nat
  | .scalar i .. => i | .equals i .. => i | .noneV i .. => i | .always i => i | .isDict i => i
  | .list i .. => i | .set i .. => i | .utuple i .. => i | .ntuple i .. => i | .map i .. => i
  | .record i .. => i | .union i .. => i | .optional i .. => i | .maybe i .. => i | .lazy i .. => i
  | .knr i .. => i | .user i .. => i

end Koda
