/-
  KodaModel.Render — `to_serializable_errs` (serialization/errors.py) and the argument-failure
  message renderer of signature.py, as functions of the error tree.  Message *texts* are abstracted
  to a leaf marker: what is modelled is the shape of the rendering.
-/
import KodaModel.Validator

namespace Koda

/-- the rendering, up to message texts -/
inductive Ser
  | msg                                   -- a human-readable string
  | num (n : Nat)                         -- an index
  | mark                                  -- what a custom `next_level` callback returned
  | list (xs : List Ser)
  | dict (entries : List (String × Ser))  -- keys: structural literals, or "k" for a rendered key
deriving Repr, Inhabited

/-- messages of the leaf error kinds; `userPids` are predicates the library does not know -/
def renderLeaf (userPids : List Nat) : ErrK → PyVal → Except Exn Ser
  | .coercion _ dest, _ =>
    -- (the validator-class special cases all yield one message; only list/tuple destinations and
    -- record classes change the shape — see `renderCoercion`)
    if dest == .list || dest == .tuple then .ok (.dict [("__container__", .list [.msg])]) else .ok (.list [.msg])
  | .type t, _ =>
    if t == .dict || t == .list || t == .tuple then .ok (.dict [("__container__", .list [.msg])])
    else .ok (.list [.msg])
  | .preds pids, _ =>
    if pids.any (fun p => userPids.contains p) then .error .typeError else .ok (.list (pids.map (fun _ => Ser.msg)))
  | .extraKeys _, _ => .ok (.dict [("__unknown_keys__", .msg)])
  | .missingKey, _ => .ok (.list [.msg])
  | .custom _, _ => .error .typeError
  | _, _ => .error .other

/-- pair the parts of a map error with its flattened children -/
def mapEntries (next : Inv → Ser) : List (Bool × Bool) → List Inv → List (String × Ser)
  | [], _ => []
  | (true, true) :: sh, k :: v :: rest => ("k", .dict [("key", next k), ("value", next v)]) :: mapEntries next sh rest
  | (true, false) :: sh, k :: rest => ("k", .dict [("key", next k)]) :: mapEntries next sh rest
  | (false, true) :: sh, v :: rest => ("k", .dict [("value", next v)]) :: mapEntries next sh rest
  | _ :: sh, rest => ("k", .dict []) :: mapEntries next sh rest

/-- `to_serializable_errs(invalid, next_level)`: one level, children handed to `next`.
    `recordCoercion` tells whether the rejecting validator is a dataclass / named-tuple validator
    (its coercion error renders as a container message). -/
def render (userPids : List Nat) (recordVids : List Nat) (next : Inv → Ser) : Inv → Except Exn Ser
  | .mk (.index idx) _ _ ch => .ok (.list ((idx.zip ch).map (fun p => .list [.num p.1, next p.2])))
  | .mk (.keys ks) _ _ ch => .ok (.dict ((ks.zip ch).map (fun p => ("k", next p.2))))
  | .mk (.map _ shape) _ _ ch => .ok (.dict (mapEntries next shape ch))
  | .mk .set _ _ ch => .ok (.dict [("member_errors", .list (ch.map next))])
  | .mk .union _ _ ch => .ok (.dict [("variants", .list (ch.map next))])
  | .mk .container _ _ [c] => .ok (next c)
  | .mk .container _ _ _ => .error .other
  | .mk (.coercion compat dest) v vid _ =>
    if recordVids.contains vid && !(dest == .list || dest == .tuple) then
      .ok (.dict [("__container__", .list [.msg])])
    else renderLeaf userPids (.coercion compat dest) v
  | .mk k v _ _ => renderLeaf userPids k v

/-- pair the parts of a map error with the renderings of its flattened children -/
def mapEntriesS : List (Bool × Bool) → List Ser → List (String × Ser)
  | [], _ => []
  | (true, true) :: sh, k :: v :: rest => ("k", .dict [("key", k), ("value", v)]) :: mapEntriesS sh rest
  | (true, false) :: sh, k :: rest => ("k", .dict [("key", k)]) :: mapEntriesS sh rest
  | (false, true) :: sh, v :: rest => ("k", .dict [("value", v)]) :: mapEntriesS sh rest
  | _ :: sh, rest => ("k", .dict []) :: mapEntriesS sh rest

mutual
/-- the default: `next_level = to_serializable_errs` itself (errors inside children surface as the
    `TypeError` the real function raises) -/
def renderFull (userPids recordVids : List Nat) : Inv → Except Exn Ser
  | .mk (.index idx) _ _ ch => do
    let cs ← renderFullL userPids recordVids ch
    .ok (.list ((idx.zip cs).map (fun p => .list [.num p.1, p.2])))
  | .mk (.keys ks) _ _ ch => do
    let cs ← renderFullL userPids recordVids ch
    .ok (.dict ((ks.zip cs).map (fun p => ("k", p.2))))
  | .mk (.map _ shape) _ _ ch => do
    let cs ← renderFullL userPids recordVids ch
    .ok (.dict (mapEntriesS shape cs))
  | .mk .set _ _ ch => do
    let cs ← renderFullL userPids recordVids ch
    .ok (.dict [("member_errors", .list cs)])
  | .mk .union _ _ ch => do
    let cs ← renderFullL userPids recordVids ch
    .ok (.dict [("variants", .list cs)])
  | .mk .container _ _ ch => do
    let cs ← renderFullL userPids recordVids ch
    match cs with
    | [c] => .ok c
    | _ => .error .other
  | .mk (.coercion compat dest) v vid _ =>
    if recordVids.contains vid && !(dest == .list || dest == .tuple) then
      .ok (.dict [("__container__", .list [.msg])])
    else renderLeaf userPids (.coercion compat dest) v
  | .mk k v _ _ => renderLeaf userPids k v
termination_by structural e => e
def renderFullL (userPids recordVids : List Nat) : List Inv → Except Exn (List Ser)
  | [] => .ok []
  | e :: es => do
    let s ← renderFull userPids recordVids e
    let ss ← renderFullL userPids recordVids es
    .ok (s :: ss)
termination_by structural es => es
end

mutual
/-- number of lines of the argument-failure message (`InvalidArgsError` / `InvalidReturnError`):
    it never raises, whatever the error -/
def messageLines : Inv → Nat
  | .mk (.preds pids) _ _ _ => 1 + pids.length
  | .mk .union _ _ ch => 1 + messageLinesL ch
  | .mk (.keys _) _ _ ch => 1 + messageLinesL ch
  | .mk (.index _) _ _ ch => 1 + messageLinesL ch
  | .mk (.map _ _) _ _ ch => 1 + messageLinesL ch
  | .mk .set _ _ ch => 1 + messageLinesL ch
  | .mk (.extraKeys _) _ _ _ => 2
  | .mk .container _ _ ch => messageLinesL ch
  | .mk _ _ _ _ => 1
termination_by structural e => e
def messageLinesL : List Inv → Nat
  | [] => 0
  | e :: es => messageLines e + messageLinesL es
termination_by structural es => es
end

end Koda
