/-
  KodaModel.Value — the Python value universe the model of koda-validate works over.

  Import-free on purpose (the compiled driver links this file).
-/
namespace Koda

/-- Descriptor of a user-defined class as far as the library can observe it. -/
structure ClassId where
  id : Nat
  /-- 0 = opaque plain class, 1 = dataclass, 2 = NamedTuple, 3 = subclass of a builtin -/
  kind : Nat
  /-- instances are hashable (frozen dataclass, NamedTuple of hashables is decided structurally) -/
  hashable : Bool
  /-- `__slots__` class: instances have no `__dict__` -/
  slots : Bool
deriving DecidableEq, Repr, Inhabited

/-- `type(x)` — the exact runtime type, which is what every gate in the library tests. -/
inductive Ty
  | none | bool | int | float | str | bytes | decimal | uuid | date | datetime
  | list | tuple | set | dict | just | nothing
  | cls (c : ClassId)
  | maybeAny            -- the `Maybe[Any]` alias used as `expected_type` by MaybeValidator
deriving DecidableEq, Repr, Inhabited

/-- IEEE double as an exact dyadic rational, or nan / ±inf.  `fin neg m e` is `(-1)^neg · m · 2^e`;
    `m = 0` is a (signed) zero. -/
inductive FloatV
  | nan
  | inf (neg : Bool)
  | fin (neg : Bool) (m : Nat) (e : Int)
deriving DecidableEq, Repr, Inhabited

/-- `decimal.Decimal`: `fin neg c e` is `(-1)^neg · c · 10^e`. -/
inductive Dec
  | nan | snan
  | inf (neg : Bool)
  | fin (neg : Bool) (coeff : Nat) (exp : Int)
deriving DecidableEq, Repr, Inhabited

/-- Python values.  Containers and instances carry an `oid` — the caller-visible object identity
    (`0` = freshly allocated by the validator). -/
inductive PyVal
  | none
  | bool (b : Bool)
  | int (i : Int)
  | float (f : FloatV)
  | str (cps : List Nat)
  | bytes (bs : List Nat)
  | decimal (d : Dec)
  | uuid (n : Nat)
  | date (ordinal : Nat)
  /-- `us` = microseconds of the wall-clock reading since 0001-01-01; `off` = utc offset in seconds
      for aware datetimes -/
  | datetime (us : Int) (off : Option Int)
  | list (oid : Nat) (xs : List PyVal)
  | tuple (oid : Nat) (xs : List PyVal)
  | set (oid : Nat) (xs : List PyVal)
  | dict (oid : Nat) (kvs : List (PyVal × PyVal))
  | just (oid : Nat) (v : PyVal)
  | nothing
  /-- instance of a user class (dataclass / NamedTuple / opaque); `doid` is the identity of its
      `__dict__` -/
  | inst (oid : Nat) (doid : Nat) (c : ClassId) (names : List String) (vals : List PyVal)
  /-- instance of a *subclass* of a builtin: `type(v)` is `c`, not the base -/
  | sub (c : ClassId) (v : PyVal)
deriving Repr, Inhabited

namespace PyVal

/-- exact runtime type -/
def ty : PyVal → Ty
  | .none => .none | .bool _ => .bool | .int _ => .int | .float _ => .float
  | .str _ => .str | .bytes _ => .bytes | .decimal _ => .decimal | .uuid _ => .uuid
  | .date _ => .date | .datetime _ _ => .datetime
  | .list _ _ => .list | .tuple _ _ => .tuple | .set _ _ => .set | .dict _ _ => .dict
  | .just _ _ => .just | .nothing => .nothing
  | .inst _ _ c _ _ => .cls c
  | .sub c _ => .cls c

/-- the builtin a value is an `isinstance` of (looking through builtin subclasses) -/
def baseTy : PyVal → Ty
  | .sub _ v => baseTy v
  | v => v.ty

/-- strip builtin-subclass wrappers -/
def unsub : PyVal → PyVal
  | .sub _ v => unsub v
  | v => v

end PyVal

/-! ### Exact rationals for the numeric tower

Core `Rat` does not reduce under `decide`; this one does.  Unnormalised; `den > 0` by
construction in every use. -/

structure Frac where
  num : Int
  den : Nat
deriving Repr, Inhabited

namespace Frac
def lt (a b : Frac) : Bool := a.num * (b.den : Int) < b.num * (a.den : Int)
def le (a b : Frac) : Bool := a.num * (b.den : Int) ≤ b.num * (a.den : Int)
def eq (a b : Frac) : Bool := a.num * (b.den : Int) == b.num * (a.den : Int)
def ofInt (i : Int) : Frac := ⟨i, 1⟩
def isZero (a : Frac) : Bool := a.num == 0
/-- `a` is an integer multiple of `b` (`b ≠ 0`) -/
def divisible (a b : Frac) : Bool :=
  -- a/b = (a.num * b.den) / (b.num * a.den)
  (a.num * (b.den : Int)) % (b.num * (a.den : Int)) == 0
end Frac

def signed (neg : Bool) (n : Nat) : Int := if neg then - (n : Int) else (n : Int)

def pow (b : Nat) (e : Nat) : Nat := b ^ e

def scaleFrac (neg : Bool) (m : Nat) (base : Nat) (e : Int) : Frac :=
  if e ≥ 0 then ⟨signed neg (m * base ^ e.toNat), 1⟩ else ⟨signed neg m, base ^ (-e).toNat⟩

/-- Numeric reading of a value, when it has a finite one (`bool`, `int`, finite `float`/`Decimal`). -/
def numFrac : PyVal → Option Frac
  | .bool b => some (Frac.ofInt (if b then 1 else 0))
  | .int i => some (Frac.ofInt i)
  | .float (.fin neg m e) => some (scaleFrac neg m 2 e)
  | .decimal (.fin neg c e) => some (scaleFrac neg c 10 e)
  | _ => none

/-- Extended numeric reading: finite, ±inf, nan.  Used for `==` and ordering. -/
inductive XNum
  | fin (q : Frac) | inf (neg : Bool) | nan | snan
deriving Repr, Inhabited

def xnum : PyVal → Option XNum
  | .bool b => some (.fin (Frac.ofInt (if b then 1 else 0)))
  | .int i => some (.fin (Frac.ofInt i))
  | .float .nan => some .nan
  | .float (.inf n) => some (.inf n)
  | .float (.fin neg m e) => some (.fin (scaleFrac neg m 2 e))
  | .decimal .nan => some .nan
  | .decimal .snan => some .snan
  | .decimal (.inf n) => some (.inf n)
  | .decimal (.fin neg c e) => some (.fin (scaleFrac neg c 10 e))
  | _ => none

def XNum.eq : XNum → XNum → Bool
  | .fin a, .fin b => a.eq b
  | .inf a, .inf b => a == b
  | _, _ => false

/-- `a < b` on extended numbers (any comparison with NaN is false) -/
def XNum.lt : XNum → XNum → Bool
  | .nan, _ => false
  | _, .nan => false
  | .snan, _ => false
  | _, .snan => false
  | .fin a, .fin b => a.lt b
  | .inf true, .inf true => false
  | .inf true, _ => true
  | _, .inf true => false
  | .inf false, _ => false
  | _, .inf false => true

/-- UTC instant of an aware datetime -/
def dtInstant (us : Int) (off : Int) : Int := us - off * 1000000

/-! ### Python `==` (exceptions excluded: signalling NaN is handled by the callers that can meet it)

Object identity shortcuts (`x is y or x == y`) are not modelled; NaN is kept out of containers. -/

def numEq (a b : PyVal) : Bool :=
  match xnum a, xnum b with
  | some x, some y => x.eq y
  | _, _ => false

mutual
def pyEq : PyVal → PyVal → Bool
  | .sub _ a, b => pyEq a b
  | .none, b => match b.unsub with | .none => true | _ => false
  | .bool x, b => numEq (.bool x) b.unsub
  | .int x, b => numEq (.int x) b.unsub
  | .float x, b => numEq (.float x) b.unsub
  | .decimal x, b => numEq (.decimal x) b.unsub
  | .str x, b => match b.unsub with | .str y => x == y | _ => false
  | .bytes x, b => match b.unsub with | .bytes y => x == y | _ => false
  | .uuid x, b => match b.unsub with | .uuid y => x == y | _ => false
  | .date x, b => match b.unsub with | .date y => x == y | _ => false
  | .datetime x ox, b =>
    match b.unsub with
    | .datetime y oy =>
      (match ox, oy with
       | none, none => x == y
       | some p, some q => dtInstant x p == dtInstant y q
       | _, _ => false)
    | _ => false
  | .list _ xs, b => match b.unsub with | .list _ ys => pyEqL xs ys | _ => false
  | .tuple _ xs, b =>
    match b.unsub with
    | .tuple _ ys => pyEqL xs ys
    | .inst _ _ c _ vs => c.kind == 2 && pyEqL xs vs      -- a NamedTuple is a tuple
    | _ => false
  | .set _ xs, b =>
    match b.unsub with
    | .set _ ys => xs.length == ys.length && subsetL xs ys
    | _ => false
  | .dict _ kvs, b =>
    match b.unsub with
    | .dict _ kvs' => kvs.length == kvs'.length && dictSub kvs kvs'
    | _ => false
  | .just _ x, b => match b.unsub with | .just _ y => pyEq x y | _ => false
  | .nothing, b => match b.unsub with | .nothing => true | _ => false
  | .inst oid _ c _ vs, b =>
    match b.unsub with
    | .inst oid' _ c' _ vs' =>
      if c.kind == 2 then c'.kind == 2 && pyEqL vs vs'   -- tuple equality
      else if c.kind == 1 then c == c' && pyEqL vs vs'   -- dataclass `__eq__`: same class, equal fields
      else oid == oid'                                   -- plain object: identity
    | .tuple _ ys => c.kind == 2 && pyEqL vs ys
    | _ => false
termination_by structural x => x
def pyEqL : List PyVal → List PyVal → Bool
  | [], [] => true
  | x :: xs, y :: ys => pyEq x y && pyEqL xs ys
  | _, _ => false
termination_by structural x => x
/-- every member of the first list is `==` to some member of the second -/
def subsetL : List PyVal → List PyVal → Bool
  | [], _ => true
  | x :: xs, ys => ys.any (pyEq x) && subsetL xs ys
termination_by structural x => x
/-- every pair of the first dict is in the second -/
def dictSub : List (PyVal × PyVal) → List (PyVal × PyVal) → Bool
  | [], _ => true
  | (k, v) :: rest, o => o.any (fun p => pyEq k p.1 && pyEq v p.2) && dictSub rest o
termination_by structural x => x
end

/-- `x in xs` (by `==`) -/
def memL (x : PyVal) (ys : List PyVal) : Bool := ys.any (fun y => pyEq y x)

mutual
/-- `hash(x)` does not raise -/
def hashable : PyVal → Bool
  | .list _ _ => false
  | .set _ _ => false
  | .dict _ _ => false
  | .just _ _ => false
  | .nothing => false
  | .tuple _ xs => hashableL xs
  | .inst _ _ c _ vs => if c.kind == 2 then hashableL vs else if c.kind == 1 then c.hashable && hashableL vs else c.hashable
  | .sub _ v => hashable v
  | .decimal .snan => false
  | _ => true
termination_by structural x => x
def hashableL : List PyVal → Bool
  | [] => true
  | x :: xs => hashable x && hashableL xs
termination_by structural x => x
end

/-! ### dict / set primitives (association lists, Python merging semantics) -/

/-- `k in d` -/
def dictHas (kvs : List (PyVal × PyVal)) (k : PyVal) : Bool := kvs.any (fun p => pyEq p.1 k)

/-- `d[k]` -/
def dictGet : List (PyVal × PyVal) → PyVal → Option PyVal
  | (k', v') :: rest, k => if pyEq k' k then some v' else dictGet rest k
  | [], _ => none

/-- `d[k] = v`: first key object and position are kept, value replaced -/
def dictSet : List (PyVal × PyVal) → PyVal → PyVal → List (PyVal × PyVal)
  | (k', v') :: rest, k, v =>
    if pyEq k' k then (k', v) :: rest else (k', v') :: dictSet rest k v
  | [], k, v => [(k, v)]

/-- `s.add(x)`: an equal member already present wins -/
def setAdd (xs : List PyVal) (x : PyVal) : List PyVal :=
  if memL x xs then xs else xs ++ [x]

def dedup (xs : List PyVal) : List PyVal := xs.foldl setAdd []

end Koda
