/-
  KodaModel.PyEq — the Python subset in which `EqualsValidator._validate_to_tuple` (koda_validate/generic.py) is
  written, with an interpreter.  `harness/pysrc.py` translates its current source (`Generated/EqSrc.lean`);
  `Properties/C02Eq.lean` proves it equal to the model's `equalsStep`: exact type of `match` first, then the
  preprocessors in order, then `==` — the error holds the preprocessed value and names the validator's own
  `EqualTo` predicate.
-/
import KodaModel.Eval

namespace Koda

inductive EVar | val | matchType | preprocess
deriving DecidableEq, Repr, Inhabited

inductive ESelf | match_ | preprocessors | predicate | other (name : String)
deriving DecidableEq, Repr, Inhabited

inductive EExp
  | var (v : EVar)
  | self
  | selfAttr (a : ESelf)
  | bool (b : Bool)
  | typeOf (e : EExp)
  | walrus (v : EVar) (e : EExp)
  | eq (a b : EExp)
  | call1 (f : EExp) (a : EExp)
  | list1 (e : EExp)                       -- `[e]`
  | pair (a b : EExp)
  | mkTypeErr (t : EExp)
  | mkPredErrs (e : EExp)
  | mkInvalid (errE valE slfE : EExp)
  | unsupported (why : String)
deriving Repr, Inhabited

inductive EStmt
  | assign (v : EVar) (e : EExp)
  | ite (c : EExp) (t e : List EStmt)
  | forIn (v : EVar) (iter : EExp) (body : List EStmt)
  | ret (e : EExp)
  | unsupported (why : String)
deriving Repr, Inhabited

structure EqCfg where
  vid : Nat
  mt : PyVal                      -- `self.match`
  pre : Option (List Proc)
  pid : Nat                       -- identity of `self.predicate` (= `EqualTo(match)`)

inductive EV
  | py (v : PyVal)
  | bool (b : Bool)
  | none
  | self
  | ty (t : Ty)
  | procs (ps : List Proc) | proc (p : Proc)
  | predicate
  | predList
  | errK (k : ErrK)
  | invalid (e : Inv)
  | pair (a b : EV)
deriving Inhabited

structure EEnv where
  val : EV := .none
  matchType : EV := .none
  preprocess : EV := .none

def EEnv.get (e : EEnv) : EVar → EV
  | .val => e.val | .matchType => e.matchType | .preprocess => e.preprocess

def EEnv.set (e : EEnv) (v : EVar) (d : EV) : EEnv :=
  match v with
  | .val => { e with val := d } | .matchType => { e with matchType := d } | .preprocess => { e with preprocess := d }

inductive EErr
  | exn (e : Exn)
  | stuck (why : String)
deriving Inhabited

structure ESt where
  env : EEnv
  tr : List Ev

abbrev EM (α : Type) := Except (EErr × List Ev) (α × ESt)

def etruthy : EV → Option Bool
  | .bool b => some b
  | .none => some false
  | .procs ps => some (!ps.isEmpty)
  | _ => Option.none

def EExp.eval (cfg : EqCfg) (st : ESt) : EExp → EM EV
  | .var v => .ok (st.env.get v, st)
  | .self => .ok (.self, st)
  | .selfAttr a =>
    (match a with
     | .match_ => .ok (.py cfg.mt, st)
     | .preprocessors => .ok ((match cfg.pre with | some l => .procs l | none => .none), st)
     | .predicate => .ok (.predicate, st)
     | .other _ => .error (.stuck "self attribute", st.tr))
  | .bool b => .ok (.bool b, st)
  | .typeOf e =>
    match e.eval cfg st with
    | .error err => .error err
    | .ok (.py v, st) => .ok (.ty v.ty, st)
    | .ok (_, st) => .error (.stuck "type()", st.tr)
  | .walrus v e =>
    match e.eval cfg st with
    | .error err => .error err
    | .ok (d, st) => .ok (d, { st with env := st.env.set v d })
  | .eq a b =>
    match a.eval cfg st with
    | .error err => .error err
    | .ok (ad, st) =>
      match b.eval cfg st with
      | .error err => .error err
      | .ok (bd, st) =>
        (match ad, bd with
         | .ty s, .ty t => .ok (.bool (s == t), st)
         | _, _ => .error (.stuck "==", st.tr))
  | .call1 f a =>
    match f.eval cfg st with
    | .error err => .error err
    | .ok (fd, st) =>
      match a.eval cfg st with
      | .error err => .error err
      | .ok (ad, st) =>
        (match fd, ad with
         | .proc p, .py y =>
           (match p.k.call y with
            | .ok z => .ok (.py z, { st with tr := st.tr ++ p.ev })
            | .error e => .error (.exn e, st.tr ++ p.ev))
         -- `EqualTo(match)(val)`: `val == self.match`
         | .predicate, .py y =>
           (match (PredK.equalTo cfg.mt).call y with
            | .ok b => .ok (.bool b, st)
            | .error e => .error (.exn e, st.tr))
         | _, _ => .error (.stuck "call", st.tr))
  | .list1 e =>
    match e.eval cfg st with
    | .error err => .error err
    | .ok (.predicate, st) => .ok (.predList, st)
    | .ok (_, st) => .error (.stuck "list", st.tr)
  | .pair a b =>
    match a.eval cfg st with
    | .error err => .error err
    | .ok (ad, st) =>
      match b.eval cfg st with
      | .error err => .error err
      | .ok (bd, st) => .ok (.pair ad bd, st)
  | .mkTypeErr t =>
    match t.eval cfg st with
    | .error err => .error err
    | .ok (.ty ty, st) => .ok (.errK (.type ty), st)
    | .ok (_, st) => .error (.stuck "TypeErr", st.tr)
  | .mkPredErrs e =>
    match e.eval cfg st with
    | .error err => .error err
    | .ok (.predList, st) => .ok (.errK (.preds [cfg.pid]), st)
    | .ok (_, st) => .error (.stuck "PredicateErrs", st.tr)
  | .mkInvalid errE valE slfE =>
    match errE.eval cfg st with
    | .error e => .error e
    | .ok (ed, st) =>
      match valE.eval cfg st with
      | .error e => .error e
      | .ok (vd, st) =>
        match slfE.eval cfg st with
        | .error e => .error e
        | .ok (sd, st) =>
          (match ed, vd, sd with
           | .errK k, .py y, .self => .ok (.invalid (.mk k y cfg.vid []), st)
           | _, _, _ => .error (.stuck "Invalid", st.tr))
  | .unsupported why => .error (.stuck why, st.tr)

inductive EFlow
  | next (st : ESt)
  | returned (d : EV) (st : ESt)

def eforFold (execBody : ESt → Except (EErr × List Ev) EFlow) (v : EVar) : List EV → ESt → Except (EErr × List Ev) EFlow
  | [], st => .ok (.next st)
  | item :: rest, st =>
    match execBody { st with env := st.env.set v item } with
    | .ok (.next st') => eforFold execBody v rest st'
    | other => other

mutual
def EStmt.exec (cfg : EqCfg) (st : ESt) : EStmt → Except (EErr × List Ev) EFlow
  | .assign v e =>
    match e.eval cfg st with
    | .error err => .error err
    | .ok (d, st) => .ok (.next { st with env := st.env.set v d })
  | .ite c t e =>
    match c.eval cfg st with
    | .error err => .error err
    | .ok (d, st) =>
      match etruthy d with
      | none => .error (.stuck "truth value", st.tr)
      | some true => EStmt.execL cfg st t
      | some false => EStmt.execL cfg st e
  | .forIn v iter body =>
    match iter.eval cfg st with
    | .error err => .error err
    | .ok (.procs ps, st) => eforFold (fun st => EStmt.execL cfg st body) v (ps.map EV.proc) st
    | .ok (_, st) => .error (.stuck "iteration", st.tr)
  | .ret e =>
    match e.eval cfg st with
    | .error err => .error err
    | .ok (d, st) => .ok (.returned d st)
  | .unsupported why => .error (.stuck why, st.tr)
termination_by structural s => s
def EStmt.execL (cfg : EqCfg) (st : ESt) : List EStmt → Except (EErr × List Ev) EFlow
  | [] => .ok (.next st)
  | s :: rest =>
    match s.exec cfg st with
    | .error err => .error err
    | .ok (.next st) => EStmt.execL cfg st rest
    | .ok (.returned d st) => .ok (.returned d st)
termination_by structural l => l
end

def runEq (cfg : EqCfg) (body : List EStmt) (x : PyVal) : Option (Out × List Ev) :=
  match EStmt.execL cfg { env := { val := .py x }, tr := [] } body with
  | .error (.exn e, t) => some (.raised e, t)
  | .error (.stuck _, _) => none
  | .ok (.returned (.pair (.bool true) (.py w)) st) => some (.valid w, st.tr)
  | .ok (.returned (.pair (.bool false) (.invalid e)) st) => some (.invalid e, st.tr)
  | .ok _ => none

end Koda
