/-
  KodaModel.PyImp — the imperative Python subset in which the scalar pipeline is written
  (`_ToTupleStandardValidator._validate_to_tuple`, `_validate_to_tuple_async` and the bare-validator fast
  path `_simple_type_validator.inner` in koda_validate/_internal.py), with a big-step interpreter over
  the model's values.

  `harness/pysrc.py` translates the *current* source of these three functions into `IStmt` terms
  (`Generated/ScalarSrc.lean`, rewritten on every run); `Properties/C02Src.lean` proves that running them
  is the model's `scalarStep`, for every configuration and every input, trace and exceptions included.

  What the interpreter fixes is how the statements combine (assignment to `val`, the `if` / `elif`
  cascade, the `for` loop over the preprocessors, the list comprehensions over the predicates, early
  `return`); what calling a coercer / processor / predicate *does* is the model's
  (`callCoercer`, `ProcK.call`, `PredK.call`).
-/
import KodaModel.Eval

namespace Koda

/-- local variables of the three functions -/
inductive IVar | val | result | errors | proc | pred
deriving DecidableEq, Repr, Inhabited

/-- attribute names that occur -/
inductive IAttr
  | coerce | TYPE | typeErr | preprocessors | predicates | predicatesAsync | disallowSync | cls
  | isJust | valA | compatibleTypes | validateAsync | extend
  | other (name : String)
deriving DecidableEq, Repr, Inhabited

/-- global names that occur -/
inductive IGlobal
  | type | Invalid | CoercionErr | PredicateErrs | asyncPredicatesWarning | instance_ | type_ | typeErr_
  | other (name : String)
deriving DecidableEq, Repr, Inhabited

inductive IExp
  | var (v : IVar)
  | self
  | glob (g : IGlobal)
  | bool (b : Bool)
  | attr (e : IExp) (a : IAttr)
  | call1 (f : IExp) (a : IExp)
  | call2 (f : IExp) (a b : IExp)
  | call3 (f : IExp) (a b c : IExp)
  | not (e : IExp)
  | is_ (a b : IExp)
  | isNot (a b : IExp)
  | pair (a b : IExp)                                   -- `a, b`
  | listComp (elt : IExp) (v : IVar) (iter : IExp) (cond : IExp)
  | await (e : IExp)
  | unsupported (why : String)
deriving Repr, Inhabited

inductive IStmt
  | assign (v : IVar) (e : IExp)
  | ite (c : IExp) (t e : List IStmt)
  | forIn (v : IVar) (iter : IExp) (body : List IStmt)
  | ret (e : IExp)
  | expr (e : IExp)
  | unsupported (why : String)
deriving Repr, Inhabited

/-- the validator object the method runs on; `None` and `[]` are told apart where the source can -/
structure ScalarCfg where
  vid : Nat
  ty : Ty
  coerce : Option CoerceK
  pre : Option (List Proc)
  preds : List Pred
  apreds : Option (List Pred)

/-- dynamic values -/
inductive DV
  | py (v : PyVal)
  | bool (b : Bool)
  | none
  | self
  | coercer (c : CoerceK)
  | maybe (m : Option PyVal)
  | procs (ps : List Proc) | proc (p : Proc)
  | preds (ps : List Pred) | pred (p : Pred)
  | apreds (ps : List Pred) | apred (p : Pred)
  | boundAsync (p : Pred)                   -- `pred.validate_async`
  | boundExtend (v : IVar)                  -- `errors.extend`
  | ty (t : Ty)
  | tys (ts : List Ty)
  | errK (k : ErrK)
  | invalid (e : Inv)
  | pair (a b : DV)
  | glob (g : IGlobal)
  | cls
deriving Inhabited

structure IEnv where
  val : DV := .none
  result : DV := .none
  errors : DV := .none
  proc : DV := .none
  pred : DV := .none

def IEnv.get (e : IEnv) : IVar → DV
  | .val => e.val | .result => e.result | .errors => e.errors | .proc => e.proc | .pred => e.pred

def IEnv.set (e : IEnv) (v : IVar) (d : DV) : IEnv :=
  match v with
  | .val => { e with val := d } | .result => { e with result := d } | .errors => { e with errors := d }
  | .proc => { e with proc := d } | .pred => { e with pred := d }

/-- what went wrong: a Python exception of the model, or a construct / type the interpreter has no rule for -/
inductive IErr
  | exn (e : Exn)
  | stuck (why : String)
deriving Inhabited

/-- interpreter state: variables and the trace of user callbacks so far -/
structure ISt where
  env : IEnv
  tr : List Ev

abbrev IM (α : Type) := Except (IErr × List Ev) (α × ISt)

/-- calling a coercer: the Maybe it returns and what the call logs (the model's `applyCoerce`, read as a call) -/
def callCoercer (o : Oracle) (ty : Ty) (c : CoerceK) (x : PyVal) : Option PyVal × List Ev :=
  match applyCoerce o ty ty default c x with
  | .acc y t => (some y, t)
  | .rej _ t => (none, t)
  | .exn _ t => (none, t)

def compatOf (ty : Ty) : CoerceK → List Ty
  | .dflt => defaultCompat ty
  | .classOnly => [.cls default]
  | .user _ compat _ => compat

def truthyDV : DV → Option Bool
  | .bool b => some b
  | .none => some false
  | .coercer _ => some true
  | .procs ps => some (!ps.isEmpty)
  | .preds ps => some (!ps.isEmpty)
  | .apreds ps => some (!ps.isEmpty)
  | _ => Option.none

def optList {α} (f : List α → DV) : Option (List α) → DV
  | some l => f l
  | none => .none

def selfAttr (cfg : ScalarCfg) : IAttr → Option DV
  | .coerce => some (match cfg.coerce with | some c => .coercer c | none => .none)
  | .TYPE => some (.ty cfg.ty)
  | .typeErr => some (.errK (.type cfg.ty))
  | .preprocessors => some (optList .procs cfg.pre)
  | .predicates => some (.preds cfg.preds)
  | .predicatesAsync => some (optList .apreds cfg.apreds)
  -- `self._disallow_synchronous = bool(predicates_async)` (pinned by `src_scalar_init`)
  | .disallowSync => some (.bool (match cfg.apreds with | some l => !l.isEmpty | none => false))
  | .cls => some .cls
  | _ => Option.none

def stuck {α} (st : ISt) (why : String) : IM α := .error (.stuck why, st.tr)

/-- one pass of a list comprehension `[<elt> for v in items if <cond>]`: bind `v`, evaluate the condition, keep the
    element; `evalCond` / `evalElt` are the evaluators of the two sub-expressions -/
def compFold (evalCond evalElt : ISt → IM DV) (v : IVar) : List DV → IM (List DV) → IM (List DV)
  | [], acc => acc
  | item :: rest, acc =>
    match acc with
    | .error err => .error err
    | .ok (kept, st) =>
      let st1 : ISt := { st with env := st.env.set v item }
      match evalCond st1 with
      | .error err => .error err
      | .ok (cd, st2) =>
        match truthyDV cd with
        | none => .error (.stuck "truth value", st2.tr)
        | some true =>
          (match evalElt st2 with
           | .error err => .error err
           | .ok (ed, st3) => compFold evalCond evalElt v rest (.ok (kept ++ [ed], st3)))
        | some false => compFold evalCond evalElt v rest (.ok (kept, st2))

/-- how a block ends -/
inductive Flow
  | next (st : ISt)
  | returned (d : DV) (st : ISt)

/-- `for v in items: <body>` (no `break`; a `return` inside the body ends the loop) -/
def forFold (execBody : ISt → Except (IErr × List Ev) Flow) (v : IVar) : List DV → ISt → Except (IErr × List Ev) Flow
  | [], st => .ok (.next st)
  | item :: rest, st =>
    match execBody { st with env := st.env.set v item } with
    | .ok (.next st') => forFold execBody v rest st'
    | other => other

mutual
def IExp.eval (o : Oracle) (cfg : ScalarCfg) (st : ISt) : IExp → IM DV
  | .var v => .ok (st.env.get v, st)
  | .self => .ok (.self, st)
  | .glob g =>
    match g with
    | .instance_ => .ok (.self, st)                 -- closure variables of `_simple_type_validator`
    | .type_ => .ok (.ty cfg.ty, st)
    | .typeErr_ => .ok (.errK (.type cfg.ty), st)
    | g => .ok (.glob g, st)
  | .bool b => .ok (.bool b, st)
  | .attr e a =>
    match e.eval o cfg st with
    | .error err => .error err
    | .ok (d, st) =>
      match d, a with
      | .self, a => (match selfAttr cfg a with | some r => .ok (r, st) | none => stuck st "self attribute")
      | .maybe m, .isJust => .ok (.bool m.isSome, st)
      | .maybe (some y), .valA => .ok (.py y, st)
      | .coercer c, .compatibleTypes => .ok (.tys (compatOf cfg.ty c), st)
      | .apred p, .validateAsync => .ok (.boundAsync p, st)
      | _, _ => stuck st "attribute"
  | .call1 f a =>
    match f.eval o cfg st with
    | .error err => .error err
    | .ok (fd, st) =>
      match a.eval o cfg st with
      | .error err => .error err
      | .ok (ad, st) =>
        match fd, ad with
        | .glob .type, .py x => .ok (.ty x.ty, st)
        | .glob .PredicateErrs, .preds ps => .ok (.errK (.preds (ps.map (·.pid))), st)
        | .glob .asyncPredicatesWarning, .cls => .error (.exn .assertion, st.tr)
        | .coercer c, .py x =>
          let r := callCoercer o cfg.ty c x
          .ok (.maybe r.1, { st with tr := st.tr ++ r.2 })
        | .proc p, .py x =>
          (match p.k.call x with
           | .ok y => .ok (.py y, { st with tr := st.tr ++ p.ev })
           | .error e => .error (.exn e, st.tr ++ p.ev))
        | .pred p, .py x =>
          (match p.k.call x with
           | .ok b => .ok (.bool b, { st with tr := st.tr ++ p.ev })
           | .error e => .error (.exn e, st.tr ++ p.ev))
        | .boundAsync p, .py x =>
          (match p.k.call x with
           | .ok b => .ok (.bool b, { st with tr := st.tr ++ [.apred p.pid] })
           | .error e => .error (.exn e, st.tr ++ [.apred p.pid]))
        | _, _ => stuck st "call"
  | .call2 f a b =>
    match f.eval o cfg st with
    | .error err => .error err
    | .ok (fd, st) =>
      match a.eval o cfg st with
      | .error err => .error err
      | .ok (ad, st) =>
        match b.eval o cfg st with
        | .error err => .error err
        | .ok (bd, st) =>
          match fd, ad, bd with
          | .glob .CoercionErr, .tys ts, .ty t => .ok (.errK (.coercion ts t), st)
          | _, _, _ => stuck st "call"
  | .call3 f a b c =>
    match f.eval o cfg st with
    | .error err => .error err
    | .ok (fd, st) =>
      match a.eval o cfg st with
      | .error err => .error err
      | .ok (ad, st) =>
        match b.eval o cfg st with
        | .error err => .error err
        | .ok (bd, st) =>
          match c.eval o cfg st with
          | .error err => .error err
          | .ok (cd, st) =>
            match fd, ad, bd, cd with
            | .glob .Invalid, .errK k, .py x, .self => .ok (.invalid (.mk k x cfg.vid []), st)
            | _, _, _, _ => stuck st "call"
  | .not e =>
    match e.eval o cfg st with
    | .error err => .error err
    | .ok (d, st) => (match truthyDV d with | some b => .ok (.bool (!b), st) | none => stuck st "truth value")
  | .is_ a b =>
    match a.eval o cfg st with
    | .error err => .error err
    | .ok (ad, st) =>
      match b.eval o cfg st with
      | .error err => .error err
      | .ok (bd, st) =>
        (match ad, bd with
         | .ty s, .ty t => .ok (.bool (s == t), st)
         | _, _ => stuck st "is")
  | .isNot a b =>
    match a.eval o cfg st with
    | .error err => .error err
    | .ok (ad, st) =>
      match b.eval o cfg st with
      | .error err => .error err
      | .ok (bd, st) =>
        (match ad, bd with
         | .ty s, .ty t => .ok (.bool (!(s == t)), st)
         | _, _ => stuck st "is not")
  | .pair a b =>
    match a.eval o cfg st with
    | .error err => .error err
    | .ok (ad, st) =>
      match b.eval o cfg st with
      | .error err => .error err
      | .ok (bd, st) => .ok (.pair ad bd, st)
  | .listComp elt v iter cond =>
    match iter.eval o cfg st with
    | .error err => .error err
    | .ok (itd, st) =>
      let items : Option (List DV) :=
        match itd with
        | .preds ps => some (ps.map DV.pred)
        | .apreds ps => some (ps.map DV.apred)
        | _ => Option.none
      match items with
      | none => stuck st "iteration"
      | some items =>
        match compFold (fun st => cond.eval o cfg st) (fun st => elt.eval o cfg st) v items (.ok ([], st)) with
        | .error err => .error err
        | .ok (kept, st) =>
          -- the elements are predicate objects: a list of them
          let ps := kept.filterMap (fun d => match d with | .pred p => some p | .apred p => some p | _ => Option.none)
          if ps.length = kept.length then .ok (.preds ps, st) else stuck st "comprehension element"
  | .await e => e.eval o cfg st
  | .unsupported why => stuck st why
termination_by structural e => e
end

mutual
def IStmt.exec (o : Oracle) (cfg : ScalarCfg) (st : ISt) : IStmt → Except (IErr × List Ev) Flow
  | .assign v e =>
    match e.eval o cfg st with
    | .error err => .error err
    | .ok (d, st) => .ok (.next { st with env := st.env.set v d })
  | .ite c t e =>
    match c.eval o cfg st with
    | .error err => .error err
    | .ok (d, st) =>
      match truthyDV d with
      | none => .error (.stuck "truth value", st.tr)
      | some true => IStmt.execL o cfg st t
      | some false => IStmt.execL o cfg st e
  | .forIn v iter body =>
    match iter.eval o cfg st with
    | .error err => .error err
    | .ok (itd, st) =>
      match itd with
      | .procs ps => forFold (fun st => IStmt.execL o cfg st body) v (ps.map DV.proc) st
      | _ => .error (.stuck "iteration", st.tr)
  | .ret e =>
    match e.eval o cfg st with
    | .error err => .error err
    | .ok (d, st) => .ok (.returned d st)
  | .expr e =>
    match e with
    -- `errors.extend(<list>)`
    | .call1 (.attr (.var v) .extend) a =>
      (match a.eval o cfg st with
       | .error err => .error err
       | .ok (ad, st) =>
         match st.env.get v, ad with
         | .preds ps, .preds qs => .ok (.next { st with env := st.env.set v (.preds (ps ++ qs)) })
         | _, _ => .error (.stuck "extend", st.tr))
    | e =>
      (match e.eval o cfg st with
       | .error err => .error err
       | .ok (_, st) => .ok (.next st))
  | .unsupported why => .error (.stuck why, st.tr)
termination_by structural s => s
def IStmt.execL (o : Oracle) (cfg : ScalarCfg) (st : ISt) : List IStmt → Except (IErr × List Ev) Flow
  | [] => .ok (.next st)
  | s :: rest =>
    match s.exec o cfg st with
    | .error err => .error err
    | .ok (.next st) => IStmt.execL o cfg st rest
    | .ok (.returned d st) => .ok (.returned d st)
termination_by structural l => l
end

/-- run a method body on input `x`: the `(bool, payload-or-Invalid)` pair it returns, as an outcome -/
def runMethod (o : Oracle) (cfg : ScalarCfg) (body : List IStmt) (x : PyVal) : Option (Out × List Ev) :=
  match IStmt.execL o cfg { env := { val := .py x }, tr := [] } body with
  | .error (.exn e, t) => some (.raised e, t)
  | .error (.stuck _, _) => none
  | .ok (.returned (.pair (.bool true) (.py w)) st) => some (.valid w, st.tr)
  | .ok (.returned (.pair (.bool false) (.invalid e)) st) => some (.invalid e, st.tr)
  | .ok _ => none

end Koda
