/-
  KodaModel.PyMap — the Python subset in which `MapValidator.__call__` and `validate_async`
  (koda_validate/dictionary.py) are written, with a big-step interpreter.  `harness/pysrc.py` translates the
  current source of both methods (`Generated/MapSrc.lean`); `Properties/C03Map.lean` proves that running them
  is the model's `mapStep`, for every configuration (coercer or not, any container predicates, any async predicates —
  `None` and `[]` told apart where the source can), every key / value validator and every input: container-level
  failures before any pair, every key *and* every value validated, failing pairs under their original key with
  separate key / value parts, the payload built by item assignment (later equal keys overwrite, `TypeError` on an
  unhashable key payload), `AttributeError` when a coercer returns something without `.items()`.

  A child validator is its evaluator (`Ev1`, `none` = does not return); calling it (`v(x)` or `await
  v.validate_async(x)`) answers a result object.
-/
import KodaModel.Eval

namespace Koda

inductive MVar
  | coerced | coercedVal | predicateErrors | predicate | predAsync | returnDict | errors | key | valU
  | keyResult | valResult
deriving DecidableEq, Repr, Inhabited

inductive MSelf
  | coerce | predicates | predicatesAsync | cls | keyValidator | valueValidator
  | other (name : String)
deriving DecidableEq, Repr, Inhabited

inductive MAttr | isJust | valA | compatibleTypes | isValid | other (name : String)
deriving DecidableEq, Repr, Inhabited

inductive MExp
  | var (v : MVar)
  | self
  | val                                      -- the parameter `val`
  | selfAttr (a : MSelf)
  | attr (e : MExp) (a : MAttr)
  | walrus (v : MVar) (e : MExp)
  | call1 (f : MExp) (a : MExp)              -- `f(a)`
  | validateAsync (recv : MExp) (a : MExp)   -- `recv.validate_async(a)`
  | items (e : MExp)                         -- `e.items()`
  | typeIs (e : MExp) (t : MExp)
  | not (e : MExp)
  | isNotNone (e : MExp)
  | and (a b : MExp)
  | ifExp (c a b : MExp)
  | noneLit
  | dictTy
  | mkCoercionErr (compat dest : MExp)
  | mkTypeErr (t : MExp)
  | mkPredErrs (e : MExp)
  | mkMapErr (e : MExp)
  | mkKeyValErrs (k v : MExp)                -- `KeyValErrs(key=k, val=v)`
  | mkInvalid (errE valE slfE : MExp)
  | mkValid (e : MExp)
  | warn (e : MExp)
  | emptyList
  | emptyDict
  | await (e : MExp)
  | unsupported (why : String)
deriving Repr, Inhabited

inductive MStmt
  | assign (v : MVar) (e : MExp)
  | ite (c : MExp) (t e : List MStmt)
  | forIn (v : MVar) (iter : MExp) (body : List MStmt)
  | forIn2 (v w : MVar) (iter : MExp) (body : List MStmt)
  | ret (e : MExp)
  | expr (e : MExp)
  | append (l : MVar) (e : MExp)
  | setItem (d : MVar) (k v : MExp)
  | unsupported (why : String)
deriving Repr, Inhabited

structure MapCfg where
  vid : Nat
  key : Ev1
  value : Ev1
  coerce : Option CoerceK
  preds : Option (List Pred)
  apreds : Option (List Pred)

abbrev KVE := Option Inv × Option Inv

inductive MV
  | py (v : PyVal)
  | bool (b : Bool)
  | none
  | self
  | cls
  | tyName (t : Ty)
  | coercer (c : CoerceK)
  | maybe (m : Option PyVal)
  | preds (ps : List Pred) | pred (p : Pred)
  | apreds (ps : List Pred) | apred (p : Pred)
  | tys (ts : List Ty)
  | errK (k : ErrK)
  | mapErrK (es : List (PyVal × KVE))
  | resObj (out : Out)
  | optInv (e : Option Inv)                -- `None` or an `Invalid`, as an argument of `KeyValErrs`
  | emptyL                                 -- `[]`
  | dictPayload (kvs : List (PyVal × PyVal))   -- `return_dict` (and `{}` before anything was stored in it)
  | mapErrs (es : List (PyVal × KVE))      -- `errors`
  | kve (e : KVE)
  | itemsOf (kvs : List (PyVal × PyVal))
  | childK | childV
deriving Inhabited

structure MEnv where
  coerced : MV := .none
  coercedVal : MV := .none
  predicateErrors : MV := .none
  predicate : MV := .none
  predAsync : MV := .none
  returnDict : MV := .none
  errors : MV := .none
  key : MV := .none
  valU : MV := .none
  keyResult : MV := .none
  valResult : MV := .none

def MEnv.get (e : MEnv) : MVar → MV
  | .coerced => e.coerced | .coercedVal => e.coercedVal | .predicateErrors => e.predicateErrors
  | .predicate => e.predicate | .predAsync => e.predAsync | .returnDict => e.returnDict | .errors => e.errors
  | .key => e.key | .valU => e.valU | .keyResult => e.keyResult | .valResult => e.valResult

def MEnv.set (e : MEnv) (v : MVar) (d : MV) : MEnv :=
  match v with
  | .coerced => { e with coerced := d } | .coercedVal => { e with coercedVal := d }
  | .predicateErrors => { e with predicateErrors := d } | .predicate => { e with predicate := d }
  | .predAsync => { e with predAsync := d } | .returnDict => { e with returnDict := d } | .errors => { e with errors := d }
  | .key => { e with key := d } | .valU => { e with valU := d } | .keyResult => { e with keyResult := d }
  | .valResult => { e with valResult := d }

inductive MErr
  | exn (e : Exn)
  | diverge
  | stuck (why : String)
deriving Inhabited

structure MSt where
  env : MEnv
  tr : List Ev

abbrev MM (α : Type) := Except (MErr × List Ev) (α × MSt)

def mtruthy : MV → Option Bool
  | .bool b => some b
  | .none => some false
  | .coercer _ => some true
  | .preds ps => some (!ps.isEmpty)
  | .apreds ps => some (!ps.isEmpty)
  | .emptyL => some false
  | .dictPayload kvs => some (!kvs.isEmpty)
  | .mapErrs es => some (!es.isEmpty)
  | _ => Option.none

def moptList {α} (f : List α → MV) : Option (List α) → MV
  | some l => f l
  | none => .none

def callMapCoercer (o : Oracle) (c : CoerceK) (x : PyVal) : Option PyVal × List Ev :=
  match applyCoerce o .dict .dict default c x with
  | .acc y t => (some y, t)
  | .rej _ t => (none, t)
  | .exn _ t => (none, t)

def mapCompat : CoerceK → List Ty
  | .dflt => defaultCompat .dict
  | .classOnly => [.cls default]
  | .user _ compat _ => compat

def mselfAttr (cfg : MapCfg) : MSelf → Option MV
  | .coerce => some (match cfg.coerce with | some c => .coercer c | none => .none)
  | .predicates => some (moptList .preds cfg.preds)
  | .predicatesAsync => some (moptList .apreds cfg.apreds)
  | .cls => some .cls
  | .keyValidator => some .childK
  | .valueValidator => some .childV
  | .other _ => Option.none

def callMapChild (ev : Ev1) (y : PyVal) (st : MSt) : MM MV :=
  match ev y with
  | none => .error (.diverge, st.tr)
  | some (.raised e, t) => .error (.exn e, st.tr ++ t)
  | some (out, t) => .ok (.resObj out, { st with tr := st.tr ++ t })

/-- what the `MapErr` of an `errors` dict says: failing keys, which part failed, the parts' errors in order -/
def mapErrInv (vid : Nat) (y : PyVal) (es : List (PyVal × KVE)) : Inv :=
  .mk (.map (es.map Prod.fst) (es.map (fun p => (p.2.1.isSome, p.2.2.isSome))))
    y vid (es.flatMap (fun p => p.2.1.toList ++ p.2.2.toList))

def MExp.eval (o : Oracle) (cfg : MapCfg) (x : PyVal) (st : MSt) : MExp → MM MV
  | .var v => .ok (st.env.get v, st)
  | .self => .ok (.self, st)
  | .val => .ok (.py x, st)
  | .selfAttr a => (match mselfAttr cfg a with | some r => .ok (r, st) | none => .error (.stuck "self attribute", st.tr))
  | .attr e a =>
    match e.eval o cfg x st with
    | .error err => .error err
    | .ok (d, st) =>
      match d, a with
      | .maybe m, .isJust => .ok (.bool m.isSome, st)
      | .maybe (some y), .valA => .ok (.py y, st)
      | .coercer c, .compatibleTypes => .ok (.tys (mapCompat c), st)
      | .resObj (.valid _), .isValid => .ok (.bool true, st)
      | .resObj (.invalid _), .isValid => .ok (.bool false, st)
      | .resObj (.valid w), .valA => .ok (.py w, st)
      | _, _ => .error (.stuck "attribute", st.tr)
  | .walrus v e =>
    match e.eval o cfg x st with
    | .error err => .error err
    | .ok (d, st) => .ok (d, { st with env := st.env.set v d })
  | .call1 f a =>
    match f.eval o cfg x st with
    | .error err => .error err
    | .ok (fd, st) =>
      match a.eval o cfg x st with
      | .error err => .error err
      | .ok (ad, st) =>
        match fd, ad with
        | .coercer c, .py y =>
          let r := callMapCoercer o c y
          .ok (.maybe r.1, { st with tr := st.tr ++ r.2 })
        | .pred p, .py y =>
          (match p.k.call y with
           | .ok b => .ok (.bool b, { st with tr := st.tr ++ p.ev })
           | .error e => .error (.exn e, st.tr ++ p.ev))
        | .childK, .py y => callMapChild cfg.key y st
        | .childV, .py y => callMapChild cfg.value y st
        | _, _ => .error (.stuck "call", st.tr)
  | .validateAsync recv a =>
    match recv.eval o cfg x st with
    | .error err => .error err
    | .ok (rd, st) =>
      match a.eval o cfg x st with
      | .error err => .error err
      | .ok (ad, st) =>
        match rd, ad with
        | .apred p, .py y =>
          (match p.k.call y with
           | .ok b => .ok (.bool b, { st with tr := st.tr ++ [.apred p.pid] })
           | .error e => .error (.exn e, st.tr ++ [.apred p.pid]))
        | .childK, .py y => callMapChild cfg.key y st
        | .childV, .py y => callMapChild cfg.value y st
        | _, _ => .error (.stuck "validate_async", st.tr)
  | .items e =>
    match e.eval o cfg x st with
    | .error err => .error err
    | .ok (.py y, st) =>
      (match dictItems y with
       | some kvs => .ok (.itemsOf kvs, st)
       | Option.none => .error (.exn .attributeError, st.tr))
    | .ok (_, st) => .error (.stuck "items", st.tr)
  | .typeIs e t =>
    match e.eval o cfg x st with
    | .error err => .error err
    | .ok (.py y, st) =>
      (match t.eval o cfg x st with
       | .error err => .error err
       | .ok (.tyName ty, st) => .ok (.bool (y.ty == ty), st)
       | .ok (_, st) => .error (.stuck "is", st.tr))
    | .ok (_, st) => .error (.stuck "type()", st.tr)
  | .not e =>
    match e.eval o cfg x st with
    | .error err => .error err
    | .ok (d, st) => (match mtruthy d with | some b => .ok (.bool (!b), st) | none => .error (.stuck "truth value", st.tr))
  | .isNotNone e =>
    match e.eval o cfg x st with
    | .error err => .error err
    | .ok (.none, st) => .ok (.bool false, st)
    | .ok (_, st) => .ok (.bool true, st)
  | .and a b =>
    match a.eval o cfg x st with
    | .error err => .error err
    | .ok (ad, st) =>
      (match mtruthy ad with
       | none => .error (.stuck "truth value", st.tr)
       | some false => .ok (ad, st)
       | some true => b.eval o cfg x st)
  | .ifExp c a b =>
    match c.eval o cfg x st with
    | .error err => .error err
    | .ok (cd, st) =>
      (match mtruthy cd with
       | none => .error (.stuck "truth value", st.tr)
       | some true => a.eval o cfg x st
       | some false => b.eval o cfg x st)
  | .noneLit => .ok (.none, st)
  | .dictTy => .ok (.tyName .dict, st)
  | .mkCoercionErr compat dest =>
    match compat.eval o cfg x st with
    | .error err => .error err
    | .ok (cd, st) =>
      match dest.eval o cfg x st with
      | .error err => .error err
      | .ok (dd, st) =>
        (match cd, dd with
         | .tys ts, .tyName ty => .ok (.errK (.coercion ts ty), st)
         | _, _ => .error (.stuck "CoercionErr", st.tr))
  | .mkTypeErr t =>
    match t.eval o cfg x st with
    | .error err => .error err
    | .ok (.tyName ty, st) => .ok (.errK (.type ty), st)
    | .ok (_, st) => .error (.stuck "TypeErr", st.tr)
  | .mkPredErrs e =>
    match e.eval o cfg x st with
    | .error err => .error err
    | .ok (.preds ps, st) => .ok (.errK (.preds (ps.map (·.pid))), st)
    | .ok (_, st) => .error (.stuck "PredicateErrs", st.tr)
  | .mkMapErr e =>
    match e.eval o cfg x st with
    | .error err => .error err
    | .ok (.mapErrs es, st) => .ok (.mapErrK es, st)
    | .ok (_, st) => .error (.stuck "MapErr", st.tr)
  | .mkKeyValErrs k v =>
    match k.eval o cfg x st with
    | .error err => .error err
    | .ok (kd, st) =>
      match v.eval o cfg x st with
      | .error err => .error err
      | .ok (vd, st) =>
        (match kd, vd with
         | .none, .none => .ok (.kve (Option.none, Option.none), st)
         | .none, .resObj (.invalid e) => .ok (.kve (Option.none, some e), st)
         | .resObj (.invalid e), .none => .ok (.kve (some e, Option.none), st)
         | .resObj (.invalid e1), .resObj (.invalid e2) => .ok (.kve (some e1, some e2), st)
         | _, _ => .error (.stuck "KeyValErrs", st.tr))
  | .mkInvalid errE valE slfE =>
    match errE.eval o cfg x st with
    | .error e => .error e
    | .ok (ed, st) =>
      match valE.eval o cfg x st with
      | .error e => .error e
      | .ok (vd, st) =>
        match slfE.eval o cfg x st with
        | .error e => .error e
        | .ok (sd, st) =>
          (match ed, vd, sd with
           | .errK k, .py y, .self => .ok (.resObj (.invalid (.mk k y cfg.vid [])), st)
           | .mapErrK es, .py y, .self => .ok (.resObj (.invalid (mapErrInv cfg.vid y es)), st)
           | _, _, _ => .error (.stuck "Invalid", st.tr))
  | .mkValid e =>
    match e.eval o cfg x st with
    | .error err => .error err
    | .ok (.dictPayload kvs, st) => .ok (.resObj (.valid (.dict 0 kvs)), st)
    | .ok (_, st) => .error (.stuck "Valid", st.tr)
  | .warn e =>
    match e.eval o cfg x st with
    | .error err => .error err
    | .ok (_, st) => .error (.exn .assertion, st.tr)
  | .emptyList => .ok (.emptyL, st)
  | .emptyDict => .ok (.dictPayload [], st)
  | .await e => e.eval o cfg x st
  | .unsupported why => .error (.stuck why, st.tr)

inductive MFlow
  | next (st : MSt)
  | returned (d : MV) (st : MSt)

def mforFold (execBody : MSt → Except (MErr × List Ev) MFlow) (v : MVar) : List MV → MSt → Except (MErr × List Ev) MFlow
  | [], st => .ok (.next st)
  | item :: rest, st =>
    match execBody { st with env := st.env.set v item } with
    | .ok (.next st') => mforFold execBody v rest st'
    | other => other

def mforFold2 (execBody : MSt → Except (MErr × List Ev) MFlow) (v w : MVar) :
    List (PyVal × PyVal) → MSt → Except (MErr × List Ev) MFlow
  | [], st => .ok (.next st)
  | (k, x) :: rest, st =>
    match execBody { st with env := (st.env.set v (.py k)).set w (.py x) } with
    | .ok (.next st') => mforFold2 execBody v w rest st'
    | other => other

mutual
def MStmt.exec (o : Oracle) (cfg : MapCfg) (x : PyVal) (st : MSt) : MStmt → Except (MErr × List Ev) MFlow
  | .assign v e =>
    match e.eval o cfg x st with
    | .error err => .error err
    | .ok (d, st) => .ok (.next { st with env := st.env.set v d })
  | .ite c t e =>
    match c.eval o cfg x st with
    | .error err => .error err
    | .ok (d, st) =>
      match mtruthy d with
      | none => .error (.stuck "truth value", st.tr)
      | some true => MStmt.execL o cfg x st t
      | some false => MStmt.execL o cfg x st e
  | .forIn v iter body =>
    match iter.eval o cfg x st with
    | .error err => .error err
    | .ok (.preds ps, st) => mforFold (fun st => MStmt.execL o cfg x st body) v (ps.map MV.pred) st
    | .ok (.apreds ps, st) => mforFold (fun st => MStmt.execL o cfg x st body) v (ps.map MV.apred) st
    | .ok (_, st) => .error (.stuck "iteration", st.tr)
  | .forIn2 v w iter body =>
    match iter.eval o cfg x st with
    | .error err => .error err
    | .ok (.itemsOf kvs, st) => mforFold2 (fun st => MStmt.execL o cfg x st body) v w kvs st
    | .ok (_, st) => .error (.stuck "iteration", st.tr)
  | .ret e =>
    match e.eval o cfg x st with
    | .error err => .error err
    | .ok (d, st) => .ok (.returned d st)
  | .expr e =>
    match e.eval o cfg x st with
    | .error err => .error err
    | .ok (_, st) => .ok (.next st)
  | .append l e =>
    match e.eval o cfg x st with
    | .error err => .error err
    | .ok (d, st) =>
      (match st.env.get l, d with
       | .preds ps, .pred p => .ok (.next { st with env := st.env.set l (.preds (ps ++ [p])) })
       | .preds ps, .apred p => .ok (.next { st with env := st.env.set l (.preds (ps ++ [p])) })
       | .emptyL, .pred p => .ok (.next { st with env := st.env.set l (.preds [p]) })
       | .emptyL, .apred p => .ok (.next { st with env := st.env.set l (.preds [p]) })
       | _, _ => .error (.stuck "append", st.tr))
  | .setItem d k v =>
    match k.eval o cfg x st with
    | .error err => .error err
    | .ok (kd, st) =>
      match v.eval o cfg x st with
      | .error err => .error err
      | .ok (vd, st) =>
        (match st.env.get d, kd, vd with
         -- `return_dict[k] = v`: hashing the key may raise; an equal key is overwritten
         | .dictPayload kvs, .py k, .py v =>
           if hashable k then .ok (.next { st with env := st.env.set d (.dictPayload (dictSet kvs k v)) })
           else .error (.exn .typeError, st.tr)
         -- `errors[key] = KeyValErrs(..)`: `key` is a key of the dict being validated, so hashable and new
         | .mapErrs es, .py k, .kve e => .ok (.next { st with env := st.env.set d (.mapErrs (es ++ [(k, e)])) })
         | .dictPayload [], .py k, .kve e => .ok (.next { st with env := st.env.set d (.mapErrs [(k, e)]) })
         | _, _, _ => .error (.stuck "item assignment", st.tr))
  | .unsupported why => .error (.stuck why, st.tr)
termination_by structural s => s
def MStmt.execL (o : Oracle) (cfg : MapCfg) (x : PyVal) (st : MSt) : List MStmt → Except (MErr × List Ev) MFlow
  | [] => .ok (.next st)
  | s :: rest =>
    match s.exec o cfg x st with
    | .error err => .error err
    | .ok (.next st) => MStmt.execL o cfg x st rest
    | .ok (.returned d st) => .ok (.returned d st)
termination_by structural l => l
end

/-- run a method body on input `x` -/
def runMapMethod (o : Oracle) (cfg : MapCfg) (body : List MStmt) (x : PyVal) : Option (Out × List Ev) :=
  match MStmt.execL o cfg x { env := {}, tr := [] } body with
  | .error (.exn e, t) => some (.raised e, t)
  | .error (_, _) => none
  | .ok (.returned (.resObj (.valid w)) st) => some (.valid w, st.tr)
  | .ok (.returned (.resObj (.invalid e)) st) => some (.invalid e, st.tr)
  | .ok _ => none

end Koda
