/-
  Driver.Wire — JSON wire language → model terms, and model results → canonical JSON.
  Not part of the model: nothing here is mentioned by a theorem.
-/
import Lean.Data.Json
import KodaModel.Eval
import KodaModel.Typehint

open Lean (Json)
namespace Koda.Wire

abbrev D := Except String

def fld (j : Json) (k : String) : D Json :=
  match j.getObjVal? k with
  | .ok v => .ok v
  | .error _ => .error s!"missing field {k} in {j.compress.take 200}"

def fldOpt (j : Json) (k : String) : Option Json :=
  match j.getObjVal? k with
  | .ok .null => none
  | .ok v => some v
  | .error _ => none

def str (j : Json) (k : String) : D String := do (← fld j k).getStr?
def nat (j : Json) (k : String) : D Nat := do (← fld j k).getNat?
def int (j : Json) (k : String) : D Int := do (← fld j k).getInt?
def bool (j : Json) (k : String) : D Bool := do (← fld j k).getBool?
def arr (j : Json) (k : String) : D (Array Json) := do (← fld j k).getArr?
def natList (j : Json) (k : String) : D (List Nat) := do
  (← arr j k).toList.mapM (fun x => x.getNat?)
def boolOr (j : Json) (k : String) (d : Bool) : D Bool :=
  match fldOpt j k with
  | some v => v.getBool?
  | none => pure d

def getCls (j : Json) : D ClassId := do
  pure ⟨← nat j "id", ← nat j "kind", ← bool j "hashable", ← bool j "slots"⟩

def getTy (j : Json) : D Ty :=
  match j with
  | .str s =>
    match s with
    | "none" => pure .none | "bool" => pure .bool | "int" => pure .int | "float" => pure .float
    | "str" => pure .str | "bytes" => pure .bytes | "decimal" => pure .decimal | "uuid" => pure .uuid
    | "date" => pure .date | "datetime" => pure .datetime | "list" => pure .list
    | "tuple" => pure .tuple | "set" => pure .set | "dict" => pure .dict | "just" => pure .just
    | "nothing" => pure .nothing | "maybeAny" => pure .maybeAny
    | _ => .error s!"bad ty {s}"
  | _ => do pure (.cls (← getCls (← fld j "cls")))

partial def getVal (j : Json) : D PyVal := do
  let t ← str j "t"
  match t with
  | "none" => pure .none
  | "bool" => pure (.bool (← bool j "b"))
  | "int" => pure (.int (← int j "i"))
  | "float" =>
    match ← str j "k" with
    | "nan" => pure (.float .nan)
    | "inf" => pure (.float (.inf (← bool j "neg")))
    | _ => pure (.float (.fin (← bool j "neg") (← nat j "m") (← int j "e")))
  | "str" => pure (.str (← natList j "s"))
  | "bytes" => pure (.bytes (← natList j "s"))
  | "decimal" =>
    match ← str j "k" with
    | "nan" => pure (.decimal .nan)
    | "snan" => pure (.decimal .snan)
    | "inf" => pure (.decimal (.inf (← bool j "neg")))
    | _ => pure (.decimal (.fin (← bool j "neg") (← nat j "c") (← int j "e")))
  | "uuid" => pure (.uuid (← nat j "n"))
  | "date" => pure (.date (← nat j "o"))
  | "datetime" =>
    let off ← match fldOpt j "off" with
      | some o => do pure (some (← o.getInt?))
      | none => pure none
    pure (.datetime (← int j "us") off)
  | "list" => pure (.list (← nat j "oid") (← (← arr j "xs").toList.mapM getVal))
  | "tuple" => pure (.tuple (← nat j "oid") (← (← arr j "xs").toList.mapM getVal))
  | "set" => pure (.set (← nat j "oid") (← (← arr j "xs").toList.mapM getVal))
  | "dict" =>
    let kvs ← (← arr j "kvs").toList.mapM (fun p => do
      let a ← p.getArr?
      if a.size ≠ 2 then throw "bad kv"
      pure (← getVal a[0]!, ← getVal a[1]!))
    pure (.dict (← nat j "oid") kvs)
  | "just" => pure (.just (← nat j "oid") (← getVal (← fld j "v")))
  | "nothing" => pure .nothing
  | "inst" =>
    let names ← (← arr j "names").toList.mapM (fun x => x.getStr?)
    pure (.inst (← nat j "oid") (← nat j "doid") (← getCls (← fld j "cls")) names
      (← (← arr j "vals").toList.mapM getVal))
  | "sub" => pure (.sub (← getCls (← fld j "cls")) (← getVal (← fld j "v")))
  | _ => throw s!"bad value tag {t}"

/-! ### the closed callback language -/

/-- Boolean functions of a value -/
partial def getBoolFn (j : Json) : D (PyVal → Bool) := do
  match ← str j "f" with
  | "const" => let b ← bool j "b"; pure (fun _ => b)
  | "intGt" =>
    let k ← int j "k"
    pure (fun x => match x.unsub with | .int i => decide (i > k) | _ => false)
  | "lenLe" =>
    let k ← nat j "k"
    pure (fun x => match pyLen x with | some n => decide (n ≤ k) | none => false)
  | "eqv" => let v ← getVal (← fld j "v"); pure (fun x => pyEq x v)
  | "tyIs" => let t ← getTy (← fld j "ty"); pure (fun x => x.ty == t)
  | "not" => let g ← getBoolFn (← fld j "g"); pure (fun x => !g x)
  | f => throw s!"bad bool fn {f}"

/-- value transformers -/
def getValFn (j : Json) : D (PyVal → PyVal) := do
  match ← str j "f" with
  | "id" => pure id
  | "appendStr" =>
    let s ← natList j "s"
    pure (fun x => match x with | .str t => .str (t ++ s) | y => y)
  | "addInt" =>
    let k ← int j "k"
    pure (fun x => match x with | .int i => .int (i + k) | y => y)
  | "constv" => let v ← getVal (← fld j "v"); pure (fun _ => v)
  | f => throw s!"bad val fn {f}"

def digitsToNat (s : List Nat) : Option Nat :=
  if s.isEmpty then none
  else s.foldl (fun acc c => match acc with
    | some a => if 48 ≤ c && c ≤ 57 then some (a * 10 + (c - 48)) else none
    | none => none) (some 0)

/-- partial value transformers (coercers) -/
def getOptFn (j : Json) : D (PyVal → Option PyVal) := do
  match ← str j "f" with
  | "rejectAll" => pure (fun _ => none)
  | "acceptAll" => pure (fun x => some x)
  | "ifTy" => let t ← getTy (← fld j "ty"); pure (fun x => if x.ty == t then some x else none)
  | "intFromDigits" =>
    pure (fun x => match x with
      | .int i => some (.int i)
      | .str s => (digitsToNat s).map (fun n => PyVal.int n)
      | _ => none)
  | "listFromTuple" =>
    pure (fun x => match x with
      | .list _ _ => some x
      | .tuple _ xs => some (.list 0 xs)
      | _ => none)
  | "setFromList" =>
    pure (fun x => match x with
      | .set _ _ => some x
      | .list _ xs => if xs.all hashable then some (.set 0 (dedup xs)) else none
      | _ => none)
  | "tupleFromAny" =>
    pure (fun x => match x with
      | .tuple _ _ => some x
      | .list _ xs => some (.tuple 0 xs)
      | .set _ xs => some (.tuple 0 xs)
      | _ => none)
  -- coercers whose result differs from their source in length / kind (container predicates must see the result)
  | "tupleTail" =>
    pure (fun x => match x with
      | .tuple _ _ => some x
      | .list _ xs => some (.tuple 0 xs.tail)
      | .int i => some (.tuple 0 [.int i])
      | _ => none)
  | "listTail" =>
    pure (fun x => match x with
      | .list _ _ => some x
      | .tuple _ xs => some (.list 0 xs.tail)
      | .int i => some (.list 0 [.int i])
      | _ => none)
  | "dictFromPairs" =>
    pure (fun x => match x with
      | .dict _ _ => some x
      | .list _ xs =>
        let ps := xs.filterMap (fun p => match p with
          | .tuple _ [k, v] => some (k, v) | _ => none)
        if ps.length == xs.length && ps.all (fun p => hashable p.1)
        then some (.dict 0 (ps.foldl (fun acc p => dictSet acc p.1 p.2) []))
        else none
      | _ => none)
  | "constv" => let v ← getVal (← fld j "v"); pure (fun _ => some v)
  | f => throw s!"bad opt fn {f}"

/-- whole-object checks -/
def getOcFn (j : Json) : D (PyVal → Option Nat) := do
  match ← str j "f" with
  | "pass" => pure (fun _ => none)
  | "fail" => let e ← nat j "e"; pure (fun _ => some e)
  | "failIf" =>
    let e ← nat j "e"
    let g ← getBoolFn (← fld j "g")
    pure (fun x => if g x then some e else none)
  | f => throw s!"bad oc fn {f}"

def getInto (j : Json) : D (List PyVal → PyVal) := do
  match ← str j "f" with
  | "dictOf" =>
    let ks ← (← arr j "keys").toList.mapM getVal
    pure (fun args => .dict 0 ((ks.zip args).foldl (fun acc p => dictSet acc p.1 p.2) []))
  | "tupleOf" => pure (fun args => .tuple 0 args)
  | "listOf" => pure (fun args => .list 0 args)
  | f => throw s!"bad into {f}"

def getPatEl (j : Json) : D PatEl := do
  match ← str j "k" with
  | "lit" => pure (.lit (← nat j "c"))
  | "cls" => pure (.cls (← natList j "cs"))
  | "any" => pure .any
  | "star" => pure (.star (← natList j "cs"))
  | k => throw s!"bad pat el {k}"

def getPat (j : Json) : D Pat := do
  pure ⟨← bool j "start", ← (← arr j "els").toList.mapM getPatEl, ← bool j "end"⟩

def getPred (j : Json) : D Pred := do
  let pid ← nat j "pid"
  let k ← str j "k"
  let pk : PredK ← match k with
    | "Min" => pure (PredK.min (← getVal (← fld j "v")) (← bool j "excl"))
    | "Max" => pure (PredK.max (← getVal (← fld j "v")) (← bool j "excl"))
    | "MultipleOf" => pure (PredK.multipleOf (← getVal (← fld j "v")))
    | "EqualTo" => pure (PredK.equalTo (← getVal (← fld j "v")))
    | "Choices" => pure (PredK.choices (← (← arr j "vs").toList.mapM getVal))
    | "MinLength" => pure (PredK.minLength (← int j "n"))
    | "MaxLength" => pure (PredK.maxLength (← int j "n"))
    | "ExactLength" => pure (PredK.exactLength (← int j "n"))
    | "StartsWith" => pure (PredK.startsWith (← getVal (← fld j "v")))
    | "EndsWith" => pure (PredK.endsWith (← getVal (← fld j "v")))
    | "NotBlank" => pure PredK.notBlank
    | "Regex" => pure (PredK.regex (← getPat (← fld j "pat")))
    | "Email" => pure PredK.email
    | "MinItems" => pure (PredK.minItems (← int j "n"))
    | "MaxItems" => pure (PredK.maxItems (← int j "n"))
    | "ExactItemCount" => pure (PredK.exactItemCount (← int j "n"))
    | "UniqueItems" => pure PredK.uniqueItems
    | "MinKeys" => pure (PredK.minKeys (← int j "n"))
    | "MaxKeys" => pure (PredK.maxKeys (← int j "n"))
    | "user" => pure (PredK.user (← getBoolFn (← fld j "fn")))
    | _ => throw s!"bad pred {k}"
  pure ⟨pid, pk⟩

def getProc (j : Json) : D Proc := do
  let pid ← nat j "pid"
  let pk : ProcK ← match ← str j "k" with
    | "strip" => pure ProcK.strip
    | "upper" => pure ProcK.upper
    | "lower" => pure ProcK.lower
    | "user" => pure (ProcK.user (← getValFn (← fld j "fn")))
    | k => throw s!"bad proc {k}"
  pure ⟨pid, pk⟩

def getCoerce (j : Json) (k : String) : D (Option CoerceK) :=
  match fldOpt j k with
  | none => pure none
  | some (.str "default") => pure (some .dflt)
  | some (.str "classOnly") => pure (some .classOnly)
  | some c => do
    let compat ← (← arr c "compat").toList.mapM getTy
    pure (some (.user (← nat c "cid") compat (← getOptFn (← fld c "fn"))))

def getOc (j : Json) (k : String) : D (Option ObjCheck) :=
  match fldOpt j k with
  | none => pure none
  | some c => do pure (some ⟨← nat c "id", ← getOcFn (← fld c "fn")⟩)

def getPreds (j : Json) (k : String) : D (List Pred) :=
  match fldOpt j k with
  | none => pure []
  | some a => do (← a.getArr?).toList.mapM getPred

def getProcs (j : Json) (k : String) : D (List Proc) :=
  match fldOpt j k with
  | none => pure []
  | some a => do (← a.getArr?).toList.mapM getProc

def getRecKind : String → D RecKind
  | "record" => pure .record | "dictAny" => pure .dictAny | "dataclass" => pure .dataclass
  | "namedtuple" => pure .namedtuple | "typeddict" => pure .typeddict
  | k => throw s!"bad rec kind {k}"

partial def getV (j : Json) : D V := do
  let k ← str j "k"
  let vid ← nat j "vid"
  match k with
  | "scalar" =>
    pure (.scalar vid (← getTy (← fld j "ty")) (← getCoerce j "coerce") (← getProcs j "pre")
      (← getPreds j "preds") (← getPreds j "apreds"))
  | "equals" => pure (.equals vid (← getVal (← fld j "m")) (← getProcs j "pre") (← nat j "pid"))
  | "none" => pure (.noneV vid (← getCoerce j "coerce"))
  | "always" => pure (.always vid)
  | "isDict" => pure (.isDict vid)
  | "list" =>
    pure (.list vid (← getV (← fld j "item")) (← getPreds j "preds") (← getPreds j "apreds")
      (← getCoerce j "coerce"))
  | "set" =>
    pure (.set vid (← getV (← fld j "item")) (← getPreds j "preds") (← getPreds j "apreds")
      (← getCoerce j "coerce"))
  | "utuple" =>
    pure (.utuple vid (← getV (← fld j "item")) (← getPreds j "preds") (← getPreds j "apreds")
      (← getCoerce j "coerce"))
  | "ntuple" =>
    pure (.ntuple vid (← (← arr j "fields").toList.mapM getV) (← getOc j "oc")
      (← getCoerce j "coerce") (← nat j "lenPid"))
  | "map" =>
    pure (.map vid (← getV (← fld j "key")) (← getV (← fld j "value")) (← getPreds j "preds")
      (← getPreds j "apreds") (← getCoerce j "coerce"))
  | "record" =>
    let kind ← getRecKind (← str j "kind")
    let keys ← (← arr j "keys").toList.mapM getVal
    let reqs ← (← arr j "reqs").toList.mapM (fun b => b.getBool?)
    let cls ← match fldOpt j "cls" with
      | some c => getCls c
      | none => pure default
    let names ← match fldOpt j "fieldNames" with
      | some a => do (← a.getArr?).toList.mapM (fun x => x.getStr?)
      | none => pure []
    let defaults ← match fldOpt j "defaults" with
      | some a => do (← a.getArr?).toList.mapM (fun d => match d with
          | .null => pure none
          | v => do pure (some (← getVal v)))
      | none => pure []
    let (intoId, into) ← match fldOpt j "into" with
      | some i => do pure (← nat i "id", ← getInto i)
      | none => pure (0, fun (_ : List PyVal) => PyVal.none)
    let cfg : RecCfg := {
      kind, keys, reqs, cls, fieldNames := names, defaults, intoId, into,
      oc := ← getOc j "oc", aoc := ← getOc j "aoc",
      failUnknown := ← boolOr j "failUnknown" false,
      coerce := ← getCoerce j "coerce" }
    pure (.record vid cfg (← (← arr j "vals").toList.mapM getV))
  | "union" => pure (.union vid (← (← arr j "vs").toList.mapM getV))
  | "optional" => pure (.optional vid (← getV (← fld j "noneV")) (← getV (← fld j "inner")))
  | "maybe" => pure (.maybe vid (← getV (← fld j "inner")))
  | "lazy" => pure (.lazy vid (← nat j "ref"))
  | "knr" => pure (.knr vid (← getV (← fld j "inner")))
  | "user" => pure (.user vid (← getV (← fld j "inner")))
  | _ => throw s!"bad validator kind {k}"

def getErrK (j : Json) : D ErrK := do
  match ← str j "e" with
  | "type" => pure (.type (← getTy (← fld j "ty")))
  | "coercion" => pure (.coercion (← (← arr j "compat").toList.mapM getTy) (← getTy (← fld j "dest")))
  | "preds" => pure (.preds (← natList j "pids"))
  | "index" => pure (.index (← natList j "idx"))
  | "keys" => pure (.keys (← (← arr j "ks").toList.mapM getVal))
  | "map" =>
    let shape ← (← arr j "shape").toList.mapM (fun p => do
      let a ← p.getArr?
      if a.size ≠ 2 then throw "bad shape"
      pure (← a[0]!.getBool?, ← a[1]!.getBool?))
    pure (.map (← (← arr j "ks").toList.mapM getVal) shape)
  | "set" => pure .set
  | "union" => pure .union
  | "container" => pure .container
  | "extraKeys" => pure (.extraKeys (← (← arr j "ks").toList.mapM getVal))
  | "missingKey" => pure .missingKey
  | "custom" => pure (.custom (← nat j "id"))
  | e => throw s!"bad err kind {e}"

partial def getInv (j : Json) : D Inv := do
  let vid ← match (← fld j "vid").getNat? with
    | .ok n => pure n
    | .error _ => pure 0
  pure (.mk (← getErrK (← fld j "err")) (← getVal (← fld j "value")) vid
    (← (← arr j "children").toList.mapM getInv))

/-- oracle tables: `[[codepoints, value|null], …]` per parser -/
def getTable (j : Json) (k : String) : D (List (List Nat × Option PyVal)) :=
  match fldOpt j k with
  | none => pure []
  | some a => do
    (← a.getArr?).toList.mapM (fun e => do
      let p ← e.getArr?
      if p.size ≠ 2 then throw "bad oracle entry"
      let s ← (← p[0]!.getArr?).toList.mapM (fun x => x.getNat?)
      let v ← match p[1]! with
        | .null => pure none
        | v => do pure (some (← getVal v))
      pure (s, v))

/-! ### printing -/

def clsJ (c : ClassId) : Json :=
  Json.mkObj [("id", c.id), ("kind", c.kind), ("hashable", c.hashable), ("slots", c.slots)]

def tyJ : Ty → Json
  | .none => "none" | .bool => "bool" | .int => "int" | .float => "float" | .str => "str"
  | .bytes => "bytes" | .decimal => "decimal" | .uuid => "uuid" | .date => "date"
  | .datetime => "datetime" | .list => "list" | .tuple => "tuple" | .set => "set" | .dict => "dict"
  | .just => "just" | .nothing => "nothing" | .maybeAny => "maybeAny"
  | .cls c => Json.mkObj [("cls", clsJ c)]

def natsJ (xs : List Nat) : Json := Json.arr (xs.map (fun (n : Nat) => (n : Json))).toArray

partial def valJ : PyVal → Json
  | .none => Json.mkObj [("t", "none")]
  | .bool b => Json.mkObj [("t", "bool"), ("b", b)]
  | .int i => Json.mkObj [("t", "int"), ("i", i)]
  | .float .nan => Json.mkObj [("t", "float"), ("k", "nan")]
  | .float (.inf n) => Json.mkObj [("t", "float"), ("k", "inf"), ("neg", n)]
  | .float (.fin n m e) => Json.mkObj [("t", "float"), ("k", "fin"), ("neg", n), ("m", m), ("e", e)]
  | .str s => Json.mkObj [("t", "str"), ("s", natsJ s)]
  | .bytes s => Json.mkObj [("t", "bytes"), ("s", natsJ s)]
  | .decimal .nan => Json.mkObj [("t", "decimal"), ("k", "nan")]
  | .decimal .snan => Json.mkObj [("t", "decimal"), ("k", "snan")]
  | .decimal (.inf n) => Json.mkObj [("t", "decimal"), ("k", "inf"), ("neg", n)]
  | .decimal (.fin n c e) =>
    Json.mkObj [("t", "decimal"), ("k", "fin"), ("neg", n), ("c", c), ("e", e)]
  | .uuid n => Json.mkObj [("t", "uuid"), ("n", n)]
  | .date o => Json.mkObj [("t", "date"), ("o", o)]
  | .datetime us off =>
    Json.mkObj [("t", "datetime"), ("us", us), ("off", match off with | some o => (o : Json) | none => Json.null)]
  | .list oid xs => Json.mkObj [("t", "list"), ("oid", oid), ("xs", Json.arr (xs.map valJ).toArray)]
  | .tuple oid xs => Json.mkObj [("t", "tuple"), ("oid", oid), ("xs", Json.arr (xs.map valJ).toArray)]
  | .set oid xs => Json.mkObj [("t", "set"), ("oid", oid), ("xs", Json.arr (xs.map valJ).toArray)]
  | .dict oid kvs =>
    Json.mkObj [("t", "dict"), ("oid", oid),
      ("kvs", Json.arr (kvs.map (fun p => Json.arr #[valJ p.1, valJ p.2])).toArray)]
  | .just oid v => Json.mkObj [("t", "just"), ("oid", oid), ("v", valJ v)]
  | .nothing => Json.mkObj [("t", "nothing")]
  | .inst oid doid c names vals =>
    Json.mkObj [("t", "inst"), ("oid", oid), ("doid", doid), ("cls", clsJ c),
      ("names", Json.arr (names.map (fun (s : String) => (s : Json))).toArray),
      ("vals", Json.arr (vals.map valJ).toArray)]
  | .sub c v => Json.mkObj [("t", "sub"), ("cls", clsJ c), ("v", valJ v)]

def errKJ : ErrK → Json
  | .type t => Json.mkObj [("e", "type"), ("ty", tyJ t)]
  | .coercion compat dest =>
    Json.mkObj [("e", "coercion"), ("compat", Json.arr (compat.map tyJ).toArray), ("dest", tyJ dest)]
  | .preds pids => Json.mkObj [("e", "preds"), ("pids", natsJ pids)]
  | .index idx => Json.mkObj [("e", "index"), ("idx", natsJ idx)]
  | .keys ks => Json.mkObj [("e", "keys"), ("ks", Json.arr (ks.map valJ).toArray)]
  | .map ks shape =>
    Json.mkObj [("e", "map"), ("ks", Json.arr (ks.map valJ).toArray),
      ("shape", Json.arr (shape.map (fun p => Json.arr #[(p.1 : Json), (p.2 : Json)])).toArray)]
  | .set => Json.mkObj [("e", "set")]
  | .union => Json.mkObj [("e", "union")]
  | .container => Json.mkObj [("e", "container")]
  | .extraKeys ks => Json.mkObj [("e", "extraKeys"), ("ks", Json.arr (ks.map valJ).toArray)]
  | .missingKey => Json.mkObj [("e", "missingKey")]
  | .custom id => Json.mkObj [("e", "custom"), ("id", id)]

partial def invJ : Inv → Json
  | .mk k v vid ch =>
    Json.mkObj [("err", errKJ k), ("value", valJ v), ("vid", vid),
      ("children", Json.arr (ch.map invJ).toArray)]

def exnJ : Exn → Json
  | .assertion => "AssertionError" | .typeError => "TypeError"
  | .invalidOperation => "InvalidOperation" | .attributeError => "AttributeError"
  | .zeroDivision => "ZeroDivisionError" | .unicodeDecode => "UnicodeDecodeError"
  | .other => "Other"

def modeJ : Mode → Json | .sync => "sync" | .async => "async"

def evJ : Ev → Json
  | .pred p => Json.arr #["pred", p]
  | .apred p => Json.arr #["apred", p]
  | .proc p => Json.arr #["proc", p]
  | .coerce c => Json.arr #["coerce", c]
  | .uv v m => Json.arr #["uv", v, modeJ m]
  | .oc i => Json.arr #["oc", i]
  | .aoc i => Json.arr #["aoc", i]
  | .into i => Json.arr #["into", i]

def outJ : Out → Json
  | .valid w => Json.mkObj [("valid", valJ w)]
  | .invalid e => Json.mkObj [("invalid", invJ e)]
  | .raised x => Json.mkObj [("raised", exnJ x)]

/-! ### printing validators (what `derive` builds; user callbacks are not printable) -/

def predJ (p : Pred) : Json :=
  match p.k with
  | .choices vs => Json.mkObj [("k", "Choices"), ("pid", p.pid), ("vs", Json.arr (vs.map valJ).toArray)]
  | .equalTo v => Json.mkObj [("k", "EqualTo"), ("pid", p.pid), ("v", valJ v)]
  | _ => Json.mkObj [("k", "opaque"), ("pid", p.pid)]

def coerceJ : Option CoerceK → Json
  | none => Json.null
  | some .dflt => "default"
  | some .classOnly => "classOnly"
  | some (.user cid _ _) => Json.mkObj [("cid", cid)]

def recKindJ : RecKind → Json
  | .record => "record" | .dictAny => "dictAny" | .dataclass => "dataclass" | .namedtuple => "namedtuple"
  | .typeddict => "typeddict"

partial def vJ : V → Json
  | .scalar vid tg c pre ps aps =>
    Json.mkObj [("k", "scalar"), ("vid", vid), ("ty", tyJ tg), ("coerce", coerceJ c), ("npre", pre.length),
      ("preds", Json.arr (ps.map predJ).toArray), ("napreds", aps.length)]
  | .equals vid m _ pid => Json.mkObj [("k", "equals"), ("vid", vid), ("m", valJ m), ("pid", pid)]
  | .noneV vid c => Json.mkObj [("k", "none"), ("vid", vid), ("coerce", coerceJ c)]
  | .always vid => Json.mkObj [("k", "always"), ("vid", vid)]
  | .isDict vid => Json.mkObj [("k", "isDict"), ("vid", vid)]
  | .list vid item ps _ c => Json.mkObj [("k", "list"), ("vid", vid), ("item", vJ item), ("npreds", ps.length), ("coerce", coerceJ c)]
  | .set vid item ps _ c => Json.mkObj [("k", "set"), ("vid", vid), ("item", vJ item), ("npreds", ps.length), ("coerce", coerceJ c)]
  | .utuple vid item ps _ c => Json.mkObj [("k", "utuple"), ("vid", vid), ("item", vJ item), ("npreds", ps.length), ("coerce", coerceJ c)]
  | .ntuple vid fs _ c lp => Json.mkObj [("k", "ntuple"), ("vid", vid), ("fields", Json.arr (fs.map vJ).toArray), ("coerce", coerceJ c), ("lenPid", lp)]
  | .map vid k v ps _ c => Json.mkObj [("k", "map"), ("vid", vid), ("key", vJ k), ("value", vJ v), ("npreds", ps.length), ("coerce", coerceJ c)]
  | .record vid cfg vs =>
    Json.mkObj [("k", "record"), ("vid", vid), ("kind", recKindJ cfg.kind), ("keys", Json.arr (cfg.keys.map valJ).toArray),
      ("reqs", Json.arr (cfg.reqs.map (fun (b : Bool) => (b : Json))).toArray), ("cls", clsJ cfg.cls),
      ("failUnknown", cfg.failUnknown), ("coerce", coerceJ cfg.coerce), ("vals", Json.arr (vs.map vJ).toArray)]
  | .union vid vs => Json.mkObj [("k", "union"), ("vid", vid), ("vs", Json.arr (vs.map vJ).toArray)]
  | .optional vid nv inner => Json.mkObj [("k", "optional"), ("vid", vid), ("noneV", vJ nv), ("inner", vJ inner)]
  | .maybe vid inner => Json.mkObj [("k", "maybe"), ("vid", vid), ("inner", vJ inner)]
  | .lazy vid ref => Json.mkObj [("k", "lazy"), ("vid", vid), ("ref", ref)]
  | .knr vid inner => Json.mkObj [("k", "knr"), ("vid", vid), ("inner", vJ inner)]
  | .user vid inner => Json.mkObj [("k", "user"), ("vid", vid), ("inner", vJ inner)]

/-! ### annotations -/

def optVals (j : Json) (k : String) : D (List (Option PyVal)) := do
  (← arr j k).toList.mapM (fun d => match d with
    | .null => pure none
    | v => do pure (some (← getVal v)))

partial def getAnn (j : Json) : D Ann := do
  match ← str j "a" with
  | "str" => pure .str | "int" => pure .int | "float" => pure .float | "none" => pure .none
  | "uuid" => pure .uuid | "date" => pure .date | "datetime" => pure .datetime | "bool" => pure .bool
  | "decimal" => pure .decimal | "bytes" => pure .bytes | "any" => pure .any
  | "listBare" => pure .listBare | "setBare" => pure .setBare | "tupleBare" => pure .tupleBare
  | "dictBare" => pure .dictBare
  | "list" => pure (.list (← getAnn (← fld j "x")))
  | "set" => pure (.set (← getAnn (← fld j "x")))
  | "dict" => pure (.dict (← getAnn (← fld j "key")) (← getAnn (← fld j "value")))
  | "union" => pure (.union (← (← arr j "xs").toList.mapM getAnn))
  | "maybe" => pure (.maybe (← getAnn (← fld j "x")))
  | "tupleVar" => pure (.tupleVar (← getAnn (← fld j "x")))
  | "tupleFixed" => pure (.tupleFixed (← (← arr j "xs").toList.mapM getAnn))
  | "literal" => pure (.literal (← (← arr j "vs").toList.mapM getVal))
  | "annotated" => pure (.annotated (← getAnn (← fld j "x")) (← getV (← fld j "v")))
  | "dataclass" =>
    pure (.dataclass (← getCls (← fld j "cls")) (← (← arr j "names").toList.mapM (fun x => x.getStr?))
      (← (← arr j "anns").toList.mapM getAnn) (← optVals j "dflts"))
  | "namedtuple" =>
    pure (.namedtuple (← getCls (← fld j "cls")) (← (← arr j "names").toList.mapM (fun x => x.getStr?))
      (← (← arr j "anns").toList.mapM getAnn) (← optVals j "dflts"))
  | "typeddict" =>
    pure (.typeddict (← getCls (← fld j "cls")) (← (← arr j "names").toList.mapM (fun x => x.getStr?))
      (← (← arr j "anns").toList.mapM getAnn) (← (← arr j "reqs").toList.mapM (fun b => b.getBool?)))
  | "cls" => pure (.cls (← getCls (← fld j "cls")))
  | "marked" => pure (.marked (← getAnn (← fld j "x")))
  | a => throw s!"bad annotation {a}"

end Koda.Wire
