/-
  kvdriver — one JSON request per line on stdin, one JSON answer per line on stdout.
  Runs the very definitions the theorems are about.
-/
import Driver.Wire
import KodaModel.Cache
import KodaModel.Render
import KodaModel.Schema
import KodaModel.SchemaEval
import KodaModel.Signature
import KodaModel.Rename

open Lean (Json)
open Koda Koda.Wire

def getNatPairs (j : Json) : D (List (Nat × Nat)) := do
  (← j.getArr?).toList.mapM (fun e => do
    let a ← e.getArr?
    match a.toList with
    | [x, y] => pure (← x.getNat?, ← y.getNat?)
    | _ => throw "bad pair")

def handleRun (j : Json) : D Json := do
  let mode ← match ← str j "mode" with
    | "sync" => pure Mode.sync
    | "async" => pure Mode.async
    | m => throw s!"bad mode {m}"
  let envL ← match fldOpt j "env" with
    | some a => do (← a.getArr?).toList.mapM getV
    | none => pure []
  let env : Nat → V := fun i => envL.getD i (.always 0)
  let v ← getV (← fld j "v")
  let x ← getVal (← fld j "x")
  let orc := match fldOpt j "oracle" with | some o => o | none => Json.mkObj []
  let dT ← getTable orc "decimal"
  let uT ← getTable orc "uuid"
  let daT ← getTable orc "date"
  let dtT ← getTable orc "datetime"
  let o : Oracle := {
    decimal := fun s => (dT.find? (fun e => e.1 == s)).bind (·.2)
    uuid := fun s => (uT.find? (fun e => e.1 == s)).bind (·.2)
    date := fun s => (daT.find? (fun e => e.1 == s)).bind (·.2)
    datetime := fun s => (dtT.find? (fun e => e.1 == s)).bind (·.2) }
  let fuel ← match fldOpt j "fuel" with
    | some f => f.getNat?
    | none => pure 10000
  -- optional: run the tree with object identities renamed (`V.rn`, the subject of C19_rename)
  let (env, v) ← match fldOpt j "rename" with
    | none => pure (env, v)
    | some rj => do
      let pT ← getNatPairs (← fld rj "p")
      let vT ← getNatPairs (← fld rj "v")
      let look (t : List (Nat × Nat)) (d : Option Nat) (i : Nat) : Nat :=
        match t.find? (fun e => e.1 == i) with
        | some e => e.2
        | none => d.getD i
      let pd ← match fldOpt rj "pd" with | some d => (some <$> d.getNat?) | none => pure none
      let vd ← match fldOpt rj "vd" with | some d => (some <$> d.getNat?) | none => pure none
      let r : Rn := ⟨look pT pd, look vT vd⟩
      pure ((fun i => (env i).rn r), v.rn r)
  match run o env mode fuel v x with
  | none => pure (Json.mkObj [("error", "fuel")])
  | some (out, t) => pure (Json.mkObj [("out", outJ out), ("trace", Json.arr (t.map evJ).toArray)])

def getOracle (j : Json) : D Oracle := do
  let orc := match fldOpt j "oracle" with | some o => o | none => Json.mkObj []
  let dT ← getTable orc "decimal"
  let uT ← getTable orc "uuid"
  let daT ← getTable orc "date"
  let dtT ← getTable orc "datetime"
  pure {
    decimal := fun s => (dT.find? (fun e => e.1 == s)).bind (·.2)
    uuid := fun s => (uT.find? (fun e => e.1 == s)).bind (·.2)
    date := fun s => (daT.find? (fun e => e.1 == s)).bind (·.2)
    datetime := fun s => (dtT.find? (fun e => e.1 == s)).bind (·.2) }

def getMode (s : String) : D Mode :=
  match s with
  | "sync" => pure .sync
  | "async" => pure .async
  | m => throw s!"bad mode {m}"

def oidOf : PyVal → Nat
  | .list o _ => o | .tuple o _ => o | .set o _ => o | .dict o _ => o | .just o _ => o
  | .inst o _ _ _ _ => o
  | _ => 0

/-- the value with every identity erased (the key of a store that keeps a snapshot of the input's contents) -/
partial def zeroOid : PyVal → PyVal
  | .list _ xs => .list 0 (xs.map zeroOid)
  | .tuple _ xs => .tuple 0 (xs.map zeroOid)
  | .set _ xs => .set 0 (xs.map zeroOid)
  | .dict _ kvs => .dict 0 (kvs.map (fun p => (zeroOid p.1, zeroOid p.2)))
  | .just _ v => .just 0 (zeroOid v)
  | .inst _ _ c ns vs => .inst 0 0 c ns (vs.map zeroOid)
  | .sub c v => .sub c (zeroOid v)
  | v => v

def cevJ : CEv → Json
  | .get m => Json.arr #["cget", modeJ m]
  | .run m => Json.arr #["crun", modeJ m]
  | .set m => Json.arr #["cset", modeJ m]

def handleCache (j : Json) : D Json := do
  let envL ← match fldOpt j "env" with
    | some a => do (← a.getArr?).toList.mapM getV
    | none => pure []
  let env : Nat → V := fun i => envL.getD i (.always 0)
  let v ← getV (← fld j "v")
  let o ← getOracle j
  let fuel ← match fldOpt j "fuel" with
    | some f => f.getNat?
    | none => pure 400
  let keq : PyVal → PyVal → Bool ← match ← str j "key" with
    | "identity" => pure (fun a b => oidOf a == oidOf b && oidOf a != 0)
    | "typedEq" => pure typedEq
    | "snapshot" => pure (fun a b => (valJ (zeroOid a)).compress == (valJ (zeroOid b)).compress)
    | k => throw s!"bad key {k}"
  let hist ← (← arr j "history").toList.mapM (fun c => do
    pure (← getMode (← str c "mode"), ← getVal (← fld c "x")))
  let bare : Mode → PyVal → Out := fun m x =>
    match run o env m fuel v x with
    | some (r, _) => r
    | none => .raised .other
  let res := (Cache.runHist keq bare [] hist).2
  pure (Json.mkObj [("calls", Json.arr (res.map (fun c =>
    Json.mkObj [("out", outJ c.1), ("cev", Json.arr (c.2.map cevJ).toArray)])).toArray)])

def handlePred (j : Json) : D Json := do
  let p ← getPred (← fld j "p")
  let x ← getVal (← fld j "x")
  match p.k.call x with
  | .ok b => pure (Json.mkObj [("ok", b)])
  | .error e => pure (Json.mkObj [("raised", exnJ e)])

def handleProc (j : Json) : D Json := do
  let p ← getProc (← fld j "p")
  let x ← getVal (← fld j "x")
  match p.k.call x with
  | .ok y => pure (Json.mkObj [("ok", valJ y)])
  | .error e => pure (Json.mkObj [("raised", exnJ e)])

partial def serJ : Ser → Json
  | .msg => "s"
  | .num n => n
  | .mark => "M"
  | .list xs => Json.arr (xs.map serJ).toArray
  | .dict es => Json.mkObj [("d", Json.arr (es.map (fun p => Json.arr #[(p.1 : Json), serJ p.2])).toArray)]

def handleRender (j : Json) : D Json := do
  let inv ← getInv (← fld j "inv")
  let up ← natList j "userPids"
  let rv ← natList j "recordVids"
  let r := match ← str j "next" with
    | "marker" => render up rv (fun _ => Ser.mark) inv
    | _ => renderFull up rv inv
  let lines := messageLines inv
  match r with
  | .ok s => pure (Json.mkObj [("ok", serJ s), ("lines", lines)])
  | .error e => pure (Json.mkObj [("raised", exnJ e), ("lines", lines)])

partial def jJ : J → Json
  | .null => Json.null
  | .bool b => b
  | .int i => Json.mkObj [("i", i)]
  | .float f => Json.mkObj [("f", valJ (.float f))]
  | .str s => Json.mkObj [("s", natsJ s)]
  | .arr xs => Json.mkObj [("a", Json.arr (xs.map jJ).toArray)]
  | .obj kvs => Json.mkObj [("o", Json.arr (kvs.map (fun p => Json.arr #[natsJ p.1, jJ p.2])).toArray)]
  | .nonjson v => Json.mkObj [("x", valJ v)]

/-- inverse of `jJ` -/
partial def getJ (j : Json) : D J := do
  match j with
  | .null => pure .null
  | .bool b => pure (.bool b)
  | _ =>
    match fldOpt j "i" with
    | some i => pure (.int (← i.getInt?))
    | none =>
    match fldOpt j "f" with
    | some f => do
      match ← getVal f with
      | .float x => pure (.float x)
      | _ => throw "bad float in schema"
    | none =>
    match fldOpt j "s" with
    | some _ => pure (.str (← natList j "s"))
    | none =>
    match fldOpt j "a" with
    | some a => do pure (.arr (← (← a.getArr?).toList.mapM getJ))
    | none =>
    match fldOpt j "o" with
    | some o => do
      let kvs ← (← o.getArr?).toList.mapM (fun e => do
        let p ← e.getArr?
        if p.size ≠ 2 then throw "bad schema member"
        let k ← (← p[0]!.getArr?).toList.mapM (fun x => x.getNat?)
        pure (k, ← getJ p[1]!))
      pure (.obj kvs)
    | none =>
    match fldOpt j "x" with
    | some x => do pure (.nonjson (← getVal x))
    | none => throw "bad schema value"

/-- evaluate a schema (as the real library produced it) on JSON data -/
def handleEvalSchema (j : Json) : D Json := do
  let s ← getJ (← fld j "schema")
  let ref : Option (List Nat) ← match fldOpt j "ref" with
    | none => pure none
    | some _ => do pure (some (← natList j "ref"))
  let fuel ← match fldOpt j "fuel" with
    | some f => f.getNat?
    | none => pure 200
  let xs ← (← (← fld j "xs").getArr?).toList.mapM getVal
  let outs := xs.map (fun x =>
    if !isJson x then Json.mkObj [("notJson", true)]
    else match evalSchema s ref fuel s x with
      | some b => Json.mkObj [("ok", b)]
      | none => Json.mkObj [("undetermined", true)])
  pure (Json.mkObj [("outs", Json.arr outs.toArray)])

/-- printer tables: `[[value, text|null], …]` keyed by the canonical JSON of the value -/
def getPrintTable (j : Json) (k : String) : D (List (String × Option (List Nat))) :=
  match fldOpt j k with
  | none => pure []
  | some a => do
    (← a.getArr?).toList.mapM (fun e => do
      let p ← e.getArr?
      if p.size ≠ 2 then throw "bad printer entry"
      let v ← getVal p[0]!
      let t ← match p[1]! with
        | .null => pure none
        | t => do pure (some (← (← t.getArr?).toList.mapM (fun x => x.getNat?)))
      pure ((valJ v).compress, t))

def handleSchema (j : Json) : D Json := do
  let v ← getV (← fld j "v")
  let tvs ← natList j "typeVids"
  let nrs ← match fldOpt j "nonRecurrent" with
    | some _ => natList j "nonRecurrent"
    | none => pure []
  let prj := match fldOpt j "printer" with | some o => o | none => Json.mkObj []
  let strT ← getPrintTable prj "str"
  let isoT ← getPrintTable prj "iso"
  let decT ← getPrintTable prj "decode"
  let patT ← getPrintTable prj "patBytes"
  let look (t : List (String × Option (List Nat))) (v : PyVal) : Option (List Nat) :=
    (t.find? (fun e => e.1 == (valJ v).compress)).bind (·.2)
  let pr : Printer := { str := look strT, iso := look isoT,
                        decode := fun b => look decT (.bytes b), patBytes := fun b => look patT (.bytes b) }
  let ctx : RefCtx ← match fldOpt j "named" with
    | none => pure none
    | some n => do pure (some ((← natList n "ref") ++ (← natList n "name")))
  let nameOpt : Option (List Nat) ← match fldOpt j "named" with
    | none => pure none
    | some n => do pure (some (← natList n "name"))
  match toSchema pr ctx tvs nrs v with
  | .ok s =>
    let s' : J := match nameOpt with
      | none => s
      | some nm => J.obj [(nm, s)]
    pure (Json.mkObj [("ok", jJ s'), ("jsonOnly", jsonOnly s')])
  | .error e => pure (Json.mkObj [("raised", exnJ e)])

def handleDerive (j : Json) : D Json := do
  let ann ← getAnn (← fld j "ann")
  let mode ← match ← str j "resolver" with
    | "signature" => pure ResolveMode.signature
    | _ => pure ResolveMode.dflt
  let start ← match fldOpt j "start" with
    | some s => s.getNat?
    | none => pure 5000
  let (v, next) := (derive mode ann).run start
  let mut fields : List (String × Json) := [("v", vJ v), ("next", next)]
  match fldOpt j "x" with
  | none => pure (Json.mkObj fields)
  | some xj =>
    let x ← getVal xj
    let o ← getOracle j
    let envL ← match fldOpt j "env" with
      | some a => do (← a.getArr?).toList.mapM getV
      | none => pure []
    let env : Nat → V := fun i => envL.getD i (.always 0)
    let runs : List Json := [Mode.sync, Mode.async].map (fun m =>
      match run o env m 400 v x with
      | none => Json.mkObj [("error", "fuel")]
      | some (out, t) =>
        let ht : Json := match out with
          | .valid w => Json.bool (hasType ann w)
          | _ => Json.null
        Json.mkObj [("out", outJ out), ("trace", Json.arr (t.map evJ).toArray), ("payloadHasType", ht)])
    fields := fields ++ [("sync", runs[0]!), ("async", runs[1]!), ("inputHasType", Json.bool (hasType ann x))]
    pure (Json.mkObj fields)

def getPKind (s : String) : D PKind :=
  match s with
  | "posOnly" => pure .posOnly | "posOrKw" => pure .posOrKw | "varPos" => pure .varPos
  | "kwOnly" => pure .kwOnly | "varKw" => pure .varKw
  | k => throw s!"bad param kind {k}"

def optV (j : Json) (k : String) : D (Option V) :=
  match fldOpt j k with
  | none => pure none
  | some v => do pure (some (← getV v))

def handleWrap (j : Json) : D Json := do
  let sj ← fld j "sig"
  let params ← (← arr sj "params").toList.mapM (fun p => do
    pure ({ name := ← str p "name", kind := ← getPKind (← str p "kind"), v := ← optV p "v" } : Param))
  let ign ← match fldOpt sj "ignoredKw" with
    | some a => do (← a.getArr?).toList.mapM (fun x => x.getStr?)
    | none => pure []
  let sg : SigM := { params := params, ret := ← optV sj "ret", ignoredKw := ign }
  let mode ← getMode (← str j "mode")
  let o ← getOracle j
  let cj ← fld j "call"
  let args ← (← arr cj "args").toList.mapM getVal
  let kwargs ← (← arr cj "kwargs").toList.mapM (fun p => do
    let a ← p.getArr?
    if a.size ≠ 2 then throw "bad kwarg"
    pure (← a[0]!.getStr?, ← getVal a[1]!))
  let bj ← fld j "body"
  let body : List PyVal → List (String × PyVal) → BodyRes ← match fldOpt bj "ret" with
    | some r => do let v ← getVal r; pure (fun _ _ => BodyRes.ret v)
    | none => do let i ← nat bj "exc"; pure (fun _ _ => BodyRes.exc i)
  let ev : V → PyVal → Res := fun v x => run o (fun _ => .always 0) mode 400 v x
  let (out, delivered) := wrapCall ev sg body ⟨args, kwargs⟩
  let outJ' : Json := match out with
    | .invalidArgs keys => Json.mkObj [("invalidArgs", Json.arr (keys.map (fun (s : String) => (s : Json))).toArray)]
    | .invalidReturn => Json.mkObj [("invalidReturn", true)]
    | .returned v => Json.mkObj [("returned", valJ v)]
    | .bodyRaised i => Json.mkObj [("bodyRaised", i)]
    | .validationRaised e => Json.mkObj [("raised", exnJ e)]
    | .fuel => Json.mkObj [("error", "fuel")]
  let dJ : Json := match delivered with
    | none => Json.null
    | some (a, k) => Json.mkObj [("args", Json.arr (a.map valJ).toArray),
        ("kwargs", Json.arr (k.map (fun p => Json.arr #[(p.1 : Json), valJ p.2])).toArray)]
  pure (Json.mkObj [("out", outJ'), ("delivered", dJ)])

def handle (line : String) : Json :=
  match Json.parse line with
  | .error e => Json.mkObj [("error", "bad-json"), ("detail", e)]
  | .ok j =>
    let r : D Json := do
      match ← str j "op" with
      | "run" => handleRun j
      | "cache" => handleCache j
      | "pred" => handlePred j
      | "render" => handleRender j
      | "schema" => handleSchema j
      | "evalschema" => handleEvalSchema j
      | "derive" => handleDerive j
      | "wrap" => handleWrap j
      | "proc" => handleProc j
      | "ping" => pure (Json.mkObj [("pong", true)])
      | op => throw s!"bad-op {op}"
    match r with
    | .ok a => a
    | .error e => Json.mkObj [("error", "bad-op"), ("detail", e)]

partial def loop (hin : IO.FS.Stream) (hout : IO.FS.Stream) : IO Unit := do
  let line ← hin.getLine
  if line.isEmpty then return ()
  let l := line.trimAscii.toString
  if l.isEmpty then loop hin hout
  else
    hout.putStrLn (handle l).compress
    hout.flush
    loop hin hout

def main : IO Unit := do
  loop (← IO.getStdin) (← IO.getStdout)
