import KodaModel.Value
import KodaModel.Pred
import KodaModel.Validator
import KodaModel.Eval
