import KodaModel.Value
import KodaModel.Pred
import KodaModel.Validator
import KodaModel.Eval
import KodaModel.Lemmas.Mono
import KodaModel.Properties.C05
import KodaModel.Properties.C03
