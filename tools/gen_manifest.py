#!/venv/bin/python
"""Regenerate MANIFEST.json from harness/registry.py (run from /verif)."""
import json, os, sys
sys.path.insert(0, os.path.dirname(os.path.dirname(os.path.abspath(__file__))))
sys.path.insert(0, os.environ.get("KODA_REPO", "/repo"))
from harness import registry

props = [json.loads(l) for l in open("properties.jsonl")]
checks = []
na = []
for p in props:
    pid = p["id"]
    spec = registry.PROPS.get(pid)
    if not spec or spec.get("unclaimed"):
        na.append({"property_id": pid, "reason": (spec or {}).get("unclaimed", "check under construction; not yet claimed")})
        continue
    proof = bool(spec.get("theorems"))
    checks.append({
        "property_id": pid,
        "quick_cmd": f"./check {pid} --tier quick",
        "thorough_cmd": f"./check {pid} --tier thorough",
        "evidence_file": f"evidence/{pid}.json",
        "replay_cmd_template": f"./check {pid} --replay {{path}}",
        "engine": "lean-model+correspondence",
        "level_claimed": {
            "category": "proof" if proof else "translation_validation",
            "text": spec.get("level_text") or (
                ("Lean 4 theorems (%d, kernel-checked, axioms audited each run) about the executable model of the code, "
                 "for all trees / inputs / fuel; the model is tied to /repo on every run by differential execution of "
                 "the compiled model and the real library on generated cases, and a model-free oracle re-checks the "
                 "property on the real code." % len(spec["theorems"])) if proof else
                "differential execution of the Lean model against the real library plus a model-free oracle; theorems for "
                "this property are not finished yet"),
            "design_ref": spec.get("design_ref", "DESIGN.md section 6, " + pid)},
        "level_note": spec.get("level_note", "trusted: Lean kernel + axioms propext/Quot.sound/Classical.choice; the hand-written "
                               "model, wire interpreters and generators (validated by the correspondence itself); CPython as the meaning "
                               "of stdlib operations; user callbacks total and pure"),
        "technique": spec.get("technique", "Lean 4 proof over executable model + per-run correspondence (differential) check"),
    })
m = {
    "version": 1,
    "setup_cmd": "cd lean && lake build KodaModel kvdriver",
    "hooks": {"guard": "KODA_VALIDATE_VERIF", "enable": "no hooks are needed in /repo: all instrumentation lives in harness-supplied callbacks passed to public constructors",
              "baseline_off_cmd": "cd /repo && /venv/bin/python -m pytest -q -p no:cacheprovider", "source_commits": [], "add_only": True},
    "engines": [{"name": "lean-model+correspondence", "path": "check", "serves_properties": [c["property_id"] for c in checks],
                 "kind_free_text": "Lean 4 theorems about a hand-written executable model of koda-validate (lean/KodaModel); model tied to /repo by differential execution (harness/, lean/Driver) on every run"}],
    "checks": checks,
    "not_applicable": na,
    "notes": "see DESIGN.md; known_findings.json lists genuine defects (open / fixed)",
}
json.dump(m, open("MANIFEST.json", "w"), indent=1)
print(len(checks), "checks;", len(na), "not claimed")
