#!/bin/bash
# before committing: the WHOLE library must build (setup_cmd builds it; the checks build only their own modules, so a name
# clash between two properties' modules shows here only), no forbidden construct, every check green on the clean tree
cd "$(dirname "$0")/.."
git -C "${KODA_REPO:-/repo}" status --short | grep -q . && { echo "repository has uncommitted changes"; exit 3; }
out=$(cd lean && lake build KodaModel kvdriver 2>&1); echo "$out" | grep -E "error|✖|Build completed"
echo "$out" | grep -q "Build completed successfully" || { echo "PRECOMMIT FAILED: whole-library build"; exit 1; }
grep -rn 'sorry\|admit\|^axiom \|native_decide\|bv_decide\|implemented_by\|unsafe \|maxHeartbeats 0' lean/KodaModel lean/Driver --include=*.lean | grep -v "^\S*:\s*--" | head
bad=$(tools/multiseed.sh quick ${1:-0} | grep -v "rc=0")
[ -n "$bad" ] && { echo "$bad"; echo "PRECOMMIT FAILED: checks"; exit 1; }
echo "precommit done"
