#!/bin/bash
# usage: tools/confirm_mutant.sh <worktree> <patch> <demo>  — confirm: suite passes with patch; demo passes without / fails with
wt="$1"; patch="$2"; demo="$3"
cd "$wt" && git checkout -q -- . && 
PYTHONPATH="$wt" /venv/bin/python "$demo" >/dev/null 2>&1; echo "demo clean rc=$?"
git apply "$patch" || exit 3
PYTHONPATH="$wt" /venv/bin/python "$demo" >/dev/null 2>&1; echo "demo patched rc=$?"
/venv/bin/python -m pytest -q -p no:cacheprovider -x 2>&1 | grep -E "passed|failed" | tail -1
git checkout -q -- .
