#!/bin/bash
# re-applies every stored seeded change to the repository (KODA_REPO, default /repo), runs the quick check of the
# property it breaks, reverts.   usage: tools/regress_mutants.sh [id-prefix]
cd "$(dirname "$0")/.."
R="${KODA_REPO:-/repo}"
for d in seeded/${1}*/; do
  id=$(basename $d)
  # the check that is expected to report it: the first entry of caught_by (usually the property it breaks)
  prop=$(python3 -c "import json;m=json.load(open('$d/meta.json'));print((m.get('caught_by') or [m['breaks_property']])[0].split(':')[0])")
  if ! git -C "$R" apply --check "$PWD/$d/patch.diff" 2>/dev/null; then echo "$id $prop PATCH-DOES-NOT-APPLY"; continue; fi
  echo "$id $(tools/try_mutant.sh "$PWD/$d/patch.diff" $prop | head -1)"
done
git -C "$R" status --short | head -3
