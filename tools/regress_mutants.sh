#!/bin/bash
# re-applies every stored seeded change to /repo, runs the quick check of the property it breaks, reverts.
# usage: tools/regress_mutants.sh [id-prefix]
cd "$(dirname "$0")/.."
for d in seeded/${1}*/; do
  id=$(basename $d)
  prop=$(python3 -c "import json;print(json.load(open('$d/meta.json'))['breaks_property'])")
  if ! git -C /repo apply --check "$PWD/$d/patch.diff" 2>/dev/null; then echo "$id $prop PATCH-DOES-NOT-APPLY"; continue; fi
  git -C /repo apply "$PWD/$d/patch.diff"
  out=$(./check $prop 2>&1); rc=$?
  git -C /repo checkout -- .
  echo "$id $prop rc=$rc $(echo "$out" | grep -v KNOWN | head -1)"
done
git -C /repo status --short | head -3
