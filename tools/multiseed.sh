#!/bin/bash
# usage: tools/multiseed.sh <tier> <seed>...   — every registered check with each seed; prints rc per run
tier="$1"; shift
cd "$(dirname "$0")/.."
for s in "$@"; do
  for p in C01 C02 C03 C04 C05 C06 C07 C08 C09 C10 C11 C12 C13 C14 C15 C16 C17 C18 C19 C20; do
    out=$(VERIF_SEED=$s ./check $p --tier $tier 2>&1); rc=$?
    echo "seed=$s $p rc=$rc $(echo "$out" | grep -v KNOWN | head -2 | tr '\n' ' ')"
  done
done
