#!/bin/bash
# usage: tools/try_mutant.sh <patch.diff> <prop> [<prop>...]   — applies the patch to the repository (KODA_REPO, default
# /repo), runs the checks, reverts (evidence files and the generated Lean tables are restored afterwards: what is
# committed must come from the clean tree)
patch="$1"; shift
R="${KODA_REPO:-/repo}"
cd "$(dirname "$0")/.."
git -C "$R" apply "$patch" || { echo "patch does not apply"; exit 3; }
tmp=$(mktemp -d)
cp lean/KodaModel/Generated/*.lean "$tmp"/
for p in "$@"; do
  cp evidence/$p.json "$tmp"/ 2>/dev/null
  out=$(./check $p 2>&1); rc=$?
  echo "$p rc=$rc $(echo "$out" | grep -v KNOWN | head -2 | tr '\n' ' ')"
  cp "$tmp"/$p.json evidence/ 2>/dev/null
done
git -C "$R" checkout -- .
cp "$tmp"/*.lean lean/KodaModel/Generated/
rm -rf "$tmp"
git -C "$R" status --short | head -3
