#!/bin/bash
# usage: tools/try_mutant.sh <patch.diff> <prop> [<prop>...]   — applies the patch to /repo, runs the checks, reverts
patch="$1"; shift
git -C /repo apply "$patch" || { echo "patch does not apply"; exit 3; }
for p in "$@"; do
  out=$(./check $p 2>&1); rc=$?
  echo "$p rc=$rc $(echo "$out" | grep -v KNOWN | head -2 | tr '\n' ' ')"
done
git -C /repo checkout -- . 
git -C /repo status --short | head -3
