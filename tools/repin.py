#!/venv/bin/python
"""rewrite the pinned texts of Properties/C07Pins.lean, C08Pins.lean, C10Pins.lean from /repo's current source.

Run after an *intended* change to typehint resolution, validate_signature or schema generation for validators has been
reviewed against the hand-written model (Typehint.lean, Signature.lean, Schema.lean): the pins only say "this is the
text the model was written against"."""
import os
import sys

sys.path.insert(0, os.path.dirname(os.path.dirname(os.path.abspath(__file__))))
from harness import pysrc  # noqa: E402

FILES = {"gluePins": ("GluePins", "src_glue_pinned",
                      "the glue around every translated `_validate_to_tuple` (koda_validate/_internal.py: the two bridges "
                      "from the tuple protocol to result objects, `_wrap_sync_validator` / `_wrap_async_validator`, the "
                      "fast-path closure, the two raisers; coerce.py: `Coercer.__call__`, `coercer`): what `run…Method` / "
                      "`callItem` / `applyCoerce` in the interpreters stand for"),
         "resultPins": ("C05Pins", "src_result_map_pinned",
                        "`Valid.map` / `Invalid.map` (koda_validate/valid.py): modelled by `Out.map` (Properties/C05.lean, "
                        "C05_map_valid / C05_map_invalid)"),
         "typehintPins": ("C07Pins", "src_typehints_pinned",
                          "typehint resolution (koda_validate/typehints.py, whole module): hand-modelled by `derive` "
                          "(KodaModel/Typehint.lean)"),
         "signaturePins": ("C08Pins", "src_signature_pinned",
                           "`validate_signature`, `_wrap_fn`, `_get_validator`, `resolve_signature_typehint_default` "
                           "(koda_validate/signature.py): hand-modelled by KodaModel/Signature.lean and `derive .signature`"),
         "schemaValidatorPins": ("C10Pins", "src_schema_validator_pinned",
                                 "schema generation for validators (serialization/json_schema.py, everything but "
                                 "`generate_schema_predicate`, which is translated): hand-modelled by `toSchema` "
                                 "(KodaModel/Schema.lean)")}
root = os.path.join(os.path.dirname(os.path.dirname(os.path.abspath(__file__))), "lean", "KodaModel", "Properties")
for group, (mod, thm, what) in FILES.items():
    lit = pysrc.lean_string_list(pysrc.collect_pins(group), indent="    ")
    with open(os.path.join(root, mod + ".lean"), "w") as f:
        f.write(f"""/-
  Pinned source text: {what}.
  The correspondence runs tie the model's behaviour to the code; this theorem ties the *text* the model was written
  against to the text that is there now (`Generated/PinsSrc.lean`, regenerated on every run), one string per top-level
  statement.  A change to any of these functions makes it fail: the check then searches for a failing input and reports
  either that input or `no-failing-input-found`.  Re-pin with tools/repin.py after reviewing the model.
-/
import KodaModel.Generated.PinsSrc

namespace Koda

theorem {thm} : Src.{group} =
    {lit} := rfl

end Koda
""")
    print("wrote", mod)
