#!/bin/bash
# usage: tools/process_group.sh <worktree>   — for every _seed/<PID>/patchN.diff: confirm in the worktree, then try on /repo
wt="$1"
cd "$(dirname "$0")/.."
for d in "$wt"/_seed/*/; do
  pid=$(basename "$d")
  for patch in "$d"patch*.diff; do
    n=$(basename "$patch" .diff | sed 's/patch//')
    demo="$d/demo$n.py"
    echo "== $pid patch$n"
    tools/confirm_mutant.sh "$wt" "$patch" "$demo" | tr '\n' ' '; echo
    tools/try_mutant.sh "$patch" $pid
  done
done
