#!/usr/bin/env python3
"""tools/store_mutant.py <id> <property> <patch> <demo> <needs> <caught-by...>"""
import json, os, shutil, sys
mid, prop, patch, demo, needs = sys.argv[1:6]
caught = sys.argv[6:]
d = os.path.join(os.path.dirname(os.path.dirname(os.path.abspath(__file__))), "seeded", mid)
os.makedirs(d, exist_ok=True)
shutil.copy(patch, os.path.join(d, "patch.diff"))
shutil.copy(demo, os.path.join(d, "demo.py"))
meta = {"id": mid, "breaks_property": prop, "needs_to_manifest": needs,
        "origin": "independent sub-agent given only the property text and a scratch worktree",
        "confirmed": "tools/confirm_mutant.sh: demo exits 0 on the clean tree and 1 with the patch; the 406-test suite passes with the patch",
        "ran": [f"tools/try_mutant.sh seeded/{mid}/patch.diff {' '.join(c.split(':')[0] for c in caught)}"],
        "caught_by": caught}
json.dump(meta, open(os.path.join(d, "meta.json"), "w"), indent=1)
