"""Wire language: value descriptions <-> real Python values, and canonical forms of results.

A *description* is a JSON-able dict (the same object that is sent to the Lean driver).  `Ctx`
holds, per case, the registries that map object identities back to the ids the description uses.
"""
from __future__ import annotations

import dataclasses
import datetime as _dt
import decimal
import math
import typing
import uuid
from typing import Any, Dict, List, Optional

from koda import Just, nothing
from koda.maybe import Nothing

BUILTIN_TY = {
    type(None): "none", bool: "bool", int: "int", float: "float", str: "str", bytes: "bytes",
    decimal.Decimal: "decimal", uuid.UUID: "uuid", _dt.date: "date", _dt.datetime: "datetime",
    list: "list", tuple: "tuple", set: "set", dict: "dict", Just: "just", Nothing: "nothing",
}
TY_BUILTIN = {v: k for k, v in BUILTIN_TY.items()}

_EPOCH = _dt.datetime(1, 1, 1)


class Ctx:
    """per-case registries"""

    def __init__(self) -> None:
        self.oid: Dict[int, int] = {}      # id(container/instance) -> oid
        self.vid: Dict[int, int] = {}      # id(validator) -> vid
        self.pid: Dict[int, int] = {}      # id(predicate / processor) -> pid
        self.cls_by_id: Dict[int, type] = {}   # class id -> python class
        self.cls_desc: Dict[int, dict] = {}    # id(python class) -> class descriptor
        self.keep: List[Any] = []          # keeps registered objects alive (no id reuse)
        self.log: List[list] = []          # event log written by instrumented callbacks
        self.errs: Dict[int, int] = {}     # id(custom error object) -> id
        self.memo: Dict[Any, Any] = {}     # user callbacks by id: rebuilds share them (identity semantics)

    def reg_obj(self, obj: Any, oid: int) -> None:
        if oid:
            self.oid[id(obj)] = oid
        self.keep.append(obj)


class CustomErr:
    """a user-defined error type returned by whole-object checks"""

    def __init__(self, eid: int) -> None:
        self.eid = eid

    def __repr__(self) -> str:
        return f"CustomErr({self.eid})"

    def __eq__(self, other: Any) -> bool:
        return type(other) is CustomErr and other.eid == self.eid

    def __hash__(self) -> int:
        return hash(self.eid)


# ---------------------------------------------------------------------------------------------
# classes


def cls_key(c: dict) -> dict:
    return {"id": c["id"], "kind": c["kind"], "hashable": c["hashable"], "slots": c["slots"]}


CLASS_TABLE: Dict[int, dict] = {}


def set_classes(classes: List[dict]) -> None:
    """full class descriptors (fields, defaults, base) of the current case, by class id"""
    CLASS_TABLE.clear()
    for c in classes:
        CLASS_TABLE[c["id"]] = c


def get_class(ctx: Ctx, c: dict) -> type:
    """build (once per case) the Python class for a class descriptor.

    descriptor: {id, kind (0 opaque, 1 dataclass, 2 NamedTuple, 3 builtin subclass), hashable, slots,
                 fields: [[name, default-desc|None], ...], base: builtin name (kind 3)}
    """
    cid = c["id"]
    if cid in ctx.cls_by_id:
        return ctx.cls_by_id[cid]
    c = CLASS_TABLE.get(cid, c)
    kind = c["kind"]
    fields = c.get("fields", [])
    name = f"C{cid}"
    if c.get("parent") is not None and kind in (1, 2):
        # a plain subclass of a record class: same fields, same constructor, another type
        pcls = get_class(ctx, CLASS_TABLE.get(c["parent"], {"id": c["parent"]}))
        cls = type(name, (pcls,), {"__slots__": ()} if kind == 2 else {})
    elif kind == 1:
        specs = []
        for fname, dflt in fields:
            if dflt is None:
                specs.append((fname, Any))
            else:
                dv = mk_value(ctx, dflt)
                if isinstance(dv, (list, dict, set)) or cid % 2 == 1:     # odd class ids: every default through a factory
                    specs.append((fname, Any, dataclasses.field(default_factory=lambda dflt=dflt: mk_value(ctx, dflt))))
                else:
                    specs.append((fname, Any, dataclasses.field(default=dv)))
        if cid % 3 == 0 and specs:
            # every third dataclass inherits its leading fields from a base dataclass (same fields, same constructor:
            # nothing a validator for the class may notice); with `slots`, each class declares only its own
            nb = cid % len(specs) + 1
            base = dataclasses.make_dataclass(name + "Base", specs[:nb], frozen=c["hashable"], slots=c["slots"])
            ctx.keep.append(base)
            cls = dataclasses.make_dataclass(name, specs[nb:], bases=(base,), frozen=c["hashable"], slots=c["slots"])
        else:
            cls = dataclasses.make_dataclass(name, specs, frozen=c["hashable"], slots=c["slots"])
    elif kind == 2:
        env: Dict[str, Any] = {"NamedTuple": typing.NamedTuple, "Any": Any}
        lines = []
        for i, (fname, dflt) in enumerate(fields):
            if dflt is None:
                lines.append(f"    {fname}: Any")
            else:
                env[f"_d{i}"] = mk_value(ctx, dflt)
                lines.append(f"    {fname}: Any = _d{i}")
        if not lines:
            lines = ["    pass"]
        ns: Dict[str, Any] = {}
        # dont_inherit: this module's `from __future__ import annotations` must not leak into the class
        exec(compile(f"class {name}(NamedTuple):\n" + "\n".join(lines) + "\n", "<nt>", "exec", dont_inherit=True), env, ns)
        cls = ns[name]
    elif kind == 3:
        base = TY_BUILTIN[c["base"]]
        ns3: Dict[str, Any] = {}
        if base is dict and cid % 2 == 0:
            # every other dict subclass behaves like `collections.defaultdict(int)`: `d[k]` on an absent key inserts a
            # default and answers it (`k in d`, `.get`, iteration do not).  Looking a key up with `d[k]` instead of
            # testing `k in d` first then sees a key that is not there - and edits the caller's dict.
            def __missing__(self: Any, k: Any) -> Any:
                self[k] = 0
                return 0
            ns3["__missing__"] = __missing__
        cls = type(name, (base,), ns3)
    else:
        if c["slots"]:
            cls = type(name, (), {"__slots__": ()})
        else:
            cls = type(name, (), {})
        if not c["hashable"]:
            cls.__eq__ = lambda self, other: self is other  # type: ignore
            cls.__hash__ = None  # type: ignore
    ctx.cls_by_id[cid] = cls
    ctx.cls_desc[id(cls)] = cls_key(c)
    ctx.keep.append(cls)
    return cls


def ty_of_type(ctx: Ctx, t: Any) -> Any:
    if t in BUILTIN_TY:
        return BUILTIN_TY[t]
    if id(t) in ctx.cls_desc:
        return {"cls": ctx.cls_desc[id(t)]}
    from koda import Maybe
    if t == Maybe[Any]:
        return "maybeAny"
    return {"unknown": repr(t)}


def type_of_ty(ctx: Ctx, ty: Any) -> Any:
    if isinstance(ty, str):
        return TY_BUILTIN[ty]
    return get_class(ctx, ty["cls"])


# ---------------------------------------------------------------------------------------------
# values


def float_desc(f: float) -> dict:
    if math.isnan(f):
        return {"t": "float", "k": "nan"}
    if math.isinf(f):
        return {"t": "float", "k": "inf", "neg": f < 0}
    neg = math.copysign(1.0, f) < 0
    if f == 0:
        return {"t": "float", "k": "fin", "neg": neg, "m": 0, "e": 0}
    n, d = abs(f).as_integer_ratio()   # d is a power of two
    e = -(d.bit_length() - 1)
    while n % 2 == 0:
        n //= 2
        e += 1
    return {"t": "float", "k": "fin", "neg": neg, "m": n, "e": e}


def float_of(d: dict) -> float:
    if d["k"] == "nan":
        return float("nan")
    if d["k"] == "inf":
        return float("-inf") if d["neg"] else float("inf")
    v = math.ldexp(d["m"], d["e"])
    return -v if d["neg"] else v


def decimal_desc(x: decimal.Decimal) -> dict:
    sign, digits, exp = x.as_tuple()
    if exp == "n":
        return {"t": "decimal", "k": "nan"}
    if exp == "N":
        return {"t": "decimal", "k": "snan"}
    if exp == "F":
        return {"t": "decimal", "k": "inf", "neg": bool(sign)}
    c = int("".join(map(str, digits))) if digits else 0
    return {"t": "decimal", "k": "fin", "neg": bool(sign), "c": c, "e": exp}


def decimal_of(d: dict) -> decimal.Decimal:
    if d["k"] == "nan":
        return decimal.Decimal("NaN")
    if d["k"] == "snan":
        return decimal.Decimal("sNaN")
    if d["k"] == "inf":
        return decimal.Decimal("-Infinity" if d["neg"] else "Infinity")
    digits = tuple(int(ch) for ch in str(d["c"]))
    return decimal.Decimal((1 if d["neg"] else 0, digits, d["e"]))


def dt_desc(x: _dt.datetime) -> dict:
    naive = x.replace(tzinfo=None)
    delta = naive - _EPOCH
    us = (delta.days * 86400 + delta.seconds) * 1000000 + delta.microseconds
    off = None
    if x.tzinfo is not None:
        o = x.utcoffset()
        assert o is not None
        off = o.days * 86400 + o.seconds
        # sub-second offsets are not generated
    return {"t": "datetime", "us": us, "off": off}


def dt_of(d: dict) -> _dt.datetime:
    x = _EPOCH + _dt.timedelta(microseconds=d["us"])
    if d["off"] is not None:
        x = x.replace(tzinfo=_dt.timezone(_dt.timedelta(seconds=d["off"])))
    return x


def mk_value(ctx: Ctx, d: dict) -> Any:
    """build the real Python value for a description, registering object identities"""
    t = d["t"]
    if t == "none":
        return None
    if t == "bool":
        return d["b"]
    if t == "int":
        return d["i"]
    if t == "float":
        return float_of(d)
    if t == "str":
        return "".join(map(chr, d["s"]))
    if t == "bytes":
        return bytes(d["s"])
    if t == "decimal":
        return decimal_of(d)
    if t == "uuid":
        return uuid.UUID(int=d["n"])
    if t == "date":
        return _dt.date.fromordinal(d["o"])
    if t == "datetime":
        return dt_of(d)
    if t == "list":
        v: Any = [mk_value(ctx, x) for x in d["xs"]]
    elif t == "tuple":
        v = tuple(mk_value(ctx, x) for x in d["xs"])
    elif t == "set":
        v = set(mk_value(ctx, x) for x in d["xs"])
    elif t == "dict":
        v = {}
        for k, x in d["kvs"]:
            v[mk_value(ctx, k)] = mk_value(ctx, x)
    elif t == "just":
        v = Just(mk_value(ctx, d["v"]))
    elif t == "nothing":
        return nothing
    elif t == "inst":
        cls = get_class(ctx, d["cls"])
        vals = [mk_value(ctx, x) for x in d["vals"]]
        if d["cls"]["kind"] == 1 and len(d["names"]) < len(dataclasses.fields(cls)):
            # an instance one of whose declared fields holds no value (deleted attribute / never-assigned
            # `init=False` field / unset slot): built complete, then the attribute is removed
            given = dict(zip(d["names"], vals))
            allf = [f.name for f in dataclasses.fields(cls)]
            v = cls(**{n: given.get(n) for n in allf})
            for n in allf:
                if n not in given:
                    object.__delattr__(v, n)
        elif d["cls"]["kind"] in (1, 2):
            v = cls(**dict(zip(d["names"], vals)))
        else:
            v = cls()
        if d.get("doid") and hasattr(v, "__dict__") and d["cls"]["kind"] == 1:
            ctx.reg_obj(v.__dict__, d["doid"])
    elif t == "sub":
        cls = get_class(ctx, d["cls"])
        v = cls(mk_value(ctx, d["v"]))
        ctx.keep.append(v)
        return v
    else:
        raise ValueError(f"bad value tag {t}")
    ctx.reg_obj(v, d.get("oid", 0))
    return v


def redescribe(ctx: Ctx, v: Any) -> dict:
    """description of a built value as the model must see it (sets in real iteration order)"""
    return canon_value(ctx, v)


def canon_value(ctx: Ctx, v: Any) -> dict:
    """canonical description of a real value: exact type tags, oids from the registry (0 = fresh)"""
    t = type(v)
    if v is None:
        return {"t": "none"}
    if t is bool:
        return {"t": "bool", "b": v}
    if t is int:
        return {"t": "int", "i": v}
    if t is float:
        return float_desc(v)
    if t is str:
        return {"t": "str", "s": [ord(c) for c in v]}
    if t is bytes:
        return {"t": "bytes", "s": list(v)}
    if t is decimal.Decimal:
        return decimal_desc(v)
    if t is uuid.UUID:
        return {"t": "uuid", "n": v.int}
    if t is _dt.date:
        return {"t": "date", "o": v.toordinal()}
    if t is _dt.datetime:
        return dt_desc(v)
    oid = ctx.oid.get(id(v), 0)
    if t is list:
        return {"t": "list", "oid": oid, "xs": [canon_value(ctx, x) for x in v]}
    if t is tuple:
        # CPython has a single empty tuple: its identity carries no information
        return {"t": "tuple", "oid": oid if v else 0, "xs": [canon_value(ctx, x) for x in v]}
    if t is set:
        return {"t": "set", "oid": oid, "xs": [canon_value(ctx, x) for x in v]}
    if t is dict:
        return {"t": "dict", "oid": oid, "kvs": [[canon_value(ctx, k), canon_value(ctx, x)] for k, x in v.items()]}
    if t is Just:
        return {"t": "just", "oid": oid, "v": canon_value(ctx, v.val)}
    if v is nothing:
        return {"t": "nothing"}
    if id(t) in ctx.cls_desc:
        c = ctx.cls_desc[id(t)]
        if c["kind"] == 3:
            base = [b for b in t.__mro__ if b in BUILTIN_TY][0]
            return {"t": "sub", "cls": c, "v": canon_value(ctx, base(v))}
        if c["kind"] == 1:
            names = [f.name for f in dataclasses.fields(v) if hasattr(v, f.name)]
            doid = ctx.oid.get(id(v.__dict__), 0) if hasattr(v, "__dict__") else 0
            return {"t": "inst", "oid": oid, "doid": doid, "cls": c, "names": names,
                    "vals": [canon_value(ctx, getattr(v, n)) for n in names]}
        if c["kind"] == 2:
            names = list(v._fields)
            return {"t": "inst", "oid": oid, "doid": 0, "cls": c, "names": names,
                    "vals": [canon_value(ctx, x) for x in v]}
        return {"t": "inst", "oid": oid, "doid": 0, "cls": c, "names": [], "vals": []}
    return {"t": "unknown", "repr": repr(v)[:80], "type": repr(t)}


# ---------------------------------------------------------------------------------------------
# results


def canon_inv(ctx: Ctx, inv: Any) -> dict:
    from koda_validate import (CoercionErr, ContainerErr, ExtraKeysErr, IndexErrs, KeyErrs, MapErr,
                               MissingKeyErr, PredicateErrs, SetErrs, TypeErr, UnionErrs)
    e = inv.err_type
    children: List[dict] = []
    if isinstance(e, TypeErr):
        ek: dict = {"e": "type", "ty": ty_of_type(ctx, e.expected_type)}
    elif isinstance(e, CoercionErr):
        ek = {"e": "coercion", "compat": [ty_of_type(ctx, t) for t in e.compatible_types],
              "dest": ty_of_type(ctx, e.dest_type)}
    elif isinstance(e, PredicateErrs):
        ek = {"e": "preds", "pids": [ctx.pid.get(id(p), -1) for p in e.predicates]}
    elif isinstance(e, IndexErrs):
        ek = {"e": "index", "idx": list(e.indexes.keys())}
        children = [canon_inv(ctx, c) for c in e.indexes.values()]
    elif isinstance(e, KeyErrs):
        ek = {"e": "keys", "ks": [canon_value(ctx, k) for k in e.keys.keys()]}
        children = [canon_inv(ctx, c) for c in e.keys.values()]
    elif isinstance(e, MapErr):
        ek = {"e": "map", "ks": [canon_value(ctx, k) for k in e.keys.keys()],
              "shape": [[kv.key is not None, kv.val is not None] for kv in e.keys.values()]}
        for kv in e.keys.values():
            if kv.key is not None:
                children.append(canon_inv(ctx, kv.key))
            if kv.val is not None:
                children.append(canon_inv(ctx, kv.val))
    elif isinstance(e, SetErrs):
        ek = {"e": "set"}
        children = [canon_inv(ctx, c) for c in e.item_errs]
    elif isinstance(e, UnionErrs):
        ek = {"e": "union"}
        children = [canon_inv(ctx, c) for c in e.variants]
    elif isinstance(e, ContainerErr):
        ek = {"e": "container"}
        children = [canon_inv(ctx, e.child)]
    elif isinstance(e, ExtraKeysErr):
        ek = {"e": "extraKeys", "ks": [canon_value(ctx, k) for k in e.expected_keys]}
    elif isinstance(e, MissingKeyErr):
        ek = {"e": "missingKey"}
    elif isinstance(e, CustomErr):
        ek = {"e": "custom", "id": e.eid}
    else:
        ek = {"e": "unknown", "repr": repr(e)[:80]}
    return {"err": ek, "value": canon_value(ctx, inv.value),
            "vid": ctx.vid.get(id(inv.validator), -1), "children": children}


def canon_result(ctx: Ctx, r: Any) -> dict:
    from koda_validate import Invalid, Valid
    if type(r) is Valid:
        return {"valid": canon_value(ctx, r.val)}
    if type(r) is Invalid:
        return {"invalid": canon_inv(ctx, r)}
    return {"other": repr(r)[:80]}


EXN_NAMES = {"AssertionError", "TypeError", "InvalidOperation", "AttributeError", "ZeroDivisionError",
             "UnicodeDecodeError"}


def exn_name(e: BaseException) -> str:
    n = type(e).__name__
    if isinstance(e, decimal.InvalidOperation):
        return "InvalidOperation"
    return n if n in EXN_NAMES else "Other:" + n


# ---------------------------------------------------------------------------------------------
# normalisation applied to both sides before diffing (removes order that came out of a hash table)

import json


def _k(x: Any) -> str:
    return json.dumps(x, sort_keys=True)


def normalise(j: Any) -> Any:
    if isinstance(j, list):
        return [normalise(x) for x in j]
    if isinstance(j, dict):
        if "kind" in j and "hashable" in j and "slots" in j and "id" in j:
            return cls_key(j)
        d = {k: normalise(v) for k, v in j.items()}
        if d.get("t") == "set":
            d["xs"] = sorted(d["xs"], key=_k)
        if d.get("t") == "tuple" and not d["xs"]:
            d["oid"] = 0   # CPython has one empty tuple: its identity carries no information
        if isinstance(d.get("err"), dict) and d["err"].get("e") == "set":
            d["children"] = sorted(d["children"], key=_k)   # set iteration order is not an observation
        if d.get("e") == "coercion":
            d["compat"] = sorted(d["compat"], key=_k)
        if d.get("e") == "extraKeys":
            d["ks"] = sorted(d["ks"], key=_k)
        return d
    return j


def strip_ids_public(x: Any) -> Any:
    if isinstance(x, dict):
        return {k: (0 if k in ("oid", "doid") else strip_ids_public(v)) for k, v in x.items()}
    if isinstance(x, list):
        return [strip_ids_public(v) for v in x]
    return x
