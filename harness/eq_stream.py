"""C19: validator equality is a behavioural congruence (model-free oracle on the real objects).

Pairs (t, independent rebuild of t) and (t, t with one argument changed at one node); when the real
`==` says equal, the two must return equal results on every input of a separating pool, in both modes.
"""
from __future__ import annotations

import collections
import copy
import json
import random
from typing import Any, Dict, List, Optional, Tuple

from . import build, engine, wire
from .gen import B, D, F, I, S
from .genv import VGen, all_paths


def nodes(d: Any, path: Tuple = ()) -> Any:
    """all validator nodes of a description with their paths"""
    if isinstance(d, dict):
        if "k" in d and "vid" in d:
            yield path, d
        for k, v in d.items():
            if k in ("m", "v", "vs_", "keys", "defaults", "cls", "x"):
                continue
            yield from nodes(v, path + (k,))
    elif isinstance(d, list):
        for i, v in enumerate(d):
            yield from nodes(v, path + (i,))


def get_path(d: Any, path: Tuple) -> Any:
    for p in path:
        d = d[p]
    return d


def change_one(g: VGen, v: dict) -> Optional[Tuple[dict, str]]:
    """a copy of `v` with one constructor argument changed at one node"""
    r = g.rng
    v2 = copy.deepcopy(v)
    ns = list(nodes(v2))
    cands: List[Tuple[Tuple, dict, str]] = []
    for path, n in ns:
        k = n["k"]
        opts: List[str] = []
        if k == "scalar":
            opts += ["coerce", "pred_param", "drop_pred", "add_pred", "proc", "ty", "coerce_fn", "apred", "swap_preds", "swap_procs"]
        elif k == "equals":
            opts += ["match_type", "match_val", "proc"]
        elif k in ("list", "set", "utuple", "map"):
            opts += ["coerce", "drop_pred", "add_pred", "coerce_fn", "apred", "swap_preds", "swap_preds"]
        elif k == "ntuple":
            opts += ["coerce", "oc", "drop_field", "oc_fn"]
        elif k == "record":
            opts += ["failUnknown", "req", "oc", "drop_key", "coerce", "into", "cls", "swap_keys", "swap_keys", "swap_keys",
                     "coerce_fn", "aoc", "aoc", "oc_fn"]
        elif k == "union":
            opts += ["swap", "swap", "drop_variant"]
        elif k == "none":
            opts += ["coerce"]
        for o in opts:
            cands.append((path, n, o))
    r.shuffle(cands)
    # rare operators first half of the time, so that every constructor argument is varied often
    if r.random() < 0.5:
        cands.sort(key=lambda c: 0 if c[2] in ("swap_keys", "swap", "coerce_fn", "apred", "req", "cls", "into", "match_type", "aoc", "oc_fn")
                   or c[1]["k"] == "none" else 1)
    for path, n, o in cands:
        how = apply_change(g, n, o)
        if how:
            return v2, f"{n['k']}@{'/'.join(map(str, path))}: {how}"
    return None


def _same_pred(a: dict, b: dict, is_async: bool) -> bool:
    """do the two descriptions denote predicates that compare equal (Choices({1, 2}) == Choices({2, 1}))?"""
    try:
        ctx = wire.Ctx()
        mk = build.mk_apred if is_async else build.mk_pred
        return bool(mk(ctx, a) == mk(ctx, b))
    except Exception:  # noqa
        return True


def apply_change(g: VGen, n: dict, o: str) -> Optional[str]:
    r = g.rng
    k = n["k"]
    if o == "coerce":
        cur = n.get("coerce")
        if k == "scalar" and n["ty"] in ("decimal", "uuid", "date", "datetime") and not n.get("asType"):
            n["coerce"] = None if cur == "default" else "default"
            return f"coerce {cur!r} -> {n['coerce']!r}"
        if k in ("utuple", "ntuple"):
            n["coerce"] = None if cur == "default" else "default"
            return f"coerce {cur!r} -> {n['coerce']!r}"
        if k == "record" and n["kind"] in ("dataclass", "namedtuple"):
            n["coerce"] = "classOnly" if cur is None else None
            return f"coerce {cur!r} -> {n['coerce']!r}"
        if k == "scalar" and isinstance(n["ty"], str) and n["ty"] in ("int", "str") and cur is None:
            n["coerce"] = g.user_coercer(n["ty"])
            return "coerce None -> user coercer"
        if k == "none":
            # (also the `none_validator=` of an Optional: a fresh identity, so that the builder passes it explicitly)
            n["vid"] = g.vid()
            n["coerce"] = None if cur else {"cid": g.cb(), "compat": ["none", "str"], "fn": {"f": "ifTy", "ty": "str"}}
            return "NoneValidator coercer " + ("removed" if cur else "added")
        return None
    if o == "coerce_fn":
        cur = n.get("coerce")
        if not isinstance(cur, dict):
            # install a user coercer first where the constructor takes one, then vary only its function
            return None
        fns = [{"f": "rejectAll"}, {"f": "acceptAll"}, cur["fn"]]
        new = [f for f in fns if f != cur["fn"]]
        n["coerce"] = dict(cur, fn=r.choice(new), cid=g.cb())     # same compatible types, another function
        return "coercer function changed (same compatible types)"
    if o == "apred":
        if k == "scalar" and n.get("asType") and isinstance(n["ty"], dict):
            return None
        ty = n["ty"] if k == "scalar" else {"list": "list", "set": "set", "utuple": "tuple", "map": "dict"}[k]
        if not isinstance(ty, str):
            return None
        cur = n.get("apreds")
        if cur:
            n["apreds"] = None
            return "async predicates removed"
        n["apreds"] = [{"k": "user", "pid": g.pid(), "fn": {"f": "const", "b": False}}]
        return "an async predicate added"
    if o == "swap_keys":
        if n["kind"] != "record" or len(n["keys"]) < 2:
            return None
        n["into"] = dict(n["into"], keys=list(n["into"]["keys"]))     # the target constructor stays the same object
        n["keys"] = list(n["keys"])
        for f in ("keys", "vals", "reqs"):
            n[f][0], n[f][1] = n[f][1], n[f][0]
        return "first two keys swapped"
    if o == "ty" and k == "scalar" and n.get("asType"):
        if isinstance(n["ty"], dict):
            n["ty"] = {"cls": g.new_class(0, hashable=True)}
            return "TypeValidator target class changed"
        if n["ty"] in ("int", "str", "float") and not n.get("preds") and not n.get("coerce"):
            n["ty"] = {"int": "str", "str": "float", "float": "int"}[n["ty"]]
            return "TypeValidator target type changed"
        return None
    if o == "pred_param":
        for p in n.get("preds") or []:
            if p["k"] in ("MinLength", "MaxLength", "ExactLength", "MinItems", "MaxItems", "ExactItemCount", "MinKeys", "MaxKeys"):
                p["n"] += 1
                return f"{p['k']} parameter + 1"
            if p["k"] in ("Min", "Max"):
                p["excl"] = not p["excl"]
                return f"{p['k']} exclusive flag flipped"
        return None
    if o == "swap_preds":
        # declaration order is observable: a value failing both is reported with the predicates in that order
        for f in ("preds", "apreds"):
            ps = n.get(f) or []
            if len(ps) >= 2 and not _same_pred(ps[0], ps[1], f == "apreds"):
                n[f] = [ps[1], ps[0]] + list(ps[2:])
                return f"first two {f} swapped"
        return None
    if o == "swap_procs":
        ps = n.get("pre") or []
        if len(ps) >= 2 and ps[0]["k"] != ps[1]["k"]:
            n["pre"] = [ps[1], ps[0]] + list(ps[2:])
            return "first two preprocessors swapped"
        return None
    if o == "drop_pred" and n.get("preds"):
        n["preds"].pop(r.randrange(len(n["preds"])))
        return "a predicate removed"
    if o == "add_pred" and k in ("scalar", "list", "set", "utuple", "map") and not n.get("asType"):
        ty = n["ty"] if k == "scalar" else {"list": "list", "set": "set", "utuple": "tuple", "map": "dict"}[k]
        if not isinstance(ty, str):
            return None
        n["preds"] = list(n.get("preds") or []) + [g.pred_for(ty)]
        return "a predicate added"
    if o == "proc" and k in ("scalar", "equals"):
        ty = n["ty"] if k == "scalar" else n["m"]["t"]
        if ty in ("str", "bytes"):
            cur = n.get("pre") or []
            if cur:
                n["pre"] = cur[:-1] or None
                return "a processor removed"
            n["pre"] = [{"k": "strip", "pid": g.pid()}]
            return "a processor added"
        return None
    if o == "match_type":
        m = n["m"]
        if m["t"] == "int" and m["i"] in (0, 1):
            n["m"] = B(m["i"] == 1)
            return "match int -> equal bool"
        if m["t"] == "bool":
            n["m"] = I(1 if m["b"] else 0)
            return "match bool -> equal int"
        if m["t"] == "int" and abs(m["i"]) < 1000:
            n["m"] = F(m["i"] < 0, abs(m["i"]), 0)
            return "match int -> equal float"
        if m["t"] == "date":
            return None
        return None
    if o == "match_val":
        n["m"] = g.atom(n["m"]["t"], special=False) if n["m"]["t"] in ("int", "str", "bytes", "float", "decimal", "uuid", "date", "bool") else n["m"]
        return "match value re-drawn"
    if o == "oc":
        key = "oc"
        if n.get(key):
            n[key] = None
            return "object check removed"
        if not n.get("aoc"):
            n[key] = {"id": g.cb(), "fn": {"f": "fail", "e": g.cb()}}
            return "object check added"
        return None
    if o == "aoc" and k == "record":
        if n.get("aoc"):
            if r.random() < 0.5:
                n["aoc"] = None
                return "async object check removed"
            n["aoc"] = {"id": g.cb(), "fn": {"f": "fail", "e": g.cb()}}
            return "async object check replaced by another callback"
        if not n.get("oc"):
            n["aoc"] = {"id": g.cb(), "fn": {"f": "fail", "e": g.cb()}}
            return "async object check added"
        return None
    if o == "oc_fn" and n.get("oc"):
        n["oc"] = {"id": g.cb(), "fn": {"f": "fail", "e": g.cb()}}
        return "object check replaced by another callback"
    if o == "drop_field" and n.get("fields"):
        n["fields"].pop()
        return "a slot removed"
    if o == "failUnknown":
        n["failUnknown"] = not n.get("failUnknown")
        return "fail_on_unknown_keys flipped"
    if o == "req" and n["kind"] in ("typeddict", "dictAny") and n["reqs"]:
        i = r.randrange(len(n["reqs"]))
        n["reqs"][i] = not n["reqs"][i]
        if n["kind"] == "typeddict":
            n["cls"] = dict(n["cls"], id=g.cid())
        return "requiredness of a key flipped"
    if o == "cls" and n["kind"] == "typeddict":
        n["cls"] = dict(n["cls"], id=g.cid())
        return "a different TypedDict class with the same fields"
    if o == "drop_key" and n["kind"] in ("record", "dictAny") and n["keys"]:
        i = r.randrange(len(n["keys"]))
        for f in ("keys", "vals", "reqs"):
            n[f].pop(i)
        if "knrVids" in n:
            n["knrVids"].pop(i)
        if n["kind"] == "record":
            n["into"] = dict(n["into"], keys=n["keys"], id=g.cb())
        return "a key removed"
    if o == "into" and n["kind"] == "record":
        n["into"] = dict(n["into"], f={"dictOf": "tupleOf", "tupleOf": "listOf", "listOf": "dictOf"}[n["into"]["f"]], id=g.cb())
        return "target constructor changed"
    if o == "swap" and len(n["vs"]) >= 2:
        n["vs"][0], n["vs"][1] = n["vs"][1], n["vs"][0]
        return "first two variants swapped"
    if o == "drop_variant" and len(n["vs"]) >= 2:
        n["vs"].pop()
        return "last variant removed"
    return None


def gen_case(g: VGen, opts: dict) -> dict:
    r = g.rng
    g.reset()
    v = g.gen_v(r.choice([0, 0, 1, 1, 2]))
    while has_nan([v, g.env]):
        # NaN parameters: `nan == nan` is False but `(nan,) == (nan,)` is True for the same object, so
        # "constructed from the same arguments" is not expressible through descriptions
        g.reset()
        v = g.gen_v(r.choice([0, 0, 1, 1, 2]))
    kind = r.choice(["rebuild", "change", "change", "change"])
    w, how = v, "independent rebuild"
    if kind == "change":
        ch = change_one(g, v)
        if ch is None:
            kind = "rebuild"
        else:
            w, how = ch
    pool = []
    for _ in range(opts.get("pool", 8)):
        c = r.random()
        src = v if r.random() < 0.5 else w
        x = g.hostile() if c < 0.2 else g.conform(src)
        if 0.2 <= c < 0.45:
            x = g.near_miss(x)
        if c > 0.9:
            x = g.mutate(x)
        pool.append(x)
    return {"env": g.env, "v": v, "w": w, "kind": kind, "how": how, "pool": pool, "classes": g.classes}


def has_nan(x: Any) -> bool:
    s = json.dumps(x)
    return '"nan"' in s or '"snan"' in s


# ---- object identities: the model's notion of "same configuration" and executable instances of C19_rename ----

ID_KEYS = ("vid", "pid", "lenPid")


def user_pids(d: Any, acc: Optional[set] = None) -> set:
    """identities of user-written predicates / processors (compared by identity: their identity *is* configuration)"""
    acc = set() if acc is None else acc
    if isinstance(d, dict):
        if d.get("k") == "user" and "pid" in d:
            acc.add(d["pid"])
        for v in d.values():
            user_pids(v, acc)
    elif isinstance(d, list):
        for v in d:
            user_pids(v, acc)
    return acc


def rename_desc(d: Any, pf: Any, vf: Any) -> Any:
    """the wire-level counterpart of `V.rn`: every validator identity through vf, every predicate / processor identity
    through pf (values carry neither key)"""
    if isinstance(d, dict):
        out = {}
        for k, v in d.items():
            if k == "vid":
                out[k] = vf(v)
            elif k in ("pid", "lenPid"):
                out[k] = pf(v)
            elif k == "knrVids":
                out[k] = [vf(i) for i in v]
            else:
                out[k] = rename_desc(v, pf, vf)
        return out
    if isinstance(d, list):
        return [rename_desc(v, pf, vf) for v in d]
    return d


def rename_answer(a: dict, pf: Any, vf: Any) -> dict:
    """the wire-level counterpart of `rnRes`"""
    def inv(e: dict) -> dict:
        err = dict(e["err"])
        if err.get("e") == "preds":
            err["pids"] = [pf(i) for i in err["pids"]]
        return {"err": err, "value": e["value"], "vid": vf(e["vid"]), "children": [inv(c) for c in e["children"]]}
    if "out" not in a:
        return a
    out = a["out"]
    if "invalid" in out:
        out = {"invalid": inv(out["invalid"])}
    tr = []
    for ev in a.get("trace", []):
        if ev[0] in ("pred", "apred", "proc"):
            tr.append([ev[0], pf(ev[1])])
        elif ev[0] == "uv":
            tr.append([ev[0], vf(ev[1]), ev[2]])
        else:
            tr.append(ev)
    return {"out": out, "trace": tr}


def same_configuration(case: dict) -> bool:
    """`a.rn r = b.rn r` for r = (validator identities -> 0, built-in predicate identities -> 0, user callbacks kept):
    the hypothesis of `C19_congruence`, decided on the descriptions the model's trees are decoded from"""
    keep = user_pids([case["v"], case["w"], case["env"]])
    pf = lambda i: i if i in keep else 0      # noqa: E731
    vf = lambda i: 0                          # noqa: E731
    return json.dumps(rename_desc(case["v"], pf, vf), sort_keys=True) == json.dumps(rename_desc(case["w"], pf, vf), sort_keys=True)


def equal_parameters(a: Any, b: Any, typed: bool = True) -> bool:
    """the two descriptions differ at most in parameter *values* that Python's `==` identifies (Decimal('0') and
    Decimal('-0'), 1 and 1.0 inside a predicate): such pairs are `==` and behave alike, but are not the same tree —
    they lie outside C19_congruence and are decided by the input pool alone.  A validator's own match value must
    also have the same type (EqualsValidator compares it); a predicate's parameter need not."""
    if isinstance(a, dict) and isinstance(b, dict):
        if "t" in a and "t" in b and "vid" not in a and "pid" not in a:
            try:
                ctx = wire.Ctx()
                x, y = wire.mk_value(ctx, a), wire.mk_value(ctx, b)
                return bool(x == y) and (not typed or type(x) is type(y))
            except Exception:  # noqa
                return a == b
        if set(a) != set(b):
            return False
        inner_typed = "pid" not in a
        return all(equal_parameters(a[k], b[k], inner_typed and typed) for k in a)
    if isinstance(a, list) and isinstance(b, list):
        return len(a) == len(b) and all(equal_parameters(x, y, typed) for x, y in zip(a, b))
    return a == b


def rename_requests(case: dict, rng: random.Random) -> Tuple[List[dict], Any, Any]:
    """three model runs on one pool input: the tree as it is; the tree renamed inside the model by `V.rn`; the tree
    decoded from the renamed description"""
    from . import oracle
    x = case["pool"][0]
    ctx = wire.Ctx()
    xd = wire.canon_value(ctx, wire.mk_value(ctx, x))
    salt_p, salt_v = rng.randrange(1, 50), rng.randrange(1, 50)
    merge = rng.random() < 0.5
    pf = (lambda i: (i * 7 + salt_p) % 5) if merge else (lambda i: i * 3 + salt_p)       # noqa: E731
    vf = (lambda i: (i * 5 + salt_v) % 3) if merge else (lambda i: i * 2 + salt_v)       # noqa: E731
    ids_p, ids_v = set(), set()

    def collect(d: Any) -> None:
        if isinstance(d, dict):
            for k, v in d.items():
                if k == "vid":
                    ids_v.add(v)
                elif k in ("pid", "lenPid"):
                    ids_p.add(v)
                elif k == "knrVids":
                    ids_v.update(v)
                else:
                    collect(v)
        elif isinstance(d, list):
            for v in d:
                collect(v)
    collect([case["v"], case["env"]])
    mode = rng.choice(["sync", "async"])
    tabs = oracle.tables(case["v"], case["env"], xd)
    base = {"op": "run", "mode": mode, "env": case["env"], "v": case["v"], "x": xd, "oracle": tabs, "fuel": 400}
    inside = dict(base, rename={"p": [[i, pf(i)] for i in sorted(ids_p)], "v": [[i, vf(i)] for i in sorted(ids_v)]})
    outside = dict(base, env=rename_desc(case["env"], pf, vf), v=rename_desc(case["v"], pf, vf))
    return [base, inside, outside], pf, vf


def check_case(case: dict) -> Tuple[Optional[str], List[str], dict]:
    """returns (unbuildable reason, failures, info)"""
    ctx = wire.Ctx()
    try:
        a = build.build(ctx, case["v"], case["env"])
        b = build.build(ctx, case["w"], case["env"])
    except Exception as e:  # noqa
        return f"{type(e).__name__}: {e}", [], {}
    fails: List[str] = []
    try:
        eq = bool(a == b)
        eq2 = bool(b == a)
    except Exception as e:  # noqa
        return None, [f"comparing the validators raised {type(e).__name__}"], {}
    info = {"eq": eq, "kind": case["kind"]}
    if eq != eq2:
        fails.append("validator equality is not symmetric")
    if case["kind"] == "rebuild":
        if not eq:
            fails.append("two validators constructed independently from the same arguments compare unequal")
        try:
            if repr(a) != repr(b):
                fails.append("repr differs between two constructions from the same arguments")
        except Exception as e:  # noqa
            fails.append(f"repr raised {type(e).__name__}")
    if eq:
        sep = 0
        for xd in case["pool"]:
            if has_nan(xd):
                continue
            try:
                x = wire.mk_value(ctx, xd)
            except Exception:  # noqa
                continue
            for mode in ("sync", "async"):
                ra = call(a, x, mode)
                rb = call(b, x, mode)
                sep += 1
                try:
                    same = ra == rb
                except Exception:  # noqa
                    same = True
                if not same:
                    # a NaN produced *inside* (Decimal('NaN') parsed from the text 'NaN') is unequal to itself: two
                    # results that print alike and differ only there are the same result (a set holding one prints
                    # its members in an order that depends on the NaN object's identity hash, hence the sort)
                    try:
                        ta, tb = repr(ra), repr(rb)
                        if sorted(ta) == sorted(tb) and ("NaN" in ta or "nan" in ta):
                            same = True
                    except Exception:  # noqa
                        pass
                if not same:
                    fails.append(f"validators compare equal ({case['how']}) but return different results "
                                 f"({mode}) on {json.dumps(wire.canon_value(ctx, x))[:120]}: "
                                 f"{short(ra)} vs {short(rb)}")
                    break
            if fails:
                break
        info["inputs"] = sep
    return None, fails, info


def short(r: Any) -> str:
    try:
        s = repr(r)
    except Exception:  # noqa  (a value whose own __repr__ raises, e.g. an instance with an unset field)
        s = f"<{type(r).__name__}: repr raised>"
    return s[:90]


def call(v: Any, x: Any, mode: str) -> Any:
    try:
        if mode == "sync":
            return v(x)
        return build.drive(v.validate_async(x))
    except RecursionError:
        raise
    except BaseException as e:  # noqa
        return ("raised", type(e).__name__)


def gen_derived_case(ag: Any, rng: random.Random) -> dict:
    """a pair of *derived* validators for one annotation: the library's default resolver and its strict (signature)
    resolver - for record classes that is `DataclassValidator(cls)` against `DataclassValidator(cls, typehint_resolver=…)`,
    two validators that differ in nothing but the resolver"""
    ag.reset()
    ag.user_rate = 0.0
    ag.async_rate = 0.0
    a = ag.gen_ann(rng.choice([1, 1, 2, 2, 3]))
    xs = []
    for _ in range(6):
        x = ag.conform_ann(a)
        if rng.random() < 0.4:
            x = ag.near_miss(x)
        xs.append(x)
    return {"kind": "derived", "ann": a, "xs": xs, "classes": ag.classes}


def check_derived(case: dict, rng: random.Random) -> Tuple[Optional[str], List[str], dict]:
    import typing
    from koda_validate.signature import resolve_signature_typehint_default
    from koda_validate.typehints import get_typehint_validator
    from . import ann_stream
    ctx = wire.Ctx()
    try:
        for _f in getattr(typing, "_cleanups", []):
            _f()
        ann = ann_stream.build_ann(ctx, case["ann"], rng)
        v1 = get_typehint_validator(ann)
        v2 = resolve_signature_typehint_default(ann)
        top = case["ann"].get("a")
        if top in ("dataclass", "namedtuple", "typeddict") and rng.random() < 0.7:
            # the record validator itself, twice: nothing differs but the resolver its fields are derived with
            from koda_validate import DataclassValidator, NamedTupleValidator, TypedDictValidator
            ctor = {"dataclass": DataclassValidator, "namedtuple": NamedTupleValidator, "typeddict": TypedDictValidator}[top]
            v1 = ctor(ann)
            v2 = ctor(ann, typehint_resolver=resolve_signature_typehint_default)
        xs = [wire.mk_value(ctx, x) for x in case["xs"]]
    except Exception as e:  # noqa
        return f"{type(e).__name__}: {e}", [], {}
    fails: List[str] = []
    try:
        eq = bool(v1 == v2)
    except Exception as e:  # noqa
        return None, [f"== raised {type(e).__name__}"], {}
    info = {"eq": eq}
    if eq:
        for x in xs:
            for mode in ("sync", "async"):
                r1 = build.run_real(ctx, v1, x, mode)["out"]
                r2 = build.run_real(ctx, v2, x, mode)["out"]
                if wire.normalise(wire.strip_ids_public(r1)) != wire.normalise(wire.strip_ids_public(r2)):
                    fails.append(f"{mode}: the validators derived from one annotation by the default and by the strict resolver "
                                 f"compare equal but answer differently on {json.dumps(wire.canon_value(ctx, x))[:120]}")
                    return None, fails, info
    return None, fails, info


def gen_flag_pair(rng: random.Random) -> dict:
    import re
    word = "".join(rng.choice("abcXYZ") for _ in range(rng.randint(1, 4)))
    src = rng.choice([word, word + "$", "^" + word, word + ".", word + r"\s*$", "(?:" + word + ")+"])
    flag_pool = [0, re.I, re.S, re.M, re.I | re.S, re.X]
    f1 = rng.choice(flag_pool)
    f2 = f1 if rng.random() < 0.2 else rng.choice(flag_pool)
    return {"kind": "regex-flags", "word": word, "src": src, "flags": [int(f1), int(f2)],
            "wrap": rng.choice(["bare", "list", "optional"])}


def check_flag_pair(case: dict) -> Tuple[List[str], dict]:
    """two string validators whose RegexPredicate patterns have one source and (mostly) different flags, bare or inside a
    container: `==` may say either, but when it says equal the two must answer alike (model-free)"""
    import re
    from koda_validate import ListValidator, OptionalValidator, RegexPredicate, StringValidator
    word, src, (f1, f2), wrap = case["word"], case["src"], case["flags"], case["wrap"]

    def mk(fl: int) -> Any:
        v: Any = StringValidator(RegexPredicate(re.compile(src, fl)))
        return ListValidator(v) if wrap == "list" else OptionalValidator(v) if wrap == "optional" else v
    v, w = mk(f1), mk(f2)
    strs = [word, word.lower(), word.upper(), word + "\n", word + "\n" + word, " " + word, word + " ", word + "q", ""]
    xs = [[x] for x in strs] if wrap == "list" else strs
    info: dict = {"xs": xs}
    try:
        info["eq"] = bool(v == w)
    except Exception as e:  # noqa
        return [f"== raised {type(e).__name__}"], info
    fails: List[str] = []
    if f1 == f2 and not info["eq"]:
        fails.append("two validators built from the same pattern source and flags compare unequal")
    if info["eq"]:
        for x in xs:
            r1, r2 = v(x), w(x)
            if r1.is_valid != r2.is_valid:
                fails.append(f"{wrap} StringValidator(RegexPredicate(re.compile({src!r}, {int(f1)}))) == the same with flags "
                             f"{int(f2)}, but they answer differently on {x!r}")
                break
    return fails, info


def shard(seed: int, shard_i: int, n: int, opts: dict) -> dict:
    rng = random.Random(f"{seed}-{shard_i}-c19{opts.get('salt', '')}")
    g = VGen(rng, async_rate=0.1, user_rate=0.1)
    stats: collections.Counter = collections.Counter()
    failures, samples = [], []
    disagreements: List[dict] = []
    reqs: List[dict] = []
    req_meta: List[Tuple[dict, Any, Any]] = []
    distinct, nontrivial = set(), set()
    evaluated = 0
    from . import registry
    cases = list(registry.load_corpus("C19")) if shard_i == 0 else []
    cases = [c for c in cases if "w" in c]
    for i in range(n + len(cases)):
        c = cases[i] if i < len(cases) else gen_case(g, opts)
        wire.set_classes(c["classes"])
        unb, fails, info = check_case(c)
        if unb:
            stats["unbuildable"] += 1
            continue
        evaluated += 1
        h = engine.case_hash({"v": c["v"], "w": c["w"]})
        distinct.add(h)
        stats[f"{c['kind']}:eq={info.get('eq')}"] += 1
        if c["kind"] == "change":
            stats["changed:" + c["how"].split(": ")[-1]] += 1
            nontrivial.add(h)
        # the model's notion of equal configuration (hypothesis of C19_congruence) against the real `==`
        same = same_configuration(c)
        stats[f"same-configuration={same}:eq={info.get('eq')}"] += 1
        if same and not info.get("eq"):
            fails.append("two validators with the same configuration (equal once object identities are renamed) compare unequal")
        lenient = same
        if not same:
            keep = user_pids([c["v"], c["w"], c["env"]])
            pf = lambda i: i if i in keep else 0      # noqa: E731
            lenient = equal_parameters(rename_desc(c["v"], pf, lambda i: 0), rename_desc(c["w"], pf, lambda i: 0))
            if lenient:
                stats["same-configuration-up-to-equal-parameter-values"] += 1
        if info.get("eq") and not lenient and not fails:
            # `==` holds although the configurations differ: outside the theorem; the pool found no input that tells
            # them apart, so the property is no longer shown to hold for this pair
            disagreements.append({"case": c, "mode": "both", "fields": ["eq"], "xd": c["pool"],
                                  "real": {"eq": True}, "model": {"same_configuration": False, "changed": c["how"]}})
        for f in fails:
            failures.append({"property": "C19", "case": c, "xd": c["pool"], "what": f, "real": info})
        if c["pool"] and not has_nan(c["pool"][0]):
            try:
                rq, pf, vf = rename_requests(c, rng)
                reqs += rq
                req_meta.append((c, pf, vf))
            except Exception:  # noqa  (an input the wire cannot describe)
                pass
        if len(samples) < 1 and c["kind"] == "change":
            samples.append({"v": c["v"], "changed": c["how"], "eq": info.get("eq")})
    # derived validators: default resolver against strict resolver, same annotation
    from . import ann_stream
    ag = ann_stream.AGen(random.Random(f"{seed}-{shard_i}-c19d{opts.get('salt', '')}"))
    for _ in range(max(20, n // 8)):
        dc = gen_derived_case(ag, rng)
        wire.set_classes(dc["classes"])
        unb, dfails, dinfo = check_derived(dc, rng)
        if unb:
            stats["derived:unbuildable"] += 1
            continue
        evaluated += 1
        stats[f"derived:eq={dinfo.get('eq')}"] += 1
        for f in dfails:
            failures.append({"property": "C19", "case": dc, "xd": dc["xs"], "what": f, "real": dinfo})
    # facets the description language does not have: the flags of a compiled pattern
    frng = random.Random(f"{seed}-{shard_i}-c19f{opts.get('salt', '')}")
    for _ in range(max(10, n // 40)):
        fc = gen_flag_pair(frng)
        fails, finfo = check_flag_pair(fc)
        evaluated += 1
        stats[f"regex-flags:eq={finfo.get('eq')}"] += 1
        for f in fails:
            failures.append({"property": "C19", "case": fc, "xd": finfo.get("xs", []), "what": f, "real": finfo})
    # executable instances of C19_rename, and the decoder's agreement with `V.rn`
    from . import driver
    answers = driver.run_batch(reqs) if reqs else []
    for j, (c, pf, vf) in enumerate(req_meta):
        base, inside, outside = answers[3 * j: 3 * j + 3]
        stats["rename-instances"] += 1
        if "error" in base:
            stats["rename-instances:" + str(base.get("error"))] += 1
            continue
        want = rename_answer(base, pf, vf)
        for name, got in (("renamed inside the model (V.rn)", inside), ("decoded from the renamed description", outside)):
            if json.dumps(got, sort_keys=True) != json.dumps(want, sort_keys=True):
                disagreements.append({"case": c, "mode": reqs[3 * j]["mode"], "fields": ["rename"], "xd": [reqs[3 * j]["x"]],
                                      "real": {"expected": want}, "model": {"how": name, "got": got}})
    return {"evaluated": evaluated, "stats": dict(stats), "failures": failures[:30], "n_failures": len(failures),
            "disagreements": disagreements[:20], "n_disagreements": len(disagreements),
            "distinct": list(distinct), "nontrivial": list(nontrivial), "samples": samples}


def run(pid: str, tier: str, seed: int, spec: dict, scale: float = 1.0, salt: str = "") -> dict:
    n = int((3000 if tier == "quick" else 60000) * scale)
    res = engine.run_sharded("harness.eq_stream", "shard", seed, n, {"salt": salt, "pool": 8 if tier == "quick" else 20})
    crashes = [r["crash"] for r in res if "crash" in r]
    if crashes:
        raise RuntimeError("shard crashed:\n" + crashes[0])
    out: Dict[str, Any] = {"evaluations": 0, "failures": [], "n_failures": 0, "disagreements": [], "n_disagreements": 0,
                           "samples": []}
    stats: collections.Counter = collections.Counter()
    distinct, nontrivial = set(), set()
    for r in res:
        out["evaluations"] += r["evaluated"]
        out["failures"] += r["failures"]
        out["n_failures"] += r["n_failures"]
        out["samples"] += r["samples"]
        out["disagreements"] += r["disagreements"]
        out["n_disagreements"] += r["n_disagreements"]
        stats.update(r["stats"])
        distinct.update(r["distinct"])
        nontrivial.update(r["nontrivial"])
    out["distinct_nontrivial"] = len(nontrivial)
    out["distribution"] = {"pairs": dict(stats), "distinct": len(distinct)}
    return out


def replay_case(case: dict) -> List[str]:
    wire.set_classes(case.get("classes", []))
    if case.get("kind") == "derived":
        unb, fails, info = check_derived(case, random.Random(0))
        return fails if not unb else ["case cannot be built: " + unb]
    if case.get("kind") == "regex-flags":
        return check_flag_pair(case)[0]
    unb, fails, info = check_case(case)
    return fails if not unb else ["case cannot be built: " + unb]
