"""C20: histories of calls through a CacheValidatorBase subclass with a faithful dict-backed store."""
from __future__ import annotations

import collections
import json
import random
from typing import Any, Dict, List, Optional

from koda import Just, Maybe, nothing
from koda_validate import Validator
from koda_validate.base import CacheValidatorBase

from . import build, driver, engine, oracle, props, wire
from .genv import VGen, is_hashable_desc


class RunLogger(Validator[Any]):
    """sits between the cache and the wrapped validator: records which entry point is used"""

    def __init__(self, inner: Any, log: List[list]) -> None:
        self.inner, self.log = inner, log

    def __call__(self, val: Any) -> Any:
        self.log.append(["crun", "sync"])
        return self.inner(val)

    async def validate_async(self, val: Any) -> Any:
        self.log.append(["crun", "async"])
        return await self.inner.validate_async(val)


class DictCache(CacheValidatorBase[Any]):
    """a faithful store: lookup returns what was stored for that input, nothing otherwise"""

    def __init__(self, validator: Any, keyfn: Any, log: List[list]) -> None:
        super().__init__(validator)
        self.store: Dict[Any, Any] = {}
        self.keyfn, self.log = keyfn, log
        self.sets: List[Any] = []

    def cache_get_sync(self, val: Any) -> Maybe[Any]:
        self.log.append(["cget", "sync"])
        k = self.keyfn(val)
        return Just(self.store[k]) if k in self.store else nothing

    def cache_set_sync(self, val: Any, cache_val: Any) -> None:
        self.log.append(["cset", "sync"])
        self.sets.append((val, cache_val))
        self.store[self.keyfn(val)] = cache_val

    async def cache_get_async(self, val: Any) -> Maybe[Any]:
        self.log.append(["cget", "async"])
        k = self.keyfn(val)
        return Just(self.store[k]) if k in self.store else nothing

    async def cache_set_async(self, val: Any, cache_val: Any) -> None:
        self.log.append(["cset", "async"])
        self.sets.append((val, cache_val))
        self.store[self.keyfn(val)] = cache_val


KEYFNS = {"identity": lambda v: id(v), "typedEq": lambda v: (type(v), v)}
# "snapshot": keyed by the input's contents at the time of the call (types included, identities not) - the store a
# serialising cache is: an object edited in place since it was stored is another input


def snapshot_keyfn(ctx: wire.Ctx) -> Any:
    return lambda v: json.dumps(props.strip_ids(wire.canon_value(ctx, v)), sort_keys=True)


def mutate_in_place(x: Any) -> bool:
    if type(x) is list:
        x.append(0)
    elif type(x) is dict:
        x["\x00m"] = len(x)
    elif type(x) is set:
        x.add(("\x00m", len(x)))
    else:
        return False
    return True


def gen_case(g: VGen, opts: dict) -> dict:
    r = g.rng
    g.reset()
    g.async_rate = 0.0 if r.random() < 0.8 else 0.3
    v = g.gen_v(r.choice([0, 1, 1, 2]))
    key = r.choice(["identity", "typedEq", "snapshot"])
    pool: List[dict] = []
    for _ in range(r.choice([1, 2, 3, 4])):
        c = r.random()
        x = g.hostile() if c < 0.25 else g.conform(v)
        if 0.25 <= c < 0.5:
            x = g.near_miss(x)
        if key in ("identity", "snapshot"):
            if "oid" not in x or (x["t"] == "tuple" and not x["xs"]):
                x = {"t": "list", "oid": g.oid(), "xs": [x]}
            if key == "snapshot":
                # a result refers to its input (Invalid.value, an unchanged payload): so that an edit in place never
                # reaches a result stored for *another* object, no two pool entries ever have the same contents (each
                # is a list ending in its own marker, and edits only append)
                x = {"t": "list", "oid": g.oid(), "xs": ([x] if not contains_nan(x) else []) + [{"t": "int", "i": 100 + len(pool)}]}
        else:
            if not is_hashable_desc(x) or contains_nan(x):
                x = {"t": "int", "i": r.choice([0, 1, 2])}
        pool.append(x)
    if key == "typedEq" and r.random() < 0.5:
        pool.append({"t": "bool", "b": True})
        pool.append({"t": "int", "i": 1})
        pool.append({"t": "float", "k": "fin", "neg": False, "m": 1, "e": 0})
    has_async = props.has_async(v, g.env)
    L = r.choice(opts.get("lengths", [0, 1, 2, 3, 5, 8, 12]))
    hist = [{"mode": ("async" if has_async else r.choice(["sync", "async"])), "i": r.randrange(len(pool))}
            for _ in range(L)]
    if hist and r.random() < 0.3:
        # cancellations: an async call abandoned while the wrapped validator is suspended, the same input again later
        for _ in range(r.choice([1, 1, 2])):
            i = r.randrange(len(pool))
            at = r.randrange(0, len(hist) + 1)
            hist.insert(at, {"cancel": i})
            hist.insert(r.randrange(at + 1, len(hist) + 1), {"mode": "async", "i": i})
    if key == "snapshot" and hist:
        # edits in place between calls: the same object, another input
        for _ in range(r.choice([1, 1, 2, 3])):
            hist.insert(r.randrange(1, len(hist) + 1), {"mutate": r.randrange(len(pool))})
    return {"env": g.env, "v": v, "classes": g.classes, "key": key, "pool": pool, "history": hist}


async def _cancelled_call(cache: Any, x: Any) -> Any:
    import asyncio
    t = asyncio.ensure_future(cache.validate_async(x))
    await build.Yield()              # the task runs up to its first suspension (or to its end)
    if not t.done():
        t.cancel()
    try:
        return ("done", await t)
    except asyncio.CancelledError:
        return ("cancelled", None)
    except BaseException as e:  # noqa
        return ("raised", e)


def contains_nan(x: Any) -> bool:
    if isinstance(x, dict):
        if x.get("k") in ("nan", "snan"):
            return True
        return any(contains_nan(v) for v in x.values())
    if isinstance(x, list):
        return any(contains_nan(v) for v in x)
    return False


def run_real(case: dict) -> Optional[dict]:
    ctx = wire.Ctx()
    try:
        inner = build.build(ctx, case["v"], case.get("env", []))
        pool = [wire.mk_value(ctx, x) for x in case["pool"]]
        keyfn = snapshot_keyfn(ctx) if case["key"] == "snapshot" else KEYFNS[case["key"]]
        for p in pool:
            hash(keyfn(p))
    except Exception as e:  # noqa
        return None
    clog: List[list] = []
    cache = DictCache(RunLogger(inner, clog), keyfn, clog)
    ctx.vid[id(cache)] = 9999
    pool_desc = [wire.canon_value(ctx, p) for p in pool]
    calls = []
    seen_keys: set = set()
    stored_out: Dict[Any, Any] = {}
    fails: List[str] = []
    xdescs: List[Any] = []
    for n, c in enumerate(case["history"]):
        if "mutate" in c:
            mutate_in_place(pool[c["mutate"]])
            continue
        x = pool[c["cancel"] if "cancel" in c else c["i"]]
        xd_now = wire.canon_value(ctx, x)      # the input as it is at the time of this call
        del clog[:]
        nsets = len(cache.sets)
        try:
            if "cancel" in c:
                # an async call whose task is cancelled at its first suspension: it must leave no trace (nothing
                # stored, no later call affected); one that finishes without suspending is an ordinary async call
                st = build.drive(_cancelled_call(cache, x))
                if st[0] == "cancelled":
                    if cache.sets[nsets:]:
                        fails.append(f"call {n}: a cancelled call stored a result")
                    continue
                if st[0] == "raised":
                    raise st[1]
                c = {"mode": "async", "i": c["cancel"]}
                r = st[1]
            elif c["mode"] == "sync":
                r = cache(x)
            else:
                r = build.drive(cache.validate_async(x))
            out = wire.canon_result(ctx, r)
        except RecursionError:
            raise
        except BaseException as e:  # noqa
            out = {"raised": wire.exn_name(e)}
            r = None
            if "cancel" in c:
                c = {"mode": "async", "i": c["cancel"]}
        xdescs.append({"mode": c["mode"], "x": xd_now})
        calls.append({"out": out, "cev": list(clog)})
        # model-free oracle: bare validator on the same object; run/set discipline
        k = keyfn(x)
        hit = k in seen_keys
        runs = [e for e in clog if e[0] == "crun"]
        sets = cache.sets[nsets:]
        if hit:
            if runs or sets:
                fails.append(f"call {n}: hit, but the wrapped validator ran {len(runs)}x / the store was written {len(sets)}x")
        elif "raised" not in out:
            if len(runs) != 1 or runs[0][1] != c["mode"]:
                fails.append(f"call {n}: miss, wrapped validator entered {runs} (expected once, through {c['mode']})")
            if len(sets) != 1:
                fails.append(f"call {n}: miss stored {len(sets)} pairs")
            elif sets[0][0] is not x or sets[0][1] is not r:
                fails.append(f"call {n}: miss did not store exactly the (input, result) pair it computed")
            seen_keys.add(k)
            stored_out[k] = out
        bctx = wire.Ctx()
        bctx.oid = ctx.oid
        bctx.cls_by_id, bctx.cls_desc = ctx.cls_by_id, ctx.cls_desc
        bare = build.build(bctx, case["v"], case.get("env", []))
        try:
            br = bare(x) if c["mode"] == "sync" else build.drive(bare.validate_async(x))
            bout = wire.canon_result(bctx, br)
            # validator identities: compare by description ids of the bare instance
            for kk, vv in bctx.vid.items():
                pass
        except BaseException as e:  # noqa
            bout = {"raised": wire.exn_name(e)}
        # equality-keyed store: "what the wrapped validator returns" is determined up to `==` only (an
        # equal but distinct input object gets the stored result, which references the first object)
        # -- e.g. (Decimal('-0'),) hits the entry of (Decimal('0'),): to a faithful equality-keyed store the
        # two are the same input, so a hit is compared with what the wrapped validator returned for the
        # stored representative
        cmpf = props.strip_ids if case["key"] in ("typedEq", "snapshot") else (lambda z: z)
        if hit and case["key"] in ("typedEq", "snapshot") and k in stored_out:
            bout = stored_out[k]
        if cmpf(wire.normalise(bout)) != cmpf(wire.normalise(out)):
            if not (hit and "raised" in bout):
                fails.append(f"call {n}: cached call returned something else than the wrapped validator does")
    return {"calls": calls, "pool": pool_desc, "fails": fails, "xdescs": xdescs}


def strip_vids(x: Any) -> Any:
    return x


def shard(seed: int, shard_i: int, n: int, opts: dict) -> dict:
    rng = random.Random(f"{seed}-{shard_i}-c20{opts.get('salt', '')}")
    g = VGen(rng, async_rate=0.0, user_rate=0.1)
    cases = [gen_case(g, opts) for _ in range(n)]
    reqs, reals, idx = [], [], []
    unbuildable = 0
    for i, c in enumerate(cases):
        wire.set_classes(c["classes"])
        real = run_real(c)
        if real is None:
            unbuildable += 1
            continue
        reals.append(real)
        idx.append(i)
        hist = real["xdescs"]
        reqs.append({"op": "cache", "env": c["env"], "v": c["v"], "key": c["key"], "history": hist,
                     "oracle": oracle.tables(c["v"], c["env"], real["pool"]), "fuel": 400})
    answers = driver.run_batch(reqs) if reqs else []
    evaluated = 0
    calls = 0
    distinct, nontrivial = set(), set()
    disagreements, failures, samples = [], [], []
    lens = collections.Counter()
    hits = 0
    for real, i, ans in zip(reals, idx, answers):
        c = cases[i]
        evaluated += 1
        calls += len(real["calls"])
        lens[len(real["calls"])] += 1
        h = engine.case_hash({"v": c["v"], "pool": real["pool"], "h": c["history"], "k": c["key"]})
        distinct.add(h)
        nh = sum(1 for cl in real["calls"] if len(cl["cev"]) == 1)
        hits += nh
        if nh and len(c["history"]) >= 2:
            nontrivial.add(h)
        if "error" in ans:
            disagreements.append({"case": c, "fields": ["model-error:" + json.dumps(ans)[:200]]})
        else:
            for n_, (rc, mc) in enumerate(zip(real["calls"], ans["calls"])):
                if wire.normalise(rc["out"]) != wire.normalise(mc["out"]) or rc["cev"] != mc["cev"]:
                    disagreements.append({"case": c, "call": n_, "fields": ["out/cev"], "real": rc, "model": mc,
                                          "xd": real["pool"]})
                    break
        for f in real["fails"]:
            failures.append({"property": "C20", "case": c, "xd": real["pool"], "what": f, "real": real["calls"]})
        if len(samples) < 1 and nh:
            samples.append({"v": c["v"], "key": c["key"], "history": c["history"],
                            "cev": [cl["cev"] for cl in real["calls"]]})
    return {"evaluated": evaluated, "calls": calls, "unbuildable": unbuildable, "distinct": list(distinct),
            "nontrivial": list(nontrivial), "disagreements": disagreements[:10], "n_disagreements": len(disagreements),
            "failures": failures[:20], "n_failures": len(failures), "samples": samples, "lens": dict(lens), "hits": hits}


def run(pid: str, tier: str, seed: int, spec: dict, scale: float = 1.0, salt: str = "") -> dict:
    n = int((spec["quick_n"] if tier == "quick" else spec["thorough_n"]) * scale)
    opts = {"salt": salt, "lengths": [0, 1, 2, 3, 5, 8, 12] if tier == "quick" else [0, 1, 2, 5, 12, 40, 100, 200]}
    res = engine.run_sharded("harness.cache_stream", "shard", seed, n, opts)
    crashes = [r["crash"] for r in res if "crash" in r]
    if crashes:
        raise RuntimeError("shard crashed:\n" + crashes[0])
    distinct, nontrivial = set(), set()
    out: Dict[str, Any] = {"evaluations": 0, "failures": [], "disagreements": [], "samples": [], "n_failures": 0,
                           "n_disagreements": 0}
    lens: collections.Counter = collections.Counter()
    calls = hits = unb = 0
    for r in res:
        out["evaluations"] += r["evaluated"]
        out["failures"] += r["failures"]
        out["disagreements"] += r["disagreements"]
        out["n_failures"] += r["n_failures"]
        out["n_disagreements"] += r["n_disagreements"]
        out["samples"] += r["samples"]
        distinct.update(r["distinct"])
        nontrivial.update(r["nontrivial"])
        lens.update(r["lens"])
        calls += r["calls"]
        hits += r["hits"]
        unb += r["unbuildable"]
    out["distinct_nontrivial"] = len(nontrivial)
    out["distribution"] = {"histories": out["evaluations"], "calls": calls, "hits": hits, "history_lengths": dict(lens),
                           "distinct": len(distinct), "unbuildable": unb}
    return out
