"""Per-property configuration: theorems, streams, sizes."""
from __future__ import annotations

import collections
import json
import os
from typing import Any, Dict, List

from . import engine, streams

CORE_RULE = ("validator trees generated kind-directed (every constructor, both child flavours, coercers, processors, "
             "sync/async predicates, object checks) x inputs generated type-directed from the tree (conforming / "
             "one position off / hostile pool); a case is distinct by the hash of (env, validator, re-described "
             "input) and non-trivial when it was accepted by a non-trivial validator or rejected below the root")

PROPS: Dict[str, Dict[str, Any]] = {
    "C01": {"theorems": ["C01_never_raises_partial", "gate_noexn", "unionStep_clean", "seqStep_clean", "seqStep_clean_set",
                         "seqPre_clean", "ntupleStep_clean", "mapStep_clean", "recordStep_clean", "scalarStep_clean",
                         "maybeStep_clean", "knrStep_clean", "userStep_clean", "Safe_list_typed", "Safe_str_typed",
                         "C05_recursive_terminates", "run_mono",
                         "C01_terminates_lazyfree", "C01_terminates_partial", "C01_total_partial", "unguarded_diverges",
                         "term_guarded", "seqPre_small", "recPre_small", "mapPre_small", "ntuplePre_small"],
            "modules": ["KodaModel.Properties.C01", "KodaModel.Properties.C01Term"],
            "level_note": "proved: every run (any fuel, nesting, recursion through Lazy) of a tree of *any* validator kinds whose "
                          "nodes satisfy their side condition (own predicates / processors do not raise on what the gate lets "
                          "through; set members and map keys hashable; for maps and records the container level `mapPre` / "
                          "`recPre` does not raise) ends in Valid or Invalid; side conditions discharged for the typed string and "
                          "list predicates; termination: a Lazy-free tree returns on every value with fuel height+1 "
                          "(C01_terminates_lazyfree), and in an environment of guarded recursive definitions (every Lazy below "
                          "a container position; user-written container coercers only above Lazy-free children) every guarded "
                          "tree returns on every value (C01_terminates_partial, well-founded recursion on value size); an "
                          "unguarded self-reference never returns (unguarded_diverges) - the excluded case; C01_total_partial "
                          "combines both: Safe + guarded => Valid or Invalid on every value; D2 / D3 / D28 are the open findings "
                          "where the real code does raise",
            "stream": "core", "opts": {"salt": "c01", "special_rate": 0.05, "zero_factor_rate": 0.12},
            "quick_n": 8000, "thorough_n": 200000, "fields": ["out"]},
    "C03": {"theorems": ["src_glue_pinned", "loopItems_iff", "ItemsRun.sound", "ItemsRun.complete", "ItemsRun.sorted", "ItemsRun.length",
                         "ItemsRun.all_valid", "loopItems_hash", "C03_seq_container_first", "C03_pre_iff",
                         "C03_seq_accept_iff", "C03_seq_reject_iff", "C03_list_run", "C03_set_run", "C03_utuple_run",
                         "loopFields_iff", "C03_ntuple_container_first", "C03_ntuple_pre_iff", "C03_ntuple_arity",
                         "C03_ntuple_accept_iff", "C03_ntuple_reject_slots", "mapLoop_of_run",
                         "C03_map_container_first", "C03_map_accept", "C03_map_reject", "MapRun.keys_exact",
                         "run_mono",
                         "src_list_sync", "src_list_async", "src_list_init", "src_list_wraps", "listSync_eq", "listAsync_eq",
                         "lGate_exec", "lPredsSync_exec", "lAsyncPreds_exec", "lTail_exec", "lforFold2_items",
                         "lforFold_apreds", "lcompFold_sync", "lLoopBody_exec",
                         "src_set_sync", "src_set_async", "src_utuple_sync", "src_utuple_async", "src_seq_inits",
                         "setSync_eq", "setAsync_eq", "utupleSync_eq", "utupleAsync_eq", "qforFold2_items",
                         "qLoopBodySet_exec", "qLoopBodyTup_exec", "qTailSet_exec", "qTailTup_exec", "qGate_exec",
                         "qPredsSync_exec", "qAsyncPreds_exec_pe", "qAsyncPreds_exec_le",
                         "src_ntuple_sync", "src_ntuple_async", "src_ntuple_init", "src_ntuple_generic", "ntupleSync_eq",
                         "ntupleAsync_eq", "nGate_exec", "nArity_exec", "nforFold3_fields", "nLoopBody_exec", "nFinal_exec",
                         "nTail_exec",
                         "src_map_sync", "src_map_async", "src_map_init", "mapSync_eq", "mapAsync_eq", "mGate_exec",
                         "mPreds_exec", "mAPreds_exec", "mCheck_exec", "mforFold2_pairs", "mforFold2_pairs_err", "mFinal_exec",
                         "mTail_exec", "mforFold_preds", "mforFold_apreds"],
            "modules": ["KodaModel.Properties.GluePins", "KodaModel.Properties.C03", "KodaModel.Properties.C03Src", "KodaModel.Properties.C03Seq",
                        "KodaModel.Properties.C03NTuple", "KodaModel.Properties.C03Map"],
            "level_note": "the list validator is tied to the source twice: (1) TRANSLATOR - harness/pysrc.py rewrites "
                          "Generated/ListSrc.lean from the AST of ListValidator._validate_to_tuple / _validate_to_tuple_async "
                          "(list.py) on every run; src_list_sync / src_list_async prove that interpreting the translated "
                          "methods (KodaModel/PyList.lean: walrus, tuple unpacking, enumerate, dict item assignment, append / "
                          "extend, comprehension, for, await, early return) is the model's seqStep .list for every "
                          "configuration, item validator and input - container level first, every element validated, failing "
                          "indexes with the child's own Invalid, payloads in order, trace, exceptions; SetValidator and "
                          "UniformTupleValidator (set.py, tuple.py: both methods of each) are translated the same way "
                          "(Generated/SeqSrc.lean, KodaModel/PySeq.lean: also the direct dispatch on _item_validator_is_tuple, "
                          "conditional expressions, set() / .add with TypeError on an unhashable payload, tuple(...)) and "
                          "src_set_sync / src_set_async / src_utuple_sync / src_utuple_async prove them equal to seqStep .set / "
                          ".utuple; NTupleValidator likewise (Generated/NTupleSrc.lean, KodaModel/PyNTuple.lean: the loop over "
                          "enumerate(zip(wrapped fields, value)), the validator's own ExactItemCount, the whole-object check) with "
                          "src_ntuple_sync / src_ntuple_async = ntupleStep; MapValidator likewise (Generated/MapSrc.lean, "
                          "KodaModel/PyMap.lean: the two predicate loops, .items(), item assignment with TypeError on an "
                          "unhashable key payload, KeyValErrs(key=..., val=...)) with src_map_sync / src_map_async = mapStep - "
                          "every collection validator's control flow is now translated; (2) the correspondence stream",
            "stream": "core", "opts": {"salt": "c03", "gen": ["streams", "gen_collection_case"]},
            "quick_n": 6000, "thorough_n": 100000, "fields": ["out", "trace"]},
    "C04": {"theorems": ["src_glue_pinned", "recLoop_of_run", "recLoop_to_run", "RecRun.errs_length", "RecRun.no_errs_iff", "C04_pre_first",
                         "C04_pre_iff", "C04_unknown_first", "C04_gate_record", "C04_gate_dictAny",
                         "C04_gate_typeddict", "C04_gate_class_dict", "C04_gate_class_other", "recordStep_inr",
                         "C04_keyerrs_exact", "C04_all_keys_ok", "C04_accept_no_oc", "C04_objcheck_fails",
                         "C04_payload_dict", "C04_payload_record", "C04_payload_class", "C04_run", "run_mono",
                         "src_dictany_sync", "src_dictany_async", "src_dictany_init", "dictAnySync_eq", "dictAnyAsync_eq",
                         "dGuard_exec", "dGate_exec", "dforFold_scan", "dScan_exec", "dLoopBody_step", "dforFold3_keys",
                         "dFinal_keys", "dFinal_ok", "dTail_exec",
                         "src_record_sync", "src_record_async", "src_record_init", "recordSync_eq", "recordAsync_eq",
                         "rGate_exec", "rLoopBody_step", "rforFold3_keys", "rFinal_keys", "rFinal_ok", "rTail_exec",
                         "dictItems_of_base",
                         "src_typeddict_sync", "src_typeddict_async", "src_typeddict_generic", "typedDictSync_eq",
                         "typedDictAsync_eq", "tGate_exec", "recGate_td", "tforFold_scan", "tScan_exec", "tLoopBody_step",
                         "tforFold3_keys", "tFinal_keys", "tFinal_ok", "tTail_exec", "tdGate_dict_of_no_coercer",
                         "src_dataclass_sync", "src_dataclass_async", "src_namedtuple_sync", "src_namedtuple_async",
                         "src_class_generic", "src_class_same", "src_instance_to_dict", "dataclassSync_eq", "dataclassAsync_eq",
                         "cGate_exec", "recGate_class", "clsGate_dict", "clsGate_inst", "clsGate_rej", "cFinal_keys",
                         "cFinal_ok", "cTail_exec", "clsGate_dict_of_no_coercer", "src_class_inits"],
            "modules": ["KodaModel.Properties.GluePins", "KodaModel.Properties.C04", "KodaModel.Properties.C04DictAny", "KodaModel.Properties.C04Record",
                        "KodaModel.Properties.C04TypedDict", "KodaModel.Properties.C04Class"],
            "level_note": "the C04_* theorems state the property about recordStep (all five record-shaped validators share it).  "
                          "Tie to the source: (1) TRANSLATOR, for DictValidatorAny - harness/pysrc.py rewrites "
                          "Generated/DictAnySrc.lean from the AST of DictValidatorAny._validate_to_tuple / "
                          "_validate_to_tuple_async (dictionary.py) on every run; src_dictany_sync / src_dictany_async prove "
                          "that interpreting the translated methods (KodaModel/PyDictAny.lean: the unknown-key scan with its "
                          "early return, the loop over the precomputed (key, wrapped validator, required) triples, `not in`, "
                          "subscripts, item assignment into the payload and error dicts, the `and` / walrus chain of "
                          "whole-object checks) is recordStep for the dictAny kind, for every schema, policy, object check "
                          "and input; __init__ is pinned (src_dictany_init).  RecordValidator is translated into the same language "
                          "(isinstance(data, dict), MissingKeyErr(), `nothing` for an absent optional key, into(*args)) and "
                          "src_record_sync / src_record_async prove it equal to recordStep for the record kind; so is "
                          "TypedDictValidator (the coercer gate; every later stage holds the coerced value): "
                          "src_typeddict_sync / src_typeddict_async, under the explicit side condition that what a "
                          "user-supplied coercer returns is a dict (none is configured by default: "
                          "tdGate_dict_of_no_coercer); so are DataclassValidator and NamedTupleValidator (whose four methods "
                          "are one text up to two renamings, src_class_same): src_dataclass_sync / _async, "
                          "src_namedtuple_sync / _async = recordStep for the dataclass / namedtuple kind - an instance of "
                          "exactly the target class is turned into a dict, the target class is called with the payloads as "
                          "keyword arguments (the model's `construct`, defaults filled in).  All five record-shaped "
                          "validators are now translated.  (2) the correspondence stream, for all "
                          "five.  Trusted: Lean kernel + propext/Quot.sound/Classical.choice; the translator and the "
                          "interpreter's reading of the Python subset; CPython for dict / set membership",
            "stream": "core", "opts": {"salt": "c04", "gen": ["streams", "gen_record_case"]},
            "quick_n": 6000, "thorough_n": 100000, "fields": ["out", "trace"]},
    "C02": {"theorems": ["src_glue_pinned", "runPreds_spec", "runAPreds_spec", "runAPreds_all_awaited", "contPreds_spec", "runProcs_spec",
                         "C02_gate_exact", "C02_lookalikes", "C02_accept_iff", "C02_reject", "C02_gate_rej_kinds",
                         "C02_sync_guard", "C02_equals_accept_iff", "C02_equals_type_err", "C02_none",
                         "src_scalar_sync", "src_scalar_async", "src_scalar_simple", "src_scalar_init",
                         "src_scalar_fastpath_consistent", "scalarSync_eq", "scalarAsync_eq", "gate_exec", "procs_exec",
                         "predsSync_exec", "predsAsync_exec", "compFold_sync", "compFold_async", "forFold_procs",
                         "src_equals", "src_equals_pins", "equals_eq", "equals_tail", "eforFold_procs"],
            "modules": ["KodaModel.Properties.GluePins", "KodaModel.Properties.C02", "KodaModel.Properties.C02Src", "KodaModel.Properties.C02Eq"],
            "level_note": "the scalar pipeline is tied to the source twice: (1) TRANSLATOR - harness/pysrc.py rewrites "
                          "Generated/ScalarSrc.lean from the AST of _ToTupleStandardValidator._validate_to_tuple, "
                          "_validate_to_tuple_async and the bare-validator fast path (_internal.py: the code behind all ten "
                          "scalar validators) on every run; src_scalar_sync / src_scalar_async / src_scalar_simple prove that "
                          "interpreting the translated statements (KodaModel/PyImp.lean: assignment, if/elif, the for loop "
                          "over the preprocessors, the list comprehensions over the predicates, await, early return) is the "
                          "model's scalarStep for every configuration and input - outcome, payload, error, trace, exceptions; "
                          "EqualsValidator._validate_to_tuple is translated the same way (Generated/EqSrc.lean, KodaModel/PyEq.lean) and "
                          "src_equals proves it equal to equalsStep; "
                          "(2) the correspondence stream.  The C02_* theorems state the property about scalarStep.  Trusted: "
                          "the translator, the interpreter's reading of each construct, and the model's meaning of calling a "
                          "coercer / processor / predicate",
            "stream": "core", "opts": {"salt": "c02", "gen": ["streams", "gen_scalar_case"]},
            "quick_n": 8000, "thorough_n": 150000, "fields": ["out", "trace"]},
    "C18": {"theorems": ["C18_singleton_list_valid", "C18_singleton_list_invalid", "C18_singleton_utuple_valid",
                         "C18_singleton_utuple_invalid", "C18_singleton_set_valid", "C18_singleton_set_invalid",
                         "C18_singleton_ntuple_valid", "C18_singleton_ntuple_invalid", "C18_singleton_map_valid",
                         "C18_singleton_map_invalid", "C18_union_one", "C18_union_iff", "C18_add_predicate",
                         "C18_forbid_unknown", "C05_maybe_just_valid", "C05_maybe_just_invalid", "C05_lazy",
                         "C05_user", "C05_optional_inner_valid", "C05_optional_none",
                         "C18_add_seq_predicate", "C18_add_map_predicate", "C18_require_key", "recLoop_require",
                         "C18_singleton_record_valid", "C18_singleton_record_invalid", "mapPre_iff"],
            "modules": ["KodaModel.Properties.C18", "KodaModel.Properties.C18More", "KodaModel.Properties.C05"],
            "stream": "core", "opts": {"salt": "c18", "gen": ["streams", "gen_c18_case"], "async_rate": 0.1},
            "quick_n": 5000, "thorough_n": 100000, "fields": ["out"]},
    "C16": {"theorems": ["C16_decimal", "C16_uuid", "C16_date", "C16_datetime", "C16_tuple", "C16_never",
                         "C16_subclass_rejected", "C16_validator", "C16_compat", "C16_roundtrip",
                         "src_coerce_decimal", "src_coerce_uuid", "src_coerce_date", "src_coerce_datetime",
                         "src_tuple_or_list_to_tuple", "src_compat", "src_coercer_names"],
            "modules": ["KodaModel.Properties.C16", "KodaModel.Properties.C16Src"],
            "level_note": "the model of the five default coercers is tied to the source twice: (1) TRANSLATOR - harness/pysrc.py "
                          "rewrites Generated/CoerceSrc.lean from the AST of every @coercer function on every run, and the "
                          "src_coerce_* theorems prove that running each translated body (type tests, try / except around the "
                          "stdlib constructor) is the model's defaultCoerce for every oracle and value, with no exception "
                          "escaping; src_compat: the decorators' compatible types are the model's; (2) the correspondence "
                          "stream.  The C16_* theorems state the documented acceptance sets about defaultCoerce",
            "stream": "core", "opts": {"salt": "c16", "gen": ["streams", "gen_coercion_case"], "special_rate": 0.3},
            "quick_n": 8000, "thorough_n": 200000, "fields": ["out"]},
    "C05": {"theorems": ["C05_union_first", "C05_union_all_errs", "C05_union_valid_inv", "C05_union_invalid_inv",
                         "C05_union_run", "C05_optional_run", "C05_optional_none", "C05_optional_inner_valid",
                         "C05_optional_both_errs", "C05_maybe_nothing", "C05_maybe_just_valid",
                         "C05_maybe_just_invalid", "C05_maybe_other", "C05_lazy_run", "C05_lazy", "C05_knr_valid",
                         "C05_knr_invalid", "C05_user", "C05_always", "C05_map_valid", "C05_map_invalid",
                         "C05_recursive_terminates", "run_mono", "Run.unique",
                         "src_union_sync", "src_union_async", "src_union_uses", "unionSync_eq", "unionAsync_eq",
                         "uBody_exec", "uforFold_union",
                         "src_maybe", "src_knr", "src_lazy", "src_always", "src_none", "src_isDict", "src_wrap_pins", "src_result_map_pinned"],
            "modules": ["KodaModel.Properties.C05", "KodaModel.Properties.C05Src", "KodaModel.Properties.C05Wrap",
                        "KodaModel.Properties.C05Pins"],
            "level_note": "the union loop is tied to the source twice: (1) TRANSLATOR - harness/pysrc.py rewrites "
                          "Generated/UnionSrc.lean from the AST of _union_validator / _union_validator_async (_internal.py; "
                          "UnionValidator and OptionalValidator only delegate to them: src_union_uses) on every run, and "
                          "src_union_sync / src_union_async prove that interpreting the translated loop (KodaModel/PyUnion.lean: "
                          "for / early return / append, both ways of calling a variant) is the model's unionStep for every list "
                          "of variants of either flavour and every input; likewise Generated/WrapSrc.lean for MaybeValidator, "
                          "KeyNotRequired, Lazy, AlwaysValid, NoneValidator and IsDictValidator (KodaModel/PyWrap.lean; src_maybe, "
                          "src_knr, src_lazy, src_always, src_none, src_isDict: each translated method is the model's step, both "
                          "entry points); (2) the correspondence stream.  Cache wrappers: tied under C20 (src_cache_*); "
                          "Valid.map / Invalid.map: hand-modelled (C05_map_valid / C05_map_invalid), text pinned "
                          "(src_result_map_pinned)",
            "stream": "core", "opts": {"salt": "c05", "gen": ["streams", "gen_wrapper_case"]},
            "quick_n": 6000, "thorough_n": 100000, "fields": ["out", "trace"]},
    "C06": {"modules": ["KodaModel.Properties.GluePins", "KodaModel.Properties.C06", "KodaModel.Properties.C06Sync", "KodaModel.Properties.C06Src"],
            "level_note": "C06_src_*: for every validator whose two methods are translated from the source on each run (scalar "
                          "pipeline, union loop, list, set, uniform tuple, n-tuple, map, the five record-shaped validators) "
                          "the *translated* sync method and the *translated* async method agree whenever the sync one does "
                          "not raise its guard error (children related by Rel) - the src_* theorems composed with the "
                          "step-level agreement lemmas.  C06_agree: for every tree and fuel, when the sync call does not raise its guard error both modes return "
                          "the same outcome; C06_sync_returns: a tree without async-only checks (afree, judged through the "
                          "environment for Lazy) never raises the guard error in sync mode - every validator kind, any fuel",
            "theorems": ["src_glue_pinned", "C06_sync_returns", "PredK_call_noassert", "recordStep_noassert", "mapStep_noassert",
                         "ntupleStep_noassert", "unionStep_noassert", "scalarStep_noassert",
                         "C06_agree", "C06_agree_Run", "C06_never_skipped", "seqStep_noAssert", "loopItems_agree",
                         "recordStep_agree", "unionStep_agree", "mapStep_agree", "ntupleStep_agree", "seqStep_agree",
                         "run_mono", "Run.unique", "C06_src_scalar", "C06_src_union", "C06_src_list", "C06_src_set",
                         "C06_src_utuple", "C06_src_ntuple", "C06_src_map", "C06_src_dictany", "C06_src_record",
                         "C06_src_typeddict", "C06_src_class"],
            "stream": "core", "opts": {"salt": "c06", "async_rate": 0.12},
            "quick_n": 10000, "thorough_n": 300000, "fields": ["out", "trace"]},
    "C14": {"theorems": ["C14_root", "C14_list_later_stage", "scalarStep_prov", "seqStep_prov", "ntupleStep_prov",
                         "mapStep_prov", "recordStep_prov", "unionStep_prov", "maybeStep_prov", "ItemsRun.sound",
                         "recLoop_to_run", "C05_union_invalid_inv",
                         "C14_everywhere", "C14_node_of_sourced", "seqStep_children", "ntupleStep_children",
                         "mapStep_children", "recordStep_children", "unionStep_children"],
            "modules": ["KodaModel.Properties.C14", "KodaModel.Properties.C14Tree", "KodaModel.Properties.C03",
                        "KodaModel.Properties.C04", "KodaModel.Properties.C05"],
            "level_note": "C14_root: for every tree, input, mode and fuel the root of a returned error names the responsible "
                          "validator (transparent wrappers name what they wrap) and early errors hold the caller's object; "
                          "C14_everywhere (whole tree): every node at any depth of any returned error tree was itself returned "
                          "by a validator for some value, or is the missing-key leaf of a record validator - so C14_root holds "
                          "of every node (C14_node_of_sourced); which later-stage value a node holds is stated per step "
                          "(*_prov, C14_list_later_stage) and decided on the real code by the provenance oracle",
            "stream": "core", "opts": {"salt": "c14", "async_rate": 0.1},
            "quick_n": 10000, "thorough_n": 300000, "fields": ["out"]},
    "C17": {"theorems": ["C17_tree_partial", "C17_scalar_tree", "C17_union_fixed_partial", "C17_optional_fixed",
                         "C17_ntuple_fixed", "D25_witness", "C17_scalar_fixed", "GateFix_none", "GateFix_default",
                         "ProcsFix_nil", "ProcsFix_builtin", "stripWith_idem", "loopItems_fixed", "C17_list_fixed",
                         "C17_utuple_fixed", "C17_none", "C17_isDict",
                         "C17_set_fixed", "dedup_idem", "C17_map_fixed", "mapLoop_fixed", "C17_dictrecord_fixed",
                         "C17_classrecord_fixed", "dictGet_presentOf", "recLoop_fixed"],
            "modules": ["KodaModel.Properties.C17", "KodaModel.Properties.C17Union", "KodaModel.Properties.C17Tree",
                        "KodaModel.Properties.C17Cont"],
            "level_note": "proved: C17_tree_partial - for every tree of the fragment fix17 (scalars with no coercer and at most "
                          "one built-in processor on strings, or their default coercer; equality / None / always-valid / "
                          "is-dict validators; lists, sets, uniform tuples and n-tuples without container predicates or object "
                          "check; maps without container predicates; DictValidatorAny / TypedDictValidator with string keys, "
                          "any requiredness, either unknown-key policy, any whole-object check; DataclassValidator / "
                          "NamedTupleValidator whose fields are all required; optionals, Maybe, user wrappers, Lazy through "
                          "the environment; any depth), every input and fuel, Valid w implies that w is validated to Valid w.  "
                          "Outside it: container predicates (open finding D22), unions (open finding D25: proved under the "
                          "no-takeover hypothesis, C17_union_fixed_partial, with D25_witness showing the hypothesis is "
                          "needed), RecordValidator (payload is whatever `into` returns), record coercers, class records "
                          "with defaulted fields (a default is used on trust)",
            "stream": "core", "opts": {"salt": "c17", "async_rate": 0.1, "user_rate": 0.1},
            "quick_n": 8000, "thorough_n": 100000, "fields": ["out"]},
}


def _run_cache(pid: str, tier: str, seed: int, spec: dict, scale: float = 1.0, salt: str = "") -> dict:
    from . import cache_stream
    return cache_stream.run(pid, tier, seed, spec, scale, salt)


PROPS["C20"] = {"theorems": ["Store.get_ok", "Cache.step_ok", "C20_transparent", "C20_transparent_empty", "C20_runs",
                             "C20_second_call_hits", "C20_run_count", "C06_agree",
                             "src_cache_sync", "src_cache_async", "src_cache_hist", "src_cache_transparent"],
                "modules": ["KodaModel.Properties.C20", "KodaModel.Properties.C06", "KodaModel.Properties.C20Src"],
                "level_note": "C20_transparent etc. are proved about Cache.step / Cache.runHist for every history, store, key "
                              "equivalence and wrapped validator; Cache.step is tied to the source twice: (1) TRANSLATOR - "
                              "harness/pysrc.py rewrites Generated/CacheSrc.lean from the AST of CacheValidatorBase.__call__ / "
                              "validate_async on every run and src_cache_sync / src_cache_async / src_cache_hist prove the "
                              "interpreted source equal to Cache.step / Cache.runHist (so src_cache_transparent is about the "
                              "source's own statements); (2) the correspondence stream over real dict-backed subclasses.  "
                              "Trusted: Lean kernel + propext; the translator (harness/pysrc.py) and the meaning "
                              "KodaModel/PyCache.lean gives the Python subset; the faithful-store reading of the cache_* hooks",
                "run": _run_cache, "quick_n": 1500, "thorough_n": 20000,
                "rule": "histories of 0..12 (quick) / 0..200 (thorough) sync and async calls through a dict-backed "
                        "CacheValidatorBase subclass, over a pool of 1-7 inputs with repeats, identity- and typed-equality-"
                        "keyed stores, wrapped validators of every kind; distinct by hash of (validator, pool, history, key); "
                        "non-trivial when the history has at least one hit"}


def _run_pred(pid: str, tier: str, seed: int, spec: dict, scale: float = 1.0, salt: str = "") -> dict:
    from . import pred_stream
    return pred_stream.run(pid, tier, seed, spec, scale, salt)


PROPS["C15"] = {"theorems": ["C15_min_int", "C15_max_int", "C15_multipleOf_int", "C15_min_date", "C15_lengths",
                             "C15_item_counts", "C15_key_counts", "isPrefix_iff", "C15_startsWith", "C15_endsWith",
                             "stripWith_nil_iff", "C15_notBlank", "dropWhile_idem", "C15_upper_idem", "C15_lower_idem",
                             "C15_processors", "uniqueLoop_spec", "C15_uniqueItems",
                             "src_Min", "src_Max", "src_MultipleOf", "src_EqualTo", "src_Choices", "src_MinLength",
                             "src_MaxLength", "src_ExactLength", "src_MinItems", "src_MaxItems", "src_ExactItemCount",
                             "src_MinKeys", "src_MaxKeys", "src_StartsWith", "src_EndsWith", "src_RegexPredicate",
                             "src_EmailPredicate", "src_email_pattern", "src_NotBlank", "src_Strip", "src_UpperCase",
                             "src_LowerCase", "src_UniqueItems_pinned", "src_classes"],
                "modules": ["KodaModel.Properties.C15", "KodaModel.Properties.C15Src"],
                "level_note": "the model of every predicate / processor is tied to the source twice: (1) TRANSLATOR - "
                              "harness/pysrc.py rewrites Generated/PredSrc.lean from the AST of every Predicate / Processor "
                              "subclass in /repo on every run, and the src_* theorems prove that evaluating each translated "
                              "__call__ body is the model's PredK.call / ProcK.call for all parameters and arguments "
                              "(UniqueItems, a loop with try/except, is outside the translated subset: its body is pinned "
                              "and tied by the correspondence only; src_classes pins the class / field inventory); "
                              "(2) the correspondence stream on the exhaustive bounded plane.  The C15_* theorems state the "
                              "documented relations about the model's definitions",
                "run": _run_pred,
                "rule": "the bounded (predicate/processor, parameter, argument) plane of the property's quantifier is "
                        "enumerated exhaustively (every point is a distinct non-trivial case: a real __call__ compared with "
                        "the model's PredK.call/ProcK.call, result type and argument snapshot checked), plus sampled large values"}


def _run_eq(pid: str, tier: str, seed: int, spec: dict, scale: float = 1.0, salt: str = "") -> dict:
    from . import eq_stream
    return eq_stream.run(pid, tier, seed, spec, scale, salt)


def _replay_eq(case: dict) -> List[str]:
    from . import eq_stream
    return eq_stream.replay_case(case)


PROPS["C19"] = {"theorems": ["C19_rename", "C19_congruence", "C19_same_verdict", "scalarStep_rn", "seqStep_rn",
                             "ntupleStep_rn", "mapStep_rn", "recordStep_rn", "unionStep_rn", "maybeStep_rn", "knrStep_rn",
                             "userStep_rn", "contPreds_rn", "runProcs_rn", "gate_tr", "gate_rej",
                             "C19_src_reads_compared", "C19_src_classes", "C19_src_compares_something", "C19_src_preds_compared", "C19_src_pred_classes"],
                "modules": ["KodaModel.Properties.C19", "KodaModel.Properties.C19Src"],
                "level_note": "C19_rename: for every validator tree (every kind, any depth, Lazy through the environment), mode, "
                              "fuel and input, renaming the identities of validator / predicate / processor objects renames "
                              "them in the result and changes nothing else; C19_congruence: two trees that coincide once "
                              "identities are renamed (the model's reading of ==: same configuration, same user callbacks) "
                              "return the same result up to that renaming on every input.  The reading of == itself is tied "
                              "to the code by the pair stream (real == against same-configuration on every generated pair); "
                              "pairs that are == through numerically equal parameters of different types (Min(1) / Min(1.0)) "
                              "are outside the theorem and decided by the input pool only.  C19_src_reads_compared (regenerated on every "
                              "run from the AST of the 18 validator classes): every constructor parameter that what the validation "
                              "methods read depends on (through a conservative dependency analysis of __init__) is one that "
                              "something __eq__ compares depends on - an __eq__ that drops a comparison, or a method that reads a "
                              "new uncompared attribute, no longer checks",
                "run": _run_eq, "replay": _replay_eq,
                "rule": "pairs (t, independent rebuild of t) and (t, t with one constructor argument changed at one node) "
                        "for every validator kind; the real == is compared with the model's same-configuration relation; "
                        "when the real == says equal, both are run on a pool of inputs generated to separate them, in both "
                        "modes; per pair, three model runs on one input check C19_rename executably (tree renamed by V.rn, "
                        "tree decoded from the renamed description, renamed answer of the original); a pair is non-trivial "
                        "when an argument was changed"}


def _run_render(pid: str, tier: str, seed: int, spec: dict, scale: float = 1.0, salt: str = "") -> dict:
    from . import render_stream
    return render_stream.run(pid, tier, seed, spec, scale, salt)


PROPS["C12"] = {"theorems": ["C12_total", "C12_totalL", "C12_mirror_index", "C12_mirror_keys", "C12_mirror_union",
                             "C12_mirror_set", "C12_mirror_preds", "C12_next_level", "C12_next_level_map",
                             "C12_message_total", "src_render", "src_pred_messages_cover", "src_pred_messages_only", "src_message_renderer_pinned", "src_render_step", "src_render_full", "src_render_fullL", "C12_src_total"],
                "modules": ["KodaModel.Properties.C12", "KodaModel.Properties.C12Src"],
                "level_note": "tied to the source: to_serializable_errs (serialization/errors.py) is translated on every "
                              "run (Generated/RenderSrc.lean: the isinstance chain over the error classes, the validator "
                              "classes and destination types tested in the coercion arm, the shape each arm returns; "
                              "message texts abstracted) and src_render proves the interpreted chain (KodaModel/PyRender.lean) "
                              "equal to the model's `render` for every error node, every assignment of validator classes and "
                              "every next_level, under the stated well-formedness of coercion errors (a UUID / Decimal / date "
                              "/ datetime validator's coercion error does not name list or tuple as destination); "
                              "src_render_full: the translated function calling itself as its own default next_level (recursion "
                              "depth as fuel; comprehensions stop at the first exception) returns or raises, from some depth on, "
                              "exactly what the model's renderFull does, for every error tree; C12_src_total: on every tree "
                              "built from the library's own error types and predicates it returns a rendering; "
                              "src_pred_messages_cover / _only: pred_to_err_message has an arm for exactly the predicate "
                              "classes the library defines (Generated/PredSrc.lean) and ends in TypeError.  The C12_* theorems "
                              "are about `render` / `renderFull` / `messageLines`; the message renderer of signature.py is "
                              "hand-modelled (messageLines; correspondence) and its source text is pinned "
                              "(src_message_renderer_pinned)",
                "run": _run_render,
                "rule": "every Invalid produced by the scalar / collection / record / wrapper / mixed validator streams on "
                        "their conforming, near-miss and hostile inputs is rendered by the real to_serializable_errs (default "
                        "and marker next_level) and by the InvalidReturnError message; distinct = distinct canonical error "
                        "trees; all counted cases are non-trivial (an actual error tree rendered twice)"}


def _run_purity(pid: str, tier: str, seed: int, spec: dict, scale: float = 1.0, salt: str = "") -> dict:
    from . import purity_stream
    return purity_stream.run(pid, tier, seed, spec, scale, salt)


def _replay_purity(case: dict) -> List[str]:
    from . import purity_stream
    return purity_stream.replay_case(case)


PROPS["C13"] = {"theorems": ["Sched.noninterference", "Sched.same_result", "C13_history_independent", "Effects.confined"],
                "run": _run_purity, "replay": _replay_purity,
                "rule": "per case one shared validator instance and 2-8 inputs: (a) deep snapshots of input and validator "
                        "attribute graph around every call, (b) each call compared with a fresh instance, (c) 2-3 async "
                        "validations interleaved at their await points - every interleaving when the total number of "
                        "resumptions is <= 8 (quick) / 10 (thorough), 30 sampled schedules beyond, (d) 4 preemptive threads on a "
                        "sample; non-trivial = more than one interleaving was executed",
                "level_note": "thread preemption is sampled on the implementation only (the theorem is about cooperative "
                              "interleavings plus a syntactic write-confinement table produced by harness/effects.py, which is "
                              "trusted); otherwise as for the other properties"}


def _run_schema(pid: str, tier: str, seed: int, spec: dict, scale: float = 1.0, salt: str = "") -> dict:
    from . import schema_stream
    return schema_stream.run(pid, tier, seed, spec, scale, salt)


def _replay_schema(case: dict) -> List[str]:
    from . import schema_stream
    return schema_stream.replay_case(case)


PROPS["C10"] = {"theorems": ["C10_outcome", "C10_json_only_partial", "C10_wellformed_partial", "D26_witness", "C10_ref",
                             "C10_nonrecurrent", "C10_lazy_unnamed", "predSchema_outcome", "jsonOnlyO_jaddPred",
                             "wfO_jaddPred", "predSchema_wf", "src_pred_schema", "src_pred_schema_arms_known",
                             "src_schema_pins", "src_schema_validator_pinned", "C10_src_pred_outcome", "C10_src_pred_wf"],
                "modules": ["KodaModel.Properties.C10", "KodaModel.Properties.C10WF", "KodaModel.Properties.C10Src",
                            "KodaModel.Properties.C10Pins"],
                "level_note": "the text of the schema generators for validators (json_schema.py, everything but the translated generate_schema_predicate) is pinned against the current source (src_schema_validator_pinned).  tied to the source for the predicate keywords: generate_schema_predicate is translated on every "
                              "run (Generated/SchemaPredSrc.lean: class tested, keyword(s), parameter, value form) and "
                              "src_pred_schema proves its interpretation (KodaModel/PySchemaPred.lean) equal to the model's "
                              "predSchema for every predicate and printer, so predSchema_outcome / predSchema_wf speak about the "
                              "arms as written today; _enum_value, unhandled_type, _add_predicate_schema pinned "
                              "(src_schema_pins); generate_schema_validator and the named-schema bookkeeping are hand-modelled "
                              "(correspondence).  Proved for the model `toSchema`: object-or-TypeError for every tree (given CPython's printers are "
                              "total), JSON types only for trees with admitted finite parameters (D11 is the excluded case), "
                              "well-formedness (C10_wellformed_partial: every emitted keyword carries a value of the shape the "
                              "Draft 2020-12 metaschema demands, for trees with non-negative length / count parameters - D26 "
                              "is the excluded case, D26_witness - finite numeric bounds and non-empty unions; uniqueness of "
                              "the names in `required`, D27b, is not captured), a Lazy is never followed; validity against "
                              "the full metaschema, strict serialisation, determinism across the process history and "
                              "'validator unmodified' are decided on the real code by the oracle, and the model is tied to "
                              "the real generator by comparing the two schemas",
                "run": _run_schema, "replay": _replay_schema,
                "rule": "validator trees over every built-in validator and predicate kind (supported and unsupported), every "
                        "admitted parameter type, records with 0-4 keys, unions, optionals, recursive Lazy; to_json_schema and "
                        "to_named_json_schema with arbitrary names / ref locations; non-trivial = a schema was produced"}


def _run_c11(pid: str, tier: str, seed: int, spec: dict, scale: float = 1.0, salt: str = "") -> dict:
    from . import c11_stream
    return c11_stream.run(pid, tier, seed, spec, scale, salt)


def _replay_c11(case: dict) -> List[str]:
    from . import c11_stream
    return c11_stream.replay_case(case)


PROPS["C11"] = {"theorems": ["C11_scalar", "C11_scalar_schema", "C11_scalar_validator", "AccSem_step", "AccSem_preds",
                             "predSchema_keys", "PredOK_minLength", "PredOK_maxLength", "PredOK_exactLength", "PredOK_min",
                             "PredOK_max", "PredOK_equalTo", "PredOK_choices", "parsePat_source", "patHolds_prefix",
                             "patHolds_suffix", "PredOK_startsWith", "PredOK_endsWith", "PredOK_regex_partial",
                             "PredOK_notBlank_partial", "C11_optional_schema", "C11_union_schema", "countP_one_of_atMostOne",
                             "C11_list_schema", "C11_ntuple_schema", "PredOK_minItems", "PredOK_maxItems",
                             "PredOK_uniqueItems_partial", "C11_tree_partial", "C11_iff_partial", "node_scalar_validator",
                             "node_list_validator", "node_union_validator", "node_optional_validator",
                             "predCheck_PredOK", "predCheck_noRaise", "SchemasDecide.count", "C11_record_schema",
                             "node_record_validator", "node_ntuple_validator", "fields_formula", "foldl_jset_nodup",
                             "C11_map_schema", "node_map_validator", "node_equals_validator", "equals_schema_eq",
                             "node_utuple_validator", "PredOK_minKeys", "PredOK_maxKeys", "jaddPred_noclash", "src_pred_schema", "src_schema_validator_pinned", "C11_src_pred", "C11_src_minLength"],
                "modules": ["KodaModel.Properties.C11", "KodaModel.Properties.C11Pat", "KodaModel.Properties.C11Containers",
                            "KodaModel.Properties.C11Record", "KodaModel.Properties.C11Glue", "KodaModel.Properties.C10Src",
                            "KodaModel.Properties.C11Src",
                            "KodaModel.Properties.C10Pins"],
                "level_note": "the text of the schema generators for validators (json_schema.py, everything but the translated generate_schema_predicate) is pinned against the current source (src_schema_validator_pinned).  the predicate keywords are tied to the source (src_pred_schema: the translated "
                              "generate_schema_predicate is the model's predSchema, which the PredOK_* theorems are about).  Proved: `C11_iff_partial` — for every tree (any depth, any width) built from string / integer / float / "
                              "boolean validators with typed predicates, equality validators, lists, uniform and n-tuples, string-keyed maps, "
                              "the five record kinds, key-not-required, unions and optionals, and every JSON value, the "
                              "generated schema accepts the value iff the validator does, under the side conditions `ok` "
                              "(predicates used on their kind; the agreement conditions findings D13 / D14 / D15 violate, each "
                              "with its witness); keyword clashes merged under allOf; the pattern reader inverts the pattern "
                              "writer for every pattern; named recursion ($ref) is not in the tree theorem: it is decided by the "
                              "correspondence and the jsonschema oracle only",
                "run": _run_c11, "replay": _replay_c11,
                "rule": "validator trees of the JSON-native fragment to depth 3 (scalars with every supported predicate, "
                        "lists / uniform / n-tuples, string-keyed maps, the five record kinds with optional keys and both "
                        "unknown-key policies, optionals, unions, named recursive definitions) x 6 JSON values each "
                        "(conforming, conforming except at one position, arbitrary); the verdict of the real validator is "
                        "compared with jsonschema's evaluation (integer = int, number = float, nullable) of the real "
                        "schema; non-trivial = the validator accepted one and rejected another of the case's values"}


def _replay_ann(case: dict) -> List[str]:
    from . import ann_stream
    return ann_stream.replay_case(case)


def _run_ann(pid: str, tier: str, seed: int, spec: dict, scale: float = 1.0, salt: str = "") -> dict:
    from . import ann_stream
    return ann_stream.run(pid, tier, seed, spec, scale, salt)


PROPS["C07"] = {"theorems": ["C07_strict_tree_partial", "C07_strict_iff_partial", "union_of_variants",
                             "C07_scalar_strict", "C07_scalar_default_complete", "C07_scalar_default_sound", "C07_any",
                             "C07_none", "C07_list_step", "derive_scalar", "defaultCoerce_typed", "strict_scalar_iff", "C07_strict_tree2_partial", "C07_strict_iff2_partial", "node_utuple_plain", "node_ntuple_plain", "node_maybe", "hasTypeZip_slots",
                             "C07_default_tree_partial", "C07_default_iff_partial", "C07_default_complete_partial",
                             "C07_default_sound_partial", "hasType_accD", "node_scalar_dflt", "node_utuple_dflt",
                             "node_ntuple_dflt", "src_typehints_pinned", "src_typehint_simple_arms", "src_typehint_simple_arms_count", "src_sigresolver_simple_arms", "src_sigresolver_falls_through"],
                "modules": ["KodaModel.Properties.C07", "KodaModel.Properties.C07Tree", "KodaModel.Properties.C07Tree2", "KodaModel.Properties.C07Dflt", "KodaModel.Properties.C07Pins", "KodaModel.Properties.C07Src"],
                "level_note": "src_typehint_simple_arms: the fifteen identity-tested arms of get_typehint_validator_base (scalars, None, Any, bare "
                              "list / set / tuple / dict), read from the source on every run, return what the model's `derive .dflt` builds "
                              "for the annotation of that name (decide).  the text of koda_validate/typehints.py (whole module) the hand-written model `derive` was written against is pinned, statement by statement, against the text that is there now (src_typehints_pinned; Generated/PinsSrc.lean is regenerated on every run): a change there is an obligation that no longer checks and starts the failing-input search.  default resolver, for every annotation built from scalars, classes, Any, None, bare list / tuple, "
                              "List[..], Tuple[T, ...], Tuple[A, B, ..], Maybe[..], Union[..] / Optional[..] (any nesting) and "
                              "every Python value: C07_default_tree_partial (the derived validator terminates and accepts exactly "
                              "the structural specification accD), C07_default_complete_partial (a value of the annotated type "
                              "is accepted), C07_default_sound_partial (a Valid payload is a value of the annotated type, under "
                              "OracleTyped: the stdlib parsers return values of their own type); strict resolver: "
                              "C07_strict_iff2_partial: for every annotation built from scalars, classes, Any, None, bare list / "
                              "tuple, List[..], Tuple[T, ...], Tuple[A, B, ..], Maybe[..] and Union[..] / Optional[..] (any "
                              "nesting) and every Python value, the validator derived by the strict (signature) resolver "
                              "terminates and accepts iff hasType; further, "
                              "for `derive` (both resolvers): scalar annotations, Any, None, arbitrary classes (sound and "
                              "complete against `hasType`, payload = the value where nothing coerces; the coercing types under "
                              "`OracleTyped`), and the List[T] step (item sound+complete => list sound+complete, every fuel); "
                              "dict / set / Literal / record / Annotated forms, and 'payload equal to x where nothing coerces' "
                              "for containers, are decided by the correspondence stream and the model-free isinstance-style oracle only",
                "run": _run_ann, "replay": _replay_ann,
                "rule": "annotations generated from the supported grammar to depth 3 (generated dataclass / NamedTuple / "
                        "TypedDict classes with random fields, defaults, totality) x 6 (quick) / 12 (thorough) values each: "
                        "conforming, conforming except at one position, arbitrary; non-trivial = the derived validator "
                        "accepted the value"}


def _run_sig(pid: str, tier: str, seed: int, spec: dict, scale: float = 1.0, salt: str = "") -> dict:
    from . import sig_stream
    out = sig_stream.run(pid, tier, seed, spec, scale, salt)
    if pid == "C09":
        # strictness of the default signature resolution: the C07 annotation stream under
        # resolve_signature_typehint_default
        from . import ann_stream
        o2 = ann_stream.run(pid, tier, seed, {"resolver": "signature"}, scale * 0.6, salt)
        for k in ("evaluations", "n_failures", "n_disagreements", "distinct_nontrivial"):
            out[k] += o2[k]
        out["failures"] += o2["failures"]
        out["disagreements"] += o2["disagreements"]
        out["distribution"] = {"signature_calls": out["distribution"], "strictness_annotations": o2["distribution"]}
    return out


def _replay_sig(case: dict) -> List[str]:
    if "ann" in case:
        return _replay_ann(case)
    from . import sig_stream
    return sig_stream.replay_case(case)


_SIG_RULE = ("functions generated over the five parameter kinds (0-2 of each, annotated or not, defaults, overrides, "
             "ignore_args / ignore_return, sync and async; 30% real `def`s built from source text, the rest generic-bodied "
             "functions carrying the same inspect.Signature), one legal call shape each (positional / keyword / omitted, "
             "extra *args and **kwargs incl. a keyword named like a positional-only parameter), valid / invalid values per "
             "argument and for the return value; non-trivial = at least one checked parameter was supplied")
PROPS["C08"] = {"theorems": ["C08_body_iff", "C08_invalid_args", "C08_all_pass", "C08_return", "C08_body_exception",
                             "kwSlot_not_byKeyword", "posSlot_overflow", "src_signature_pinned"],
                "modules": ["KodaModel.Properties.C08", "KodaModel.Properties.C08Pins"],
                "run": _run_sig, "replay": _replay_sig, "rule": _SIG_RULE,
                "level_note": "the text of validate_signature / _wrap_fn / _get_validator / resolve_signature_typehint_default the hand-written model (KodaModel/Signature.lean) was written against is pinned against the current source (src_signature_pinned): a change there is an obligation that no longer checks and starts the failing-input search.  the theorems are about `wrapCall` for every signature, call, body and validator evaluator; "
                              "how Python binds a call to parameters (inspect.signature, defaults, TypeError for illegal calls) "
                              "is not modelled: the stream generates legal calls and compares slot assignment, body-ran, "
                              "error keys and delivered values with the real decorator"}
PROPS["C09"] = {"theorems": ["C08_all_pass", "C09_unchecked_untouched", "C09_checked_payload", "C09_transparent_return",
                             "slot_pass_iff", "C08_body_exception", "C07_strict_iff2_partial", "C07_strict_tree2_partial",
                             "C07_strict_iff_partial", "C07_scalar_strict", "src_signature_pinned", "src_typehints_pinned",
                             "src_sigresolver_simple_arms", "src_sigresolver_falls_through"],
                "modules": ["KodaModel.Properties.C08", "KodaModel.Properties.C07Tree", "KodaModel.Properties.C07Tree2",
                            "KodaModel.Properties.C08Pins", "KodaModel.Properties.C07Pins", "KodaModel.Properties.C07Src"],
                "level_note": "src_sigresolver_simple_arms / _falls_through: the five identity-tested arms of "
                              "resolve_signature_typehint_default (Decimal, UUID, date, datetime, bare tuple), read from the source "
                              "on every run, return the coercer-less validators `derive .signature` builds, and for the other ten "
                              "names of the base resolver the strict resolver has no arm and the two models coincide.  the text of validate_signature / _wrap_fn / _get_validator / resolve_signature_typehint_default the hand-written model (KodaModel/Signature.lean) was written against is pinned against the current source (src_signature_pinned): a change there is an obligation that no longer checks and starts the failing-input search.  the text of koda_validate/typehints.py (whole module) the hand-written model `derive` was written against is pinned, statement by statement, against the text that is there now (src_typehints_pinned; Generated/PinsSrc.lean is regenerated on every run): a change there is an obligation that no longer checks and starts the failing-input search.  delivery and return transparency are proved for `wrapCall`; strictness of the default "
                              "signature resolution (nothing is coerced: accepted iff the value already is of the "
                              "annotated type) is proved for the annotation forms of `annFrag2` - scalars, classes, Any, None, bare list / "
                              "tuple, List, Tuple[T, ...], Tuple[A, B, ...], Maybe, Union / Optional, any nesting "
                              "(C07_strict_iff2_partial) "
                              "and decided by correspondence + oracle for the remaining forms (the annotation stream "
                              "under the signature resolver); name / docstring / coroutine-ness are checked on the real "
                              "decorator only",
                "run": _run_sig, "replay": _replay_sig, "rule": _SIG_RULE +
                "; strictness: the C07 annotation grammar under the signature resolver x conforming values and look-alikes"}


def run_core(pid: str, tier: str, seed: int, spec: dict, scale: float = 1.0, salt: str = "") -> dict:
    n = int((spec["quick_n"] if tier == "quick" else spec["thorough_n"]) * scale)
    opts = dict(spec.get("opts", {}))
    opts["oracles"] = [pid]
    opts["fields"] = spec.get("fields", ["out", "trace"])
    opts["salt"] = opts.get("salt", "") + salt
    opts["corpus"] = load_corpus(pid)
    res = engine.run_sharded("harness.streams", "core_shard", seed, n, opts)
    crashes = [r["crash"] for r in res if "crash" in r]
    if crashes:
        raise RuntimeError("shard crashed:\n" + crashes[0])
    st = streams.merge_stats(res)
    failures: List[dict] = []
    disagreements: List[dict] = []
    samples: List[dict] = []
    for r in res:
        failures += r["failures"]
        disagreements += r["disagreements"]
        samples += r["samples"]
    return {"evaluations": st["evaluated"], "distinct_nontrivial": st["distinct_nontrivial"],
            "failures": failures, "n_failures": sum(r["n_failures"] for r in res),
            "disagreements": disagreements, "n_disagreements": sum(r["n_disagreements"] for r in res),
            "samples": samples, "distribution": {k: st[k] for k in ("outcomes", "streams", "err_kinds", "depths",
                                                                     "unbuildable", "model_fuel", "rejected_non_root",
                                                                     "distinct")}}


def load_corpus(pid: str) -> List[dict]:
    d = os.path.join(os.path.dirname(os.path.dirname(os.path.abspath(__file__))), "corpus")
    out = []
    for fn in sorted(os.listdir(d)) if os.path.isdir(d) else []:
        if fn.endswith(".json"):
            with open(os.path.join(d, fn)) as f:
                c = json.load(f)
            if pid in c.get("properties", [pid]) and (("w" in c["case"]) == (pid == "C19")):
                out.append(c["case"])
    return out
