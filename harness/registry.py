"""Per-property configuration: theorems, streams, sizes."""
from __future__ import annotations

import collections
import json
import os
from typing import Any, Dict, List

from . import engine, streams

CORE_RULE = ("validator trees generated kind-directed (every constructor, both child flavours, coercers, processors, "
             "sync/async predicates, object checks) x inputs generated type-directed from the tree (conforming / "
             "one position off / hostile pool); a case is distinct by the hash of (env, validator, re-described "
             "input) and non-trivial when it was accepted by a non-trivial validator or rejected below the root")

PROPS: Dict[str, Dict[str, Any]] = {
    "C01": {"theorems": [], "stream": "core", "opts": {"salt": "c01", "special_rate": 0.05},
            "quick_n": 8000, "thorough_n": 200000, "fields": ["out"]},
    "C03": {"theorems": [], "stream": "core", "opts": {"salt": "c03", "gen": ["streams", "gen_collection_case"]},
            "quick_n": 6000, "thorough_n": 100000, "fields": ["out", "trace"]},
    "C05": {"theorems": [], "stream": "core", "opts": {"salt": "c05", "gen": ["streams", "gen_wrapper_case"]},
            "quick_n": 6000, "thorough_n": 100000, "fields": ["out", "trace"]},
    "C06": {"theorems": [], "stream": "core", "opts": {"salt": "c06", "async_rate": 0.12},
            "quick_n": 10000, "thorough_n": 300000, "fields": ["out", "trace"]},
    "C14": {"theorems": [], "stream": "core", "opts": {"salt": "c14", "async_rate": 0.1},
            "quick_n": 10000, "thorough_n": 300000, "fields": ["out"]},
    "C17": {"theorems": [], "stream": "core", "opts": {"salt": "c17", "async_rate": 0.1, "user_rate": 0.1},
            "quick_n": 8000, "thorough_n": 100000, "fields": ["out"]},
}


def run_core(pid: str, tier: str, seed: int, spec: dict, scale: float = 1.0, salt: str = "") -> dict:
    n = int((spec["quick_n"] if tier == "quick" else spec["thorough_n"]) * scale)
    opts = dict(spec.get("opts", {}))
    opts["oracles"] = [pid]
    opts["fields"] = spec.get("fields", ["out", "trace"])
    opts["salt"] = opts.get("salt", "") + salt
    opts["corpus"] = load_corpus(pid)
    res = engine.run_sharded("harness.streams", "core_shard", seed, n, opts)
    crashes = [r["crash"] for r in res if "crash" in r]
    if crashes:
        raise RuntimeError("shard crashed:\n" + crashes[0])
    st = streams.merge_stats(res)
    failures: List[dict] = []
    disagreements: List[dict] = []
    samples: List[dict] = []
    for r in res:
        failures += r["failures"]
        disagreements += r["disagreements"]
        samples += r["samples"]
    return {"evaluations": st["evaluated"], "distinct_nontrivial": st["distinct_nontrivial"],
            "failures": failures, "n_failures": sum(r["n_failures"] for r in res),
            "disagreements": disagreements, "n_disagreements": sum(r["n_disagreements"] for r in res),
            "samples": samples, "distribution": {k: st[k] for k in ("outcomes", "streams", "err_kinds", "depths",
                                                                     "unbuildable", "model_fuel", "rejected_non_root",
                                                                     "distinct")}}


def load_corpus(pid: str) -> List[dict]:
    d = os.path.join(os.path.dirname(os.path.dirname(os.path.abspath(__file__))), "corpus")
    out = []
    for fn in sorted(os.listdir(d)) if os.path.isdir(d) else []:
        if fn.endswith(".json"):
            with open(os.path.join(d, fn)) as f:
                c = json.load(f)
            if pid in c.get("properties", [pid]):
                out.append(c["case"])
    return out
