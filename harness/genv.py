"""Kind-directed generation of validator trees and type-directed generation of inputs for them."""
from __future__ import annotations

import copy
import json
from typing import Any, Dict, List, Optional, Tuple

from .build import ALWAYS_VID, DEFAULT_NONE_VID, ISDICT_VID, NOTBLANK_PID
from .gen import (ALPHABET, B, COMMON, D, DATES, DATETIMES, DECIMALS, FLOATS, INTS, NONE, NOTHING, UUIDS, F, Gen,
                  I, S)

SCALAR_TYS = ["str", "int", "float", "bool", "bytes", "decimal", "uuid", "date", "datetime"]
LEAF_KINDS = ["scalar", "scalar", "scalar", "equals", "none", "always", "isDict", "type"]
NODE_KINDS = ["list", "set", "utuple", "ntuple", "map", "record", "dictAny", "dataclass", "namedtuple",
              "typeddict", "union", "optional", "maybe", "user", "lazy"]
HASHABLE_PAYLOAD_KINDS = {"scalar", "equals", "none", "utuple", "ntuple"}


class VGen(Gen):
    """generates (env, validator) descriptions"""

    def __init__(self, rng: Any, *, async_rate: float = 0.25, user_rate: float = 0.15,
                 special_rate: float = 0.08) -> None:
        super().__init__(rng)
        self.async_rate = async_rate
        self.user_rate = user_rate
        self.special_rate = special_rate
        self.env: List[dict] = []

    def reset(self) -> None:
        super().reset()
        self.env = []

    # ---- predicates
    def user_pred(self, ty: str) -> dict:
        r = self.rng
        if ty == "int":
            fn: dict = {"f": "intGt", "k": r.choice([-1, 0, 2])}
        elif ty in ("str", "bytes", "list", "set", "tuple", "dict"):
            fn = {"f": "lenLe", "k": r.choice([0, 1, 2, 5])}
        else:
            fn = {"f": "const", "b": r.choice([True, True, False])}
        if self.chance(0.2):
            fn = {"f": "not", "g": fn}
        return {"k": "user", "pid": self.pid(), "fn": fn}

    def apred(self, ty: str) -> dict:
        p = self.user_pred(ty)
        if self.chance(0.3):
            p["yields"] = self.rng.choice([1, 2])
        return p

    def pred_for(self, ty: str) -> dict:
        r = self.rng
        special = self.chance(self.special_rate)
        if self.chance(self.user_rate):
            return self.user_pred(ty)
        pid = self.pid()
        if ty in ("str", "bytes"):
            k = r.choice(["MinLength", "MaxLength", "ExactLength", "StartsWith", "EndsWith", "NotBlank", "Choices",
                          "EqualTo"] + (["Regex", "Email"] if ty == "str" else []))
            if k == "MinLength":
                return {"k": k, "pid": pid, "n": r.choice([0, 1, 1, 2])}
            if k == "MaxLength":
                return {"k": k, "pid": pid, "n": r.choice([1, 3, 4, 10])}
            if k == "ExactLength":
                return {"k": k, "pid": pid, "n": r.choice([0, 1, 2, 3])}
            if k in ("StartsWith", "EndsWith"):
                v = self.atom(ty)
                v["s"] = v["s"][:1]
                return {"k": k, "pid": pid, "v": v}
            if k == "NotBlank":
                return {"k": k, "pid": NOTBLANK_PID}
            if k == "Choices":
                return {"k": k, "pid": pid, "vs": self.distinct([self.atom(ty) for _ in range(r.choice([1, 2, 4]))])}
            if k == "EqualTo":
                return {"k": k, "pid": pid, "v": self.atom(ty)}
            if k == "Regex":
                return {"k": k, "pid": pid, "pat": self.gen_pat()}
            return {"k": "Email", "pid": pid}
        if ty in ("int", "float", "decimal", "date", "datetime"):
            k = r.choice(["Min", "Max", "EqualTo", "Choices"] + (["MultipleOf"] if ty in ("int", "float", "decimal") else []))
            v = self.atom(ty, special=special)
            if ty == "float" and v.get("k") == "nan" and k == "Choices":
                v = F(False, 1, 0)
            if k in ("Min", "Max"):
                return {"k": k, "pid": pid, "v": v, "excl": self.chance(0.4)}
            if k == "EqualTo":
                return {"k": k, "pid": pid, "v": v}
            if k == "Choices":
                vs = [self.atom(ty, special=False) for _ in range(r.choice([1, 2, 4]))]
                return {"k": k, "pid": pid, "vs": self.distinct(vs)}
            # MultipleOf: non-zero factors, except where the stream asks for the zero factor (finding D28)
            if getattr(self, "zero_factor_rate", 0.0) and self.chance(self.zero_factor_rate):
                z = {"int": I(0), "float": F(False, 0, 0), "decimal": D(False, 0, 0)}[ty]
                return {"k": k, "pid": pid, "v": z}
            if ty == "int":
                return {"k": k, "pid": pid, "v": I(r.choice([1, 2, 3, -2, 5]))}
            if ty == "float":
                return {"k": k, "pid": pid, "v": r.choice([F(False, 1, -1), F(False, 1, 0), F(False, 3, -1), F(True, 1, 1)]
                                                           + ([{"t": "float", "k": "inf", "neg": False}] if special else []))}
            f = r.choice([D(False, 5, -1), D(False, 1, 0), D(False, 25, -2), D(False, 3, 0)]
                         + ([{"t": "decimal", "k": "inf", "neg": False}, {"t": "decimal", "k": "nan"}] if special else []))
            return {"k": k, "pid": pid, "v": f}
        if ty in ("uuid", "bool"):
            k = r.choice(["EqualTo", "Choices"])
            if k == "EqualTo":
                return {"k": k, "pid": pid, "v": self.atom(ty)}
            return {"k": k, "pid": pid, "vs": self.distinct([self.atom(ty) for _ in range(2)])}
        if ty in ("list", "set", "tuple"):
            k = r.choice(["MinItems", "MaxItems", "ExactItemCount", "UniqueItems"])
            if k == "UniqueItems":
                return {"k": k, "pid": pid}
            return {"k": k, "pid": pid, "n": r.choice([0, 1, 2, 3, 4] if k != "MinItems" else [0, 0, 1, 2])}
        if ty == "dict":
            k = r.choice(["MinKeys", "MaxKeys"])
            return {"k": k, "pid": pid, "n": r.choice([0, 1, 2, 3] if k == "MaxKeys" else [0, 0, 1, 2])}
        return self.user_pred(ty)

    def gen_pat(self) -> dict:
        r = self.rng
        els = []
        for _ in range(r.choice([1, 1, 2, 3])):
            k = r.choice(["lit", "lit", "cls", "any", "star"])
            if k == "lit":
                els.append({"k": "lit", "c": r.choice(COMMON)})
            elif k == "any":
                els.append({"k": "any"})
            else:
                els.append({"k": k, "cs": sorted(set(r.choice(COMMON) for _ in range(r.choice([1, 2, 3]))))})
        return {"start": self.chance(0.3), "els": els, "end": self.chance(0.3)}

    def preds(self, ty: str, maxn: int = 3) -> List[dict]:
        n = self.rng.choice([0, 0, 1, 1, 2, maxn])
        return [self.pred_for(ty) for _ in range(n)]

    def apreds(self, ty: str) -> Optional[List[dict]]:
        if not self.chance(self.async_rate):
            return None if self.chance(0.8) else []
        return [self.apred(ty) for _ in range(self.rng.choice([1, 1, 2]))]

    def procs(self, ty: str) -> Optional[List[dict]]:
        r = self.rng
        if ty in ("str", "bytes"):
            n = r.choice([0, 0, 1, 1, 2])
            out = []
            for _ in range(n):
                k = r.choice(["strip", "upper", "lower", "user"] if ty == "str" else ["strip", "upper", "lower"])
                if k == "user":
                    out.append({"k": "user", "pid": self.pid(), "fn": {"f": "appendStr", "s": [r.choice(COMMON)]}})
                else:
                    out.append({"k": k, "pid": self.pid()})
            return out or (None if self.chance(0.7) else [])
        if ty == "int" and self.chance(0.15):
            return [{"k": "user", "pid": self.pid(), "fn": {"f": "addInt", "k": r.choice([1, -1, 10])}}]
        if isinstance(ty, str) and ty in ("float", "bool", "decimal", "uuid", "date", "datetime") and self.chance(0.12):
            # every scalar validator takes preprocessors: a user-written one that returns its argument, or a constant
            # of the target type
            # (an ordinary constant: a signalling NaN payload cannot be hashed into a set, finding D2's territory)
            fn = {"f": "id"} if self.chance(0.5) else {"f": "constv", "v": self.atom(ty, special=False)}
            return [{"k": "user", "pid": self.pid(), "fn": fn}]
        return None

    def user_coercer(self, target: str) -> dict:
        r = self.rng
        cid = self.cb()
        if target == "int":
            return {"cid": cid, "compat": ["str", "int"], "fn": {"f": "intFromDigits"}}
        if target == "list":
            if r.random() < 0.4:
                return {"cid": cid, "compat": ["list", "tuple", "int"], "fn": {"f": "listTail"}}
            return {"cid": cid, "compat": ["list", "tuple"], "fn": {"f": "listFromTuple"}}
        if target == "set":
            return {"cid": cid, "compat": ["list", "set"], "fn": {"f": "setFromList"}}
        if target == "tuple":
            if r.random() < 0.4:
                return {"cid": cid, "compat": ["list", "tuple", "int"], "fn": {"f": "tupleTail"}}
            return {"cid": cid, "compat": ["list", "set", "tuple"], "fn": {"f": "tupleFromAny"}}
        if target == "dict":
            return {"cid": cid, "compat": ["list", "dict"], "fn": {"f": "dictFromPairs"}}
        k = r.choice(["rejectAll", "ifTy", "ifTy"])
        if k == "rejectAll":
            return {"cid": cid, "compat": [target], "fn": {"f": "rejectAll"}}
        return {"cid": cid, "compat": [target], "fn": {"f": "ifTy", "ty": target}}

    # ---- validators
    def gen_scalar(self, ty: Optional[str] = None) -> dict:
        r = self.rng
        ty = ty or r.choice(SCALAR_TYS)
        d: Dict[str, Any] = {"k": "scalar", "vid": self.vid(), "ty": ty}
        if ty in ("decimal", "uuid", "date", "datetime"):
            c = r.random()
            d["coerce"] = "default" if c < 0.6 else (None if c < 0.85 else self.user_coercer(ty))
        else:
            d["coerce"] = self.user_coercer(ty) if self.chance(0.12) else None
        d["pre"] = self.procs(ty)
        d["preds"] = self.preds(ty)
        d["apreds"] = self.apreds(ty)
        return d

    def gen_leaf(self) -> dict:
        r = self.rng
        k = r.choice(LEAF_KINDS)
        if k == "scalar":
            return self.gen_scalar()
        if k == "equals":
            ty = r.choice(SCALAR_TYS)
            m = self.atom(ty, special=self.chance(self.special_rate))
            return {"k": "equals", "vid": self.vid(), "m": m, "pre": self.procs(ty), "pid": self.pid()}
        if k == "none":
            co = None
            if self.chance(0.2):
                co = {"cid": self.cb(), "compat": ["none", "str"], "fn": {"f": r.choice(["rejectAll", "acceptAll"])}}
                if self.chance(0.5):
                    co["fn"] = {"f": "ifTy", "ty": "str"}
            return {"k": "none", "vid": self.vid(), "coerce": co}
        if k == "always":
            return {"k": "always", "vid": ALWAYS_VID}
        if k == "isDict":
            return {"k": "isDict", "vid": ISDICT_VID}
        # TypeValidator on a builtin or on a class
        if self.chance(0.5):
            ty2 = r.choice(["int", "str", "list", "dict", "float"])
            return {"k": "scalar", "vid": self.vid(), "ty": ty2, "asType": True,
                    "coerce": self.user_coercer(ty2) if self.chance(0.3) else None, "pre": None,
                    "preds": self.preds(ty2, 1) if ty2 in ("int", "str") else [], "apreds": self.apreds(ty2)}
        c = self.new_class(0, hashable=self.chance(0.5))
        co = None
        if self.chance(0.25):
            co = {"cid": self.cb(), "compat": [{"cls": c}], "fn": {"f": "ifTy", "ty": {"cls": c}}}
        return {"k": "scalar", "vid": self.vid(), "ty": {"cls": c}, "asType": True, "coerce": co, "pre": None,
                "preds": [], "apreds": None}

    def gen_v(self, depth: int, *, hashable: bool = False, no_async: bool = False) -> dict:
        """a validator tree; `hashable` requests payloads that can be set members / dict keys"""
        r = self.rng
        if depth <= 0 or self.chance(0.25):
            if hashable:
                v = self.gen_scalar(r.choice(["str", "int", "float", "bool", "bytes", "decimal", "uuid", "date"]))
            else:
                v = self.gen_leaf()
        else:
            k = r.choice(NODE_KINDS if not hashable else ["utuple", "ntuple", "union", "optional", "user", "utuple"])
            v = getattr(self, "gen_" + k)(depth - 1, hashable)
        if self.chance(self.user_rate) and v["k"] not in ("knr",):
            v = {"k": "user", "vid": self.vid(), "inner": v}
        return v

    def gen_list(self, depth: int, hashable: bool = False) -> dict:
        return self._seq("list", depth, False)

    def gen_set(self, depth: int, hashable: bool = False) -> dict:
        return self._seq("set", depth, True)

    def gen_utuple(self, depth: int, hashable: bool = False) -> dict:
        return self._seq("utuple", depth, hashable)

    def _seq(self, k: str, depth: int, hashable: bool) -> dict:
        cty = {"list": "list", "set": "set", "utuple": "tuple"}[k]
        d: Dict[str, Any] = {"k": k, "vid": self.vid(), "item": self.gen_v(depth, hashable=hashable)}
        d["preds"] = self.preds(cty, 2) or (None if self.chance(0.5) else [])
        d["apreds"] = self.apreds(cty)
        c = self.rng.random()
        if k == "utuple":
            d["coerce"] = "default" if c < 0.6 else (None if c < 0.85 else self.user_coercer("tuple"))
        else:
            d["coerce"] = None if c < 0.8 else self.user_coercer(cty)
        return d

    def gen_oc(self, is_async: bool = False) -> Optional[dict]:
        r = self.rng
        c = r.random()
        if c < 0.6:
            return None
        fn: dict = {"f": "pass"} if c < 0.8 else ({"f": "fail", "e": self.cb()} if c < 0.9 else
                                                  {"f": "failIf", "e": self.cb(), "g": {"f": "lenLe", "k": 1}})
        d = {"id": self.cb(), "fn": fn}
        if is_async and self.chance(0.3):
            d["yields"] = 1
        return d

    def gen_ntuple(self, depth: int, hashable: bool = False) -> dict:
        n = self.rng.choice([0, 1, 2, 2, 3])
        c = self.rng.random()
        return {"k": "ntuple", "vid": self.vid(), "fields": [self.gen_v(depth, hashable=hashable) for _ in range(n)],
                "oc": self.gen_oc(), "lenPid": self.pid(), "untyped": self.chance(0.3),
                "coerce": "default" if c < 0.6 else (None if c < 0.85 else self.user_coercer("tuple"))}

    def gen_map(self, depth: int, hashable: bool = False) -> dict:
        return {"k": "map", "vid": self.vid(), "key": self.gen_v(min(depth, 1), hashable=True),
                "value": self.gen_v(depth), "preds": self.preds("dict", 2) or None, "apreds": self.apreds("dict"),
                "coerce": None if self.chance(0.85) else self.user_coercer("dict")}

    def gen_keys(self, n: int, names_only: bool) -> List[dict]:
        r = self.rng
        if names_only:
            pool = ["a", "b", "c", "d", "e", "f_1"]
            return [S(x) for x in r.sample(pool, n)]
        out: List[dict] = []
        while len(out) < n:
            c = r.random()
            k = S(r.choice(["a", "b", "c", "d", "e", ""])) if c < 0.7 else (
                I(r.choice([0, 1, 2, 5])) if c < 0.85 else (
                    {"t": "tuple", "oid": 0, "xs": [S("a"), I(1)]} if c < 0.9 else self.atom(r.choice(["decimal", "bool", "float", "none"]), special=False)))
            out = self.distinct(out + [k])
        return out

    def _rec_common(self, depth: int, n: int) -> Dict[str, Any]:
        has_async = self.chance(self.async_rate)
        oc = None if has_async else self.gen_oc()
        aoc = self.gen_oc(True) if has_async else None
        if has_async and aoc is None:
            aoc = {"id": self.cb(), "fn": {"f": "pass"}}
        return {"vals": [self.gen_v(depth) for _ in range(n)], "oc": oc, "aoc": aoc, "failUnknown": self.chance(0.4)}

    def gen_record(self, depth: int, hashable: bool = False) -> dict:
        r = self.rng
        n = r.choice([0, 1, 2, 2, 3, 4])
        keys = self.gen_keys(n, False)
        d = {"k": "record", "vid": self.vid(), "kind": "record", "keys": keys}
        d.update(self._rec_common(depth, n))
        reqs = []
        for i in range(n):
            if self.chance(0.35):
                d["vals"][i] = {"k": "knr", "vid": self.vid(), "inner": d["vals"][i]}
                reqs.append(False)
            else:
                reqs.append(True)
        d["reqs"] = reqs
        f = r.choice(["dictOf", "dictOf", "tupleOf", "listOf"])
        d["into"] = {"id": self.cb(), "f": f, "keys": keys}
        return d

    def gen_dictAny(self, depth: int, hashable: bool = False) -> dict:
        r = self.rng
        n = r.choice([0, 1, 2, 2, 3, 4])
        keys = self.gen_keys(n, False)
        d = {"k": "record", "vid": self.vid(), "kind": "dictAny", "keys": keys}
        d.update(self._rec_common(depth, n))
        d["reqs"] = [not self.chance(0.35) for _ in range(n)]
        d["knrVids"] = [self.vid() for _ in range(n)]
        return d

    def _cls_rec(self, kind: str, depth: int) -> dict:
        r = self.rng
        n = r.choice([0, 1, 2, 2, 3, 4])
        keys = self.gen_keys(n, True)
        names = ["".join(map(chr, k["s"])) for k in keys]
        d: Dict[str, Any] = {"k": "record", "vid": self.vid(), "kind": kind, "keys": keys, "fieldNames": names}
        d.update(self._rec_common(depth, n))
        # fields with defaults must follow fields without
        ndef = r.choice([0, 0, 1, n]) if n else 0
        reqs = [True] * (n - min(ndef, n)) + [False] * min(ndef, n)
        if kind == "typeddict":
            r.shuffle(reqs)
            d["reqs"] = reqs
            d["cls"] = {"id": self.cid(), "kind": 4, "hashable": False, "slots": False}
            d["tdStyle"] = r.choice([0, 1])
            d["defaults"] = [None] * n
            c = r.random()
            d["coerce"] = None if c < 0.85 else self.user_coercer("dict")
            return d
        d["reqs"] = reqs
        defaults: List[Optional[dict]] = []
        for i in range(n):
            if reqs[i]:
                defaults.append(None)
            else:
                defaults.append(self.default_for(d["vals"][i]))
        d["defaults"] = defaults
        fields = [[nm, df] for nm, df in zip(names, defaults)]
        slots = kind == "dataclass" and self.chance(0.15)
        d["cls"] = self.new_class(1 if kind == "dataclass" else 2, fields=fields,
                                  hashable=(kind == "dataclass" and self.chance(0.3)), slots=slots)
        c = r.random()
        d["coerce"] = None if c < 0.8 else ("classOnly" if c < 0.9 else self.user_coercer("dict"))
        return d

    def default_for(self, v: dict) -> dict:
        """a default value for a field (used as is, on trust); mostly one the field validator accepts"""
        if self.chance(0.3):
            return self.atom(self.rng.choice(["int", "str", "none"]))
        x = self.conform(v, 0)
        if '"kind": 0' in json.dumps(x):
            # plain-class instances compare by identity: a default holding one cannot be described by value
            return self.atom(self.rng.choice(["int", "str"]))
        return strip_oids(x)

    def gen_dataclass(self, depth: int, hashable: bool = False) -> dict:
        return self._cls_rec("dataclass", depth)

    def gen_namedtuple(self, depth: int, hashable: bool = False) -> dict:
        return self._cls_rec("namedtuple", depth)

    def gen_typeddict(self, depth: int, hashable: bool = False) -> dict:
        return self._cls_rec("typeddict", depth)

    def gen_union(self, depth: int, hashable: bool = False) -> dict:
        n = self.rng.choice([1, 2, 2, 3, 4])
        if self.chance(0.12):
            # wide unions (the typed constructor is overloaded up to 8 variants): leaves only, to keep cases small
            n = self.rng.choice([5, 6, 7, 8, 8])
            return {"k": "union", "vid": self.vid(), "vs": [self.gen_v(0, hashable=hashable) for _ in range(n)],
                    "untyped": self.chance(0.3)}
        return {"k": "union", "vid": self.vid(), "vs": [self.gen_v(depth, hashable=hashable) for _ in range(n)],
                "untyped": self.chance(0.5)}

    def gen_optional(self, depth: int, hashable: bool = False) -> dict:
        nv = {"k": "none", "vid": DEFAULT_NONE_VID, "coerce": None}
        if self.chance(0.2):
            nv = {"k": "none", "vid": self.vid(), "coerce": None}
            if self.chance(0.4):
                nv["coerce"] = {"cid": self.cb(), "compat": ["none", "str"], "fn": {"f": "ifTy", "ty": "str"}}
        return {"k": "optional", "vid": self.vid(), "noneV": nv, "inner": self.gen_v(depth, hashable=hashable)}

    def gen_maybe(self, depth: int, hashable: bool = False) -> dict:
        return {"k": "maybe", "vid": self.vid(), "inner": self.gen_v(depth)}

    def gen_user(self, depth: int, hashable: bool = False) -> dict:
        return {"k": "user", "vid": self.vid(), "inner": self.gen_v(depth, hashable=hashable)}

    def gen_lazy(self, depth: int, hashable: bool = False) -> dict:
        """a Lazy pointing to a new env entry; often a recursive definition"""
        r = self.rng
        ref = len(self.env)
        self.env.append({"k": "always", "vid": ALWAYS_VID})  # placeholder
        me = {"k": "lazy", "vid": self.vid(), "ref": ref}
        c = r.random()
        if c < 0.35:
            # T = Union[leaf, List[T]]
            body = {"k": "union", "vid": self.vid(), "vs": [self.gen_scalar(r.choice(["int", "str"])),
                                                          {"k": "list", "vid": self.vid(), "item": dict(me, vid=self.vid()),
                                                           "preds": None, "apreds": None, "coerce": None}]}
        elif c < 0.7:
            # T = {val: leaf, next: Optional[T]}
            body = {"k": "record", "vid": self.vid(), "kind": "dictAny", "keys": [S("val"), S("next")],
                    "vals": [self.gen_scalar(r.choice(["int", "str"])),
                             {"k": "optional", "vid": self.vid(),
                              "noneV": {"k": "none", "vid": DEFAULT_NONE_VID, "coerce": None},
                              "inner": dict(me, vid=self.vid())}],
                    "reqs": [True, self.chance(0.5)], "knrVids": [self.vid(), self.vid()], "oc": None, "aoc": None,
                    "failUnknown": self.chance(0.5)}
        else:
            body = self.gen_v(depth, hashable=hashable)
        self.env[ref] = body
        return me

    # ---- inputs, type-directed
    def lookup(self, v: dict) -> dict:
        return v

    def conform(self, v: dict, depth: int = 0, rec_depth: int = 3) -> dict:
        """a value the validator is likely to accept"""
        r = self.rng
        k = v["k"]
        if k == "scalar":
            return self.conform_scalar(v)
        if k == "equals":
            return copy.deepcopy(v["m"])
        if k == "none":
            if v.get("coerce"):
                return self.atom("str")
            return NONE
        if k == "always":
            if self.chance(0.12):
                # anything goes — including an instance of some other dataclass
                c = self.new_class(1, fields=[["q", None]])
                return {"t": "inst", "oid": self.oid(), "doid": self.oid(), "cls": c, "names": ["q"],
                        "vals": [self.atom(self.rng.choice(["int", "str", "none"]))]}
            return self.hostile(2)
        if k == "isDict":
            return {"t": "dict", "oid": self.oid(), "kvs": [[S("k"), I(1)]] if self.chance(0.5) else []}
        if k in ("list", "set", "utuple"):
            n = self.pick_len(v.get("preds") or [])
            xs = [self.conform(v["item"], depth + 1, rec_depth) for _ in range(n)]
            t = {"list": "list", "set": "set", "utuple": "tuple"}[k]
            if k == "utuple" and v.get("coerce") == "default" and self.chance(0.4):
                t = "list"
            if k == "utuple" and isinstance(v.get("coerce"), dict):
                t = r.choice(["list", "tuple"])
            if k == "list" and isinstance(v.get("coerce"), dict):
                t = r.choice(["list", "tuple"])
            if k == "set":
                xs = self.distinct([x for x in xs if is_hashable_desc(x)])
                if isinstance(v.get("coerce"), dict) and self.chance(0.4):
                    t = "list"
            if isinstance(v.get("coerce"), dict) and v["coerce"]["fn"]["f"] in ("tupleTail", "listTail"):
                if self.chance(0.15):
                    return I(r.choice([0, 1, 7]))
                if t != {"tupleTail": "tuple", "listTail": "list"}[v["coerce"]["fn"]["f"]]:
                    # the coercer drops the first element: one more, so that the result has the intended length
                    xs = [self.conform(v["item"], depth + 1, rec_depth)] + xs
            return {"t": t, "oid": self.oid(), "xs": xs}
        if k == "ntuple":
            xs = [self.conform(f, depth + 1, rec_depth) for f in v["fields"]]
            t = "tuple"
            if v.get("coerce") == "default" and self.chance(0.4):
                t = "list"
            return {"t": t, "oid": self.oid(), "xs": xs}
        if k == "map":
            n = self.pick_len(v.get("preds") or [], keys=True)
            ks = self.distinct([x for x in (self.conform(v["key"], depth + 1, rec_depth) for _ in range(n)) if is_hashable_desc(x)])
            return {"t": "dict", "oid": self.oid(), "kvs": [[kk, self.conform(v["value"], depth + 1, rec_depth)] for kk in ks]}
        if k == "record":
            return self.conform_record(v, depth, rec_depth)
        if k == "union":
            return self.conform(r.choice(v["vs"]), depth, rec_depth)
        if k == "optional":
            if self.chance(0.3):
                return NONE
            return self.conform(v["inner"], depth, rec_depth)
        if k == "maybe":
            if self.chance(0.3):
                return NOTHING
            return {"t": "just", "oid": self.oid(), "v": self.conform(v["inner"], depth + 1, rec_depth)}
        if k in ("knr", "user"):
            return self.conform(v["inner"], depth, rec_depth)
        if k == "lazy":
            if rec_depth <= 0:
                return self.conform_shallow(self.env[v["ref"]])
            return self.conform(self.env[v["ref"]], depth, rec_depth - 1)
        raise ValueError(k)

    def conform_shallow(self, v: dict) -> dict:
        """cut recursion: choose the non-recursive alternative"""
        k = v["k"]
        if k == "union":
            return self.conform(v["vs"][0], 0, 0)
        if k == "record":
            d = self.conform_record(v, 0, 0, shallow=True)
            return d
        return self.conform(v, 0, 0)

    def pick_len(self, preds: List[dict], keys: bool = False) -> int:
        lo, hi = 0, 3
        for p in preds:
            if p["k"] in ("MinItems", "MinKeys"):
                lo = max(lo, p["n"])
            if p["k"] in ("MaxItems", "MaxKeys"):
                hi = min(hi, p["n"])
            if p["k"] == "ExactItemCount":
                lo = hi = p["n"]
        if lo > hi:
            return lo
        return self.rng.randint(lo, max(lo, hi))

    def conform_scalar(self, v: dict) -> dict:
        r = self.rng
        ty = v["ty"]
        if not isinstance(ty, str):
            return {"t": "inst", "oid": self.oid(), "doid": 0, "cls": ty["cls"], "names": [], "vals": []}
        if ty in ("list", "dict"):
            return self.container_of(ty)
        co = v.get("coerce")
        if co == "default" and self.chance(0.5):
            # a text form the stdlib parses
            if ty == "decimal":
                return r.choice([S("1.5"), S("1.50"), S(" 2 "), S("-0"), I(3), I(0), S("1e2"), S("5"),
                                 S("NaN"), S("Infinity"), S("-inf")])
            if ty == "uuid":
                return S(r.choice(["12345678-1234-5678-1234-567812345678", "{12345678-1234-5678-1234-567812345678}",
                                   "00000000-0000-0000-0000-000000000001"]))
            if ty == "date":
                return S(r.choice(["2020-01-01", "20200101", "0001-01-01", "2000-01-01"]))
            if ty == "datetime":
                return S(r.choice(["2020-01-01T00:00:00", "2020-01-01T00:00:00.123456", "2020-01-01T00:00:00+05:30"]))
        if isinstance(co, dict) and co["fn"]["f"] == "intFromDigits" and self.chance(0.5):
            return S(str(r.choice([0, 1, 5, 10])))
        # satisfy simple predicates
        for p in v.get("preds") or []:
            if p["k"] == "EqualTo":
                return copy.deepcopy(p["v"])
            if p["k"] == "Choices" and p["vs"]:
                return copy.deepcopy(r.choice(p["vs"]))
        if ty == "str":
            base = self.gen_str(3, common=True)
            for p in v.get("preds") or []:
                if p["k"] == "StartsWith":
                    base["s"] = p["v"]["s"] + base["s"]
                if p["k"] == "EndsWith":
                    base["s"] = base["s"] + p["v"]["s"]
                if p["k"] == "Email":
                    base = S("a@b.c")
            return base
        return self.atom(ty, special=self.chance(self.special_rate))

    def conform_record(self, v: dict, depth: int, rec_depth: int, shallow: bool = False) -> dict:
        r = self.rng
        kind = v["kind"]
        kvs = []
        for key, val, req in zip(v["keys"], v["vals"], v["reqs"]):
            if not req and (shallow or self.chance(0.4)):
                continue
            kvs.append([copy.deepcopy(key), self.conform(val, depth + 1, rec_depth)])
        if not v.get("failUnknown") and self.chance(0.2):
            kvs.append([S("extra"), I(1)])
        if kind in ("dataclass", "namedtuple") and v.get("coerce") in (None, "classOnly") and self.chance(0.4):
            # an instance of exactly the target class
            present = {tuple(k["s"]): x for k, x in kvs if k["t"] == "str"}
            vals = []
            for nm, dflt, val in zip(v["fieldNames"], v["defaults"], v["vals"]):
                key = tuple(ord(c) for c in nm)
                if key in present:
                    vals.append(present[key])
                elif dflt is not None:
                    vals.append(copy.deepcopy(dflt))
                else:
                    vals.append(self.conform(val, depth + 1, rec_depth))
            return {"t": "inst", "oid": self.oid(), "doid": self.oid() if kind == "dataclass" and not v["cls"]["slots"] else 0,
                    "cls": v["cls"], "names": list(v["fieldNames"]), "vals": vals}
        return {"t": "dict", "oid": self.oid(), "kvs": kvs}

    # ---- near misses
    def near_miss(self, x: dict) -> dict:
        """change the value at one randomly chosen position"""
        x = copy.deepcopy(x)
        paths = list(all_paths(x))
        path = self.rng.choice(paths)
        tgt = get_at(x, path)
        new = self.mutate(tgt, root=not path)
        if not path:
            return new
        set_at(x, path, new)
        return x

    def mutate(self, t: dict, root: bool = True) -> dict:
        r = self.rng
        tt = t["t"]
        c = r.random()
        if tt in ("list", "tuple", "set") and c < 0.6:
            t = copy.deepcopy(t)
            op = r.choice(["swap", "drop", "add", "sub"])
            if op == "swap":
                t["t"] = {"list": "tuple", "tuple": "list", "set": "list"}[tt]
            elif op == "drop" and t["xs"]:
                t["xs"].pop(r.randrange(len(t["xs"])))
            elif op == "add":
                t["xs"].append(self.hashable_val() if tt == "set" else self.hostile(2))
                if tt == "set":
                    t["xs"] = self.distinct(t["xs"])
            else:
                return {"t": "sub", "cls": self.new_class(3, base=tt), "v": t}
            t["oid"] = self.oid()
            return t
        if tt == "dict" and c < 0.7:
            t = copy.deepcopy(t)
            op = r.choice(["drop", "add", "sub", "addkey"])
            if op == "drop" and t["kvs"]:
                t["kvs"].pop(r.randrange(len(t["kvs"])))
            elif op in ("add", "addkey"):
                k = r.choice([S("zz"), I(9), S("a"), B(True)])
                if py_key_in(k, [kv[0] for kv in t["kvs"]]):
                    k = S("zzz")
                t["kvs"].append([k, self.hostile(2)])
            else:
                return {"t": "sub", "cls": self.new_class(3, base="dict"), "v": t}
            t["oid"] = self.oid()
            return t
        if tt == "inst" and c < 0.2 and t["cls"]["kind"] == 1 and t["names"] and root:
            # a dataclass instance one of whose declared fields holds no value.  Only as the value a validator is
            # given directly, never inside a container: the generated `__eq__` / `__hash__` of such an instance raise
            # AttributeError, so wherever the library compares or hashes the caller's items (UniqueItems, sets, dict
            # keys, Choices) the exception is the object's own - objects with a raising `__eq__` / `__hash__` are outside
            # the model (DESIGN section 9)
            # (only a field without a default: a defaulted field's name is also a class attribute, so deleting the
            # instance attribute leaves `getattr` answering while `__dict__` has no entry)
            nodefault = {f[0] for f in self.class_fields(t["cls"]) if f[1] is None}
            cand = [i for i, n in enumerate(t["names"]) if n in nodefault]
            if cand:
                t = copy.deepcopy(t)
                i = r.choice(cand)
                t["names"].pop(i)
                t["vals"].pop(i)
                t["oid"] = self.oid()
                return t
        if tt == "inst" and 0.2 <= c < 0.35 and t["cls"]["kind"] in (1, 2):
            # an instance of a *subclass* of the class: not "an instance of exactly the target class"
            par = [k for k in self.classes if k["id"] == t["cls"].get("id")]
            if par:
                c2 = self.new_class(t["cls"]["kind"], fields=par[0].get("fields") or [], hashable=par[0]["hashable"],
                                    slots=False, parent=par[0]["id"])
                t = copy.deepcopy(t)
                t["cls"] = c2
                t["oid"] = self.oid()
                return t
        if tt == "inst" and c < 0.5 and t["cls"]["kind"] in (1, 2):
            # same fields, different class
            c2 = self.new_class(t["cls"]["kind"], fields=[[n, None] for n in t["names"]])
            t = copy.deepcopy(t)
            t["cls"] = c2
            return t
        # look-alikes
        if tt == "int":
            return r.choice([B(t["i"] % 2 == 1), F(False, abs(t["i"]) % 1000, 0), S(str(t["i"])[:20]),
                             {"t": "sub", "cls": self.new_class(3, base="int"), "v": t}])
        if tt == "bool":
            return r.choice([I(1 if t["b"] else 0), S("true")])
        if tt == "float":
            return r.choice([I(1), S("1.0"), {"t": "sub", "cls": self.new_class(3, base="float"), "v": t}])
        if tt == "str":
            return r.choice([{"t": "bytes", "s": [c2 for c2 in t["s"] if c2 < 256]},
                             {"t": "sub", "cls": self.new_class(3, base="str"), "v": t}, self.gen_str(), NONE])
        if tt == "none":
            return r.choice([B(False), I(0), S(""), NOTHING])
        return self.hostile(1)


def py_key_in(k: dict, ks: List[dict]) -> bool:
    from .gen import py_key
    kk = py_key(k)
    return any(py_key(x) == kk for x in ks)


def is_hashable_desc(x: dict) -> bool:
    t = x["t"]
    if t in ("list", "set", "dict", "just", "nothing"):
        return False
    if t == "tuple":
        return all(is_hashable_desc(y) for y in x["xs"])
    if t == "inst":
        if x["cls"]["kind"] == 2:
            return all(is_hashable_desc(y) for y in x["vals"])
        if x["cls"]["kind"] == 1:   # frozen dataclass: hash of the field tuple
            return x["cls"]["hashable"] and all(is_hashable_desc(y) for y in x["vals"])
        return x["cls"]["hashable"]
    if t == "sub":
        return is_hashable_desc(x["v"])
    if t in ("decimal", "float") and x.get("k") in ("nan", "snan"):
        return False
    return True


def strip_oids(x: Any) -> Any:
    if isinstance(x, dict):
        return {k: (0 if k in ("oid", "doid") else strip_oids(v)) for k, v in x.items()}
    if isinstance(x, list):
        return [strip_oids(v) for v in x]
    return x


def all_paths(x: dict, prefix: Tuple = ()) -> Any:
    yield prefix
    t = x["t"]
    if t in ("list", "tuple", "set"):
        for i, y in enumerate(x["xs"]):
            yield from all_paths(y, prefix + (("xs", i),))
    elif t == "dict":
        for i, (k, y) in enumerate(x["kvs"]):
            yield from all_paths(y, prefix + (("kvs", i),))
    elif t == "just":
        yield from all_paths(x["v"], prefix + (("v", None),))
    elif t == "inst":
        for i, y in enumerate(x["vals"]):
            yield from all_paths(y, prefix + (("vals", i),))


def get_at(x: dict, path: Tuple) -> dict:
    for f, i in path:
        if f == "kvs":
            x = x["kvs"][i][1]
        elif f == "v":
            x = x["v"]
        else:
            x = x[f][i]
    return x


def set_at(x: dict, path: Tuple, new: dict) -> None:
    for f, i in path[:-1]:
        if f == "kvs":
            x = x["kvs"][i][1]
        elif f == "v":
            x = x["v"]
        else:
            x = x[f][i]
    f, i = path[-1]
    if f == "kvs":
        x["kvs"][i][1] = new
    elif f == "v":
        x["v"] = new
    else:
        x[f][i] = new
    if x["t"] == "set":
        # keep set members hashable and distinct
        from .gen import py_key
        seen, out = [], []
        for y in x["xs"]:
            if is_hashable_desc(y):
                k = py_key(y)
                if k not in seen:
                    seen.append(k)
                    out.append(y)
        x["xs"] = out
