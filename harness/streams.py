"""Case streams: generation + execution on both sides + per-case comparison."""
from __future__ import annotations

import collections
import json
import random
from typing import Any, Callable, Dict, List, Optional

from . import driver, engine, wire
from .genv import VGen


def gen_core_case(g: VGen, opts: dict) -> dict:
    r = g.rng
    g.reset()
    depth = r.choice(opts.get("depths", [0, 1, 1, 2, 2, 3]))
    v = g.gen_v(depth)
    stream = r.choice(["conform", "conform", "near", "near", "hostile"])
    if stream == "hostile":
        x = g.hostile()
    else:
        x = g.conform(v)
        if stream == "near":
            x = g.near_miss(x)
            if r.random() < 0.3:
                x = g.near_miss(x)
    return {"env": g.env, "v": v, "x": x, "stream": stream, "classes": g.classes}


def gen_collection_case(g: VGen, opts: dict) -> dict:
    """C03: a collection validator at the root (both child flavours), every valid/invalid pattern"""
    r = g.rng
    g.reset()
    k = r.choice(["list", "set", "utuple", "ntuple", "map"])
    v = getattr(g, "gen_" + k)(r.choice([0, 0, 1, 1, 2]), False)
    if r.random() < 0.2:
        v = {"k": "user", "vid": g.vid(), "inner": v}
    stream = r.choice(["conform", "near", "near", "pattern", "pattern", "hostile"])
    if stream == "hostile":
        x = g.hostile()
    else:
        x = g.conform(v)
        if stream == "near":
            x = g.near_miss(x)
        elif stream == "pattern" and x["t"] in ("list", "tuple", "set") and x.get("xs"):
            # a random valid/invalid pattern: replace a random subset of the elements
            for i in range(len(x["xs"])):
                if r.random() < 0.5:
                    x["xs"][i] = g.hashable_val() if x["t"] == "set" else g.mutate(x["xs"][i], root=False)
            if x["t"] == "set":
                x["xs"] = g.distinct(x["xs"])
    return {"env": g.env, "v": v, "x": x, "stream": stream, "classes": g.classes}


def gen_scalar_case(g: VGen, opts: dict) -> dict:
    """C02: a scalar / equality / None validator at the root; target type, subclasses, look-alikes, rest"""
    r = g.rng
    g.reset()
    k = r.choice(["scalar", "scalar", "scalar", "type", "equals", "none", "patterns"])
    if k == "scalar":
        v = g.gen_scalar()
    elif k == "patterns":
        # every failure pattern of up to 4 sync + 2 async user predicates is equally likely
        ty = r.choice(["str", "int", "bytes", "float"])
        v = {"k": "scalar", "vid": g.vid(), "ty": ty, "coerce": None, "pre": g.procs(ty),
             "preds": [{"k": "user", "pid": g.pid(), "fn": {"f": "const", "b": r.random() < 0.5}}
                       for _ in range(r.choice([1, 2, 3, 4]))],
             "apreds": [{"k": "user", "pid": g.pid(), "fn": {"f": "const", "b": r.random() < 0.5}}
                        for _ in range(r.choice([0, 1, 2]))] or None}
    else:
        v = g.gen_leaf()
        while v["k"] in ("always", "isDict"):
            v = g.gen_leaf()
    if r.random() < 0.1:
        v = {"k": "user", "vid": g.vid(), "inner": v}
    rv = v["inner"] if v["k"] == "user" else v
    stream = r.choice(["conform", "conform", "near", "lookalike", "hostile"])
    if stream == "hostile":
        x = g.hostile()
    elif stream == "lookalike":
        x = g.mutate(g.conform(v))
    else:
        x = g.conform(v)
        if stream == "near":
            x = g.near_miss(x)
    return {"env": g.env, "v": v, "x": x, "stream": stream, "classes": g.classes}


def gen_c18_case(g: VGen, opts: dict) -> dict:
    c = gen_core_case(g, dict(opts, depths=[0, 0, 1, 1, 2]))
    c["c18"] = g.rng.randrange(1000)
    return c


def gen_coercion_case(g: VGen, opts: dict) -> dict:
    """C16: Decimal / UUID / date / datetime / tuple validators with their default coercers"""
    from .gen import PARSE_TEXT, S
    r = g.rng
    g.reset()
    ty = r.choice(["decimal", "uuid", "date", "datetime", "tuple"])
    if ty == "tuple":
        k = r.choice(["utuple", "ntuple"])
        if k == "utuple":
            v = {"k": "utuple", "vid": g.vid(), "item": {"k": "always", "vid": 1}, "preds": None, "apreds": None,
                 "coerce": "default"}
        else:
            n = r.choice([0, 1, 2])
            v = {"k": "ntuple", "vid": g.vid(), "fields": [{"k": "always", "vid": 1}] * n, "oc": None,
                 "lenPid": g.pid(), "coerce": "default"}
        c = r.random()
        x = g.hostile() if c < 0.5 else {"t": r.choice(["tuple", "list"]), "oid": g.oid(),
                                          "xs": [g.hostile(2) for _ in range(r.choice([0, 1, 2]))]}
        if c > 0.85:
            x = {"t": "sub", "cls": g.new_class(3, base=r.choice(["tuple", "list"])), "v": x if x["t"] in ("tuple", "list") else {"t": "tuple", "oid": g.oid(), "xs": []}}
            if x["v"]["t"] != x["cls"]["base"]:
                x["v"]["t"] = x["cls"]["base"]
    else:
        v = {"k": "scalar", "vid": g.vid(), "ty": ty, "coerce": "default", "pre": None, "preds": [], "apreds": None}
        c = r.random()
        if c < 0.3:
            x = g.atom(ty)
        elif c < 0.65:
            x = S(r.choice(PARSE_TEXT))
        elif c < 0.75:
            # canonical text of a target value, possibly damaged
            from . import wire as w
            ctx = w.Ctx()
            pv = w.mk_value(ctx, g.atom(ty))
            text = pv.isoformat() if ty in ("date", "datetime") else str(pv)
            if r.random() < 0.3 and text:
                i = r.randrange(len(text))
                text = text[:i] + r.choice(["", " ", "x", "_", "0"]) + text[i + 1:]
            x = S(text)
        elif c < 0.85:
            x = g.sub_value(r.choice(["str", "int", "float"]))
        else:
            x = g.hostile()
    if r.random() < 0.1:
        v = {"k": "user", "vid": g.vid(), "inner": v}
    return {"env": g.env, "v": v, "x": x, "stream": ty, "classes": g.classes}


def gen_record_case(g: VGen, opts: dict) -> dict:
    """C04: a record-shaped validator at the root; present/absent/valid/invalid/extra key patterns"""
    r = g.rng
    g.reset()
    k = r.choice(["record", "dictAny", "dataclass", "namedtuple", "typeddict"])
    v = getattr(g, "gen_" + k)(r.choice([0, 0, 1, 1, 2]), False)
    if r.random() < 0.15:
        v = {"k": "user", "vid": g.vid(), "inner": v}
    rv = v["inner"] if v["k"] == "user" else v
    stream = r.choice(["conform", "pattern", "pattern", "pattern", "near", "hostile"])
    if stream == "hostile":
        x = g.hostile()
    else:
        x = g.conform(v)
        if stream == "near":
            x = g.near_miss(x)
        elif stream == "pattern" and x["t"] == "dict":
            # every declared key independently: absent / valid / invalid; plus maybe an extra key
            kvs = []
            for dk, cv in zip(rv["keys"], rv["vals"]):
                c = r.random()
                if c < 0.3:
                    continue
                val = g.conform(cv)
                if c > 0.7:
                    val = g.mutate(val, root=False)
                kvs.append([dk, val])
            if r.random() < 0.3:
                kvs.append([r.choice([{"t": "str", "s": [122, 122]}, {"t": "int", "i": 77}]), g.hostile(2)])
            r.shuffle(kvs)
            x = {"t": "dict", "oid": g.oid(), "kvs": kvs}
    return {"env": g.env, "v": v, "x": x, "stream": stream, "classes": g.classes}


def gen_wrapper_case(g: VGen, opts: dict) -> dict:
    """C05: a union / optional / maybe / lazy / user wrapper at the root"""
    r = g.rng
    g.reset()
    k = r.choice(["union", "union", "optional", "maybe", "lazy", "lazy", "user", "always", "knr"])
    forced_x = None
    if k == "always":
        v = {"k": "always", "vid": 1}
    elif k == "knr":
        # KeyNotRequired on its own (it is a public Validator): the payload is Just(inner payload), also when the
        # inner payload already is a Maybe (Maybe validators, nested KeyNotRequired, AlwaysValid given a Just)
        c = r.random()
        if c < 0.4:
            inner = g.gen_maybe(r.choice([0, 1]), False)
        elif c < 0.6:
            inner = {"k": "always", "vid": g.vid()}
            if r.random() < 0.7:
                forced_x = r.choice([{"t": "nothing"}, {"t": "just", "oid": g.oid(), "v": g.hostile()}])
        elif c < 0.75:
            inner = {"k": "knr", "vid": g.vid(), "inner": g.gen_v(r.choice([0, 1]))}
        else:
            inner = g.gen_v(r.choice([0, 1]))
        v = {"k": "knr", "vid": g.vid(), "inner": inner}
    elif k == "union":
        n = r.choice([1, 2, 3, 4, 5, 8])
        v = {"k": "union", "vid": g.vid(), "vs": [g.gen_v(r.choice([0, 0, 1])) for _ in range(n)],
             "untyped": r.random() < 0.5}
    else:
        v = getattr(g, "gen_" + k)(r.choice([0, 1, 1, 2]), False)
    stream = r.choice(["conform", "conform", "near", "hostile"])
    if stream == "hostile":
        x = g.hostile()
    else:
        x = g.conform(v, rec_depth=r.choice([0, 1, 2, 4, 6]))
        if stream == "near":
            x = g.near_miss(x)
    if forced_x is not None:
        x = forced_x
    return {"env": g.env, "v": v, "x": x, "stream": stream, "classes": g.classes}


def core_shard(seed: int, shard: int, n: int, opts: dict) -> dict:
    """generate n cases, run real + model, compare; apply the requested property oracles"""
    from . import props
    rng = random.Random(f"{seed}-{shard}-{opts.get('salt', 'core')}")
    g = VGen(rng, async_rate=opts.get("async_rate", 0.25), user_rate=opts.get("user_rate", 0.15),
             special_rate=opts.get("special_rate", 0.08))
    g.zero_factor_rate = opts.get("zero_factor_rate", 0.0)
    cases: List[dict] = list(opts.get("corpus", [])) if shard == 0 else []
    gen = opts.get("gen")
    genf: Callable[[VGen, dict], dict] = gen_core_case if not gen else getattr(__import__("harness." + gen[0], fromlist=[gen[1]]), gen[1])
    for _ in range(n):
        cases.append(genf(g, opts))
    reals: List[Optional[dict]] = []
    reqs: List[dict] = []
    idx: List[int] = []
    unbuildable = 0
    for i, c in enumerate(cases):
        wire.set_classes(c.get("classes", []))
        try:
            real = engine.run_real_case(c)
        except RecursionError:
            real = {"unbuildable": "RecursionError"}
        if real is None or "unbuildable" in real:
            unbuildable += 1
            reals.append(None)
            continue
        reals.append(real)
        for rq in engine.model_requests(c, real):
            reqs.append(rq)
        idx.append(i)
    answers = driver.run_batch(reqs) if reqs else []
    stats: Dict[str, Any] = {"evaluated": 0, "unbuildable": unbuildable, "outcomes": collections.Counter(),
                             "streams": collections.Counter(), "distinct": set(), "nontrivial": set(),
                             "model_fuel": 0, "rejected_non_root": 0, "err_kinds": collections.Counter(),
                             "depths": collections.Counter()}
    disagreements: List[dict] = []
    failures: List[dict] = []
    samples: List[dict] = []
    wanted = opts.get("oracles", [])
    fields = opts.get("fields", engine.FIELDS_ALL)
    for j, i in enumerate(idx):
        c = cases[i]
        wire.set_classes(c.get("classes", []))
        real = reals[i]
        assert real is not None
        model = {"sync": answers[2 * j], "async": answers[2 * j + 1]}
        stats["evaluated"] += 1
        stats["streams"][c.get("stream", "?")] += 1
        h = engine.case_hash({"env": c.get("env"), "v": c["v"], "x": real["xd"]})
        stats["distinct"].add(h)
        nontrivial = False
        for m in engine.MODES:
            if model[m].get("error") == "fuel":
                stats["model_fuel"] += 1
                continue
            oc = engine.outcome_class(real[m])
            stats["outcomes"][m + ":" + oc] += 1
            o = real[m]["out"]
            if "invalid" in o:
                d = engine.inv_depth(o["invalid"])
                stats["depths"][d] += 1
                if d > 1:
                    stats["rejected_non_root"] += 1
                    nontrivial = True
                elif o["invalid"]["err"]["e"] != "type":
                    nontrivial = True    # rejected at the root, but past the exact-type test
                for node in engine.walk_inv(o["invalid"]):
                    stats["err_kinds"][node["err"]["e"]] += 1
            if "valid" in o and c["v"]["k"] not in ("always",):
                nontrivial = True
            df = engine.diff_obs(real[m], model[m], fields, unordered_trace='"setFromList"' in json.dumps([c["v"], c.get("env")]))
            if df:
                disagreements.append({"case": c, "mode": m, "fields": df, "real": real[m], "model": model[m],
                                      "xd": real["xd"]})
        if nontrivial:
            stats["nontrivial"].add(h)
        for pid in wanted:
            props.set_case(c)
            try:
                found = getattr(props, "oracle_" + pid)(c, real, model)
            except Exception as e:  # noqa
                # a result holding an object of a type no validator documents (tagged "unknown" by the wire) cannot be
                # rebuilt as an input; that is the library's doing, not the harness's: report it, do not crash
                blob = json.dumps({m: real[m].get("out") for m in engine.MODES}, default=str)
                if '"t": "unknown"' not in blob:
                    raise
                import re as _re
                ty = _re.search(r'"type": "([^"]*)"', blob)
                found = [f"the result holds an object of a type no validator documents ({ty.group(1) if ty else '?'}); "
                         f"the oracle could not go on ({type(e).__name__})"]
            for f in found:
                failures.append({"property": pid, "case": c, "xd": real["xd"], "what": f,
                                 "real": {m: real[m] for m in engine.MODES}})
        if len(samples) < 2 and nontrivial:
            samples.append({"v": c["v"], "x": real["xd"], "sync": real["sync"]["out"]})
    stats["distinct"] = list(stats["distinct"])
    stats["nontrivial"] = list(stats["nontrivial"])
    for k in ("outcomes", "streams", "err_kinds", "depths"):
        stats[k] = dict(stats[k])
    return {"stats": stats, "disagreements": disagreements[:20], "n_disagreements": len(disagreements),
            "failures": failures[:50], "n_failures": len(failures), "samples": samples}


def merge_stats(results: List[dict]) -> dict:
    tot: Dict[str, Any] = {"evaluated": 0, "unbuildable": 0, "model_fuel": 0, "rejected_non_root": 0}
    counters: Dict[str, collections.Counter] = {k: collections.Counter() for k in ("outcomes", "streams", "err_kinds", "depths")}
    distinct: set = set()
    nontrivial: set = set()
    for r in results:
        s = r["stats"]
        for k in tot:
            tot[k] += s[k]
        for k in counters:
            counters[k].update(s[k])
        distinct.update(s["distinct"])
        nontrivial.update(s["nontrivial"])
    tot.update({k: dict(v) for k, v in counters.items()})
    tot["distinct"] = len(distinct)
    tot["distinct_nontrivial"] = len(nontrivial)
    return tot
