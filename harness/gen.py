"""Generators of validator descriptions and value descriptions (all randomness from one Random)."""
from __future__ import annotations

import copy
import random
from typing import Any, Callable, Dict, List, Optional, Tuple

from .build import ALWAYS_VID, DEFAULT_NONE_VID, ISDICT_VID, NOTBLANK_PID

# whitespace-rich alphabet; contains no cased character outside ASCII (the model's case mapping
# is ASCII-only), CPython's str.isspace set, U+FEFF (ECMA-only whitespace), an astral character
# and a lone surrogate
ALPHABET = [97, 98, 122, 65, 90, 48, 49, 57, 32, 9, 10, 13, 11, 12, 0x1C, 0x1F, 0x85, 0xA0, 0x1680, 0x2003, 0x2028,
            0x3000, 0xFEFF, 46, 45, 95, 64, 43, 0x1F600, 0xD800]
COMMON = [ord(c) for c in "abzAZ01 .-_@\n\t"]
BYTE_ALPHABET = [97, 98, 65, 48, 32, 9, 10, 13, 11, 12, 0, 0x85, 0xA0, 0xFF, 46]


def S(s: str) -> dict:
    return {"t": "str", "s": [ord(c) for c in s]}


def I(i: int) -> dict:
    return {"t": "int", "i": i}


NONE = {"t": "none"}
NOTHING = {"t": "nothing"}


def B(b: bool) -> dict:
    return {"t": "bool", "b": b}


def F(neg: bool, m: int, e: int) -> dict:
    return {"t": "float", "k": "fin", "neg": neg, "m": m, "e": e}


FLOATS = [F(False, 0, 0), F(True, 0, 0), F(False, 1, 0), F(True, 1, 0), F(False, 3, -1), F(False, 1, -1),
          F(False, 5, 0), F(False, 3602879701896397, -55), F(False, 1, 1000), F(False, 1, -1074),
          {"t": "float", "k": "inf", "neg": False}, {"t": "float", "k": "inf", "neg": True},
          {"t": "float", "k": "nan"}, F(False, 2, 0) if False else F(False, 1, 1)]


def D(neg: bool, c: int, e: int) -> dict:
    return {"t": "decimal", "k": "fin", "neg": neg, "c": c, "e": e}


DECIMALS = [D(False, 0, 0), D(True, 0, 0), D(False, 1, 0), D(False, 15, -1), D(False, 150, -2), D(True, 3, 0),
            D(False, 1, 2), D(False, 5, 0), D(False, 25, -1)]
SPECIAL_DECIMALS = [{"t": "decimal", "k": "nan"}, {"t": "decimal", "k": "snan"},
                    {"t": "decimal", "k": "inf", "neg": False}, {"t": "decimal", "k": "inf", "neg": True},
                    D(False, 1, 50), D(False, 1, -50), D(False, 10 ** 30 + 1, 0)]
INTS = [0, 1, -1, 2, 3, -3, 5, 10, 255, 10 ** 400, -(10 ** 20)]
UUIDS = [0, 1, 0x12345678123456781234567812345678, (1 << 128) - 1, 0x6ba7b8109dad11d180b400c04fd430c8]
DATES = [1, 730120, 737425, 737426, 3652059]
# (us, off)
DATETIMES = [(63082281600000000, None), (63082281600000001, None), (63713467445123456, None),
             (63713467445123456, 0), (63713467445123456, 19800), (63713467445123456, -28800),
             (0, None)]

_UUID_TEXT = ["12345678-1234-5678-1234-567812345678", "{12345678-1234-5678-1234-567812345678}",
              "urn:uuid:12345678-1234-5678-1234-567812345678", "12345678123456781234567812345678",
              "1234567812345678123456781234567", " 12345678-1234-5678-1234-567812345678"]
_DEC_TEXT = ["1.5", "1.50", " 1.5 ", "1_0", "1e2", "-0", "NaN", "sNaN", "Infinity", "-inf", "1e999999999",
             "\u0661\u0662", "1.5.0", "", "abc", "0x10", "+3"]
_DATE_TEXT = ["2020-01-01", "20200101", "2020-1-1", "2020-01-01T00:00:00", "0001-01-01", "9999-12-31",
              "2020-02-30", "2020-W01-1", " 2020-01-01"]
_DT_TEXT = ["2020-01-01T00:00:00", "2020-01-01 00:00:00", "2020-01-01T00:00:00.123456", "2020-01-01T00:00:00+05:30",
            "2020-01-01T00:00:00Z", "20200101T000000", "2020-01-01", "2020-01-01T25:00:00", "2020-01-01T00:00"]
PARSE_TEXT = _UUID_TEXT + _DEC_TEXT + _DATE_TEXT + _DT_TEXT


class Gen:
    def __init__(self, rng: random.Random) -> None:
        self.rng = rng
        self.reset()

    def reset(self) -> None:
        self._vid = 100
        self._pid = 100
        self._oid = 1000
        self._cid = 10
        self._cb = 500
        self.classes: List[dict] = []

    # ---- ids
    def vid(self) -> int:
        self._vid += 1
        return self._vid

    def pid(self) -> int:
        self._pid += 1
        return self._pid

    def oid(self) -> int:
        self._oid += 1
        return self._oid

    def cb(self) -> int:
        self._cb += 1
        return self._cb

    def cid(self) -> int:
        self._cid += 1
        return self._cid

    def chance(self, p: float) -> bool:
        return self.rng.random() < p

    # ---- atoms
    def gen_str(self, maxlen: int = 4, common: bool = False) -> dict:
        n = self.rng.choice([0, 1, 1, 2, 2, 3, maxlen])
        al = COMMON if (common or self.chance(0.5)) else ALPHABET
        return {"t": "str", "s": [self.rng.choice(al) for _ in range(n)]}

    def gen_bytes(self) -> dict:
        n = self.rng.choice([0, 1, 2, 3])
        return {"t": "bytes", "s": [self.rng.choice(BYTE_ALPHABET) for _ in range(n)]}

    def atom(self, ty: str, special: bool = True) -> dict:
        r = self.rng
        if ty == "none":
            return NONE
        if ty == "bool":
            return B(r.choice([True, False]))
        if ty == "int":
            return I(r.choice(INTS))
        if ty == "float":
            return copy.deepcopy(r.choice(FLOATS if special else FLOATS[:10]))
        if ty == "str":
            if self.chance(0.15):
                return S(r.choice(PARSE_TEXT))
            return self.gen_str()
        if ty == "bytes":
            return self.gen_bytes()
        if ty == "decimal":
            if special and self.chance(0.12):
                return copy.deepcopy(r.choice(SPECIAL_DECIMALS))
            return copy.deepcopy(r.choice(DECIMALS))
        if ty == "uuid":
            return {"t": "uuid", "n": r.choice(UUIDS)}
        if ty == "date":
            return {"t": "date", "o": r.choice(DATES)}
        if ty == "datetime":
            us, off = r.choice(DATETIMES)
            return {"t": "datetime", "us": us, "off": off}
        raise ValueError(ty)

    # ---- classes
    def new_class(self, kind: int, fields: Optional[List[list]] = None, base: str = "", hashable: bool = False,
                  slots: bool = False, parent: Optional[int] = None) -> dict:
        c = {"id": self.cid(), "kind": kind, "hashable": hashable, "slots": slots,
             "fields": fields or [], "base": base}
        if parent is not None:
            c["parent"] = parent     # a subclass of the (dataclass / NamedTuple) class with that id
        if kind == 2:
            c["hashable"] = True
        if kind == 3:
            c["hashable"] = base not in ("list", "set", "dict")
        self.classes.append(c)
        return c

    def class_fields(self, c: dict) -> List[list]:
        """[name, default] pairs of a class known to this generator (descriptions of values may omit them)"""
        for k in self.classes:
            if k["id"] == c.get("id"):
                return k.get("fields") or []
        return c.get("fields") or []

    def sub_value(self, base_ty: str) -> dict:
        c = self.new_class(3, base=base_ty)
        inner = self.atom(base_ty) if base_ty not in ("list", "dict", "set", "tuple") else self.container_of(base_ty)
        return {"t": "sub", "cls": c, "v": inner}

    def container_of(self, t: str, depth: int = 0) -> dict:
        if t == "dict":
            return {"t": "dict", "oid": self.oid(), "kvs": []}
        return {"t": t, "oid": self.oid(), "xs": []}

    def hostile(self, depth: int = 0) -> dict:
        """arbitrary values of every kind"""
        r = self.rng
        k = r.random()
        if k < 0.45 or depth > 2:
            ty = r.choice(["none", "bool", "int", "float", "str", "bytes", "decimal", "uuid", "date", "datetime"])
            return self.atom(ty)
        if k < 0.53:
            return self.sub_value(r.choice(["int", "str", "float", "bytes", "dict", "list", "tuple", "set"]))
        if k < 0.57:
            return NOTHING
        if k < 0.62:
            return {"t": "just", "oid": self.oid(), "v": self.hostile(depth + 1)}
        if k < 0.66:
            if k < 0.635 and depth <= 1:
                # an instance of some dataclass (one field), as a value like any other
                c = self.new_class(1, fields=[["q", None]])
                return {"t": "inst", "oid": self.oid(), "doid": self.oid(), "cls": c, "names": ["q"],
                        "vals": [self.atom(r.choice(["int", "str", "none"]))]}
            c = self.new_class(0, hashable=self.chance(0.5))
            return {"t": "inst", "oid": self.oid(), "doid": 0, "cls": c, "names": [], "vals": []}
        n = r.choice([0, 1, 2, 3])
        if k < 0.76:
            return {"t": "list", "oid": self.oid(), "xs": [self.hostile(depth + 1) for _ in range(n)]}
        if k < 0.84:
            return {"t": "tuple", "oid": self.oid(), "xs": [self.hostile(depth + 1) for _ in range(n)]}
        if k < 0.90:
            return {"t": "set", "oid": self.oid(), "xs": self.distinct([self.hashable_val(depth + 1) for _ in range(n)])}
        ks = self.distinct([self.hashable_val(depth + 1) for _ in range(n)])
        return {"t": "dict", "oid": self.oid(), "kvs": [[k2, self.hostile(depth + 1)] for k2 in ks]}

    def hashable_val(self, depth: int = 0) -> dict:
        r = self.rng
        if depth > 2 or self.chance(0.8):
            ty = r.choice(["none", "bool", "int", "float", "str", "bytes", "decimal", "uuid", "date", "datetime", "str", "int"])
            v = self.atom(ty)
            # NaN and sNaN are kept out of containers (identity shortcuts / hash raise)
            if v.get("k") in ("nan", "snan"):
                return I(7)
            return v
        return {"t": "tuple", "oid": self.oid(), "xs": [self.hashable_val(depth + 1) for _ in range(r.choice([0, 1, 2]))]}

    def distinct(self, vals: List[dict]) -> List[dict]:
        """drop values that Python would merge as set members / dict keys (numeric tower!)"""
        out: List[dict] = []
        seen: List[Any] = []
        for v in vals:
            key = py_key(v)
            if key not in seen:
                seen.append(key)
                out.append(v)
        return out


def py_key(v: dict) -> Any:
    """a hashable Python value equal (==) to the described one, for deduplication in generators"""
    from . import wire
    ctx = wire.Ctx()
    try:
        x = wire.mk_value(ctx, v)
        hash(x)
        return x
    except Exception:
        return repr(v)
