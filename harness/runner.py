"""One check run: proof obligations, correspondence, oracles, decision, evidence."""
from __future__ import annotations

import json
import os
import re
import subprocess
import sys
import time
from typing import Any, Dict, List, Optional, Tuple

from . import engine, findings, streams

VERIF = os.path.dirname(os.path.dirname(os.path.abspath(__file__)))
LEAN = os.path.join(VERIF, "lean")
ALLOWED_AXIOMS = {"propext", "Quot.sound", "Classical.choice"}
FORBIDDEN = re.compile(r"\bsorry\b|\badmit\b|^\s*axiom\s|native_decide|bv_decide|implemented_by|\bunsafe\s|maxHeartbeats\s+0")


class Broken(Exception):
    """the check itself is broken (exit 2), not a verdict"""


def sh(cmd: List[str], cwd: str, timeout: int = 1800) -> Tuple[int, str]:
    p = subprocess.run(cmd, cwd=cwd, stdout=subprocess.PIPE, stderr=subprocess.STDOUT, timeout=timeout)
    return p.returncode, p.stdout.decode(errors="replace")


def strip_comments(src: str) -> str:
    src = re.sub(r"/-.*?-/", "", src, flags=re.S)
    return re.sub(r"--.*", "", src)


def lean_obligations(pid: str, theorems: List[str], tier: str, regen: bool = True,
                     modules: Optional[List[str]] = None) -> dict:
    """(re)build the Lean library + driver and audit the property's theorems"""
    res: Dict[str, Any] = {"obligations": 0, "discharged": 0, "axioms": {}, "problems": [], "theorems": theorems}
    if regen:
        from . import tables
        tables.regenerate()
    # only the modules this property's theorems live in (and what they import) are built: a proof that no longer
    # checks in another property's module - e.g. one about a table regenerated from the source - is that
    # property's broken obligation, not this one's
    mods = sorted(set(modules or ["KodaModel.Properties." + pid]))
    rc, out = sh(["lake", "build"] + mods + ["kvdriver"], LEAN)
    res["build_ok"] = rc == 0
    res["modules"] = mods
    if rc != 0:
        errs = [l for l in out.splitlines() if l.startswith("error:") or "✖" in l]
        res["problems"].append("lake build failed (a proof obligation no longer checks): " + " | ".join(errs)[:1500])
        # which obligations are lost?  every theorem of the property counts as undischarged
        res["obligations"] = max(1, len(theorems))
        # the model driver does not depend on the proof files: build it alone so that the failing-input
        # search can still run the model next to the real code
        rc2, out2 = sh(["lake", "build", "kvdriver"], LEAN)
        res["driver_ok"] = rc2 == 0
        return res
    res["driver_ok"] = True
    # forbidden constructs anywhere in the library
    bad = []
    for root, _, files in os.walk(os.path.join(LEAN, "KodaModel")):
        for fn in files:
            if fn.endswith(".lean"):
                src = strip_comments(open(os.path.join(root, fn)).read())
                for i, line in enumerate(src.splitlines()):
                    if FORBIDDEN.search(line):
                        bad.append(f"{fn}:{i + 1}: {line.strip()[:80]}")
    if bad:
        res["problems"].append("forbidden constructs: " + "; ".join(bad[:5]))
    if not theorems:
        return res
    audit = os.path.join(LEAN, ".lake", f"Audit_{pid}.lean")
    with open(audit, "w") as f:
        f.write("".join(f"import {m}\n" for m in mods) + "open Koda\n")
        for t in theorems:
            f.write(f"#print axioms {t}\n")
    rc, out = sh(["lake", "env", "lean", audit], LEAN)
    res["obligations"] = len(theorems)
    # parse: "'name' depends on axioms: [a, b]" / "'name' does not depend on any axioms"
    seen: Dict[str, List[str]] = {}
    for m in re.finditer(r"'([^']+)' (does not depend on any axioms|depends on axioms: \[([^\]]*)\])", out, flags=re.S):
        name = m.group(1)
        axs = [a.strip() for a in (m.group(3) or "").replace("\n", " ").split(",") if a.strip()]
        seen[name] = axs
    for t in theorems:
        full = t if t.startswith("Koda.") else "Koda." + t
        axs = seen.get(full, seen.get(t))
        if axs is None:
            res["problems"].append(f"theorem {t} does not check: " + out[-800:].replace("\n", " | "))
            continue
        res["axioms"][t] = axs
        extra = [a for a in axs if a not in ALLOWED_AXIOMS]
        if extra:
            res["problems"].append(f"theorem {t} depends on non-standard axioms {extra}")
            continue
        res["discharged"] += 1
    if tier == "thorough":
        rc, out = sh(["lake", "env", "leanchecker"] + mods, LEAN, timeout=3600)
        res["leanchecker"] = "ok" if rc == 0 else out[-500:]
        if rc != 0:
            res["problems"].append("leanchecker rejected " + ",".join(mods))
    return res


def write_replay(pid: str, seed: int, n: int, payload: dict) -> str:
    d = os.path.join(VERIF, "replays")
    os.makedirs(d, exist_ok=True)
    path = os.path.join(d, f"{pid}-{seed}-{n}.json")
    with open(path, "w") as f:
        json.dump(payload, f, indent=1, default=str)
    return path


def decide_and_report(pid: str, tier: str, seed: int, t0: float, level: str, ob: dict, run: dict,
                      search: Any, spec: dict) -> int:
    """print KNOWN-FINDING / VIOLATION lines, write evidence, return the exit code"""
    known = findings.load()
    new_failures: List[dict] = []
    known_hit: Dict[str, int] = {}
    known_example: Dict[str, dict] = {}
    for f in run.get("failures", []):
        k = findings.classify(known, pid, f)
        if k is not None:
            known_hit[k["id"]] = known_hit.get(k["id"], 0) + 1
            known_example.setdefault(k["id"], f)
        else:
            new_failures.append(f)
    for kid, cnt in sorted(known_hit.items()):
        k = [x for x in known if x["id"] == kid][0]
        print(f"KNOWN-FINDING: property={pid} {kid}: {k['what']} (seen {cnt}x this run)")
    exit_code = 0
    violations = 0
    nrep = 0
    if new_failures:
        f = new_failures[0]
        path = write_replay(pid, seed, nrep, {
            "property": pid, "kind": "oracle-failure", "what": f["what"], "case": f["case"], "input": f["xd"],
            "observed": f.get("real"), "n_similar": len(new_failures),
            "replay": f"./check {pid} --replay replays/{pid}-{seed}-{nrep}.json"})
        print(f"VIOLATION property={pid} replay={path}")
        violations = len(new_failures)
        exit_code = 1
    else:
        broken: List[str] = list(ob.get("problems", []))
        if run.get("n_disagreements", 0):
            broken.append(f"correspondence: model and implementation disagree on {run['n_disagreements']} case(s)")
        if broken:
            # a proof obligation or the correspondence no longer checks: search for a failing input
            found = search() if search else None
            if found:
                path = write_replay(pid, seed, nrep, {
                    "property": pid, "kind": "found-by-search", "what": found["what"], "case": found["case"],
                    "input": found["xd"], "observed": found.get("real"), "broken": broken})
                print(f"VIOLATION property={pid} replay={path}")
            else:
                path = write_replay(pid, seed, nrep, {
                    "property": pid, "kind": "no-failing-input-found", "no_longer_checks": broken,
                    "disagreements": run.get("disagreements", [])[:3]})
                print(f"VIOLATION property={pid} replay={path} no-failing-input-found")
            violations = 1
            exit_code = 1
    cov: Dict[str, Any] = {
        "obligations": ob["obligations"], "discharged": ob["discharged"],
        "checker_cmd": "cd lean && lake build %s kvdriver && lake env lean .lake/Audit_%s.lean  (#print axioms per theorem%s)" % (
            " ".join(ob.get("modules", [])), pid,
            "; lake env leanchecker " + " ".join(ob.get("modules", [])) if tier == "thorough" else ""),
        "trusted_base": spec.get("trusted_base", []) + [
            "Lean 4.33.0 kernel; axioms per theorem listed under 'axioms'",
            "hand-written Lean model tied to /repo by differential execution (harness/, Driver/) on this run",
            "CPython 3.12.1 + stdlib as the meaning of str/Decimal/UUID/datetime/re/dict/set operations"],
        "theorems": ob.get("theorems", []), "axioms": ob.get("axioms", {}),
        "evaluations": run.get("evaluations", 0), "distinct_nontrivial": run.get("distinct_nontrivial", 0),
        "rule": spec.get("rule", ""), "samples": run.get("samples", [])[:3] or [{"note": "no sample"}],
        "traces_validated_against_impl": run.get("evaluations", 0),
        "disagreements": run.get("n_disagreements", 0),
        "known_findings_seen": known_hit, "distribution": run.get("distribution", {}),
        "exhaustive": bool(run.get("exhaustive", False)),
    }
    if "leanchecker" in ob:
        cov["leanchecker"] = ob["leanchecker"]
    if level != "proof":
        cov["programs"] = run.get("evaluations", 0)
        cov["disagreements_checked"] = run.get("n_disagreements", 0)
    ev = {"property_id": pid, "tier": tier, "seed": seed, "level": level, "coverage": cov,
          "assumptions": spec.get("assumptions", []), "wall_s": round(time.time() - t0, 2), "violations": violations}
    os.makedirs(os.path.join(VERIF, "evidence"), exist_ok=True)
    with open(os.path.join(VERIF, "evidence", f"{pid}.json"), "w") as f:
        json.dump(ev, f, indent=1, default=str)
    return exit_code
