"""./check Cxx --replay <file>: re-run the recorded case on the real code (and the model) and re-apply the oracle."""
from __future__ import annotations

import json
import sys

from . import driver, engine, props, wire


def replay(pid: str, path: str) -> int:
    r = json.load(open(path))
    case = r.get("case")
    if case is None and r.get("disagreements"):
        case = r["disagreements"][0]["case"]
    if case is None:
        print("replay file names what no longer checks; there is no concrete case to replay:")
        print(json.dumps(r.get("no_longer_checks"), indent=1))
        return 1
    if pid == "C20":
        from . import cache_stream
        wire.set_classes(case.get("classes", []))
        real = cache_stream.run_real(case)
        fails = real["fails"] if real else ["case cannot be built"]
    elif "v" in case and "x" in case:
        wire.set_classes(case.get("classes", []))
        real = engine.run_real_case(case)
        if real is None or "unbuildable" in real:
            print("case cannot be built:", real)
            return 2
        answers = driver.run_batch(engine.model_requests(case, real))
        model = {"sync": answers[0], "async": answers[1]}
        for m in engine.MODES:
            print(f"[{m}] real : {json.dumps(real[m]['out'])[:600]}")
            print(f"[{m}] model: {json.dumps(model[m].get('out'))[:600]}")
            d = engine.diff_obs(real[m], model[m])
            if d:
                print(f"[{m}] model and implementation differ on {d}")
        props.set_case(case)
        fails = getattr(props, "oracle_" + pid)(case, real, model) if hasattr(props, "oracle_" + pid) else []
    else:
        from . import registry
        spec = registry.PROPS[pid]
        fn = spec.get("replay")
        if not fn:
            print("no replay function for this kind of case")
            return 2
        fails = fn(case)
    for f in fails:
        print("FAIL:", f)
    if fails:
        print(f"VIOLATION property={pid} replay={path}")
        return 1
    print("property holds on the replayed case")
    return 0
