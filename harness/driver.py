"""Talking to the compiled Lean model driver (one JSON line in, one JSON line out)."""
from __future__ import annotations

import json
import os
import subprocess
import tempfile
from typing import Any, Iterable, List

VERIF = os.path.dirname(os.path.dirname(os.path.abspath(__file__)))
KVDRIVER = os.path.join(VERIF, "lean", ".lake", "build", "bin", "kvdriver")


def run_batch(requests: Iterable[dict]) -> List[dict]:
    """send all requests to one driver process; returns one answer per request"""
    with tempfile.TemporaryDirectory(prefix="kvd") as td:
        inp = os.path.join(td, "in.jsonl")
        n = 0
        with open(inp, "w") as f:
            for r in requests:
                f.write(json.dumps(r, separators=(",", ":")))
                f.write("\n")
                n += 1
        with open(inp, "rb") as fin:
            p = subprocess.run([KVDRIVER], stdin=fin, stdout=subprocess.PIPE, stderr=subprocess.PIPE)
        if p.returncode != 0:
            raise RuntimeError(f"kvdriver exited {p.returncode}: {p.stderr.decode()[:500]}")
        lines = p.stdout.decode().splitlines()
        if len(lines) != n:
            raise RuntimeError(f"kvdriver answered {len(lines)} lines for {n} requests: {p.stderr.decode()[:500]}")
        return [json.loads(l) for l in lines]
