"""C08 / C09: `validate_signature` on generated functions (all five parameter kinds, annotated or not,
defaults, overrides, ignore_args / ignore_return, sync and async), every kind of call shape, valid /
invalid values per argument and for the return value.

The model-free oracle runs each checked argument's validator alone and compares: body ran iff all
accepted; error keys = failing parameters; delivered values = payloads for checked arguments, the
caller's own objects otherwise; the caller gets the body's own result or exception."""
from __future__ import annotations

import collections
import inspect
import json
import os
import random
import typing
from typing import Any, Dict, List, Optional, Tuple

from . import build, driver, engine, oracle, props, wire
from .genv import VGen


class BodyExc(Exception):
    def __init__(self, i: int) -> None:
        super().__init__(i)
        self.i = i


KINDS = ["posOnly", "posOrKw", "varPos", "kwOnly", "varKw"]
PK = {"posOnly": inspect.Parameter.POSITIONAL_ONLY, "posOrKw": inspect.Parameter.POSITIONAL_OR_KEYWORD,
      "varPos": inspect.Parameter.VAR_POSITIONAL, "kwOnly": inspect.Parameter.KEYWORD_ONLY,
      "varKw": inspect.Parameter.VAR_KEYWORD}


def gen_case(g: VGen, opts: dict) -> dict:
    while True:
        c = _gen_case(g, opts)
        if '"lazy"' not in json.dumps(c["params"]) + json.dumps(c["ret"]):
            return c      # (named recursive validators need an environment; they are exercised by C05)


def transforming(g: VGen) -> dict:
    """a validator whose payload always differs from the argument: delivery of the payload (C09) is then observable
    for whatever parameter kind it annotates"""
    r = g.rng
    c = r.random()
    if c < 0.4:
        return {"k": "scalar", "vid": g.vid(), "ty": "str", "coerce": None, "preds": [], "apreds": None,
                "pre": [{"k": "user", "pid": g.pid(), "fn": {"f": "appendStr", "s": [33]}}]}
    if c < 0.75:
        return {"k": "scalar", "vid": g.vid(), "ty": "int", "coerce": None, "preds": [], "apreds": None,
                "pre": [{"k": "user", "pid": g.pid(), "fn": {"f": "addInt", "k": r.choice([1, 10])}}]}
    return {"k": "list", "vid": g.vid(), "preds": None, "apreds": None, "coerce": None,
            "item": {"k": "scalar", "vid": g.vid(), "ty": "str", "coerce": None, "preds": [], "apreds": None,
                     "pre": [{"k": "user", "pid": g.pid(), "fn": {"f": "appendStr", "s": [63]}}]}}


def _gen_case(g: VGen, opts: dict) -> dict:
    r = g.rng
    g.reset()
    is_async = r.random() < 0.45
    # a coroutine function's validators may have async-only checks (they are awaited); they suspend once or twice
    g.async_rate = 0.15 if is_async else 0.0
    g.user_rate = 0.1
    params: List[dict] = []

    def mk(name: str, kind: str) -> dict:
        ann = r.random() < 0.7
        ov = r.random() < 0.2
        p = {"name": name, "kind": kind, "annotated": ann, "overridden": ov, "ignored": r.random() < 0.1,
             "default": kind in ("posOnly", "posOrKw", "kwOnly") and r.random() < 0.3}
        if ann:
            p["av"] = transforming(g) if r.random() < 0.3 else g.gen_v(r.choice([0, 0, 1]))
        if ov:
            p["ov"] = transforming(g) if r.random() < 0.3 else g.gen_v(r.choice([0, 0, 1]))
        return p
    npo, npk, nko = r.choice([0, 0, 1, 2]), r.choice([0, 1, 1, 2]), r.choice([0, 0, 1, 2])
    for i in range(npo):
        params.append(mk(f"p{i}", "posOnly"))
    for i in range(npk):
        params.append(mk(f"q{i}", "posOrKw"))
    if r.random() < 0.4:
        params.append(mk("a", "varPos"))
    for i in range(nko):
        params.append(mk(f"k{i}", "kwOnly"))
    if r.random() < 0.4:
        params.append(mk("kw", "varKw"))
    # defaults must be trailing among positional parameters
    seen_default = False
    for p in params:
        if p["kind"] in ("posOnly", "posOrKw"):
            if seen_default:
                p["default"] = True
            seen_default = seen_default or p["default"]
    ret = {"annotated": r.random() < 0.6, "overridden": r.random() < 0.15, "ignore": r.random() < 0.15}
    if ret["annotated"]:
        ret["av"] = g.gen_v(0)
        if r.random() < 0.12:
            # `-> None`, written as the bare constant (half of the time; otherwise Annotated[Any, none_validator])
            ret["av"] = {"k": "none", "vid": g.vid(), "coerce": None}
    if ret["overridden"]:
        ret["ov"] = g.gen_v(0)
    extra_ignored = ["zz"] if r.random() < 0.2 else []
    # a name in ignore_args also exempts a **kwargs entry of that name (the name of an ignored positional-only, *args
    # or **kwargs parameter can only reappear there)
    extra_ignored += [p["name"] for p in params if p["kind"] in ("posOnly", "varPos", "varKw") and p["ignored"]]

    def eff(p: dict) -> Optional[dict]:
        """the property's reading: checked iff annotated or overridden, and not ignored"""
        if p.get("ignored") or p.get("ignore"):
            return None
        if p.get("overridden"):
            return p["ov"]
        if p.get("annotated"):
            return p["av"]
        return None
    # ---- a legal call shape
    pos = [p for p in params if p["kind"] in ("posOnly", "posOrKw")]
    args, kwargs, legal = _gen_call(g, params, eff)
    # a second, independent call of the same function: the two are also made concurrently (coroutine functions)
    args2, kwargs2, legal2 = _gen_call(g, params, eff)
    for d in props.find_all([p.get("av") for p in params] + [p.get("ov") for p in params] + [ret.get("av"), ret.get("ov")], []):
        for ap in (d.get("apreds") or []) if isinstance(d, dict) else []:
            ap["yields"] = r.choice([1, 2])
    # ---- the body
    rv = eff(ret) if (ret["annotated"] or ret["overridden"]) else None
    body: Dict[str, Any] = {"exc": g.cb()} if r.random() < 0.15 else {"ret": value_for(g, rv)}
    return {"params": params, "ret": ret, "extra_ignored": extra_ignored, "async": is_async, "args": args,
            "kwargs": kwargs, "body": body, "classes": g.classes, "legal": legal, "real_def": r.random() < 0.3,
            "args2": args2, "kwargs2": kwargs2, "legal2": legal2}


def _gen_call(g: VGen, params: List[dict], eff: Any) -> Tuple[List[dict], List[list], bool]:
    r = g.rng
    args: List[dict] = []
    kwargs: List[list] = []
    pos = [p for p in params if p["kind"] in ("posOnly", "posOrKw")]
    n_pos = 0
    stop = False
    for p in pos:
        must_pos = p["kind"] == "posOnly"
        if stop or (p["default"] and r.random() < 0.4):
            stop = True
            if not p["default"] and p["kind"] == "posOrKw":
                kwargs.append([p["name"], value_for(g, eff(p))])
            continue
        if must_pos or r.random() < 0.6:
            args.append(value_for(g, eff(p)))
            n_pos += 1
        else:
            stop = True
            kwargs.append([p["name"], value_for(g, eff(p))])
    # a positional-only parameter without default that was skipped would make the call illegal
    legal = all((i < n_pos) or p["default"] or (p["kind"] == "posOrKw" and any(k[0] == p["name"] for k in kwargs))
                for i, p in enumerate(pos))
    var = [p for p in params if p["kind"] == "varPos"]
    if var and n_pos == len(pos):
        for _ in range(r.choice([0, 0, 1, 2, 3])):
            args.append(value_for(g, eff(var[0])))
    for p in params:
        if p["kind"] == "kwOnly":
            if p["default"] and r.random() < 0.4:
                continue
            kwargs.append([p["name"], value_for(g, eff(p))])
    vk = [p for p in params if p["kind"] == "varKw"]
    if vk:
        # (names that cannot bind to their namesake - positional-only, *args, **kwargs itself - arrive through **kwargs)
        for name in r.sample(["x", "y", "zz", LONG_NAME] + [p["name"] for p in params if p["kind"] in ("posOnly", "varPos", "varKw")], r.choice([0, 0, 1, 2])):
            if not any(k[0] == name for k in kwargs):
                kwargs.append([name, value_for(g, eff(vk[0]))])
    r.shuffle(kwargs)
    return args, kwargs, legal


# a keyword long enough that its `name=value` line in the rendered failure exceeds any fixed column budget
LONG_NAME = "q" + "_long_keyword" * 5


def value_for(g: VGen, v: Optional[dict]) -> dict:
    r = g.rng
    if v is None:
        return g.hostile(1)
    x = g.conform(v)
    c = r.random()
    if c < 0.3:
        x = g.near_miss(x)
    elif c < 0.4:
        x = g.hostile(1)
    return x


def eff_validator(p: dict) -> Optional[dict]:
    if p.get("ignored") or p.get("ignore"):
        return None
    if p.get("overridden"):
        return p["ov"]
    if p.get("annotated"):
        return p["av"]
    return None


def make_function(ctx: wire.Ctx, case: dict, rec: List[Any]) -> Tuple[Any, Dict[str, Any]]:
    """the function to decorate + the real validator objects per parameter (by name; '->' = return)"""
    from koda_validate.signature import validate_signature
    from koda_validate.signature import RETURN_OVERRIDE_KEY
    vals: Dict[str, Any] = {}
    overrides: Dict[Any, Any] = {}
    ignore = set(case["extra_ignored"])
    sig_params = []
    for p in case["params"]:
        ann: Any = inspect.Parameter.empty
        if p["annotated"]:
            av = build.mk_validator(ctx, p["av"], [])
            # (a validator among the metadata is honoured wherever it stands)
            ann = typing.Annotated[Any, "doc", av] if p["av"].get("vid", 1) % 3 == 0 else typing.Annotated[Any, av]
            vals[p["name"]] = av
        if p["overridden"]:
            ov = build.mk_validator(ctx, p["ov"], [])
            overrides[p["name"]] = ov
            vals[p["name"]] = ov
        if p["ignored"]:
            ignore.add(p["name"])
            vals.pop(p["name"], None)
        dflt = ("DEFAULT", p["name"]) if p["default"] else inspect.Parameter.empty
        sig_params.append(inspect.Parameter(p["name"], PK[p["kind"]], default=dflt, annotation=ann))
    ret = case["ret"]
    rann: Any = inspect.Signature.empty
    if ret["annotated"]:
        rv = build.mk_validator(ctx, ret["av"], [])
        rann = typing.Annotated[Any, "doc", rv] if ret["av"].get("vid", 1) % 3 == 0 else typing.Annotated[Any, rv]
        if ret["av"]["k"] == "none" and not ret["av"].get("coerce") and ret["av"]["vid"] % 2 == 0:
            rann = None      # the annotation a function returning nothing actually carries
        vals["->"] = rv
    if ret["overridden"]:
        ov = build.mk_validator(ctx, ret["ov"], [])
        overrides[RETURN_OVERRIDE_KEY] = ov
        vals["->"] = ov
    if ret["ignore"]:
        vals.pop("->", None)
    body = case["body"]

    def outcome() -> Any:
        if "exc" in body:
            raise BodyExc(body["exc"])
        return ctx.memo.setdefault(("bodyret",), wire.mk_value(ctx, body["ret"]))
    signature = inspect.Signature(sig_params, return_annotation=rann)
    if case["real_def"]:
        # a real `def` with this parameter list: the body records what each parameter is bound to
        src_params = []
        last_kind = None
        for p in case["params"]:
            if last_kind == "posOnly" and p["kind"] != "posOnly":
                src_params.append("/")
            if p["kind"] == "kwOnly" and last_kind not in ("varPos", "kwOnly"):
                src_params.append("*")
            star = {"varPos": "*", "varKw": "**"}.get(p["kind"], "")
            txt = star + p["name"]
            if p["annotated"]:
                txt += f": ANN_{p['name']}"
            if p["default"]:
                txt += f" = DFLT_{p['name']}"
            src_params.append(txt)
            last_kind = p["kind"]
        if last_kind == "posOnly":
            src_params.append("/")
        names = [p["name"] for p in case["params"]]
        rtxt = " -> RANN" if ret["annotated"] else ""
        src = (("async " if case["async"] else "") + f"def f({', '.join(src_params)}){rtxt}:\n"
               f"    '''doc of f'''\n    REC.append(('bound', {{{', '.join(repr(n) + ': ' + n for n in names)}}}))\n    return OUTCOME()\n")
        env: Dict[str, Any] = {"REC": rec, "OUTCOME": outcome, "RANN": rann}
        for p, sp in zip(case["params"], sig_params):
            env["ANN_" + p["name"]] = sp.annotation
            env["DFLT_" + p["name"]] = sp.default
        ns: Dict[str, Any] = {}
        exec(compile(src, "<gen>", "exec", dont_inherit=True), env, ns)
        f = ns["f"]
    else:
        if case["async"]:
            async def f(*args: Any, **kwargs: Any) -> Any:
                """doc of f"""
                rec.append(("raw", args, kwargs))
                return outcome()
        else:
            def f(*args: Any, **kwargs: Any) -> Any:  # type: ignore
                """doc of f"""
                rec.append(("raw", args, kwargs))
                return outcome()
        f.__signature__ = signature  # type: ignore
    kw: Dict[str, Any] = {}
    if ignore:
        kw["ignore_args"] = ignore
    if ret["ignore"]:
        kw["ignore_return"] = True
    if overrides:
        kw["overrides"] = overrides
    # history: the same option objects (the caller's `ignore_args` set, `overrides` dict) have already been used to
    # decorate this function once; what the decorator builds from them the second time must be the same
    try:
        validate_signature(f, **kw)
    except Exception:  # noqa
        pass
    wrapped = validate_signature(f, **kw)
    return (f, wrapped), vals


def concurrent_calls(ctx: wire.Ctx, case: dict, wrapped: Any, args: List[Any], kwargs: Dict[str, Any]) -> List[str]:
    """two calls of one decorated coroutine function in flight at the same time each end as they end alone"""
    import asyncio
    from koda_validate.signature import InvalidArgsError, InvalidReturnError
    args2 = [wire.mk_value(ctx, a) for a in case["args2"]]
    kwargs2 = {k: wire.mk_value(ctx, v) for k, v in case["kwargs2"]}

    async def classify(a: List[Any], k: Dict[str, Any]) -> Any:
        try:
            await wrapped(*a, **k)
            return ("returned",)
        except InvalidArgsError as e:
            return ("invalidArgs", tuple(sorted(e.errs.keys())))
        except InvalidReturnError:
            return ("invalidReturn",)
        except BodyExc as e:
            return ("bodyRaised", e.i)
        except BaseException as e:  # noqa
            return ("raised", type(e).__name__)

    async def both() -> Any:
        return await asyncio.gather(classify(args, kwargs), classify(args2, kwargs2))
    solo1 = build.drive(classify(args, kwargs))
    solo2 = build.drive(classify(args2, kwargs2))
    if build.drive(classify(args, kwargs)) != solo1:
        return []        # not even repeatable alone (a stateful callback): nothing to compare with
    t1, t2 = build.drive(both())
    if (t1, t2) != (solo1, solo2):
        return [f"[C08] two calls in flight at the same time end as {t1} / {t2}; alone they end as {solo1} / {solo2}"]
    return []


def run_case(case: dict) -> Tuple[Optional[str], dict, List[str], Optional[dict]]:
    from koda_validate.signature import InvalidArgsError, InvalidReturnError
    ctx = wire.Ctx()
    rec: List[Any] = []
    try:
        (f, wrapped), vals = make_function(ctx, case, rec)
        args = [wire.mk_value(ctx, a) for a in case["args"]]
        kwargs = {k: wire.mk_value(ctx, v) for k, v in case["kwargs"]}
    except Exception as e:  # noqa
        return f"{type(e).__name__}: {e}", {}, [], None
    fails: List[str] = []
    # metadata: name, docstring, coroutine-ness
    if getattr(wrapped, "__name__", None) != f.__name__:
        fails.append(f"[C09] the decorated callable lost the original's name ({getattr(wrapped, '__name__', None)!r})")
    if getattr(wrapped, "__doc__", None) != f.__doc__:
        fails.append("[C09] the decorated callable lost the original's docstring")
    if inspect.iscoroutinefunction(wrapped) != inspect.iscoroutinefunction(f):
        fails.append("[C09] the decorated callable changed coroutine-ness")
    obs: Dict[str, Any] = {}
    try:
        r = wrapped(*args, **kwargs)
        if case["async"]:
            r = build.drive(r)
        obs["out"] = {"returned": wire.canon_value(ctx, r)}
        obs["_ret"] = r
    except InvalidArgsError as e:
        obs["out"] = {"invalidArgs": sorted(e.errs.keys())}
        try:
            str(e)
        except Exception as e2:  # noqa
            fails.append(f"InvalidArgsError message rendering raised {type(e2).__name__}")
    except InvalidReturnError as e:
        obs["out"] = {"invalidReturn": True}
    except BodyExc as e:
        obs["out"] = {"bodyRaised": e.i}
    except RecursionError:
        raise
    except TypeError as e:
        obs["out"] = {"raised": "TypeError", "msg": str(e)[:100]}
    except BaseException as e:  # noqa
        obs["out"] = {"raised": wire.exn_name(e)}
        if os.environ.get("VERIF_DEBUG"):
            import traceback
            traceback.print_exc()
    obs["ran"] = len(rec)
    if case["async"] and case.get("legal") and case.get("legal2") and "args2" in case:
        n_rec = len(rec)
        try:
            fails += concurrent_calls(ctx, case, wrapped, args, kwargs)
        except RecursionError:
            raise
        except Exception:  # noqa
            pass
        del rec[n_rec:]      # (what the body recorded during those extra calls is not this call's)
    obs["delivered"] = None
    if rec and rec[0][0] == "raw":
        obs["delivered"] = {"args": [wire.canon_value(ctx, a) for a in rec[0][1]],
                            "kwargs": [[k, wire.canon_value(ctx, v)] for k, v in rec[0][2].items()]}
    # ---- model-free oracle
    if "raised" in obs["out"]:
        if obs["out"]["raised"] == "TypeError" and not case["legal"]:
            return None, obs, fails, None      # an illegal call: Python's own TypeError
        # (whether or not the body had run: the only exceptions a decorated call may end in are InvalidArgsError,
        # InvalidReturnError and the body's own)
        fails.append(f"the decorated call raised {obs['out']['raised']} {obs['out'].get('msg', '')}"
                     + (" after the body had run (while checking the return value)" if rec else ""))
        return None, obs, fails, None
    # which validator checks which supplied value (Python's binding rule, written out)
    pos = [p for p in case["params"] if p["kind"] in ("posOnly", "posOrKw")]
    var = [p for p in case["params"] if p["kind"] == "varPos"]
    vk = [p for p in case["params"] if p["kind"] == "varKw"]
    bykw = {p["name"]: p for p in case["params"] if p["kind"] in ("posOrKw", "kwOnly")}
    supplied: List[Tuple[str, Optional[str], Any, Any]] = []   # (report key, validator name, value, slot)
    for i, a in enumerate(args):
        if i < len(pos):
            supplied.append((pos[i]["name"], pos[i]["name"], a, ("arg", i)))
        elif var:
            supplied.append((var[0]["name"], var[0]["name"], a, ("arg", i)))
        else:
            supplied.append(("", None, a, ("arg", i)))
    for k, vv in kwargs.items():
        if k in bykw:
            supplied.append((k, k, vv, ("kw", k)))
        elif vk and k not in case["extra_ignored"]:
            supplied.append((k, vk[0]["name"], vv, ("kw", k)))
        else:
            supplied.append((k, None, vv, ("kw", k)))
    failing: List[str] = []
    expected: Dict[Any, Any] = {}
    raised_in_validator = False
    for key, vname, val, slot in supplied:
        v = vals.get(vname) if vname else None
        if v is None:
            expected[slot] = ("same", val)
            continue
        try:
            res = v(val) if not case["async"] else build.drive(v.validate_async(val))
        except BaseException:  # noqa
            raised_in_validator = True
            break
        if res.is_valid:
            expected[slot] = ("payload", res.val)
        else:
            failing.append(key)
    if raised_in_validator:
        return None, obs, fails, None
    failing_set = sorted(set(failing))
    if failing_set:
        if obs["ran"]:
            fails.append(f"the body ran although arguments {failing_set} are rejected by their validators")
        if "invalidArgs" not in obs["out"]:
            fails.append(f"arguments {failing_set} are invalid but the call produced {list(obs['out'])[0]}")
        elif obs["out"]["invalidArgs"] != failing_set:
            fails.append(f"InvalidArgsError is keyed by {obs['out']['invalidArgs']}; the failing parameters are {failing_set}")
    else:
        if "invalidArgs" in obs["out"]:
            fails.append(f"every checked argument is accepted by its validator, yet InvalidArgsError({obs['out']['invalidArgs']}) was raised")
        elif obs["ran"] != 1:
            fails.append(f"the body ran {obs['ran']} times")
        else:
            # delivery: payload for checked arguments, the caller's own object otherwise
            r0 = rec[0]
            if r0[0] == "raw":
                got_args, got_kw = r0[1], r0[2]
                for slot, (how, val) in expected.items():
                    g = got_args[slot[1]] if slot[0] == "arg" and slot[1] < len(got_args) else got_kw.get(slot[1], "<absent>")
                    if how == "same":
                        if g is not val:
                            fails.append(f"[C09] unchecked argument {slot} was not passed through untouched")
                    else:
                        same = wire.normalise(wire.strip_ids_public(wire.canon_value(ctx, g))) == \
                            wire.normalise(wire.strip_ids_public(wire.canon_value(ctx, val)))
                        if not same:
                            fails.append(f"[C09] checked argument {slot}: the body did not receive the validator's payload")
            # the return value
            rvv = vals.get("->")
            if "exc" in case["body"]:
                if obs["out"] != {"bodyRaised": case["body"]["exc"]}:
                    fails.append("the body's own exception did not reach the caller unchanged")
            else:
                bret = ctx.memo.get(("bodyret",))
                ok = True
                if rvv is not None:
                    try:
                        rr = rvv(bret) if not case["async"] else build.drive(rvv.validate_async(bret))
                        ok = rr.is_valid
                    except BaseException:  # noqa
                        return None, obs, fails, None
                if ok:
                    if "returned" not in obs["out"] or obs.get("_ret") is not bret:
                        fails.append("[C08,C09] the caller did not receive the function's own return value")
                elif "invalidReturn" not in obs["out"]:
                    fails.append("the return value is rejected by its validator but no InvalidReturnError was raised")
    # ---- model request (generic-bodied functions only: the model sees what is passed to the function)
    req = None
    if not case["real_def"]:
        def mv(p: dict) -> Optional[dict]:
            return eff_validator(p)
        sig = {"params": [{"name": p["name"], "kind": p["kind"], "v": mv(p)} for p in case["params"]],
               "ret": (eff_validator(case["ret"]) if (case["ret"]["annotated"] or case["ret"]["overridden"]) else None),
               "ignoredKw": case["extra_ignored"]}
        call = {"args": [wire.canon_value(ctx, a) for a in args],
                "kwargs": [[k, wire.canon_value(ctx, v)] for k, v in kwargs.items()]}
        bd = case["body"] if "exc" in case["body"] else {"ret": wire.canon_value(ctx, ctx.memo.get(("bodyret",), None)) if ("bodyret",) in ctx.memo else case["body"]["ret"]}
        req = {"op": "wrap", "sig": sig, "mode": "async" if case["async"] else "sync", "body": bd, "call": call,
               "oracle": oracle.tables(sig, call, bd)}
    obs.pop("_ret", None)
    return None, obs, fails, req


def shard(seed: int, shard_i: int, n: int, opts: dict) -> dict:
    rng = random.Random(f"{seed}-{shard_i}-c08{opts.get('salt', '')}")
    g = VGen(rng)
    stats: collections.Counter = collections.Counter()
    failures: List[dict] = []
    reqs, owners = [], []
    distinct, nontrivial = set(), set()
    samples: List[dict] = []
    evaluated = 0
    from . import registry
    corpus = registry.load_corpus(opts["pid"]) if shard_i == 0 else []
    for i in range(n + len(corpus)):
        c = corpus[i] if i < len(corpus) else gen_case(g, opts)
        wire.set_classes(c["classes"])
        unb, obs, fails, req = run_case(c)
        if unb:
            stats["unbuildable"] += 1
            continue
        evaluated += 1
        h = engine.case_hash({k: c[k] for k in ("params", "ret", "args", "kwargs", "body", "async")})
        distinct.add(h)
        oc = list(obs["out"])[0]
        stats[("async:" if c["async"] else "sync:") + oc] += 1
        stats["real_def" if c["real_def"] else "generic_body"] += 1
        if any(eff_validator(p) for p in c["params"]) and (c["args"] or c["kwargs"]):
            nontrivial.add(h)
        for f in fails:
            # the return-value clause is stated by both properties
            if "[C08,C09]" not in f and (opts["pid"] == "C09") != ("[C09]" in f):
                continue
            failures.append({"property": opts["pid"], "case": c, "xd": {"args": c["args"], "kwargs": c["kwargs"], "body_returns": c["body"].get("ret")}, "what": f, "real": obs})
        if req is not None:
            reqs.append(req)
            owners.append((c, obs))
        if len(samples) < 1 and oc == "invalidArgs":
            samples.append({"params": [(p["name"], p["kind"], bool(eff_validator(p))) for p in c["params"]],
                            "n_args": len(c["args"]), "kwargs": [k for k, _ in c["kwargs"]], "out": obs["out"]})
    answers = driver.run_batch(reqs) if reqs else []
    disagreements = []
    for (c, obs), a in zip(owners, answers):
        if "error" in a:
            disagreements.append({"case": c, "fields": ["model-error"], "model": a, "xd": None})
            continue
        mo = dict(a["out"])
        if "invalidArgs" in mo:
            mo["invalidArgs"] = sorted(mo["invalidArgs"])
        ro = {k: v for k, v in obs["out"].items() if k != "msg"}
        if "raised" in ro or "raised" in mo or "error" in mo:
            continue
        fields = []
        if wire.normalise(ro) != wire.normalise(mo):
            fields.append("out")
        if wire.normalise(obs["delivered"]) != wire.normalise(a["delivered"]):
            fields.append("delivered")
        if fields:
            if opts["pid"] == "C08":
                fields = [f for f in fields if f == "out"]
            if fields:
                disagreements.append({"case": c, "fields": fields, "real": {"out": ro, "delivered": obs["delivered"]},
                                      "model": a, "xd": None})
    return {"evaluated": evaluated, "stats": dict(stats), "failures": failures[:30], "n_failures": len(failures),
            "disagreements": disagreements[:10], "n_disagreements": len(disagreements),
            "distinct": list(distinct), "nontrivial": list(nontrivial), "samples": samples}


def run(pid: str, tier: str, seed: int, spec: dict, scale: float = 1.0, salt: str = "") -> dict:
    n = int((5000 if tier == "quick" else 100000) * scale)
    res = engine.run_sharded("harness.sig_stream", "shard", seed, n, {"salt": salt, "pid": pid})
    crashes = [r["crash"] for r in res if "crash" in r]
    if crashes:
        raise RuntimeError("shard crashed:\n" + crashes[0])
    out: Dict[str, Any] = {"evaluations": 0, "failures": [], "disagreements": [], "n_failures": 0, "n_disagreements": 0,
                           "samples": []}
    stats: collections.Counter = collections.Counter()
    distinct, nontrivial = set(), set()
    for r in res:
        out["evaluations"] += r["evaluated"]
        out["failures"] += r["failures"]
        out["disagreements"] += r["disagreements"]
        out["n_failures"] += r["n_failures"]
        out["n_disagreements"] += r["n_disagreements"]
        out["samples"] += r["samples"]
        stats.update(r["stats"])
        distinct.update(r["distinct"])
        nontrivial.update(r["nontrivial"])
    out["distinct_nontrivial"] = len(nontrivial)
    out["distribution"] = dict(stats)
    return out


def replay_case(case: dict) -> List[str]:
    wire.set_classes(case.get("classes", []))
    unb, obs, fails, _ = run_case(case)
    return fails if not unb else ["case cannot be built: " + unb]
