"""C12: every Invalid produced by the core validator streams is rendered by the real
`to_serializable_errs` (default and with a marker `next_level`) and by the InvalidReturnError message
renderer; shapes / line counts are compared with the model and checked by a model-free oracle."""
from __future__ import annotations

import collections
import json
import random
from typing import Any, Dict, List, Optional

from . import build, driver, engine, props, streams, wire
from .genv import VGen

STRUCT_KEYS = {"__container__", "__unknown_keys__", "member_errors", "variants", "key", "value"}
MARK = "\x00MARK\x00"
ARG_NAMES = ["a", "value", "kw_" + "x" * 30, "q" + "_long_keyword" * 5, "n" * 120]


def shape(x: Any) -> Any:
    if isinstance(x, str):
        return "M" if x == MARK else "s"
    if isinstance(x, bool) or x is None or isinstance(x, float):
        return {"other": repr(x)}
    if isinstance(x, int):
        return x
    if isinstance(x, list):
        return [shape(y) for y in x]
    if isinstance(x, dict):
        return {"d": [[k if k in STRUCT_KEYS else "k", shape(v)] for k, v in x.items()]}
    return {"nonjson": type(x).__name__}


def count_nodes(inv: Any) -> Dict[str, int]:
    from koda_validate import (ContainerErr, IndexErrs, KeyErrs, MapErr, PredicateErrs, SetErrs, UnionErrs)
    c: Dict[str, int] = collections.Counter()
    e = inv.err_type
    c[type(e).__name__] += 1
    kids: List[Any] = []
    if isinstance(e, IndexErrs):
        kids = list(e.indexes.values())
    elif isinstance(e, KeyErrs):
        kids = list(e.keys.values())
    elif isinstance(e, MapErr):
        for kv in e.keys.values():
            kids += [x for x in (kv.key, kv.val) if x is not None]
    elif isinstance(e, SetErrs):
        kids = list(e.item_errs)
    elif isinstance(e, UnionErrs):
        kids = list(e.variants)
    elif isinstance(e, ContainerErr):
        kids = [e.child]
    for k in kids:
        for a, b in count_nodes(k).items():
            c[a] += b
    return c


def direct_children(inv: Any) -> int:
    from koda_validate import (ContainerErr, IndexErrs, KeyErrs, MapErr, SetErrs, UnionErrs)
    e = inv.err_type
    if isinstance(e, IndexErrs):
        return len(e.indexes)
    if isinstance(e, KeyErrs):
        return len(e.keys)
    if isinstance(e, MapErr):
        return sum((kv.key is not None) + (kv.val is not None) for kv in e.keys.values())
    if isinstance(e, SetErrs):
        return len(e.item_errs)
    if isinstance(e, UnionErrs):
        return len(e.variants)
    if isinstance(e, ContainerErr):
        return 1
    return 0


def str_keys_collide(inv: Any) -> bool:
    """the one-entry-per-key claim assumes keys with distinct str() forms"""
    from koda_validate import KeyErrs, MapErr
    for node in walk_real(inv):
        e = node.err_type
        if isinstance(e, (KeyErrs, MapErr)):
            ks = [str(k) for k in e.keys.keys()]
            if len(set(ks)) != len(ks):
                return True
    return False


def walk_real(inv: Any) -> Any:
    from koda_validate import (ContainerErr, IndexErrs, KeyErrs, MapErr, SetErrs, UnionErrs)
    yield inv
    e = inv.err_type
    kids: List[Any] = []
    if isinstance(e, IndexErrs):
        kids = list(e.indexes.values())
    elif isinstance(e, KeyErrs):
        kids = list(e.keys.values())
    elif isinstance(e, MapErr):
        for kv in e.keys.values():
            kids += [x for x in (kv.key, kv.val) if x is not None]
    elif isinstance(e, SetErrs):
        kids = list(e.item_errs)
    elif isinstance(e, UnionErrs):
        kids = list(e.variants)
    elif isinstance(e, ContainerErr):
        kids = [e.child]
    for k in kids:
        yield from walk_real(k)


def user_pids(v: Any, env: List[dict]) -> List[int]:
    out = []
    for d in props_walk([v, env]):
        if d.get("k") == "user" and "pid" in d:
            out.append(d["pid"])
    return out


def record_vids(v: Any, env: List[dict]) -> List[int]:
    return [d["vid"] for d in props_walk([v, env]) if d.get("k") == "record" and d.get("kind") in ("dataclass", "namedtuple")]


def props_walk(d: Any) -> Any:
    if isinstance(d, dict):
        yield d
        for x in d.values():
            yield from props_walk(x)
    elif isinstance(d, list):
        for x in d:
            yield from props_walk(x)


def builtin_only(inv_desc: dict, ups: List[int]) -> bool:
    for node in engine.walk_inv(inv_desc):
        if node["err"]["e"] == "custom":
            return False
        if node["err"]["e"] == "preds" and any(p in ups for p in node["err"]["pids"]):
            return False
    return True


def deepen(g: VGen, rng: random.Random, c: dict) -> dict:
    """the same case under 3..12 more levels of containers: error trees (and the renderers' indentation / recursion)
    far deeper than the generators' own nesting"""
    v, x = c["v"], c["x"]
    K = {"t": "str", "s": [107]}
    for _ in range(rng.randint(3, 12)):
        kind = rng.choice(["list", "list", "utuple", "map", "dictAny", "maybe", "union1"])
        if kind == "list":
            v = {"k": "list", "vid": g.vid(), "item": v, "preds": None, "apreds": None, "coerce": None}
            x = {"t": "list", "oid": g.oid(), "xs": [x]}
        elif kind == "utuple":
            v = {"k": "utuple", "vid": g.vid(), "item": v, "preds": None, "apreds": None, "coerce": None}
            x = {"t": "tuple", "oid": g.oid(), "xs": [x]}
        elif kind == "map":
            v = {"k": "map", "vid": g.vid(), "key": {"k": "always", "vid": g.vid()}, "value": v, "preds": None,
                 "apreds": None, "coerce": None}
            x = {"t": "dict", "oid": g.oid(), "kvs": [[K, x]]}
        elif kind == "dictAny":
            v = {"k": "record", "vid": g.vid(), "kind": "dictAny", "keys": [K], "vals": [v], "reqs": [True],
                 "knrVids": [g.vid()], "oc": None, "aoc": None, "failUnknown": False}
            x = {"t": "dict", "oid": g.oid(), "kvs": [[K, x]]}
        elif kind == "maybe":
            v = {"k": "maybe", "vid": g.vid(), "inner": v}
            x = {"t": "just", "oid": g.oid(), "v": x}
        else:
            v = {"k": "union", "vid": g.vid(), "vs": [v]}
    return dict(c, v=v, x=x, deepened=True)


def shard(seed: int, shard_i: int, n: int, opts: dict) -> dict:
    from koda_validate import Invalid
    from koda_validate.serialization import to_serializable_errs
    from koda_validate.signature import InvalidArgsError, InvalidReturnError
    rng = random.Random(f"{seed}-{shard_i}-c12{opts.get('salt', '')}")
    g = VGen(rng, async_rate=0.05, user_rate=0.1, special_rate=0.03)
    arng = random.Random(f"{seed}-{shard_i}-c12names")
    reqs: List[dict] = []
    obs: List[dict] = []
    failures: List[dict] = []
    kinds: collections.Counter = collections.Counter()
    evaluated = 0
    nested = 0
    deepened = 0
    max_depth = 0
    skipped = collections.Counter()
    distinct = set()
    samples: List[dict] = []
    gens = [streams.gen_core_case, streams.gen_core_case, streams.gen_collection_case, streams.gen_record_case,
            streams.gen_wrapper_case, streams.gen_scalar_case]
    from . import registry
    corpus = registry.load_corpus("C12") if shard_i == 0 else []
    for i in range(n + len(corpus)):
        c = corpus[i] if i < len(corpus) else rng.choice(gens)(g, opts)
        if i >= len(corpus) and rng.random() < 0.15:
            c = deepen(g, rng, c)
            deepened += 1
        wire.set_classes(c["classes"])
        ctx = wire.Ctx()
        try:
            rv = build.build(ctx, c["v"], c["env"])
            rx = wire.mk_value(ctx, c["x"])
        except Exception:  # noqa
            skipped["unbuildable"] += 1
            continue
        mode = "async" if props.has_async(c["v"], c["env"]) else rng.choice(["sync", "async"])
        try:
            r = rv(rx) if mode == "sync" else build.drive(rv.validate_async(rx))
        except BaseException:  # noqa
            skipped["raised"] += 1
            continue
        if type(r) is not Invalid:
            skipped["valid"] += 1
            continue
        invd = wire.canon_inv(ctx, r)
        if '"unknown"' in json.dumps(invd):
            skipped["undescribable"] += 1
            continue
        if str_keys_collide(r):
            # finding D27: entries are labelled str(key), so failing keys with one str() form share an entry; reported
            # (as the known finding) rather than left out; the model comparison below assumes distinct labels
            skipped["str-key-collision"] += 1
            failures.append({"property": "C12", "case": c, "xd": invd, "real": None,
                             "what": "failing keys with the same str() form are rendered as one entry, not one entry per "
                                     "failing key [explained-by:D27]"})
            continue
        evaluated += 1
        ups = user_pids(c["v"], c["env"])
        rvs = record_vids(c["v"], c["env"])
        for kk, vv in count_nodes(r).items():
            kinds[kk] += vv
        depth = engine.inv_depth(invd)
        if depth > 1:
            nested += 1
        max_depth = max(max_depth, depth)
        distinct.add(engine.case_hash(invd))
        o: Dict[str, Any] = {"case": c, "inv": invd, "mode": mode}
        # default rendering
        try:
            s = to_serializable_errs(r)
            try:
                json.dumps(s, allow_nan=False)
            except (TypeError, ValueError) as e:
                failures.append({"property": "C12", "case": c, "xd": invd, "what": f"rendering is not JSON-serialisable: {e}", "real": None})
            o["default"] = {"ok": shape(s)}
        except BaseException as e:  # noqa
            o["default"] = {"raised": wire.exn_name(e)}
        # with a marker callback: applied to every direct child and to nothing else
        calls: List[Any] = []

        def nl(child: Any, calls: List[Any] = calls) -> str:
            calls.append(child)
            return MARK
        try:
            s2 = to_serializable_errs(r, nl)
            o["marker"] = {"ok": shape(s2)}
            if len(calls) != direct_children(r):
                failures.append({"property": "C12", "case": c, "xd": invd,
                                 "what": f"next_level was applied to {len(calls)} nodes; the error has {direct_children(r)} direct children",
                                 "real": None})
        except BaseException as e:  # noqa
            o["marker"] = {"raised": wire.exn_name(e)}
        # the message renderer
        try:
            msg = str(InvalidReturnError(r))
            o["lines"] = len(msg.split("\n")) - 3     # header: "\nInvalid Return Value\n----\n"
        except BaseException as e:  # noqa
            o["lines"] = None
            failures.append({"property": "C12", "case": c, "xd": invd, "what": f"the message renderer raised {type(e).__name__}", "real": None})
        # the same error as the failure of one or two named arguments: the name is the caller's (a **kwargs keyword can be
        # any length), the body under each name is the return-error body
        names = arng.sample(ARG_NAMES, arng.choice([1, 1, 2]))
        try:
            amsg = str(InvalidArgsError({nm: r for nm in names}))
            alines = amsg.split("\n")
            if o["lines"] is not None and len(alines) - 3 != len(names) * (1 + o["lines"]):
                failures.append({"property": "C12", "case": c, "xd": invd,
                                 "what": f"InvalidArgsError for {len(names)} arguments renders {len(alines) - 3} lines; each argument is one header line and the {o['lines']}-line error body",
                                 "real": None})
            elif any(not any(ln.startswith(nm + "=") for ln in alines) for nm in names):
                failures.append({"property": "C12", "case": c, "xd": invd,
                                 "what": "InvalidArgsError message lacks the `name=value` header line of a failing argument", "real": None})
        except BaseException as e:  # noqa
            failures.append({"property": "C12", "case": c, "xd": invd,
                             "what": f"the InvalidArgsError message renderer raised {type(e).__name__} for argument names of length {[len(nm) for nm in names]}",
                             "real": None})
        if builtin_only(invd, ups):
            for which in ("default", "marker"):
                if "raised" in o[which]:
                    failures.append({"property": "C12", "case": c, "xd": invd,
                                     "what": f"to_serializable_errs ({which} next_level) raised {o[which]['raised']} on an error built from built-in validators and predicates",
                                     "real": None})
        obs.append(o)
        reqs.append({"op": "render", "inv": invd, "userPids": ups, "recordVids": rvs, "next": "default"})
        reqs.append({"op": "render", "inv": invd, "userPids": ups, "recordVids": rvs, "next": "marker"})
        if len(samples) < 1 and depth > 1:
            samples.append({"error": invd["err"], "rendering_shape": o["default"]})
    answers = driver.run_batch(reqs) if reqs else []
    disagreements = []
    for i, o in enumerate(obs):
        a_def, a_mark = answers[2 * i], answers[2 * i + 1]
        for which, a in (("default", a_def), ("marker", a_mark)):
            if "error" in a:
                disagreements.append({"case": o["case"], "fields": ["model-error"], "model": a, "xd": o["inv"]})
                continue
            real = o[which]
            model = {k: a[k] for k in ("ok", "raised") if k in a}
            if real != model:
                disagreements.append({"case": o["case"], "fields": [which], "real": real, "model": model, "xd": o["inv"]})
        if o["lines"] is not None and "lines" in a_def and o["lines"] != a_def["lines"]:
            disagreements.append({"case": o["case"], "fields": ["message-lines"], "real": o["lines"], "model": a_def["lines"], "xd": o["inv"]})
    return {"evaluated": evaluated, "nested": nested, "kinds": dict(kinds), "skipped": dict(skipped),
            "failures": failures[:30], "n_failures": len(failures), "disagreements": disagreements[:10],
            "n_disagreements": len(disagreements), "distinct": list(distinct), "samples": samples,
            "deepened": deepened, "max_depth": max_depth}


def run(pid: str, tier: str, seed: int, spec: dict, scale: float = 1.0, salt: str = "") -> dict:
    n = int((12000 if tier == "quick" else 300000) * scale)
    res = engine.run_sharded("harness.render_stream", "shard", seed, n, {"salt": salt})
    crashes = [r["crash"] for r in res if "crash" in r]
    if crashes:
        raise RuntimeError("shard crashed:\n" + crashes[0])
    out: Dict[str, Any] = {"evaluations": 0, "failures": [], "disagreements": [], "n_failures": 0, "n_disagreements": 0,
                           "samples": []}
    kinds: collections.Counter = collections.Counter()
    skipped: collections.Counter = collections.Counter()
    distinct = set()
    nested = 0
    deepened = 0
    max_depth = 0
    for r in res:
        deepened += r["deepened"]
        max_depth = max(max_depth, r["max_depth"])
        out["evaluations"] += r["evaluated"]
        out["failures"] += r["failures"]
        out["disagreements"] += r["disagreements"]
        out["n_failures"] += r["n_failures"]
        out["n_disagreements"] += r["n_disagreements"]
        out["samples"] += r["samples"]
        kinds.update(r["kinds"])
        skipped.update(r["skipped"])
        distinct.update(r["distinct"])
        nested += r["nested"]
    out["distinct_nontrivial"] = len(distinct)
    out["distribution"] = {"error_nodes_by_kind": dict(kinds), "nested_errors": nested, "skipped": dict(skipped),
                           "cases_deepened_by_3_to_12_container_levels": deepened, "deepest_error_tree": max_depth}
    return out
