"""Tables regenerated from /repo's source on every run (translated with `ast`, re-checked by Lean)."""
from __future__ import annotations


def regenerate() -> None:
    return None
