"""Tables regenerated from /repo's source on every run (translated with `ast`, re-checked by Lean)."""
from __future__ import annotations

import os

VERIF = os.path.dirname(os.path.dirname(os.path.abspath(__file__)))


def regenerate() -> dict:
    from . import effects, pysrc
    rows = effects.write_lean(os.path.join(VERIF, "lean", "KodaModel", "Generated", "Effects.lean"))
    changed = pysrc.regenerate()
    return {"effects_rows": len(rows), "not_confined": [r for r in rows if r["target"] != "fresh-local"],
            "predsrc_changed": changed}
