"""Case execution: real code vs Lean model, sharded over processes."""
from __future__ import annotations

import hashlib
import json
import multiprocessing as mp
import os
import random
import sys
import time
import traceback
from typing import Any, Callable, Dict, Iterable, List, Optional, Tuple

from . import build, driver, oracle, wire
from .genv import VGen

MODES = ("sync", "async")


def case_hash(case: dict) -> str:
    return hashlib.sha1(json.dumps(case, sort_keys=True).encode()).hexdigest()[:16]


def run_real_case(case: dict) -> Optional[dict]:
    """build the real validator and input; run both entry points.

    returns {"xd": re-described input, "sync": obs, "async": obs} or None when the case cannot be built
    """
    out: Dict[str, Any] = {}
    xd = None
    for mode in MODES:
        ctx = wire.Ctx()
        try:
            rv = build.build(ctx, case["v"], case.get("env", []))
            rx = wire.mk_value(ctx, case["x"])
        except Exception as e:  # noqa
            return {"unbuildable": f"{type(e).__name__}: {e}"}
        if xd is None:
            xd = wire.canon_value(ctx, rx)
        before = wire.canon_value(ctx, rx)
        obs = build.run_real(ctx, rv, rx, mode)
        obs["mutated"] = wire.canon_value(ctx, rx) != before
        obs["xd"] = before     # as built for this run (set iteration order can differ between builds)
        out[mode] = obs
    out["xd"] = xd
    return out


def model_requests(case: dict, real: dict) -> List[dict]:
    tabs = oracle.tables(case["v"], case.get("env", []), real["xd"])
    return [{"op": "run", "mode": m, "env": case.get("env", []), "v": case["v"], "x": real[m]["xd"],
             "oracle": tabs, "fuel": case.get("fuel", 400)} for m in MODES]


FIELDS_ALL = ("out", "trace")


def diff_obs(real: dict, model: dict, fields: Iterable[str] = FIELDS_ALL, unordered_trace: bool = False) -> List[str]:
    """fields on which the implementation's observation and the model's answer differ"""
    d = []
    if "error" in model:
        return ["model-error:" + str(model.get("error")) + ":" + str(model.get("detail", ""))[:200]]
    nr, nm = wire.normalise(real), wire.normalise(model)
    for f in fields:
        if nr.get(f) != nm.get(f):
            if f == "trace" and unordered_trace and sorted(map(json.dumps, nr.get(f) or [])) == sorted(map(json.dumps, nm.get(f) or [])):
                continue
            if unordered_trace:
                # a set built by a coercer (`setFromList`) is iterated in CPython's hash order, which the model
                # cannot know: (a) when an exception cuts the walk short, how many callbacks ran before it is
                # order-dependent; (b) which of two equal-but-distinguishable members (Decimal('-0') / Decimal('0'),
                # True / 1) survives the merge into the payload set is order-dependent
                if f == "trace" and "raised" in (real.get("out") or {}) and nr.get("out") == nm.get("out"):
                    continue
                if f == "out" and canon_numbers(nr.get(f)) == canon_numbers(nm.get(f)):
                    continue
            d.append(f)
    return d


def canon_numbers(x: Any) -> Any:
    """numeric values up to Python equality (bool / int / float / Decimal with the same value are one number)"""
    from fractions import Fraction
    if isinstance(x, dict):
        t = x.get("t")
        try:
            if t == "bool":
                return {"t": "num", "v": str(Fraction(int(x["b"])))}
            if t == "int":
                return {"t": "num", "v": str(Fraction(x["i"]))}
            if t == "float" and x.get("k") == "fin":
                return {"t": "num", "v": str(Fraction(x["m"]) * (Fraction(2) ** x["e"]) * (-1 if x["neg"] else 1))}
            if t == "decimal" and x.get("k") == "fin":
                return {"t": "num", "v": str(Fraction(x["c"]) * (Fraction(10) ** x["e"]) * (-1 if x["neg"] else 1))}
        except Exception:  # noqa
            pass
        return {k: canon_numbers(v) for k, v in x.items()}
    if isinstance(x, list):
        return [canon_numbers(v) for v in x]
    return x


def outcome_class(obs: dict) -> str:
    o = obs.get("out", {})
    if "valid" in o:
        return "valid"
    if "invalid" in o:
        return "invalid:" + o["invalid"]["err"]["e"]
    if "raised" in o:
        return "raised:" + o["raised"]
    return "other"


def inv_depth(inv: dict) -> int:
    return 1 + max([inv_depth(c) for c in inv["children"]] or [0])


def walk_inv(inv: dict) -> Iterable[dict]:
    yield inv
    for c in inv["children"]:
        yield from walk_inv(c)


# ---------------------------------------------------------------------------------------------
# generic sharded execution


def _worker(args: Tuple[str, str, int, int, int, dict]) -> dict:
    mod_name, fn_name, seed, shard, n, opts = args
    try:
        mod = __import__(mod_name, fromlist=[fn_name])
        fn = getattr(mod, fn_name)
        return fn(seed, shard, n, opts)
    except Exception:  # noqa
        return {"crash": traceback.format_exc()}


def run_sharded(mod_name: str, fn_name: str, seed: int, total: int, opts: dict, shards: int = 16) -> List[dict]:
    per = max(1, (total + shards - 1) // shards)
    jobs = [(mod_name, fn_name, seed, s, per, opts) for s in range(shards)]
    if shards == 1:
        return [_worker(jobs[0])]
    with mp.get_context("fork").Pool(min(shards, os.cpu_count() or 1)) as pool:
        return pool.map(_worker, jobs)
