"""Validator descriptions -> real koda_validate objects (with instrumented callbacks)."""
from __future__ import annotations

import json
import re
from typing import Any, Callable, Dict, List, Optional

from koda import Just, Maybe, nothing

import koda_validate as kv
from koda_validate import (AlwaysValid, BoolValidator, BytesValidator, Choices, DataclassValidator,
                           DatetimeValidator, DateValidator, DecimalValidator, DictValidatorAny,
                           EmailPredicate, EndsWith, EqualsValidator, EqualTo, ExactItemCount,
                           ExactLength, FloatValidator, IntValidator, IsDictValidator, KeyNotRequired,
                           Lazy, ListValidator, LowerCase, MapValidator, Max, MaxItems, MaxKeys,
                           MaxLength, Min, MinItems, MinKeys, MinLength, MultipleOf,
                           NamedTupleValidator, NoneValidator, NotBlank, NTupleValidator,
                           OptionalValidator, Predicate, PredicateAsync, Processor, RecordValidator,
                           RegexPredicate, SetValidator, StartsWith, StringValidator,
                           TypedDictValidator, UniformTupleValidator, UnionValidator,
                           UniqueItems, UpperCase, UUIDValidator, Validator)
from koda_validate.coerce import Coercer
from koda_validate.maybe import MaybeValidator
from koda_validate.generic import Strip
from koda_validate.is_type import TypeValidator
from koda_validate.dataclasses import dataclass_no_coerce
from koda_validate.namedtuple import namedtuple_no_coerce

from . import wire
from .wire import Ctx, CustomErr, mk_value, type_of_ty

ALWAYS_VID = 1
ISDICT_VID = 2
DEFAULT_NONE_VID = 3
NOTBLANK_PID = 1


class Yield:
    """an awaitable that suspends the coroutine exactly once: a bare `yield`, which both a hand-driven scheduler
    (`coro.send(None)`) and an asyncio task (this is what `asyncio.sleep(0)` does) accept"""

    def __await__(self):  # type: ignore
        yield


EXTRA_YIELDS = [True]     # the C13 stream, which predicts the number of await points with the model, switches it off


def extra_yields(val: Any) -> int:
    """suspensions that depend on the value in hand (0..2): siblings validated side by side do not all take the
    same number of steps, so a result assembled in completion order differs from one assembled in declaration order"""
    if not EXTRA_YIELDS[0]:
        return 0
    try:
        if type(val) is int:
            return abs(val) % 3
        if type(val) in (str, bytes, list, tuple, dict, set):
            return len(val) % 3
    except Exception:  # noqa
        pass
    return 0


# ---------------------------------------------------------------------------------------------
# the closed callback language, implemented exactly as Driver/Wire.lean does


def _unsub(x: Any) -> Any:
    return x


def bool_fn(ctx: Ctx, d: dict) -> Callable[[Any], bool]:
    f = d["f"]
    if f == "const":
        b = d["b"]
        return lambda x: b
    if f == "intGt":
        k = d["k"]
        return lambda x: isinstance(x, int) and not isinstance(x, bool) and x > k
    if f == "lenLe":
        k = d["k"]
        return lambda x: isinstance(x, (str, bytes, list, tuple, set, dict)) and not _is_nt(x) and len(x) <= k
    if f == "eqv":
        v = mk_value(ctx, d["v"])
        return lambda x: bool(x == v)
    if f == "tyIs":
        t = type_of_ty(ctx, d["ty"])
        return lambda x: type(x) is t
    if f == "not":
        g = bool_fn(ctx, d["g"])
        return lambda x: not g(x)
    raise ValueError(f)


def _is_nt(x: Any) -> bool:
    return isinstance(x, tuple) and hasattr(x, "_fields")


def val_fn(ctx: Ctx, d: dict) -> Callable[[Any], Any]:
    f = d["f"]
    if f == "id":
        return lambda x: x
    if f == "appendStr":
        s = "".join(map(chr, d["s"]))
        return lambda x: x + s if type(x) is str else x
    if f == "addInt":
        k = d["k"]
        return lambda x: x + k if type(x) is int else x
    if f == "constv":
        return lambda x: mk_value(ctx, d["v"])
    raise ValueError(f)


def opt_fn(ctx: Ctx, d: dict) -> Callable[[Any], Maybe[Any]]:
    f = d["f"]
    if f == "rejectAll":
        return lambda x: nothing
    if f == "acceptAll":
        return lambda x: Just(x)
    if f == "ifTy":
        t = type_of_ty(ctx, d["ty"])
        return lambda x: Just(x) if type(x) is t else nothing
    if f == "intFromDigits":
        def g(x: Any) -> Maybe[Any]:
            if type(x) is int:
                return Just(x)
            if type(x) is str and x != "" and all("0" <= c <= "9" for c in x):
                return Just(int(x))
            return nothing
        return g
    if f == "listFromTuple":
        return lambda x: Just(x) if type(x) is list else (Just(list(x)) if type(x) is tuple else nothing)
    if f == "setFromList":
        def g2(x: Any) -> Maybe[Any]:
            if type(x) is set:
                return Just(x)
            if type(x) is list:
                try:
                    return Just(set(x))
                except TypeError:
                    return nothing
            return nothing
        return g2
    if f == "tupleFromAny":
        return lambda x: Just(x) if type(x) is tuple else (Just(tuple(x)) if type(x) in (list, set) else nothing)
    if f == "tupleTail":
        return lambda x: (Just(x) if type(x) is tuple else Just(tuple(x[1:])) if type(x) is list
                          else Just((x,)) if type(x) is int else nothing)
    if f == "listTail":
        return lambda x: (Just(x) if type(x) is list else Just(list(x[1:])) if type(x) is tuple
                          else Just([x]) if type(x) is int else nothing)
    if f == "dictFromPairs":
        def g3(x: Any) -> Maybe[Any]:
            if type(x) is dict:
                return Just(x)
            if type(x) is list:
                if all(type(p) is tuple and len(p) == 2 for p in x):
                    try:
                        out: Dict[Any, Any] = {}
                        for k, v in x:
                            out[k] = v
                        return Just(out)
                    except TypeError:
                        return nothing
            return nothing
        return g3
    if f == "constv":
        return lambda x: Just(mk_value(ctx, d["v"]))
    raise ValueError(f)


def oc_fn(ctx: Ctx, d: dict) -> Callable[[Any], Optional[CustomErr]]:
    f = d["f"]
    if f == "pass":
        return lambda x: None
    if f == "fail":
        e = d["e"]
        return lambda x: CustomErr(e)
    if f == "failIf":
        e = d["e"]
        g = bool_fn(ctx, d["g"])
        return lambda x: CustomErr(e) if g(x) else None
    raise ValueError(f)


def into_fn(ctx: Ctx, d: dict) -> Callable[..., Any]:
    key = ("into", json.dumps(d, sort_keys=True))
    if key in ctx.memo:
        return ctx.memo[key]
    r = _into_fn(ctx, d)
    ctx.memo[key] = r
    return r


def _into_fn(ctx: Ctx, d: dict) -> Callable[..., Any]:
    f = d["f"]
    iid = d["id"]
    if f == "dictOf":
        keys = [mk_value(ctx, k) for k in d["keys"]]

        def mk(*args: Any) -> Any:
            ctx.log.append(["into", iid])
            out: Dict[Any, Any] = {}
            for k, a in zip(keys, args):
                out[k] = a
            return out
        return mk
    if f == "tupleOf":
        def mk2(*args: Any) -> Any:
            ctx.log.append(["into", iid])
            return tuple(args)
        return mk2
    if f == "listOf":
        def mk3(*args: Any) -> Any:
            ctx.log.append(["into", iid])
            return list(args)
        return mk3
    raise ValueError(f)


class UserPred(Predicate[Any]):
    def __init__(self, ctx: Ctx, pid: int, fn: Callable[[Any], bool]) -> None:
        self.ctx, self.pid, self.fn = ctx, pid, fn

    def __call__(self, val: Any) -> bool:
        self.ctx.log.append(["pred", self.pid])
        return self.fn(val)

    def __repr__(self) -> str:
        return f"UserPred({self.pid})"


class UserPredAsync(PredicateAsync[Any]):
    def __init__(self, ctx: Ctx, pid: int, fn: Callable[[Any], bool], yields: int = 0) -> None:
        self.ctx, self.pid, self.fn, self.yields = ctx, pid, fn, yields

    async def validate_async(self, val: Any) -> bool:
        self.ctx.log.append(["apred", self.pid])
        for _ in range(self.yields + (extra_yields(val) if self.yields else 0)):
            await Yield()
        return self.fn(val)

    def __repr__(self) -> str:
        return f"UserPredAsync({self.pid})"


class UserProc(Processor[Any]):
    def __init__(self, ctx: Ctx, pid: int, fn: Callable[[Any], Any]) -> None:
        self.ctx, self.pid, self.fn = ctx, pid, fn

    def __call__(self, val: Any) -> Any:
        self.ctx.log.append(["proc", self.pid])
        return self.fn(val)


class UserValidator(Validator[Any]):
    """a validator written against the public base class: forwards each entry point to `inner`'s"""

    def __init__(self, ctx: Ctx, vid: int, inner: Validator[Any]) -> None:
        self.ctx, self.vid, self.inner = ctx, vid, inner

    def __call__(self, val: Any) -> Any:
        self.ctx.log.append(["uv", self.vid, "sync"])
        return self.inner(val)

    async def validate_async(self, val: Any) -> Any:
        self.ctx.log.append(["uv", self.vid, "async"])
        for _ in range(extra_yields(val)):
            await Yield()
        return await self.inner.validate_async(val)

    def __eq__(self, other: Any) -> bool:
        return type(other) is UserValidator and self.inner == other.inner

    def __repr__(self) -> str:
        return f"UserValidator({self.inner!r})"


def mk_pat(d: dict) -> "re.Pattern[str]":
    out = "^" if d["start"] else ""
    for el in d["els"]:
        k = el["k"]
        if k == "lit":
            out += re.escape(chr(el["c"]))
        elif k == "cls":
            out += "[" + "".join(re.escape(chr(c)) for c in el["cs"]) + "]"
        elif k == "any":
            out += "."
        elif k == "star":
            out += "[" + "".join(re.escape(chr(c)) for c in el["cs"]) + "]*"
    if d["end"]:
        out += "$"
    return re.compile(out)


def mk_pred(ctx: Ctx, d: dict) -> Any:
    k = d["k"]
    if k == "Min":
        p: Any = Min(mk_value(ctx, d["v"]), d["excl"])
    elif k == "Max":
        p = Max(mk_value(ctx, d["v"]), d["excl"])
    elif k == "MultipleOf":
        p = MultipleOf(mk_value(ctx, d["v"]))
    elif k == "EqualTo":
        p = EqualTo(mk_value(ctx, d["v"]))
    elif k == "Choices":
        p = Choices(set(mk_value(ctx, v) for v in d["vs"]))
    elif k == "MinLength":
        p = MinLength(d["n"])
    elif k == "MaxLength":
        p = MaxLength(d["n"])
    elif k == "ExactLength":
        p = ExactLength(d["n"])
    elif k == "StartsWith":
        p = StartsWith(mk_value(ctx, d["v"]))
    elif k == "EndsWith":
        p = EndsWith(mk_value(ctx, d["v"]))
    elif k == "NotBlank":
        p = NotBlank()
    elif k == "Regex":
        p = RegexPredicate(mk_pat(d["pat"]))
    elif k == "Email":
        p = EmailPredicate()
    elif k == "MinItems":
        p = MinItems(d["n"])
    elif k == "MaxItems":
        p = MaxItems(d["n"])
    elif k == "ExactItemCount":
        p = ExactItemCount(d["n"])
    elif k == "UniqueItems":
        p = UniqueItems()
    elif k == "MinKeys":
        p = MinKeys(d["n"])
    elif k == "MaxKeys":
        p = MaxKeys(d["n"])
    elif k == "user":
        key = ("pred", d["pid"], json.dumps(d["fn"], sort_keys=True))
        if key in ctx.memo:
            return ctx.memo[key]
        p = UserPred(ctx, d["pid"], bool_fn(ctx, d["fn"]))
        ctx.memo[key] = p
    else:
        raise ValueError(k)
    ctx.pid[id(p)] = d["pid"]
    ctx.keep.append(p)
    return p


def mk_apred(ctx: Ctx, d: dict) -> Any:
    assert d["k"] == "user"
    key = ("apred", d["pid"], json.dumps(d["fn"], sort_keys=True))
    if key in ctx.memo:
        return ctx.memo[key]
    p = UserPredAsync(ctx, d["pid"], bool_fn(ctx, d["fn"]), d.get("yields", 0))
    ctx.memo[key] = p
    ctx.pid[id(p)] = d["pid"]
    ctx.keep.append(p)
    return p


def mk_proc(ctx: Ctx, d: dict) -> Any:
    k = d["k"]
    if k == "strip":
        p: Any = Strip()
    elif k == "upper":
        p = UpperCase()
    elif k == "lower":
        p = LowerCase()
    elif k == "user":
        key = ("proc", d["pid"], json.dumps(d["fn"], sort_keys=True))
        if key in ctx.memo:
            return ctx.memo[key]
        p = UserProc(ctx, d["pid"], val_fn(ctx, d["fn"]))
        ctx.memo[key] = p
    else:
        raise ValueError(k)
    ctx.pid[id(p)] = d["pid"]
    ctx.keep.append(p)
    return p


_UNSET = object()


def mk_coerce(ctx: Ctx, d: Any, cls: Any = None, kind: str = "") -> Any:
    """returns _UNSET for "default" (leave the constructor's default), None for no coercer"""
    if d is None:
        return None
    if d == "default":
        return _UNSET
    if d == "classOnly":
        ckey = ("classOnly", kind, id(cls))     # one coercer object per class: coercers compare by function identity
        if ckey not in ctx.memo:
            ctx.memo[ckey] = dataclass_no_coerce(cls) if kind == "dataclass" else namedtuple_no_coerce(cls)
        return ctx.memo[ckey]
    key = ("coerce", d["cid"], json.dumps(d, sort_keys=True))
    if key in ctx.memo:
        return ctx.memo[key]
    fn = opt_fn(ctx, d["fn"])
    cid = d["cid"]

    def f(x: Any) -> Maybe[Any]:
        ctx.log.append(["coerce", cid])
        return fn(x)
    co = Coercer(f, set(type_of_ty(ctx, t) for t in d["compat"]))
    ctx.memo[key] = co
    return co


def mk_oc(ctx: Ctx, d: Any, is_async: bool) -> Any:
    if d is None:
        return None
    key = ("oc", is_async, json.dumps(d, sort_keys=True))
    if key in ctx.memo:
        return ctx.memo[key]
    fn = oc_fn(ctx, d["fn"])
    oid = d["id"]
    if is_async:
        yields = d.get("yields", 0)

        async def af(x: Any) -> Any:
            ctx.log.append(["aoc", oid])
            for _ in range(yields):
                await Yield()
            return fn(x)
        ctx.memo[key] = af
        return af

    def f(x: Any) -> Any:
        ctx.log.append(["oc", oid])
        return fn(x)
    ctx.memo[key] = f
    return f


SCALARS = {"str": StringValidator, "int": IntValidator, "float": FloatValidator, "bool": BoolValidator,
           "bytes": BytesValidator, "decimal": DecimalValidator, "uuid": UUIDValidator,
           "date": DateValidator, "datetime": DatetimeValidator}
DEFAULT_COERCED = {"decimal", "uuid", "date", "datetime"}


class Built:
    """real validator + the env for Lazy references"""

    def __init__(self) -> None:
        self.env: List[Any] = []


def mk_validator(ctx: Ctx, d: dict, env: List[Any]) -> Any:
    k = d["k"]
    vid = d["vid"]
    v: Any
    if k == "scalar":
        ty = d["ty"]
        preds = [mk_pred(ctx, p) for p in d.get("preds") or []]
        apreds = [mk_apred(ctx, p) for p in d.get("apreds") or []] if d.get("apreds") is not None else None
        pre = [mk_proc(ctx, p) for p in d.get("pre") or []] if d.get("pre") is not None else None
        co = mk_coerce(ctx, d.get("coerce"))
        kw: Dict[str, Any] = {"predicates_async": apreds, "preprocessors": pre}
        if isinstance(ty, str) and ty in SCALARS and not d.get("asType"):
            if co is not _UNSET:
                kw["coerce"] = co
            elif ty not in DEFAULT_COERCED:
                raise ValueError("no default coercer for " + ty)
            v = SCALARS[ty](*preds, **kw)
        else:
            if co is _UNSET:
                raise ValueError("TypeValidator has no default coercer")
            v = TypeValidator(type_of_ty(ctx, ty), predicates=preds, coerce=co, **kw)
    elif k == "equals":
        pre = [mk_proc(ctx, p) for p in d.get("pre") or []] if d.get("pre") is not None else None
        v = EqualsValidator(mk_value(ctx, d["m"]), preprocessors=pre)
        ctx.pid[id(v.predicate)] = d["pid"]
    elif k == "none":
        co = mk_coerce(ctx, d.get("coerce"))
        v = NoneValidator(coerce=co)
    elif k == "always":
        v = AlwaysValid()
    elif k == "isDict":
        v = IsDictValidator()
    elif k in ("list", "set", "utuple"):
        item = mk_validator(ctx, d["item"], env)
        preds = [mk_pred(ctx, p) for p in d["preds"]] if d.get("preds") is not None else None
        apreds = [mk_apred(ctx, p) for p in d["apreds"]] if d.get("apreds") is not None else None
        kw = {"predicates": preds, "predicates_async": apreds}
        co = mk_coerce(ctx, d.get("coerce"))
        if k == "utuple":
            if co is not _UNSET:
                kw["coerce"] = co
            v = UniformTupleValidator(item, **kw)
        else:
            if co is _UNSET:
                raise ValueError("no default coercer")
            kw["coerce"] = co
            v = (ListValidator if k == "list" else SetValidator)(item, **kw)
    elif k == "ntuple":
        fields = tuple(mk_validator(ctx, f, env) for f in d["fields"])
        kw = {"fields": fields, "validate_object": mk_oc(ctx, d.get("oc"), False)}
        co = mk_coerce(ctx, d.get("coerce"))
        if co is not _UNSET:
            kw["coerce"] = co
        if d.get("untyped"):
            v = NTupleValidator.untyped(**kw)
        elif 1 <= len(fields) <= 8 and d.get("vid", 0) % 3 != 0:
            v = NTupleValidator.typed(**kw)
        else:
            v = NTupleValidator(**kw)
        ctx.pid[id(v._len_predicate)] = d["lenPid"]
    elif k == "map":
        preds = [mk_pred(ctx, p) for p in d["preds"]] if d.get("preds") is not None else None
        apreds = [mk_apred(ctx, p) for p in d["apreds"]] if d.get("apreds") is not None else None
        v = MapValidator(key=mk_validator(ctx, d["key"], env), value=mk_validator(ctx, d["value"], env),
                         predicates=preds, predicates_async=apreds, coerce=mk_coerce(ctx, d.get("coerce")))
    elif k == "record":
        v = mk_record(ctx, d, env)
    elif k == "union":
        vs = [mk_validator(ctx, x, env) for x in d["vs"]]
        if d.get("untyped"):
            v = UnionValidator.untyped(*vs)
        elif 1 <= len(vs) <= 8 and d.get("vid", 0) % 3 != 0:
            v = UnionValidator.typed(*vs)      # the public, arity-overloaded constructor
        else:
            v = UnionValidator(*vs)
    elif k == "optional":
        inner = mk_validator(ctx, d["inner"], env)
        if d["noneV"]["vid"] == DEFAULT_NONE_VID:
            v = OptionalValidator(inner)
            ctx.vid[id(v.none_validator)] = DEFAULT_NONE_VID
        else:
            v = OptionalValidator(inner, none_validator=mk_validator(ctx, d["noneV"], env))
    elif k == "maybe":
        v = MaybeValidator(mk_validator(ctx, d["inner"], env))
    elif k == "lazy":
        ref = d["ref"]
        tkey = ("thunk", id(env), ref)     # one thunk object per (environment, reference): Lazy compares thunks by identity
        if tkey not in ctx.memo:
            ctx.memo[tkey] = lambda: env[ref]
        v = Lazy(ctx.memo[tkey], recurrent=d.get("recurrent", True))
    elif k == "knr":
        v = _knr_class(vid)(mk_validator(ctx, d["inner"], env))
    elif k == "user":
        v = UserValidator(ctx, vid, mk_validator(ctx, d["inner"], env))
    else:
        raise ValueError(k)
    ctx.vid[id(v)] = vid
    ctx.keep.append(v)
    return v


class KeyNotRequiredSub(KeyNotRequired):  # type: ignore
    """a user's subclass of the marker: still marks the key as optional"""


def _knr_class(vid: int) -> Any:
    # decided by the description alone, so that rebuilding a description yields the same classes
    return KeyNotRequiredSub if vid % 4 == 0 else KeyNotRequired


def mk_record(ctx: Ctx, d: dict, env: List[Any]) -> Any:
    kind = d["kind"]
    keys = [mk_value(ctx, k) for k in d["keys"]]
    vals = [mk_validator(ctx, x, env) for x in d["vals"]]
    oc = mk_oc(ctx, d.get("oc"), False)
    aoc = mk_oc(ctx, d.get("aoc"), True)
    fu = d.get("failUnknown", False)
    if kind == "record":
        return RecordValidator(into=into_fn(ctx, d["into"]), keys=tuple(zip(keys, vals)),  # type: ignore
                               validate_object=oc, validate_object_async=aoc, fail_on_unknown_keys=fu)
    if kind == "dictAny":
        # requiredness is expressed with KeyNotRequired markers at construction
        schema = {}
        for k, v, req, knr_vid in zip(keys, vals, d["reqs"], d.get("knrVids") or [0] * len(keys)):
            if req:
                schema[k] = v
            else:
                m = _knr_class(knr_vid)(v)
                ctx.vid[id(m)] = knr_vid
                ctx.keep.append(m)
                schema[k] = m
        return DictValidatorAny(schema, validate_object=oc, validate_object_async=aoc, fail_on_unknown_keys=fu)
    names = d["fieldNames"]
    overrides = dict(zip(names, vals))
    if kind == "typeddict":
        import typing
        req_names = [n for n, r in zip(names, d["reqs"]) if r]
        opt_names = [n for n, r in zip(names, d["reqs"]) if not r]
        style = d.get("tdStyle", 0)
        cid = d["cls"]["id"]
        if cid in ctx.cls_by_id:
            td = ctx.cls_by_id[cid]
        else:
            if style == 0:
                # total=True with NotRequired markers
                ann = {n: (Any if r else typing.NotRequired[Any]) for n, r in zip(names, d["reqs"])}
                td = typing.TypedDict(f"TD{cid}", ann)  # type: ignore
            else:
                ann = {n: (typing.Required[Any] if r else Any) for n, r in zip(names, d["reqs"])}
                td = typing.TypedDict(f"TD{cid}", ann, total=False)  # type: ignore
            ctx.cls_by_id[cid] = td
            ctx.cls_desc[id(td)] = wire.cls_key(d["cls"])
            ctx.keep.append(td)
        co = mk_coerce(ctx, d.get("coerce"))
        return TypedDictValidator(td, overrides=overrides, validate_object=oc, validate_object_async=aoc,
                                  fail_on_unknown_keys=fu, coerce=co)
    cls = wire.get_class(ctx, d["cls"])
    co = mk_coerce(ctx, d.get("coerce"), cls, kind)
    C = DataclassValidator if kind == "dataclass" else NamedTupleValidator
    return C(cls, overrides=overrides, validate_object=oc, validate_object_async=aoc,
             fail_on_unknown_keys=fu, coerce=co)


def build(ctx: Ctx, vdesc: dict, envdesc: List[dict]) -> Any:
    ekey = ("env", json.dumps(envdesc, sort_keys=True))
    if ekey in ctx.memo:
        env = ctx.memo[ekey]      # the same environment of named validators for every build in this context
    else:
        env = [None for _ in envdesc]
        ctx.memo[ekey] = env
        ctx.keep.append(env)
        for i, e in enumerate(envdesc):
            env[i] = mk_validator(ctx, e, env)
    return mk_validator(ctx, vdesc, env)


# ---------------------------------------------------------------------------------------------
# running the real code


_LOOP: List[Any] = []


def drive(coro: Any) -> Any:
    """run a coroutine to completion on this process's asyncio event loop (our own awaitables are bare yields, which
    a task accepts; code under test that uses asyncio primitives - gather, locks, futures - finds a running loop)"""
    import asyncio
    if not _LOOP or _LOOP[0].is_closed():
        _LOOP[:] = [asyncio.new_event_loop()]
    return _LOOP[0].run_until_complete(coro)


def run_real(ctx: Ctx, v: Any, x: Any, mode: str) -> dict:
    ctx.log = []
    try:
        if mode == "sync":
            r = v(x)
        else:
            r = drive(v.validate_async(x))
        out = wire.canon_result(ctx, r)
    except RecursionError:
        raise
    except BaseException as e:  # noqa
        out = {"raised": wire.exn_name(e)}
    return {"out": out, "trace": list(ctx.log)}
