"""Known findings: committed in /verif/known_findings.json, read-only at run time.

An `open` entry suppresses exactly the failures its matcher recognises (a specific validator shape +
input class + failure mode); a `fixed` entry suppresses nothing.
"""
from __future__ import annotations

import json
import os
from typing import Any, Callable, Dict, List, Optional

from . import oracle as oracle_mod

VERIF = os.path.dirname(os.path.dirname(os.path.abspath(__file__)))


def load() -> List[dict]:
    with open(os.path.join(VERIF, "known_findings.json")) as f:
        return json.load(f)["findings"]


def walk(d: Any) -> Any:
    if isinstance(d, dict):
        yield d
        for v in d.values():
            yield from walk(v)
    elif isinstance(d, list):
        for v in d:
            yield from walk(v)


def is_special_decimal(d: dict) -> bool:
    if d.get("t") != "decimal":
        return False
    if d.get("k") in ("nan", "snan", "inf"):
        return True
    # huge / tiny exponents relative to the 28-digit context
    adj = d["e"] + len(str(d["c"])) - 1
    return abs(adj) >= 27 or len(str(d["c"])) > 28


def vdesc(case: dict) -> Any:
    return [case.get("v"), case.get("ann"), case.get("env", []), case.get("sig"), case.get("params"), case.get("ret"),
            case.get("body")]


def decimals_reaching(case: dict, xd: dict) -> List[dict]:
    """Decimal values that can reach a Decimal predicate: in the input, parsed from its strings, or
    predicate parameters"""
    out = [d for d in walk(xd) if d.get("t") == "decimal"]
    tabs = oracle_mod.tables(xd, vdesc(case))
    out += [e[1] for e in tabs["decimal"] if e[1] is not None]
    out += [d for d in walk(vdesc(case)) if d.get("t") == "decimal"]
    # ints are coerced exactly: a huge int becomes a Decimal with more digits than the context holds
    out += [{"t": "decimal", "k": "fin", "neg": d["i"] < 0, "c": abs(d["i"]), "e": 0} for d in walk(xd)
            if d.get("t") == "int" and abs(d["i"]) >= 10 ** 27]
    return out


def m_special_decimal(case: dict, xd: dict, what: str) -> bool:
    """D2: a NaN / sNaN / Infinity / extreme-exponent Decimal meets Min/Max/MultipleOf/EqualTo/Choices"""
    if "InvalidOperation" not in what and "TypeError" not in what:
        return False
    has_pred = False
    for d in walk(vdesc(case)):
        if d.get("k") in ("Min", "Max", "MultipleOf", "EqualTo", "Choices") and \
                any(x.get("t") == "decimal" for x in walk(d)):
            has_pred = True
        if d.get("k") == "equals" and d["m"].get("t") == "decimal":
            has_pred = True
        if d.get("k") == "set" or d.get("k") == "map":
            # a signalling NaN as set member / dict key: hash raises
            has_pred = has_pred or any(x.get("k") == "snan" for x in decimals_reaching(case, xd))
    return has_pred and any(is_special_decimal(x) for x in decimals_reaching(case, xd))


def m_snan_in_unique_items(case: dict, xd: dict, what: str) -> bool:
    """D30: UniqueItems somewhere in the validator, a signalling Decimal NaN somewhere in the input (it only raises when
    it sits inside one of two or more unhashable items that are compared), outcome InvalidOperation"""
    if "InvalidOperation" not in what:
        return False
    if not any(d.get("k") == "UniqueItems" for d in walk(vdesc(case))):
        return False
    return any(d.get("t") == "decimal" and d.get("k") == "snan" for d in walk(xd))


def m_naive_aware(case: dict, xd: dict, what: str) -> bool:
    """D3: Min/Max bound and value differ in timezone-awareness"""
    if "TypeError" not in what:
        return False
    bounds = []
    for d in walk(vdesc(case)):
        if d.get("k") in ("Min", "Max") and d["v"].get("t") == "datetime":
            bounds.append(d["v"]["off"] is None)
    if not bounds:
        return False
    vals = [d["off"] is None for d in walk(xd) if d.get("t") == "datetime"]
    tabs = oracle_mod.tables(xd)
    vals += [e[1]["off"] is None for e in tabs["datetime"] if e[1] is not None]
    vals += [d["off"] is None for d in walk(vdesc(case)) if d.get("t") == "datetime"]
    return any(b != v for b in bounds for v in vals)


def m_container_pred_on_payload(case: dict, xd: dict, what: str) -> bool:
    """D22: a container-level predicate that counts or compares elements (UniqueItems; size predicates
    of sets and maps, whose members/keys merge) holds on the coerced input but not on the payload the
    children produce"""
    import re
    mm = re.search(r"container predicate (\w+):([\w,]*) fails on the payload", what)
    if not mm:
        return False
    kind, preds = mm.group(1), mm.group(2).split(",")
    for p in preds:
        if p == "UniqueItems":
            continue
        if kind in ("set", "map") and p in ("MinItems", "ExactItemCount", "MinKeys", "user"):
            continue
        return False
    return True


def m_float_nan_inf(case: dict, xd: Any, what: str) -> bool:
    """D11: a float nan / inf parameter of Min / Max / EqualTo / Choices ends up in the schema"""
    if "strict JSON" not in what and "valid Draft 2020-12 schema" not in what:
        return False
    for d in walk(vdesc(case)):
        if d.get("k") in ("Min", "Max", "EqualTo", "Choices", "equals"):
            if any(x.get("t") == "float" and x.get("k") in ("nan", "inf") for x in walk(d)):
                return True
    return False


def m_zero_factor(case: dict, xd: Any, what: str) -> bool:
    """D28: MultipleOf with a zero factor: `x % 0` raises ZeroDivisionError (int, float) / InvalidOperation (Decimal)"""
    if "ZeroDivisionError" not in what and "InvalidOperation" not in what:
        return False
    for d in walk(vdesc(case)):
        if d.get("k") == "MultipleOf":
            v = d.get("v", {})
            if (v.get("t") == "int" and v.get("i") == 0) or (v.get("t") == "float" and v.get("k") == "fin" and v.get("m") == 0) \
                    or (v.get("t") == "decimal" and v.get("k") == "fin" and v.get("c") == 0):
                return True
    return False


def m_negative_count(case: dict, xd: Any, what: str) -> bool:
    """D26: a negative parameter of a length / item-count / key-count predicate is emitted as it is; the
    metaschema requires a non-negative integer there"""
    if "valid Draft 2020-12 schema" not in what or "is less than the minimum of 0" not in what:
        return False
    for d in walk(vdesc(case)):
        if d.get("k") in ("MinLength", "MaxLength", "ExactLength", "MinItems", "MaxItems", "ExactItemCount", "MinKeys",
                          "MaxKeys") and isinstance(d.get("n"), int) and d["n"] < 0:
            return True
    return False


def m_label_collision(case: dict, xd: Any, what: str) -> bool:
    """D27 as C10 sees it: two declared keys of a record-shaped validator have the same str() form, so `required`
    lists one label twice (and `properties` keeps one of the two schemas)"""
    if "valid Draft 2020-12 schema" not in what or "non-unique" not in what:
        return False
    from . import wire as _w
    for d in walk(vdesc(case)):
        if d.get("k") == "record":
            try:
                ctx = _w.Ctx()
                labels = [str(_w.mk_value(ctx, k)) for k in d.get("keys", [])]
            except Exception:  # noqa
                continue
            if len(set(labels)) != len(labels):
                return True
    return False


def explained_by(tag: str) -> Callable[[dict, Any, str], bool]:
    """C11: the stream has established that the verdicts agree once the schema is read with the repair(s)
    named in the tag (D13: NotBlank pattern = "has a non-whitespace character"; D14: oneOf as anyOf; D15: user
    patterns anchored at the start) -- and with nothing less"""
    def m(case: dict, xd: Any, what: str) -> bool:
        import re
        mm = re.search(r"\[explained-by:([D0-9+]+)\]", what)
        return bool(mm) and tag in mm.group(1).split("+")
    return m


MATCHERS: Dict[str, Callable[[dict, dict, str], bool]] = {
    "explained_by_D13": explained_by("D13"),
    "explained_by_D14": explained_by("D14"),
    "explained_by_D15": explained_by("D15"),
    "explained_by_D25": explained_by("D25"),
    "explained_by_D27": explained_by("D27"),
    "float_nan_inf_in_schema": m_float_nan_inf,
    "negative_count_in_schema": m_negative_count,
    "zero_factor": m_zero_factor,
    "label_collision_in_schema": m_label_collision,
    "container_pred_on_payload": m_container_pred_on_payload,
    "special_decimal": m_special_decimal,
    "snan_in_unique_items": m_snan_in_unique_items,
    "naive_aware": m_naive_aware,
}


def classify(findings: List[dict], pid: str, failure: dict) -> Optional[dict]:
    """the open finding that lists this failure, if any"""
    for f in findings:
        if f["status"] != "open" or pid not in f["properties"]:
            continue
        m = MATCHERS.get(f["matcher"])
        if m is None:
            continue
        try:
            if m(failure["case"], failure["xd"], failure["what"]):
                return f
        except Exception:  # noqa
            continue
    return None
