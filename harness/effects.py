"""AST translator: heap writes performed on validation paths of /repo/koda_validate.

For every function (constructors excluded) of the modules on a validation path, list the heap writes it
can perform — attribute / subscript stores, `del`, `global` / `nonlocal`, mutating method calls — with
the classification of the written object:
  fresh-local  a local name bound in that function only to fresh allocations
  parameter    a parameter (or an alias of one), incl. self / cls
  unknown      anything else (globals, attributes of other objects, call results)
"""
from __future__ import annotations

import ast
import os
from typing import Dict, List, Optional, Set, Tuple

REPO = os.path.join(os.environ.get("KODA_REPO", "/repo"), "koda_validate")
# modules on a validation / derivation path (JSON-schema generation and error rendering are pure
# functions of their argument checked by C10 / C12 and are not validation)
MODULES = ["_internal.py", "base.py", "boolean.py", "bytes.py", "coerce.py", "dataclasses.py", "decimal.py",
           "dictionary.py", "float.py", "generic.py", "integer.py", "is_type.py", "list.py", "maybe.py",
           "namedtuple.py", "none.py", "set.py", "signature.py", "string.py", "time.py", "tuple.py", "typeddict.py",
           "typehints.py", "union.py", "uuid.py", "valid.py", "errors.py"]
MUTATORS = {"append", "extend", "add", "update", "pop", "setdefault", "clear", "sort", "insert", "remove", "discard",
            "popitem", "reverse", "__setitem__", "__delitem__", "__setattr__"}
CONSTRUCTORS = {"__init__", "__new__", "__post_init__", "__init_subclass__"}
FRESH_CALLS = {"list", "dict", "set", "tuple", "frozenset"}


def is_fresh(e: ast.AST) -> bool:
    if isinstance(e, (ast.List, ast.Dict, ast.Set, ast.ListComp, ast.DictComp, ast.SetComp)):
        return True
    if isinstance(e, ast.Call):
        f = e.func
        if isinstance(f, ast.Name) and f.id in FRESH_CALLS:
            return True
        if isinstance(f, ast.Attribute) and f.attr == "copy":
            return True
    return False


def base_name(e: ast.AST) -> Optional[str]:
    while isinstance(e, (ast.Attribute, ast.Subscript)):
        e = e.value
    return e.id if isinstance(e, ast.Name) else None


class FnScan(ast.NodeVisitor):
    def __init__(self, fn: ast.AST, params: Set[str]) -> None:
        self.params = params
        self.bindings: Dict[str, List[bool]] = {}   # name -> [is_fresh for each binding]
        self.writes: List[Tuple[int, str, ast.AST]] = []
        self.fn = fn

    def bind(self, target: ast.AST, value: Optional[ast.AST]) -> None:
        if isinstance(target, ast.Name):
            self.bindings.setdefault(target.id, []).append(value is not None and is_fresh(value))
        elif isinstance(target, (ast.Tuple, ast.List)):
            for t in target.elts:
                self.bind(t, None)

    def visit_FunctionDef(self, node: ast.FunctionDef) -> None:
        if node is self.fn:
            self.generic_visit(node)
        # nested functions are scanned separately

    visit_AsyncFunctionDef = visit_FunctionDef  # type: ignore

    def visit_Lambda(self, node: ast.Lambda) -> None:
        pass

    def visit_Assign(self, node: ast.Assign) -> None:
        for t in node.targets:
            if isinstance(t, (ast.Attribute, ast.Subscript)):
                self.writes.append((node.lineno, "store", t))
            else:
                self.bind(t, node.value)
        self.generic_visit(node)

    def visit_AnnAssign(self, node: ast.AnnAssign) -> None:
        if isinstance(node.target, (ast.Attribute, ast.Subscript)):
            self.writes.append((node.lineno, "store", node.target))
        elif node.value is not None:
            self.bind(node.target, node.value)
        self.generic_visit(node)

    def visit_AugAssign(self, node: ast.AugAssign) -> None:
        if isinstance(node.target, (ast.Attribute, ast.Subscript)):
            self.writes.append((node.lineno, "augstore", node.target))
        else:
            self.bind(node.target, None)
        self.generic_visit(node)

    def visit_NamedExpr(self, node: ast.NamedExpr) -> None:
        self.bind(node.target, node.value)
        self.generic_visit(node)

    def visit_For(self, node: ast.For) -> None:
        self.bind(node.target, None)
        self.generic_visit(node)

    visit_AsyncFor = visit_For  # type: ignore

    def visit_With(self, node: ast.With) -> None:
        for it in node.items:
            if it.optional_vars is not None:
                self.bind(it.optional_vars, None)
        self.generic_visit(node)

    def visit_Delete(self, node: ast.Delete) -> None:
        for t in node.targets:
            if isinstance(t, (ast.Attribute, ast.Subscript)):
                self.writes.append((node.lineno, "del", t))
        self.generic_visit(node)

    def visit_Global(self, node: ast.Global) -> None:
        for n in node.names:
            self.writes.append((node.lineno, "global", ast.Name(id=n)))

    def visit_Nonlocal(self, node: ast.Nonlocal) -> None:
        for n in node.names:
            self.writes.append((node.lineno, "nonlocal", ast.Name(id=n)))

    def visit_Call(self, node: ast.Call) -> None:
        f = node.func
        if isinstance(f, ast.Attribute) and f.attr in MUTATORS:
            self.writes.append((node.lineno, "call:" + f.attr, f.value))
        if isinstance(f, ast.Name) and f.id in ("setattr", "delattr") and node.args:
            self.writes.append((node.lineno, "call:" + f.id, node.args[0]))
        self.generic_visit(node)

    def classify(self, kind: str, target: ast.AST) -> str:
        if kind in ("global", "nonlocal"):
            return "unknown"
        b = base_name(target)
        if b is None:
            return "unknown"
        if b in self.params:
            return "parameter"
        bs = self.bindings.get(b)
        if bs and all(bs):
            # written *through* the fresh local itself (x[i] = …, x.append(…)), not through an attribute of it
            return "fresh-local"
        return "unknown"


def scan() -> List[dict]:
    rows: List[dict] = []
    for mod in MODULES:
        path = os.path.join(REPO, mod)
        if not os.path.exists(path):
            continue
        tree = ast.parse(open(path).read())
        for cls_name, fn in iter_functions(tree):
            if fn.name in CONSTRUCTORS:
                continue
            a = fn.args
            params = {x.arg for x in a.posonlyargs + a.args + a.kwonlyargs}
            if a.vararg:
                params.add(a.vararg.arg)
            if a.kwarg:
                params.add(a.kwarg.arg)
            sc = FnScan(fn, params)
            sc.visit(fn)
            for lineno, kind, target in sc.writes:
                rows.append({"module": mod, "function": (cls_name + "." if cls_name else "") + fn.name,
                             "kind": kind, "object": ast.unparse(target), "target": sc.classify(kind, target),
                             "line": lineno})
    return rows


def iter_functions(tree: ast.AST, cls: str = ""):
    for node in ast.iter_child_nodes(tree):
        if isinstance(node, ast.ClassDef):
            yield from iter_functions(node, node.name)
        elif isinstance(node, (ast.FunctionDef, ast.AsyncFunctionDef)):
            yield cls, node
            yield from iter_functions(node, cls + ("." if cls else "") + node.name + ".<locals>")
        elif isinstance(node, (ast.If, ast.Try, ast.With, ast.For, ast.While)):
            yield from iter_functions(node, cls)


def lean_str(s: str) -> str:
    return '"' + s.replace("\\", "\\\\").replace('"', '\\"') + '"'


def write_lean(path: str) -> List[dict]:
    rows = scan()
    lines = ["/-  GENERATED by harness/effects.py from /repo/koda_validate on every run — do not edit.  -/",
             "namespace Koda.Generated", "",
             "structure Effect where", "  module : String", "  function : String", "  kind : String",
             "  object : String", "  target : String", "deriving DecidableEq, Repr", "",
             "def effects : List Effect := ["]
    body = []
    for r in rows:
        body.append("  ⟨%s, %s, %s, %s, %s⟩" % (lean_str(r["module"]), lean_str(r["function"]), lean_str(r["kind"]),
                                              lean_str(r["object"]), lean_str(r["target"])))
    lines.append(",\n".join(body))
    lines += ["]", "", "end Koda.Generated", ""]
    new = "\n".join(lines)
    old = open(path).read() if os.path.exists(path) else None
    if old != new:
        with open(path, "w") as f:
            f.write(new)
    return rows


if __name__ == "__main__":
    import json
    import sys
    rows = scan()
    for r in rows:
        if r["target"] != "fresh-local" or "-v" in sys.argv:
            print(json.dumps(r))
    print(len(rows), "writes;", sum(r["target"] != "fresh-local" for r in rows), "not confined")
